(* Pat/ParamLiveProofs.v — lemmas of property C12, third part:
   (a) the list-of-dicts form of PDict reads every row BY KEY: rows whose keys were inserted in different orders build
       the same object;
   (b) PRef.set_pattern observed through a timeline track (Pat/ParamLive.v): whichever operation installed the stream
       a track plays - a fresh schedule(), Track.update(), schedule(name=...) over the running track - and however many
       events the track has drawn since, re-targeting the reference under key k makes the VERY NEXT event carry the new
       target's next value under k. *)
From Isobar Require Import Base.Prelude Pat.Val Pat.Syntax Pat.Step Pat.StepProofs Pat.Param Pat.ParamProofs Pat.ParamMore Pat.ParamLive.
From Coq Require Import String Permutation.
Open Scope Z_scope.

(** * (a) key order of the rows *)
Lemma assoc_perm {A} k (r r' : list (string * A)) : Permutation r r' -> NoDup (map fst r) -> assoc k r' = assoc k r.
Proof.
  induction 1 as [|[k1 v1] l l' P IH|[k1 v1] [k2 v2] l|l l' l'' P1 IH1 P2 IH2]; intros N.
  - reflexivity.
  - simpl in *. inversion N; subst. destruct (String.eqb k k1); [reflexivity|apply IH; assumption].
  - simpl in *. inversion N as [|? ? N1 N2]; subst.
    destruct (String.eqb k k2) eqn:E2, (String.eqb k k1) eqn:E1; try reflexivity.
    apply String.eqb_eq in E1, E2. subst. exfalso. apply N1. left. reflexivity.
  - rewrite IH2, IH1; [reflexivity|assumption|]. eapply Permutation_NoDup; [apply Permutation_map; exact P1|exact N].
Qed.

(* rows' = the rows with the entries of each dict in some other insertion order *)
Definition reordered (rows rows' : list (list (string * val))) : Prop :=
  Forall2 (fun r r' => NoDup (map fst r) /\ Permutation r r') rows rows'.

Lemma column_key_order k rows rows' : reordered rows rows' -> column k rows' = column k rows.
Proof.
  induction 1 as [|r r' l l' [N P] _ IH]; [reflexivity|]. unfold column in *. cbn [map]. rewrite IH.
  unfold lookup. rewrite (assoc_perm k r r' P N). reflexivity.
Qed.

Theorem pdict_key_order ks row0 rows rows' : reordered rows rows' -> pdict_of ks (row0 :: rows') = pdict_of ks (row0 :: rows).
Proof.
  intros H. unfold pdict_of. do 2 f_equal. apply map_ext. intros k. unfold column. cbn [map].
  fold (column k rows'). fold (column k rows). rewrite (column_key_order k rows rows' H). reflexivity.
Qed.

Section Live.
  Variable binop : op -> val -> val -> outcome val.
  Variable LMAX : nat.
  Notation step := (step binop LMAX).
  Notation value := (value binop LMAX).
  Notation anext := (anext binop LMAX).
  Notation outputs := (outputs binop LMAX).
  Notation construct := (construct binop LMAX).
  Notation lexec := (lexec binop LMAX).
  Notation lrun_state := (lrun_state binop LMAX).

  (* PDict([row0, rows' ...]) where every later dict lists its keys in an order of its own: the object is the one built
     from the rows in the first row's order - and from the dict of one-shot sequences (C12_pdict_forms) *)
  Theorem pdict_rows_any_key_order f row0 rows rows' :
    (forall k r, In k (map fst row0) -> In r (row0 :: rows') -> has_key k r) ->
    reordered rows rows' ->
    construct (S f) CDict [AL (map row_arg (row0 :: rows'))] = Yield (pdict_of (map fst row0) (row0 :: rows)).
  Proof.
    intros H P. rewrite (pdict_from_rows binop LMAX f row0 rows' H). f_equal. apply pdict_key_order. exact P.
  Qed.

  (** * (b) references into the stream a track plays *)
  Lemma value_ref f r :
    value (S (S (S f))) (AP (PRef (AP r))) = (let '(o, r') := step f r in (o, AP (PRef (AP r')))).
  Proof.
    rewrite value_pattern. change (PRef (AP r)) with (set_pattern (PRef (AP r)) (AP r)).
    rewrite (ref_retarget binop LMAX f (AP r) r). destruct (step f r). reflexivity.
  Qed.

  Lemma kwvalues_app_yield g kv1 : forall vs1 kv1' k a w a' kv2 vs2 kv2',
    kwvalues_of g kv1 = (Yield vs1, kv1') -> g a = (Yield w, a') -> kwvalues_of g kv2 = (Yield vs2, kv2') ->
    kwvalues_of g (kv1 ++ (k, a) :: kv2) = (Yield (vs1 ++ (k, w) :: vs2), kv1' ++ (k, a') :: kv2').
  Proof.
    induction kv1 as [|[k1 a1] r IH]; intros vs1 kv1' k a w a' kv2 vs2 kv2' H1 Ha H2.
    - simpl in H1. inversion H1; subst. simpl. rewrite Ha, H2. reflexivity.
    - cbn [app kwvalues_of] in H1 |- *. destruct (g a1) as [o1 a1']. destruct o1; try discriminate.
      destruct (kwvalues_of g r) as [os r'] eqn:E. destruct os; try discriminate. simpl in H1. inversion H1; subst.
      rewrite (IH _ _ k a w a' kv2 vs2 kv2' eq_refl Ha H2). reflexivity.
  Qed.

  Lemma map_key_at k g kv1 a kv2 : ~ In k (map fst kv1) -> map_key k g (kv1 ++ (k, a) :: kv2) = kv1 ++ (k, g a) :: kv2.
  Proof.
    induction kv1 as [|[k1 a1] r IH]; intros N; cbn [app map_key].
    - rewrite String.eqb_refl. reflexivity.
    - destruct (String.eqb k k1) eqn:E.
      + apply String.eqb_eq in E. subst. exfalso. apply N. left. reflexivity.
      + rewrite IH; [reflexivity|]. intros X. apply N. right. exact X.
  Qed.

  Lemma nth_update_same {A} (x : A) : forall l n, (n < List.length l)%nat -> nth_error (update_nth n x l) n = Some x.
  Proof. induction l as [|y r IH]; intros [|n] H; simpl in *; try lia; [reflexivity|apply IH; lia]. Qed.
  Lemma nth_update_other {A} (x : A) : forall l n m, n <> m -> nth_error (update_nth n x l) m = nth_error l m.
  Proof. induction l as [|y r IH]; intros [|n] [|m] H; simpl; try reflexivity; [contradiction|apply IH; lia]. Qed.
  Lemma update_update {A} (x y : A) : forall l n, update_nth n y (update_nth n x l) = update_nth n y l.
  Proof. induction l as [|z r IH]; intros [|n]; simpl; try reflexivity. rewrite IH. reflexivity. Qed.
  Lemma update_length {A} (x : A) : forall l n, List.length (update_nth n x l) = List.length l.
  Proof. induction l as [|z r IH]; intros [|n]; simpl; try reflexivity. rewrite IH. reflexivity. Qed.

  Lemma lset_same t s tl tr : nth_error tl t = Some tr -> nth_error (lset t s tl) t = Some (mkLT (lt_name tr) s).
  Proof. intros H. unfold lset. rewrite H. apply nth_update_same. apply nth_error_Some. congruence. Qed.
  Lemma lset_other t s tl t' : t' <> t -> nth_error (lset t s tl) t' = nth_error tl t'.
  Proof. intros H. unfold lset. destruct (nth_error tl t); [apply nth_update_other; congruence|reflexivity]. Qed.
  Lemma lset_length t s tl : List.length (lset t s tl) = List.length tl.
  Proof. unfold lset. destruct (nth_error tl t); [apply update_length|reflexivity]. Qed.
  Lemma lset_lset t s1 s2 tl tr : nth_error tl t = Some tr -> lset t s2 (lset t s1 tl) = lset t s2 tl.
  Proof.
    intros H. unfold lset at 1. rewrite (lset_same t s1 tl tr H). cbn [lt_name]. unfold lset. rewrite H. apply update_update.
  Qed.

  Ltac unfold_step :=
    cbn [Step.step];
    fold (Step.value binop LMAX); fold (Step.anext binop LMAX); fold (Step.step binop LMAX);
    fold (Step.reset binop LMAX); fold (Step.areset_strict binop LMAX); fold (Step.aall binop LMAX).

  Lemma step_pdict F kv :
    step (S F) (PDict (AD kv)) = (let '(o, kv') := kwvalues_of (value F) kv in (omap VDict o, PDict (AD kv'))).
  Proof. unfold_step. reflexivity. Qed.

  (* THE statement: in ANY state of the timeline (reached by any history), for the track t whose stream has the reference
     under key k (the other keys yielding), `ref.set_pattern(r)` followed by the track's next event: the event carries r's
     next value w under k, every other key its own next value, and the reference now holds r advanced by that one step *)
  Theorem live_retarget_event f tl t nm kv1 k old kv2 r w r' vs1 kv1' vs2 kv2' :
    nth_error tl t = Some (mkLT nm (PDict (AD (kv1 ++ (k, AP (PRef old)) :: kv2)))) ->
    ~ In k (map fst kv1) ->
    kwvalues_of (value (S (S (S f)))) kv1 = (Yield vs1, kv1') ->
    step f r = (Yield w, r') ->
    kwvalues_of (value (S (S (S f)))) kv2 = (Yield vs2, kv2') ->
    lexec (S (S (S (S f)))) (fst (lexec (S (S (S (S f)))) tl (LRetarget t k [] r))) (LStep t) =
      (lset t (PDict (AD (kv1' ++ (k, AP (PRef (AP r'))) :: kv2'))) tl, Some (Yield (VDict (vs1 ++ (k, w) :: vs2)))).
  Proof.
    intros H N H1 Hr H2. unfold ParamLive.lexec at 2. rewrite H. cbn [fst lt_stream retarget_key].
    rewrite (map_key_at k _ kv1 (AP (PRef old)) kv2 N). cbn [retarget_in set_pattern].
    unfold ParamLive.lexec. rewrite (lset_same t _ tl _ H). cbn [lt_stream lt_name].
    rewrite step_pdict.
    assert (V : value (S (S (S f))) (AP (PRef (AP r))) = (Yield w, AP (PRef (AP r')))) by (rewrite value_ref, Hr; reflexivity).
    rewrite (kwvalues_app_yield _ kv1 vs1 kv1' k _ w _ kv2 vs2 kv2' H1 V H2). cbn [omap obind].
    rewrite (lset_lset t _ _ tl _ H). reflexivity.
  Qed.

  (* the same when the reference is parameter i of the pattern under the key (e.g. "note": PRef(...) + 12): the event's
     value under k is what that pattern gives for the scalar w *)
  Theorem live_param_retarget_event f tl t nm kv1 k p i old kv2 r w r' v p1 vs1 kv1' vs2 kv2' :
    nth_error tl t = Some (mkLT nm (PDict (AD (kv1 ++ (k, AP p) :: kv2)))) ->
    ~ In k (map fst kv1) ->
    vfield p i = Some (AP (PRef old)) ->
    kwvalues_of (value (S (S (S (S (S f)))))) kv1 = (Yield vs1, kv1') ->
    step f r = (Yield w, r') ->
    step (S (S (S (S f)))) (with_vfield p i (AV w)) = (Yield v, p1) ->
    kwvalues_of (value (S (S (S (S (S f)))))) kv2 = (Yield vs2, kv2') ->
    lexec (S (S (S (S (S (S f)))))) (fst (lexec (S (S (S (S (S (S f)))))) tl (LRetarget t k [i] r))) (LStep t) =
      (lset t (PDict (AD (kv1' ++ (k, AP (with_vfield p1 i (AP (PRef (AP r'))))) :: kv2'))) tl,
       Some (Yield (VDict (vs1 ++ (k, v) :: vs2)))).
  Proof.
    intros H N Hv H1 Hr Hs H2. unfold ParamLive.lexec at 2. rewrite H. cbn [fst lt_stream retarget_key].
    rewrite (map_key_at k _ kv1 (AP p) kv2 N). cbn [retarget_in]. rewrite Hv. cbn [retarget_in].
    unfold ParamLive.lexec. rewrite (lset_same t _ tl _ H). cbn [lt_stream lt_name].
    rewrite step_pdict.
    assert (V : value (S (S (S (S (S f))))) (AP (with_vfield p i (AP (set_pattern (PRef old) (AP r))))) =
                (Yield v, AP (with_vfield p1 i (AP (PRef (AP r')))))).
    { rewrite value_pattern. rewrite (param_retarget binop LMAX p i old r w r' f v p1 Hv Hr Hs). reflexivity. }
    rewrite (kwvalues_app_yield _ kv1 vs1 kv1' k _ v _ kv2 vs2 kv2' H1 V H2). cbn [omap obind].
    rewrite (lset_lset t _ _ tl _ H). reflexivity.
  Qed.

  (** ** the reference stays where it is while the track plays *)
  Definition ref_at (k : string) (s : pat) : Prop :=
    exists kv1 old kv2, s = PDict (AD (kv1 ++ (k, AP (PRef old)) :: kv2)) /\ ~ In k (map fst kv1).

  Lemma value_keeps_ref F old : exists old', snd (value F (AP (PRef old))) = AP (PRef old').
  Proof.
    destruct F as [|F]; [exists old; reflexivity|]. rewrite value_pattern.
    destruct F as [|F]; [exists old; reflexivity|].
    change (step (S F) (PRef old)) with (let '(o, pattern') := anext F old in (o, PRef pattern')).
    destruct (anext F old) as [o old']. exists old'. reflexivity.
  Qed.

  Lemma kwvalues_split g k a : forall kv1 kv2, exists kv1' a' kv2',
    snd (kwvalues_of g (kv1 ++ (k, a) :: kv2)) = kv1' ++ (k, a') :: kv2' /\ map fst kv1' = map fst kv1 /\ (a' = a \/ a' = snd (g a)).
  Proof.
    induction kv1 as [|[k1 a1] r IH]; intros kv2.
    - cbn [app kwvalues_of]. destruct (g a) as [o a'] eqn:E.
      destruct o; [destruct (kwvalues_of g kv2) as [os r']; exists [], a', r'|exists [], a', kv2..]; simpl; auto.
    - cbn [app kwvalues_of]. destruct (g a1) as [o1 a1'].
      destruct o1; [|exists ((k1, a1') :: r), a, kv2; simpl; auto..].
      destruct (IH kv2) as (kv1' & a' & kv2' & E & M & D).
      destruct (kwvalues_of g (r ++ (k, a) :: kv2)) as [os r']. simpl in E. subst r'.
      exists ((k1, a1') :: kv1'), a', kv2'. simpl. rewrite M. auto.
  Qed.

  Lemma ref_at_step F k s : ref_at k s -> ref_at k (snd (step F s)).
  Proof.
    intros (kv1 & old & kv2 & -> & N). destruct F as [|F]; [exists kv1, old, kv2; auto|].
    rewrite step_pdict.
    destruct (kwvalues_split (value F) k (AP (PRef old)) kv1 kv2) as (kv1' & a' & kv2' & E & M & D).
    destruct (kwvalues_of (value F) (kv1 ++ (k, AP (PRef old)) :: kv2)) as [o kv']. simpl in E. subst kv'. cbn [snd].
    destruct (value_keeps_ref F old) as [old' V].
    assert (X : exists o2, a' = AP (PRef o2)) by (destruct D as [D|D]; [exists old|exists old']; congruence).
    destruct X as [o2 ->]. exists kv1', o2, kv2'. split; [reflexivity|rewrite M; exact N].
  Qed.

  Lemma ref_at_outputs F k n : forall s, ref_at k s -> ref_at k (snd (outputs F n s)).
  Proof.
    induction n as [|n IH]; intros s H; [exact H|]. rewrite outputs_S.
    pose proof (ref_at_step F k s H) as H1. destruct (step F s) as [o s1]. cbn [snd] in H1.
    specialize (IH s1 H1). destruct (outputs F n s1) as [os s2]. exact IH.
  Qed.

  (** ** the operations that make a track play the caller's event dict *)
  Lemma lfind_spec nm : forall tl i0 i, lfind nm tl i0 = Some i ->
    (i0 <= i)%nat /\ exists tr, nth_error tl (i - i0) = Some tr /\ lt_name tr = Some nm.
  Proof.
    induction tl as [|t r IH]; intros i0 i H; [discriminate|]. cbn [lfind] in H.
    assert (R : lfind nm r (S i0) = Some i -> (i0 <= i)%nat /\ exists tr, nth_error (t :: r) (i - i0) = Some tr /\ lt_name tr = Some nm).
    { intros H'. destruct (IH _ _ H') as [L (tr & E & Nm)]. split; [lia|]. exists tr. split; [|exact Nm].
      replace (i - i0)%nat with (S (i - S i0)) by lia. exact E. }
    destruct (lt_name t) as [n|] eqn:En; [|exact (R H)].
    destruct (n =? nm) eqn:E; [|exact (R H)].
    inversion H; subst. split; [lia|]. exists t. rewrite Nat.sub_diag. split; [reflexivity|]. rewrite En. f_equal. lia.
  Qed.

  (* a fresh schedule(): a new track, playing s *)
  Theorem live_fresh_installs f tl name s :
    match name with Some nm => lfind nm tl 0 | None => None end = None ->
    lexec f tl (LSchedule name s) = (tl ++ [mkLT name s], None)
    /\ nth_error (tl ++ [mkLT name s]) (List.length tl) = Some (mkLT name s).
  Proof.
    intros H. unfold ParamLive.lexec. rewrite H. split; [reflexivity|].
    rewrite nth_error_app2 by lia. rewrite Nat.sub_diag. reflexivity.
  Qed.
  (* Track.update(): the same track, now playing s; nobody else is touched *)
  Theorem live_update_installs f tl t s tr : nth_error tl t = Some tr ->
    let tl' := fst (lexec f tl (LUpdate t s)) in
    nth_error tl' t = Some (mkLT (lt_name tr) s) /\ List.length tl' = List.length tl
    /\ forall t', t' <> t -> nth_error tl' t' = nth_error tl t'.
  Proof.
    intros H. cbn [ParamLive.lexec fst]. split; [apply lset_same; exact H|]. split; [apply lset_length|].
    intros t' Ht. apply lset_other. exact Ht.
  Qed.
  (* schedule(name=nm) over the running track of that name: NO new track; the named track now plays s *)
  Theorem live_replace_installs f tl nm s i : lfind nm tl 0 = Some i ->
    let tl' := fst (lexec f tl (LSchedule (Some nm) s)) in
    nth_error tl' i = Some (mkLT (Some nm) s) /\ List.length tl' = List.length tl
    /\ forall t', t' <> i -> nth_error tl' t' = nth_error tl t'.
  Proof.
    intros H. cbn [ParamLive.lexec]. rewrite H. cbn [fst].
    destruct (lfind_spec nm tl 0 i H) as [_ (tr & E & Nm)]. rewrite Nat.sub_0_r in E.
    split; [rewrite (lset_same i s tl tr E), Nm; reflexivity|]. split; [apply lset_length|].
    intros t' Ht. apply lset_other. exact Ht.
  Qed.

  (* n events of track t: its stream advances by n steps of its own *)
  Lemma live_steps f t n : forall tl nm s, nth_error tl t = Some (mkLT nm s) ->
    nth_error (lrun_state f tl (repeat (LStep t) n)) t = Some (mkLT nm (snd (outputs f n s))).
  Proof.
    induction n as [|n IH]; intros tl nm s H; [exact H|]. cbn [repeat ParamLive.lrun_state ParamLive.lexec]. rewrite H. cbn [lt_stream].
    rewrite outputs_S. destruct (step f s) as [o s1]. cbn [fst].
    pose proof (lset_same t s1 tl _ H) as H1. cbn [lt_name] in H1. rewrite (IH _ nm s1 H1).
    destruct (outputs f n s1). reflexivity.
  Qed.

  (* whichever of the three operations installed the stream s with a reference under k, and however many events the
     track has drawn since: the track still plays a stream with the reference under k - the hypothesis of
     live_retarget_event *)
  Theorem live_ref_survives f tl t nm s k n : nth_error tl t = Some (mkLT nm s) -> ref_at k s ->
    exists s', nth_error (lrun_state f tl (repeat (LStep t) n)) t = Some (mkLT nm s') /\ ref_at k s'.
  Proof.
    intros H R. exists (snd (outputs f n s)). split; [apply live_steps; exact H|apply ref_at_outputs; exact R].
  Qed.
End Live.

(* Pat/ArgInd.v — induction on the tuple nesting of an attribute value, and the unfolding of Step.reset_value on a tuple
   (Pattern.reset since the repair C04-reset-tuples resets the patterns held inside tuples, to any depth). *)
From Isobar Require Import Base.Prelude Pat.Val Pat.Syntax Pat.Step.

Section ArgTupleInd.
  Variable P : arg -> Prop.
  Hypothesis Hv : forall v, P (AV v).
  Hypothesis Hp : forall p, P (AP p).
  Hypothesis Hl : forall l, P (AL l).
  Hypothesis Hd : forall kv, P (AD kv).
  Hypothesis Ht : forall l, Forall P l -> P (AT l).

  Fixpoint arg_tuple_ind (a : arg) : P a :=
    match a with
    | AV v => Hv v
    | AP p => Hp p
    | AL l => Hl l
    | AD kv => Hd kv
    | AT l => Ht l ((fix go (l : list arg) : Forall P l :=
                       match l with
                       | [] => Forall_nil P
                       | x :: r => Forall_cons x (arg_tuple_ind x) (go r)
                       end) l)
    end.
End ArgTupleInd.

Lemma reset_value_AT rp l : reset_value rp (AT l) = omap AT (mapM (reset_value rp) l).
Proof.
  cbn [reset_value]. f_equal. induction l as [|x r IH]; [reflexivity|]. cbn [mapM]. rewrite IH. reflexivity.
Qed.

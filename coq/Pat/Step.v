(* Pat/Step.v — executable semantics of the pattern classes: __init__ ([init]), __next__ ([step]),
   reset() ([reset]), Pattern.value ([value]), next(x) ([anext]) and the helpers nextn / all / len / copy.

   Everything recurses on an explicit [fuel : nat]; running out of it is the distinct outcome
   [OutOfFuel].  Every clause is a transcription of the Python method named in its comment, statement by
   statement, quirks included.  [step] returns the new object state also when the call raised: Python
   objects keep whatever the method had already mutated.

   The binary-operator semantics used by the PBinOp classes is a Section variable ([binop]), so that
   the element-wise theorems of C08 hold for ANY operator semantics; class-internal arithmetic
   (PSeries' `value += step`, comparisons of counters, ...) uses the concrete [Val.binop].
   [LENGTH_MAX] is Pattern.LENGTH_MAX (regenerated from the source: Generated/TablesPat.v).

   reset(): Pattern.reset walks vars(self) — patterns, patterns inside list attributes, patterns
   inside dict values, and (repaired, C04-reset-tuples) patterns inside tuples wherever Pattern.value would
   resolve them ([reset_field], [reset_value]) — and subclasses re-establish their own fields.  For the classes
   whose pinned reset() did not restore their state (PStutter PSubsequence PCounter PNoRepeats
   PPadToMultiple) the clause describes the repaired method (C04; `fix:` commits in the repository).

   No proofs here. *)
From Isobar Require Import Base.Prelude Pat.Val Pat.Syntax.
From Coq Require Import String QArith.
Open Scope Z_scope.

(** * Fuel-free list combinators (the recursive engine functions are passed in) *)

(** evaluate the items left to right, threading their state; stop at the first non-[Yield] *)
Fixpoint values_of (g : arg -> outcome val * arg) (l : list arg) : outcome (list val) * list arg :=
  match l with
  | [] => (Yield [], [])
  | a :: r =>
      let '(o, a') := g a in
      match o with
      | Yield v => let '(os, r') := values_of g r in (omap (cons v) os, a' :: r')
      | _ => (ocast o, a' :: r)
      end
  end.

Fixpoint kwvalues_of (g : arg -> outcome val * arg) (l : list (string * arg))
  : outcome (list (string * val)) * list (string * arg) :=
  match l with
  | [] => (Yield [], [])
  | (k, a) :: r =>
      let '(o, a') := g a in
      match o with
      | Yield v => let '(os, r') := kwvalues_of g r in (omap (cons (k, v)) os, (k, a') :: r')
      | _ => (ocast o, (k, a') :: r)
      end
  end.

Fixpoint mapM {A B} (g : A -> outcome B) (l : list A) : outcome (list B) :=
  match l with
  | [] => Yield []
  | a :: r => obind (g a) (fun b => omap (cons b) (mapM g r))
  end.

Definition kwmapM {A B} (g : A -> outcome B) (l : list (string * A)) : outcome (list (string * B)) :=
  mapM (fun ka => omap (fun b => (fst ka, b)) (g (snd ka))) l.

(** Pattern.reset (repaired, C04-reset-tuples): every attribute, every item of a list attribute and every value of a dict
    attribute is handed to `reset_value`, which resets what Pattern.value would advance - a Pattern, or the Patterns held
    inside a (possibly nested) tuple; lists / dicts found INSIDE a tuple, list or dict, and everything else, are left alone.
    [reset_item] is the one-level loop `if isinstance(item, Pattern): item.reset()` that PMap.reset runs on its own. *)
Definition reset_item (rp : pat -> outcome pat) (a : arg) : outcome arg :=
  match a with AP p => omap AP (rp p) | _ => Yield a end.
Fixpoint reset_value (rp : pat -> outcome pat) (a : arg) {struct a} : outcome arg :=
  match a with
  | AP p => omap AP (rp p)
  | AT l =>
      omap AT ((fix go (l : list arg) : outcome (list arg) :=
                  match l with
                  | [] => Yield []
                  | x :: r => obind (reset_value rp x) (fun b => omap (cons b) (go r))
                  end) l)
  | AV _ | AL _ | AD _ => Yield a
  end.
Definition reset_field (rp : pat -> outcome pat) (a : arg) : outcome arg :=
  match a with
  | AL l => omap AL (mapM (reset_value rp) l)
  | AD kv => omap AD (kwmapM (reset_value rp) kv)
  | AV _ | AP _ | AT _ => reset_value rp a
  end.

(** the loop of nextn()/all(): at most [m] calls of next; StopIteration ends it; any other exception
    propagates (the values collected so far are lost, the object stays where it was).
    [exhausted] is the result when the bound [m] is reached ([Yield []] for a `for n in range(m)` loop,
    [OutOfFuel] for an unbounded drain). *)
Fixpoint take (exhausted : outcome (list val)) (g : pat -> outcome val * pat) (m : nat) (p : pat)
  : outcome (list val) * pat :=
  match m with
  | O => (exhausted, p)
  | S m' =>
      let '(o, p') := g p in
      match o with
      | Yield v => let '(os, p'') := take exhausted g m' p' in (omap (cons v) os, p'')
      | Stop => (Yield [], p')
      | _ => (ocast o, p')
      end
  end.

(** PSubsequence: `while len(self.values) <= self.pos + offset: self.values.append(next(self.pattern))` *)
Fixpoint pull_until (g : arg -> outcome val * arg) (n : nat) (pattern : arg) (values : list val) (target : Z)
  : outcome unit * list val * arg :=
  if Z.of_nat (List.length values) <=? target then
    match n with
    | O => (OutOfFuel, values, pattern)
    | S n' =>
        let '(o, pattern') := g pattern in
        match o with
        | Yield v => pull_until g n' pattern' (values ++ [v]) target
        | _ => (ocast o, values, pattern')
        end
    end
  else (Yield tt, values, pattern).

(** PWrap: `while value < self.min: value += self.max - self.min` / `while value >= self.max: value -= ...` *)
Fixpoint wrap_up (n : nat) (value mn mx : val) : outcome val :=
  match cmp OLt value mn with
  | Yield true =>
      match n with
      | O => OutOfFuel
      | S n' => obind (Val.binop OSub mx mn) (fun d => obind (Val.binop OAdd value d) (fun v' => wrap_up n' v' mn mx))
      end
  | Yield false => Yield value
  | o => ocast o
  end.
Fixpoint wrap_down (n : nat) (value mn mx : val) : outcome val :=
  match cmp OGe value mx with
  | Yield true =>
      match n with
      | O => OutOfFuel
      | S n' => obind (Val.binop OSub mx mn) (fun d => obind (Val.binop OSub value d) (fun v' => wrap_down n' v' mn mx))
      end
  | Yield false => Yield value
  | o => ocast o
  end.

(** functions applied by the PMap family: operator(value, *args, **kwargs) *)
Definition apply_fn (f : fn) (value : val) (args : list val) (kwargs : list (string * val)) : outcome val :=
  match f with
  | FRound => match kwargs with
              | [] => if is_none value then Yield VNone else py_round value args
              | _ => Raise TypeError
              end
  end.

Definition zlen {A} (l : list A) : Z := Z.of_nat (List.length l).

Definition is_stop {A} (o : outcome A) : bool := match o with Stop => true | _ => false end.

(** a literal Python list of plain values, as a value *)
Fixpoint plain_items (l : list arg) : option (list val) :=
  match l with
  | [] => Some []
  | AV v :: r => match plain_items r with Some vs => Some (v :: vs) | None => None end
  | _ => None
  end.
Fixpoint plain_kw (l : list (string * arg)) : option (list (string * val)) :=
  match l with
  | [] => Some []
  | (k, AV v) :: r => match plain_kw r with Some vs => Some ((k, v) :: vs) | None => None end
  | _ => None
  end.

(** a tuple / list / dict literal without patterns inside, as a value *)
Fixpoint plain_val (a : arg) : option val :=
  let fix go (l : list arg) : option (list val) :=
    match l with
    | [] => Some []
    | x :: r => match plain_val x, go r with Some v, Some vs => Some (v :: vs) | _, _ => None end
    end in
  let fix gokw (l : list (string * arg)) : option (list (string * val)) :=
    match l with
    | [] => Some []
    | (k, x) :: r => match plain_val x, gokw r with Some v, Some vs => Some ((k, v) :: vs) | _, _ => None end
    end in
  match a with
  | AV v => Some v
  | AP _ => None
  | AT l => option_map VTup (go l)
  | AL l => option_map VList (go l)
  | AD kv => option_map VDict (gokw kv)
  end.

(** Pattern.pattern(v): patterns untouched; dicts -> PDict, str -> notation parser (both outside this
    model: Inexact); anything else -> PConstant *)
Definition patternify (a : arg) : outcome arg :=
  match a with
  | AP p => Yield a
  | AD _ => Inexact
  | _ => match plain_val a with
         | Some (VStr _) | Some (VDict _) | None => Inexact
         | Some v => Yield (AP (PConstant v))
         end
  end.

Section Engine.
  Variable binop : op -> val -> val -> outcome val.
  Variable LENGTH_MAX : nat.

  Fixpoint step (fuel : nat) (p : pat) {struct fuel} : outcome val * pat :=
    match fuel with
    | O => (OutOfFuel, p)
    | S f =>
      match p with
      (* ---- core.py ------------------------------------------------------------------------- *)
      | PConstant c => (Yield c, p)
      | PRef pattern =>                                     (* return next(self.pattern) *)
          let '(o, pattern') := anext f pattern in (o, PRef pattern')
      | PConcatenate inputs pos =>
          match inputs with
          | AL l =>
              match py_index l pos with
              | None => (Raise IndexError, p)
              | Some a =>
                  let '(o, a') := anext f a in              (* try: return next(self.inputs[self.pos]) *)
                  let l' := update_nth (py_index_pos l pos) a' l in
                  match o with
                  | Stop =>                                 (* except StopIteration: *)
                      if pos <? zlen l - 1
                      then step f (PConcatenate (AL l') (pos + 1))       (* self.pos += 1; return next(self) *)
                      else (Stop, PConcatenate (AL l') pos)
                  | _ => (o, PConcatenate (AL l') pos)
                  end
              end
          | _ => (Inexact, p)
          end
      | PAbs input =>
          let '(o, input') := value f input in
          match o with
          | Yield v => ((if is_none v then Yield VNone else py_abs v), PAbs input')
          | _ => (o, PAbs input')
          end
      | PInt input =>
          let '(o, input') := value f input in
          match o with
          | Yield v => ((if is_none v then Yield VNone else py_int v), PInt input')
          | _ => (o, PInt input')
          end
      | PBinOp o a b =>
          let '(oa, a') := value f a in                     (* a = Pattern.value(self.a) *)
          match oa with
          | Yield va =>
              let '(ob, b') := value f b in                 (* b = Pattern.value(self.b) *)
              match ob with
              | Yield vb => ((if is_none va || is_none vb then Yield VNone else binop o va vb), PBinOp o a' b')
              | _ => (ob, PBinOp o a' b')
              end
          | _ => (oa, PBinOp o a' b)
          end
      | PAnd a b =>
          let '(oa, a') := value f a in
          match oa with
          | Yield va =>
              let '(ob, b') := value f b in
              match ob with
              | Yield vb => (Yield (VBool (truthy va && truthy vb)), PAnd a' b')
              | _ => (ob, PAnd a' b')
              end
          | _ => (oa, PAnd a' b)
          end
      | PArrayIndex list index exhausted =>
          (* list = Pattern.value(self.list); index = Pattern.value(self.index) *)
          if exhausted then (Stop, p) else                       (* if self.exhausted: raise StopIteration *)
          let '(o, list1, index1) :=
          match list with
          | AL l =>
              let '(oi, index') := value f index in
              match oi with
              | Yield VNone => (Yield VNone, list, index')
              | Yield vi =>
                  match py_int vi with
                  | Yield (VInt i) =>
                      match py_index l i with
                      | None => (Raise IndexError, list, index')
                      | Some a =>
                          let '(o, a') := value f a in      (* return Pattern.value(list[index]) *)
                          (o, (AL (update_nth (py_index_pos l i) a' l)), index')
                      end
                  | Yield _ => (Inexact, list, index')
                  | o => (o, list, index')
                  end
              | _ => (oi, list, index')
              end
          | _ =>
              let '(ol, list') := value f list in
              match ol with
              | Yield vl =>
                  let '(oi, index') := value f index in
                  match oi with
                  | Yield VNone => (Yield VNone, list', index')
                  | Yield vi =>
                      match py_int vi with
                      | Yield (VInt i) =>
                          match vl with
                          | VList l | VTup l =>
                              match py_index l i with
                              | None => (Raise IndexError, list', index')
                              | Some v => (Yield v, list', index')
                              end
                          | VStr _ | VDict _ => (Inexact, list', index')
                          | _ => (Raise TypeError, list', index')
                          end
                      | Yield _ => (Inexact, list', index')
                      | o => (o, list', index')
                      end
                  | _ => (oi, list', index')
                  end
              | _ => (ol, list', index)
              end
          end in
          (o, PArrayIndex list1 index1 (is_stop o))             (* except StopIteration: self.exhausted = True; raise *)
      | PDict dict =>
          (* rv = dict([(k, Pattern.value(vdict[k])) for k in vdict]) *)
          match dict with
          | AD kv =>
              let '(o, kv') := kwvalues_of (value f) kv in
              (omap VDict o, PDict (AD kv'))
          | _ => (Inexact, p)
          end
      | PDictKey dict key =>
          let '(od, dict') :=
            match dict with
            | AD kv => (match plain_kw kv with Some d => Yield (VDict d) | None => Inexact end, dict)
            | _ => value f dict
            end in
          match od with
          | Yield vd =>
              let '(ok, key') := value f key in
              match ok with
              | Yield vk =>
                  (match vd, vk with
                   | VDict d, VStr k => match assoc k d with Some v => Yield v | None => Raise KeyError end
                   | VDict d, (VList _ | VDict _) => Raise TypeError
                   | VDict d, _ => Raise KeyError
                   | VNone, _ => Raise TypeError
                   | _, _ => Inexact
                   end, PDictKey dict' key')
              | _ => (ok, PDictKey dict' key')
              end
          | _ => (od, PDictKey dict' key)
          end
      (* ---- sequence.py --------------------------------------------------------------------- *)
      | PSequence sequence repeats rcount pos =>
          match sequence with
          | AL l =>
              let '(orep, repeats') := value f repeats in   (* repeats = Pattern.value(self.repeats) *)
              match orep with
              | Yield vrep =>
                  let stop_test := if zlen l =? 0 then Yield true else cmp OGe (VInt rcount) vrep in
                  match stop_test with
                  | Yield true => (Stop, PSequence sequence repeats' rcount pos)
                  | Yield false =>
                      match py_index l pos with
                      | None => (Raise IndexError, PSequence sequence repeats' rcount pos)
                      | Some a =>
                          let '(o, a') := value f a in      (* rv = Pattern.value(sequence[self.pos]) *)
                          let l' := update_nth (py_index_pos l pos) a' l in
                          match o with
                          | Yield v =>
                              if pos + 1 >=? zlen l
                              then (Yield v, PSequence (AL l') repeats' (rcount + 1) 0)
                              else (Yield v, PSequence (AL l') repeats' rcount (pos + 1))
                          | _ => (o, PSequence (AL l') repeats' rcount pos)
                          end
                      end
                  | oc => (ocast oc, PSequence sequence repeats' rcount pos)
                  end
              | _ => (orep, PSequence sequence repeats' rcount pos)
              end
          | _ => (Inexact, p)
          end
      | PSeries start v stp length count =>
          let '(ol, length') := value f length in           (* length = Pattern.value(self.length) *)
          match ol with
          | Yield vlen =>
              match cmp OGe (VInt count) vlen with
              | Yield true => (Stop, PSeries start v stp length' count)
              | Yield false =>
                  let '(os, stp') := value f stp in         (* step = Pattern.value(self.step) *)
                  match os with
                  | Yield vstep =>
                      match Val.binop OAdd v vstep with     (* self.value += step *)
                      | Yield v' => (Yield v, PSeries start v' stp' length' (count + 1))
                      | o => (o, PSeries start v stp' length' count)
                      end
                  | _ => (os, PSeries start v stp' length' count)
                  end
              | oc => (ocast oc, PSeries start v stp length' count)
              end
          | _ => (ol, PSeries start v stp length' count)
          end
      | PRange start end_ stp v =>
          let '(oe, end') := value f end_ in
          match oe with
          | Yield vend =>
              let '(os, stp') := value f stp in
              match os with
              | Yield vstep =>
                  let st := PRange start end' stp' v in
                  (* if step > 0 and self.value >= end: raise StopIteration *)
                  let t1 := obind (cmp OGt vstep (VInt 0)) (fun b => if b then cmp OGe v vend else Yield false) in
                  match t1 with
                  | Yield true => (Stop, st)
                  | Yield false =>
                      (* elif step < 0 and self.value <= end: raise StopIteration *)
                      let t2 := obind (cmp OLt vstep (VInt 0)) (fun b => if b then cmp OLe v vend else Yield false) in
                      match t2 with
                      | Yield true => (Stop, st)
                      | Yield false =>
                          match Val.binop OAdd v vstep with
                          | Yield v' => (Yield v, PRange start end' stp' v')
                          | o => (o, st)
                          end
                      | oc => (ocast oc, st)
                      end
                  | oc => (ocast oc, st)
                  end
              | _ => (os, PRange start end' stp' v)
              end
          | _ => (oe, PRange start end' stp v)
          end
      | PGeom start v multiply length count =>
          match cmp OGe (VInt count) length with            (* if self.count >= self.length *)
          | Yield true => (Stop, p)
          | Yield false =>
              let '(om, multiply') := value f multiply in
              match om with
              | Yield vm =>
                  match Val.binop OMul v vm with            (* self.value *= multiply *)
                  | Yield v' => (Yield v, PGeom start v' multiply' length (count + 1))
                  | o => (o, PGeom start v multiply' length count)
                  end
              | _ => (om, PGeom start v multiply' length count)
              end
          | oc => (ocast oc, p)
          end
      | PImpulse period pos =>
          let '(op_, period') := value f period in
          match op_ with
          | Yield vp =>
              match cmp OGe (VInt pos) vp with              (* if self.pos >= period: self.pos = 0 *)
              | Yield b =>
                  let pos1 := if b then 0 else pos in
                  (Yield (VInt (if pos1 =? 0 then 1 else 0)), PImpulse period' (pos1 + 1))
              | oc => (ocast oc, PImpulse period' pos)
              end
          | _ => (op_, PImpulse period' pos)
          end
      | PLoop pattern count pos loop_index read_all values =>
          (* if not self.read_all: try: values.append(next(pattern)) except StopIteration: read_all = True *)
          let '(err, pattern1, read_all1, values1) :=
            if read_all then (None, pattern, true, values)
            else
              let '(o, pattern') := anext f pattern in
              match o with
              | Yield v => (None, pattern', false, values ++ [v])
              | Stop => (None, pattern', true, values)
              | _ => (Some o, pattern', false, values)
              end in
          match err with
          | Some o => (o, PLoop pattern1 count pos loop_index read_all1 values1)
          | None =>
              (* if self.read_all and self.pos >= len(self.values): *)
              let wrap := read_all1 && (pos >=? zlen values1) in
              let st0 := PLoop pattern1 count pos loop_index read_all1 values1 in
              let go (pos2 loop_index2 : Z) :=
                match py_index values1 pos2 with            (* rv = self.values[self.pos]; self.pos += 1 *)
                | Some v => (Yield v, PLoop pattern1 count (pos2 + 1) loop_index2 read_all1 values1)
                | None => (Raise IndexError, PLoop pattern1 count pos2 loop_index2 read_all1 values1)
                end in
              if wrap then
                (* if self.loop_index >= self.count - 1: raise StopIteration *)
                match obind (Val.binop OSub count (VInt 1)) (fun c1 => cmp OGe (VInt loop_index) c1) with
                | Yield true => (Stop, st0)
                | Yield false => if zlen values1 =? 0 then (Stop, st0) else go 0 (loop_index + 1)   (* repaired (C10): an empty input ends *)
                | oc => (ocast oc, st0)
                end
              else go pos loop_index
          end
      | PPingPong pattern count values pos dir rpos =>
          (* if (self.pos == 1 and self.rpos >= self.count) or self.pos >= len(self.values): raise StopIteration
             (repaired, C10: an input of fewer than two values ends instead of raising IndexError) *)
          match obind (if pos =? 1 then cmp OGe (VInt rpos) count else Yield false) (fun b => Yield (b || (pos >=? zlen values))) with
          | Yield true => (Stop, p)
          | Yield false =>
              match py_index values pos with                (* rv = self.values[self.pos] *)
              | None => (Raise IndexError, p)
              | Some v =>
                  let pos1 := pos + dir in
                  if pos1 =? zlen values - 1 then (Yield v, PPingPong pattern count values pos1 (-1) rpos)
                  else if pos1 =? 0 then (Yield v, PPingPong pattern count values pos1 1 (rpos + 1))
                  else (Yield v, PPingPong pattern count values pos1 dir rpos)
              end
          | oc => (ocast oc, p)
          end
      | PStutter pattern count count_current pos v =>
          match cmp OGe (VInt pos) count_current with       (* if self.pos >= self.count_current: *)
          | Yield true =>
              let '(oc, count') := value f count in         (* count = Pattern.value(self.count) *)
              match oc with
              | Yield cc =>
                  let '(o, pattern') := anext f pattern in  (* self.value = next(self.pattern) *)
                  match o with
                  | Yield v' => (Yield v', PStutter pattern' count' cc 1 v')     (* self.pos = 0; self.pos += 1 *)
                  | _ => (o, PStutter pattern' count' count_current pos v)      (* repaired (C09): the count is committed only with a new value *)
                  end
              | _ => (oc, PStutter pattern count' count_current pos v)
              end
          | Yield false => (Yield v, PStutter pattern count count_current (pos + 1) v)
          | oc => (ocast oc, p)
          end
      | PSubsequence pattern offset length pos values =>
          let '(oo, offset') := value f offset in
          match oo with
          | Yield voff =>
              let '(ol, length') := value f length in
              match ol with
              | Yield vlen =>
                  let st := PSubsequence pattern offset' length' pos values in
                  match cmp OGe (VInt pos) vlen with        (* if self.pos >= length: raise StopIteration *)
                  | Yield true => (Stop, st)
                  | Yield false =>
                      match int_of voff with
                      | Some off =>
                          let '(ou, values', pattern') := pull_until (anext f) f pattern values (pos + off) in
                          match ou with
                          | Yield _ =>
                              match py_index values' (off + pos) with
                              | Some v => (Yield v, PSubsequence pattern' offset' length' (pos + 1) values')
                              | None => (Raise IndexError, PSubsequence pattern' offset' length' pos values')
                              end
                          | _ => (ocast ou, PSubsequence pattern' offset' length' pos values')
                          end
                      | None => ((if is_none voff then Raise TypeError else Inexact), st)
                      end
                  | oc => (ocast oc, st)
                  end
              | _ => (ol, PSubsequence pattern offset' length' pos values)
              end
          | _ => (oo, PSubsequence pattern offset' length pos values)
          end
      | PReverse input values =>                            (* return next(self.values) *)
          match values with
          | v :: r => (Yield v, PReverse input r)
          | [] => (Stop, p)
          end
      | PReset pattern trigger =>
          let '(ot, trigger') := anext f trigger in         (* trigger_input = next(self.trigger) *)
          match ot with
          | Yield vt =>
              (* if trigger_input is not None and trigger_input > 0: self.pattern.reset() *)
              match (if is_none vt then Yield false else cmp OGt vt (VInt 0)) with
              | Yield fire =>
                  let opat := if fire then areset_strict f pattern else Yield pattern in
                  match opat with
                  | Yield pattern1 =>
                      let '(o, pattern2) := anext f pattern1 in       (* return next(self.pattern) *)
                      (o, PReset pattern2 trigger')
                  | o => (ocast o, PReset pattern trigger')
                  end
              | oc => (ocast oc, PReset pattern trigger')
              end
          | _ => (ot, PReset pattern trigger')
          end
      | PCounter trigger v count =>
          let '(ot, trigger') := anext f trigger in         (* value = next(self.trigger) *)
          match ot with
          | Yield vt =>
              let st := PCounter trigger' v count in
              (* if value > 0 and self.value <= 0: *)
              match obind (cmp OGt vt (VInt 0)) (fun b => if b then cmp OLe v (VInt 0) else Yield false) with
              | Yield true => (Yield (VInt (count + 1)), PCounter trigger' vt (count + 1))
              | Yield false =>
                  (* elif value <= 0 and self.value > 0: *)
                  match obind (cmp OLe vt (VInt 0)) (fun b => if b then cmp OGt v (VInt 0) else Yield false) with
                  | Yield true => (Yield (VInt count), PCounter trigger' vt count)
                  | Yield false => (Yield (VInt count), st)
                  | oc => (ocast oc, st)
                  end
              | oc => (ocast oc, st)
              end
          | _ => (ot, PCounter trigger' v count)
          end
      | PCollapse input =>                                  (* while rv is None: rv = Pattern.value(self.input) *)
          let '(o, input') := value f input in
          match o with
          | Yield VNone => step f (PCollapse input')
          | _ => (o, PCollapse input')
          end
      | PNoRepeats input v =>
          (* while rv == self.value or rv == sys.maxsize: rv = Pattern.value(self.input) *)
          let '(o, input') := value f input in
          match o with
          | Yield rv =>
              if py_eq rv v || py_eq rv (VInt MAXSIZE) then step f (PNoRepeats input' v)
              else (Yield rv, PNoRepeats input' rv)
          | _ => (o, PNoRepeats input' v)
          end
      | PPad pattern length count =>
          let '(o, pattern') := anext f pattern in
          match o with
          | Stop =>
              match cmp OGe (VInt count) length with
              | Yield true => (Stop, PPad pattern' length count)
              | Yield false => (Yield VNone, PPad pattern' length (count + 1))
              | oc => (ocast oc, PPad pattern' length count)
              end
          | Yield v => (Yield v, PPad pattern' length (count + 1))
          | _ => (o, PPad pattern' length count)
          end
      | PPadToMultiple pattern multiple minimum_pad count padcount =>
          let '(o, pattern') := anext f pattern in
          match o with
          | Stop =>
              let st := PPadToMultiple pattern' multiple minimum_pad count padcount in
              (* if self.padcount >= self.minimum_pad and (self.count % self.multiple == 0): *)
              match obind (cmp OGe (VInt padcount) minimum_pad)
                      (fun b => if b then omap (fun r => py_eq r (VInt 0)) (Val.binop OMod (VInt count) multiple) else Yield false) with
              | Yield true => (Stop, st)
              | Yield false => (Yield VNone, PPadToMultiple pattern' multiple minimum_pad (count + 1) (padcount + 1))
              | oc => (ocast oc, st)
              end
          | Yield v => (Yield v, PPadToMultiple pattern' multiple minimum_pad (count + 1) padcount)
          | _ => (o, PPadToMultiple pattern' multiple minimum_pad count padcount)
          end
      (* ---- scalar.py ----------------------------------------------------------------------- *)
      | PChanged source current =>
          let '(o, source') := value f source in
          match o with
          | Yield nxt => (Yield (VInt (if py_eq nxt current then 0 else 1)), PChanged source' nxt)
          | _ => (o, PChanged source' current)
          end
      | PDiff source current =>
          let '(o, source') := value f source in
          match o with
          | Yield nxt =>
              if is_none current || is_none nxt then (Yield VNone, PDiff source' nxt)
              else match Val.binop OSub nxt current with
                   | Yield d => (Yield d, PDiff source' nxt)
                   | oe => (oe, PDiff source' current)
                   end
          | _ => (o, PDiff source' current)
          end
      | PSkipIf pattern skip =>
          let '(o, pattern') := value f pattern in
          match o with
          | Yield rv =>
              let '(os, skip') := value f skip in
              match os with
              | Yield rskip => (Yield (if truthy rskip then VNone else rv), PSkipIf pattern' skip')
              | _ => (os, PSkipIf pattern' skip')
              end
          | _ => (o, PSkipIf pattern' skip)
          end
      | PMap input operator args kwargs =>
          (* args = [Pattern.value(v) for v in self.args]; kwargs likewise; value = next(self.input) *)
          let '(oa, args') := values_of (value f) args in
          match oa with
          | Yield vargs =>
              let '(ok, kwargs') := kwvalues_of (value f) kwargs in
              match ok with
              | Yield vkw =>
                  let '(o, input') := anext f input in
                  match o with
                  | Yield v => (apply_fn operator v vargs vkw, PMap input' operator args' kwargs')
                  | _ => (o, PMap input' operator args' kwargs')
                  end
              | _ => (ocast ok, PMap input operator args' kwargs')
              end
          | _ => (ocast oa, PMap input operator args' kwargs)
          end
      | PWrap pattern mn mx =>
          let '(o, pattern') := anext f pattern in
          match o with
          | Yield v => (obind (wrap_up f v mn mx) (fun v1 => wrap_down f v1 mn mx), PWrap pattern' mn mx)
          | _ => (o, PWrap pattern' mn mx)
          end
      | PIndexOf list item =>
          let '(ol, list') :=
            match list with
            | AL l => (match plain_items l with Some vs => Yield (VList vs) | None => Inexact end, list)
            | _ => value f list
            end in
          match ol with
          | Yield vl =>
              let '(oi, item') := value f item in
              match oi with
              | Yield vi =>
                  (* if list is None or item is None or item not in list: return None *)
                  (if is_none vl || is_none vi then Yield VNone
                   else match vl with
                        | VList l | VTup l =>
                            match index_of vi l 0 with Some i => Yield (VInt i) | None => Yield VNone end
                        | VStr _ | VDict _ => Inexact
                        | _ => Raise TypeError
                        end, PIndexOf list' item')
              | _ => (oi, PIndexOf list' item')
              end
          | _ => (ol, PIndexOf list' item)
          end
      end
    end

  (** next(x) *)
  with anext (fuel : nat) (a : arg) {struct fuel} : outcome val * arg :=
    match fuel with
    | O => (OutOfFuel, a)
    | S f =>
      match a with
      | AP p => let '(o, p') := step f p in (o, AP p')
      | _ => (Raise TypeError, a)               (* 'int' object is not an iterator *)
      end
    end

  (** Pattern.value(x) *)
  with value (fuel : nat) (a : arg) {struct fuel} : outcome val * arg :=
    match fuel with
    | O => (OutOfFuel, a)
    | S f =>
      match a with
      | AV v => (Yield v, a)
      | AP p => let '(o, p') := step f p in (o, AP p')      (* Pattern.value(next(v)); yielded values are plain *)
      | AT l =>
          (* tuple(Pattern.value(e) for e in v): a StopIteration inside the generator expression
             surfaces as RuntimeError (PEP 479) *)
          let '(os, l') := values_of (value f) l in
          (match os with
           | Yield vs => Yield (VTup vs)
           | Stop => Raise RuntimeError
           | o => ocast o
           end, AT l')
      | AL _ | AD _ => (Inexact, a)             (* lists / dicts are returned as they are: handled by the callers *)
      end
    end

  (** x.reset() on an attribute that must be a pattern *)
  with areset_strict (fuel : nat) (a : arg) {struct fuel} : outcome arg :=
    match fuel with
    | O => OutOfFuel
    | S f =>
      match a with
      | AP p => omap AP (reset f p)
      | _ => Raise AttributeError
      end
    end

  (** x.all(m): collect, then reset *)
  with aall (fuel : nat) (m : nat) (a : arg) {struct fuel} : outcome (list val) * arg :=
    match fuel with
    | O => (OutOfFuel, a)
    | S f =>
      match a with
      | AP p =>
          let '(ovs, p') := take (Yield []) (step f) m p in
          match ovs with
          | Yield vs =>
              match reset f p' with
              | Yield p'' => (Yield vs, AP p'')
              | o => (ocast o, AP p')
              end
          | _ => (ovs, AP p')
          end
      | _ => (Raise AttributeError, a)
      end
    end

  (** reset() *)
  with reset (fuel : nat) (p : pat) {struct fuel} : outcome pat :=
    match fuel with
    | O => OutOfFuel
    | S f =>
      let fld (a : arg) (k : arg -> outcome pat) : outcome pat := obind (reset_field (reset f) a) k in
      match p with
      | PConstant _ => Yield p
      | PRef pattern => fld pattern (fun x => Yield (PRef x))
      | PConcatenate inputs _ => fld inputs (fun x => Yield (PConcatenate x 0))            (* super().reset(); self.pos = 0 *)
      | PAbs input => fld input (fun x => Yield (PAbs x))
      | PInt input => fld input (fun x => Yield (PInt x))
      | PBinOp o a b => fld a (fun a' => fld b (fun b' => Yield (PBinOp o a' b')))
      | PAnd a b => fld a (fun a' => fld b (fun b' => Yield (PAnd a' b')))
      | PArrayIndex list index _ => fld list (fun l' => fld index (fun i' => Yield (PArrayIndex l' i' false)))   (* super().reset(); self.exhausted = False *)
      | PDict dict => fld dict (fun d' => Yield (PDict d'))
      | PDictKey dict key => fld dict (fun d' => fld key (fun k' => Yield (PDictKey d' k')))
      | PSequence sequence repeats _ _ =>                                                  (* super().reset(); rcount = 0; pos = 0 *)
          fld sequence (fun s' => fld repeats (fun r' => Yield (PSequence s' r' 0 0)))
      | PSeries start _ stp length _ =>                                                    (* value = start; count = 0 *)
          fld stp (fun s' => fld length (fun l' => Yield (PSeries start start s' l' 0)))
      | PRange start end_ stp _ =>
          fld end_ (fun e' => fld stp (fun s' => Yield (PRange start e' s' start)))
      | PGeom start _ multiply length _ =>
          fld multiply (fun m' => Yield (PGeom start start m' length 0))
      | PImpulse period _ => fld period (fun x => Yield (PImpulse x 0))
      | PLoop pattern count _ _ _ _ => fld pattern (fun x => Yield (PLoop x count 0 0 false []))
      | PPingPong pattern count _ _ _ _ =>
          (* super().reset(); self.pattern.reset(); self.values = self.pattern.all(); pos = 0; dir = 1; rpos = 0 *)
          fld pattern (fun p1 =>
          obind (areset_strict f p1) (fun p2 =>
          let '(ovs, p3) := aall f LENGTH_MAX p2 in
          obind ovs (fun vs => Yield (PPingPong p3 count vs 0 1 0))))
      | PStutter pattern count _ _ _ =>                                                    (* repaired: restores __init__'s fields *)
          fld pattern (fun p' => fld count (fun c' => Yield (PStutter p' c' (VInt 0) 0 (VInt 0))))
      | PSubsequence pattern offset length _ _ =>                                          (* repaired: also clears self.values *)
          fld pattern (fun p' => fld offset (fun o' => fld length (fun l' => Yield (PSubsequence p' o' l' 0 []))))
      | PReverse input _ =>
          (* super().reset(); self.values = reversed(list(self.input)):
             list(x) first calls x.__len__() = len(x.all()) (which consumes and resets x), then drains x *)
          fld input (fun i1 =>
          match i1 with
          | AP _ =>
              let '(olen, i2) := aall f LENGTH_MAX i1 in
              (* a TypeError raised by __len__ is swallowed by list() (PyObject_LengthHint); the input
                 then stays where all() left it, un-reset *)
              let olen' := match olen with Raise TypeError => Yield [] | _ => olen end in
              obind olen' (fun _ =>
              match i2 with
              | AP p2 =>
                  let '(ovs, p3) := take OutOfFuel (step f) f p2 in
                  obind ovs (fun vs => Yield (PReverse (AP p3) (rev vs)))
              | _ => Inexact
              end)
          | AV (VList vs) | AV (VTup vs) => Yield (PReverse i1 (rev vs))
          | AV (VStr _) | AV (VDict _) | AL _ | AT _ | AD _ => Inexact
          | AV _ => Raise TypeError
          end)
      | PReset pattern trigger => fld pattern (fun p' => fld trigger (fun t' => Yield (PReset p' t')))
      | PCounter trigger _ _ => fld trigger (fun t' => Yield (PCounter t' (VInt 0) 0))     (* repaired *)
      | PCollapse input => fld input (fun x => Yield (PCollapse x))
      | PNoRepeats input _ => fld input (fun x => Yield (PNoRepeats x (VInt MAXSIZE)))     (* repaired *)
      | PPad pattern length _ => fld pattern (fun x => Yield (PPad x length 0))
      | PPadToMultiple pattern multiple minimum_pad _ _ =>                                 (* repaired *)
          fld pattern (fun x => Yield (PPadToMultiple x multiple minimum_pad 0 0))
      | PChanged source _ =>
          (* super().reset(); self.current = Pattern.value(self.source) *)
          fld source (fun s1 => let '(o, s2) := value f s1 in obind o (fun v => Yield (PChanged s2 v)))
      | PDiff source _ =>
          fld source (fun s1 => let '(o, s2) := value f s1 in obind o (fun v => Yield (PDiff s2 v)))
      | PSkipIf pattern skip => fld pattern (fun p' => fld skip (fun s' => Yield (PSkipIf p' s')))
      | PMap input operator args kwargs =>
          (* Pattern.reset walks vars(self) in creation order: input (a Pattern), args (a TUPLE: its Patterns, also inside
             nested tuples), kwargs (a dict).  PMap.reset then resets the Pattern items of args and of kwargs once more. *)
          fld input (fun i' =>
          obind (mapM (reset_value (reset f)) args) (fun args1 =>
          obind (kwmapM (reset_value (reset f)) kwargs) (fun kw1 =>
          obind (mapM (reset_item (reset f)) args1) (fun args2 =>
          obind (kwmapM (reset_item (reset f)) kw1) (fun kw2 =>
          Yield (PMap i' operator args2 kw2))))))
      | PWrap pattern mn mx => fld pattern (fun x => Yield (PWrap x mn mx))
      | PIndexOf list item => fld list (fun l' => fld item (fun i' => Yield (PIndexOf l' i')))
      end
    end.

  (** * Construction: __init__ *)

  (** the body of __init__ once the argument expressions have been evaluated *)
  Definition construct (f : nat) (c : cls) (args : list arg) : outcome pat :=
    match c, args with
    | CConstant, [a] => match plain_val a with Some v => Yield (PConstant v) | None => Inexact end
    | CRef, [a] => Yield (PRef a)
    | CConcatenate, [a] => Yield (PConcatenate a 0)
    | CAbs, [a] => Yield (PAbs a)
    | CInt, [a] => Yield (PInt a)
    | CBinOp o, [a; b] => Yield (PBinOp o a b)
    | CAnd, [a; b] => Yield (PAnd a b)
    | CArrayIndex, [l; i] => Yield (PArrayIndex l i false)
    | CDict, [AD kv] =>
        (* self.dict = dict([(k, Pattern.pattern(v)) for k, v in value.items()]) *)
        omap (fun kv' => PDict (AD kv')) (kwmapM patternify kv)
    | CDict, [AL items] =>
        (* keys = list(value[0].keys()); self.dict[key] = PSequence([item[key] for item in value], 1) *)
        match items with
        | [] => Yield (PDict (AD []))                        (* IndexError is swallowed *)
        | AD kv0 :: _ =>
            let column (k : string) : outcome (list arg) :=
              mapM (fun it => match it with
                              | AD kv => match assoc k kv with Some a => Yield a | None => Raise KeyError end
                              | _ => Inexact
                              end) items in
            omap (fun kv' => PDict (AD kv'))
                 (mapM (fun ka => obind (column (fst ka)) (fun col =>
                                  omap (fun s => (fst ka, AP s)) (reset f (PSequence (AL col) (AV (VInt 1)) 0 0)))) kv0)
        | _ => Inexact
        end
    | CDictKey, [d; k] => Yield (PDictKey d k)
    | CSequence, [AL l; r] => reset f (PSequence (AL l) r 0 0)             (* ...; self.reset() *)
    | CSeries, [AV start; stp; length] => Yield (PSeries start start stp length 0)
    | CRange, [AV start; e; stp] => reset f (PRange start e stp start)
    | CGeom, [AV start; m; AV length] => Yield (PGeom start start m length 0)
    | CImpulse, [period] => Yield (PImpulse period 0)
    | CLoop, [pattern; AV count] => Yield (PLoop pattern count 0 0 false [])
    | CPingPong, [pattern; AV count] => reset f (PPingPong pattern count [] 0 1 0)
    | CStutter, [pattern; count] =>
        omap (fun p' => PStutter p' count (VInt 0) 0 (VInt 0)) (patternify pattern)
    | CSubsequence, [pattern; offset; length] => Yield (PSubsequence pattern offset length 0 [])
    | CReverse, [input] => reset f (PReverse input [])
    | CReset, [pattern; trigger] => Yield (PReset pattern trigger)
    | CCounter, [trigger] => Yield (PCounter trigger (VInt 0) 0)
    | CCollapse, [input] => Yield (PCollapse input)
    | CNoRepeats, [input] => Yield (PNoRepeats input (VInt MAXSIZE))
    | CPad, [pattern; AV length] => reset f (PPad pattern length 0)
    | CPadToMultiple, [pattern; AV multiple; AV minimum_pad] => Yield (PPadToMultiple pattern multiple minimum_pad 0 0)
    | CChanged, [source] =>                                              (* self.current = Pattern.value(self.source) *)
        let '(o, s') := value f source in obind o (fun v => Yield (PChanged s' v))
    | CDiff, [source] =>
        let '(o, s') := value f source in obind o (fun v => Yield (PDiff s' v))
    | CSkipIf, [pattern; skip] => Yield (PSkipIf pattern skip)
    | CRound, input :: args => Yield (PMap input FRound args [])
    | CWrap, [pattern; AV mn; AV mx] => Yield (PWrap pattern mn mx)
    | CIndexOf, [l; i] => Yield (PIndexOf l i)
    | _, _ => Inexact                      (* constructor call outside the modelled domain *)
    end.

  Fixpoint init (fuel : nat) (e : pexpr) {struct fuel} : outcome pat :=
    match fuel with
    | O => OutOfFuel
    | S f =>
      match e with
      | ECall c args => obind (mapM (init_arg f) args) (fun args' => construct f c args')
      end
    end
  with init_arg (fuel : nat) (e : earg) {struct fuel} : outcome arg :=
    match fuel with
    | O => OutOfFuel
    | S f =>
      match e with
      | EV v => Yield (AV v)
      | EP e' => omap AP (init f e')
      | ET l => omap AT (mapM (init_arg f) l)
      | EL l => omap AL (mapM (init_arg f) l)
      | ED kv => omap AD (kwmapM (init_arg f) kv)
      end
    end.

  (** * Helpers of the Pattern base class *)
  Definition nextn (fuel : nat) (n : nat) (p : pat) : outcome (list val) * pat :=
    take (Yield []) (step fuel) n p.

  Definition all_ (fuel : nat) (m : nat) (p : pat) : outcome (list val) * pat :=
    let '(ovs, p') := take (Yield []) (step fuel) m p in
    match ovs with
    | Yield vs => match reset fuel p' with
                  | Yield p'' => (Yield vs, p'')
                  | o => (ocast o, p')
                  end
    | _ => (ovs, p')
    end.

  Definition len (fuel : nat) (p : pat) : outcome Z * pat :=
    let '(ovs, p') := all_ fuel LENGTH_MAX p in (omap (fun vs => zlen vs) ovs, p').

  (** copy.deepcopy of a tree is the tree *)
  Definition copy (p : pat) : pat := p.

  (** the first n results of repeated next(), whatever they are *)
  Fixpoint outputs (fuel : nat) (n : nat) (p : pat) : list (outcome val) * pat :=
    match n with
    | O => ([], p)
    | S n' => let '(o, p') := step fuel p in let '(os, p'') := outputs fuel n' p' in (o :: os, p'')
    end.
End Engine.

(* Pat/RefProofs3.v — closed forms of C10, third part: PConcatenate, and the classes whose constructor or __next__
   RESETS an operand (PReverse, PPingPong, PReset).  Same vocabulary as Pat/RefProofs.v / RefProofs2.v. *)
From Isobar Require Import Base.Prelude Pat.Val Pat.Syntax Pat.Step Pat.StepProofs Pat.Ref Pat.RefProofs Pat.FuelMono Pat.RefProofs2.
From Isobar Require Import Pat.IterProofs Pat.ResetProofs.
From Coq Require Import String QArith Qround.
Open Scope Z_scope.

Lemma py_index_mid {A} (pre : list A) x post : py_index (pre ++ x :: post) (Z.of_nat (List.length pre)) = Some x.
Proof.
  rewrite py_index_nat by (rewrite app_length; cbn; lia). rewrite nth_error_app2 by lia. rewrite Nat.sub_diag. reflexivity.
Qed.
Lemma update_nth_mid {A} (pre : list A) x y post : update_nth (List.length pre) y (pre ++ x :: post) = pre ++ y :: post.
Proof. induction pre as [|a pre IH]; [reflexivity|]. cbn. f_equal. exact IH. Qed.

Lemma skipn_nil_nth {A} (xs : list A) j : skipn j xs = [] -> nth_error xs j = None.
Proof.
  intro H. apply nth_error_None. pose proof (firstn_skipn j xs) as E. rewrite H, app_nil_r in E.
  rewrite <- E at 1. rewrite firstn_length. apply Nat.le_min_l.
Qed.

Section Den3.
  Variable binop : op -> val -> val -> outcome val.
  Variable LMAX : nat.
  Notation step := (step binop LMAX).
  Notation value := (value binop LMAX).
  Notation anext := (anext binop LMAX).
  Notation reset := (reset binop LMAX).
  Notation after := (after binop LMAX).
  Notation Den := (Den binop LMAX).

  (* ---------------------------------------------------------------------------------------------- *)
  (** * PConcatenate([p0, p1, ...]) over finite patterns: their values one after the other *)

  Lemma step_concatenate_eq f l pos :
    step (S f) (PConcatenate (AL l) pos) =
      match py_index l pos with
      | None => (Raise IndexError, PConcatenate (AL l) pos)
      | Some a =>
          let '(o, a') := anext f a in
          let l' := update_nth (py_index_pos l pos) a' l in
          match o with
          | Stop =>
              if pos <? zlen l - 1
              then step f (PConcatenate (AL l') (pos + 1))
              else (Stop, PConcatenate (AL l') pos)
          | _ => (o, PConcatenate (AL l') pos)
          end
      end.
  Proof. reflexivity. Qed.

  Section Concat.
    Variable f : nat.
    Definition DenFin (c : pat) (l : list val) : Prop := Den f c (Fin l).

    (* the object while it plays its (length pre)-th input: the inputs before it have ended *)
    Definition cstate (pre : list arg) (c : pat) (m : nat) (cs2 : list pat) : pat :=
      PConcatenate (AL (pre ++ AP (after f m c) :: map AP cs2)) (Z.of_nat (List.length pre)).

    Lemma concat_step : forall cs2 ls2, Forall2 DenFin cs2 ls2 ->
      forall pre c l m F, DenFin c l -> (f + List.length cs2 + 1 <= F)%nat ->
      exists pre' c' l' m' cs2' ls2',
        DenFin c' l' /\ Forall2 DenFin cs2' ls2' /\ (List.length cs2' <= List.length cs2)%nat /\
        match skipn m l ++ List.concat ls2 with
        | [] => step (S F) (cstate pre c m cs2) = (Stop, cstate pre' c' m' cs2') /\ skipn m' l' ++ List.concat ls2' = []
        | x :: r => step (S F) (cstate pre c m cs2) = (Yield x, cstate pre' c' m' cs2') /\ skipn m' l' ++ List.concat ls2' = r
        end.
    Proof.
      induction 1 as [|c2 l2 cs2 ls2 Hc2 Hrest IH]; intros pre c l m F Hc HF.
      - (* the last input *)
        unfold cstate. rewrite step_concatenate_eq, py_index_mid, py_index_pos_nat.
        destruct F as [|F]; [lia|]. rewrite (Den_anext_ge binop LMAX f F c (Fin l) m Hc ltac:(lia)), update_nth_mid.
        cbn [List.concat map]. rewrite app_nil_r.
        destruct (nth_error l m) as [v|] eqn:Ev.
        + rewrite (skipn_nth_cons l m v Ev). cbn [at_]. rewrite Ev.
          exists pre, c, l, (S m), [], []. split; [exact Hc|]. split; [constructor|]. split; [cbn; lia|].
          split; [reflexivity | cbn [List.concat]; rewrite app_nil_r; reflexivity].
        + pose proof Ev as Ev'. apply nth_error_None in Ev'. rewrite (skipn_all2 l Ev'). cbn [at_]. rewrite Ev.
          unfold zlen. rewrite app_length. cbn [List.length map].
          destruct (Z.of_nat (List.length pre) <? Z.of_nat (List.length pre + 1) - 1) eqn:E; [lia|].
          exists pre, c, l, (S m), [], []. split; [exact Hc|]. split; [constructor|]. split; [cbn; lia|].
          split; [reflexivity|]. rewrite (skipn_all2 l) by lia. reflexivity.
      - unfold cstate. rewrite step_concatenate_eq, py_index_mid, py_index_pos_nat.
        destruct F as [|F]; [cbn [List.length] in HF; lia|].
        rewrite (Den_anext_ge binop LMAX f F c (Fin l) m Hc ltac:(cbn [List.length] in HF; lia)), update_nth_mid.
        destruct (nth_error l m) as [v|] eqn:Ev.
        + rewrite (skipn_nth_cons l m v Ev). cbn [at_ app]. rewrite Ev.
          exists pre, c, l, (S m), (c2 :: cs2), (l2 :: ls2). split; [exact Hc|]. split; [constructor; assumption|]. split; [lia|].
          split; reflexivity.
        + pose proof Ev as Ev'. apply nth_error_None in Ev'. rewrite (skipn_all2 l Ev'). cbn [at_ app]. rewrite Ev.
          unfold zlen. rewrite app_length. cbn [List.length map].
          destruct (Z.of_nat (List.length pre) <? Z.of_nat (List.length pre + S (S (List.length (map AP cs2)))) - 1) eqn:E; [|lia].
          (* self.pos += 1; return next(self): the next input, untouched so far *)
          specialize (IH (pre ++ [AP (after f (S m) c)]) c2 l2 O F Hc2 ltac:(cbn [List.length] in HF; lia)).
          destruct IH as (pre' & c' & l' & m' & cs2' & ls2' & Hc' & Hf' & Hlen & Hres).
          unfold cstate in Hres. rewrite app_length in Hres. cbn [List.length after] in Hres.
          replace (Z.of_nat (List.length pre + 1)) with (Z.of_nat (List.length pre) + 1) in Hres by lia.
          rewrite <- app_assoc in Hres. cbn [app] in Hres. change (RefProofs.after binop LMAX f 0 c2) with c2 in Hres.
          cbn [List.concat map skipn]. cbn [skipn] in Hres.
          exists pre', c', l', m', cs2', ls2'. split; [exact Hc'|]. split; [exact Hf'|]. split; [cbn [List.length]; lia|].
          exact Hres.
    Qed.

    Theorem concatenate_den c0 l0 cs ls : DenFin c0 l0 -> Forall2 DenFin cs ls ->
      Den (S (f + List.length cs + 1)) (PConcatenate (AL (map AP (c0 :: cs))) 0) (Fin (ref_concatenate (l0 :: ls))).
    Proof.
      intros H0 Hcs. set (outl := ref_concatenate (l0 :: ls)).
      apply (Den_sim binop LMAX) with (R := fun j p => exists pre c l m cs2 ls2,
        p = cstate pre c m cs2 /\ DenFin c l /\ Forall2 DenFin cs2 ls2 /\ (List.length cs2 <= List.length cs)%nat /\
        skipn m l ++ List.concat ls2 = skipn j outl).
      - exists [], c0, l0, O, cs, ls. repeat split; try assumption; try lia.
      - intros j p (pre & c & l & m & cs2 & ls2 & -> & Hc & Hf & Hlen & Hrem).
        destruct (concat_step cs2 ls2 Hf pre c l m (f + List.length cs + 1) Hc ltac:(lia))
          as (pre' & c' & l' & m' & cs2' & ls2' & Hc' & Hf' & Hlen' & Hres).
        rewrite Hrem in Hres. destruct (skipn j outl) as [|x r] eqn:Ej.
        + destruct Hres as [E Hr]. rewrite E. cbn [fst snd at_]. rewrite (skipn_nil_nth outl j Ej). split; [reflexivity|].
          exists pre', c', l', m', cs2', ls2'. repeat split; try assumption; try lia. rewrite Hr. symmetry.
          apply skipn_all2. assert (Hn : nth_error outl j = None) by (apply skipn_nil_nth; exact Ej). apply nth_error_None in Hn. lia.
        + destruct Hres as [E Hr]. rewrite E. cbn [fst snd at_]. destruct (skipn_cons_at outl j x r Ej) as [Hx Hr2].
          rewrite Hx. split; [reflexivity|].
          exists pre', c', l', m', cs2', ls2'. repeat split; try assumption; try lia. rewrite Hr, Hr2. reflexivity.
    Qed.
  End Concat.

  (* ---------------------------------------------------------------------------------------------- *)
  (** * operands that are reset: "c is a new object, and reset() rewinds it from wherever it is" (that is what
        property C04 proves of the objects of its fragment: Pat/ResetProofs.v reset_run) *)
  Definition Resets (f : nat) (c : pat) : Prop := forall j, reset f (after f j c) = Yield c.

  Lemma Resets_ge f F c j : Resets f c -> (f <= F)%nat -> reset F (after f j c) = Yield c.
  Proof. intros H HF. rewrite (reset_fuel_mono binop LMAX f F) by (try exact HF; rewrite H; discriminate). apply H. Qed.

  (* every object of the fragment of property C04 that is as new (reset() leaves it as it is) is such an operand *)
  Lemma after_run f j : forall p, after f j p = run binop LMAX f j p.
  Proof. induction j as [|j IH]; intro p; [reflexivity|]. cbn [RefProofs.after run]. apply IH. Qed.
  Lemma Resets_rpat f c : rpat c -> reset f c = Yield c -> Resets f c.
  Proof. intros Hr H0 j. rewrite after_run, (reset_run binop LMAX f f j c Hr). exact H0. Qed.

  Section Drain.
    Variables (f : nat) (c : pat) (l : list val).
    Hypothesis Hc : Den f c (Fin l).

    (* all() / list(): next() until StopIteration, at most m times *)
    Lemma take_some F : (f <= F)%nat -> forall m j, exists vs k, take (Yield []) (step F) m (after f j c) = (Yield vs, after f k c).
    Proof.
      intros HF. induction m as [|m IH]; intros j; [exists [], j; reflexivity|].
      cbn [take]. rewrite (Den_step_ge binop LMAX f F c (Fin l) j Hc HF).
      destruct (at_cases (Fin l) j) as [[v E]|E]; rewrite E.
      - destruct (IH (S j)) as (vs & k & Et). rewrite Et. exists (v :: vs), k. reflexivity.
      - exists [], (S j). reflexivity.
    Qed.

    Lemma take_all ex F : (f <= F)%nat -> forall m j, (j <= List.length l)%nat -> (List.length l - j < m)%nat ->
      take ex (step F) m (after f j c) = (Yield (skipn j l), after f (S (List.length l)) c).
    Proof.
      intros HF. induction m as [|m IH]; intros j Hj Hm; [lia|].
      cbn [take]. rewrite (Den_step_ge binop LMAX f F c (Fin l) j Hc HF).
      destruct (nth_error l j) as [v|] eqn:Ev.
      - cbn [at_]. rewrite Ev. assert (j < List.length l)%nat by (apply nth_error_Some; congruence).
        rewrite IH by lia. cbn [omap obind]. rewrite (skipn_nth_cons l j v Ev). reflexivity.
      - cbn [at_]. rewrite Ev. apply nth_error_None in Ev. assert (j = List.length l) by lia. subst j.
        rewrite skipn_all. reflexivity.
    Qed.

    Lemma take_exact F : (f <= F)%nat -> forall m j, (j <= List.length l)%nat -> (List.length l - j <= m)%nat ->
      exists k, take (Yield []) (step F) m (after f j c) = (Yield (skipn j l), after f k c).
    Proof.
      intros HF. induction m as [|m IH]; intros j Hj Hm.
      - assert (j = List.length l) by lia. subst j. exists (List.length l). cbn [take]. rewrite skipn_all. reflexivity.
      - cbn [take]. rewrite (Den_step_ge binop LMAX f F c (Fin l) j Hc HF).
        destruct (nth_error l j) as [v|] eqn:Ev.
        + cbn [at_]. rewrite Ev. assert (j < List.length l)%nat by (apply nth_error_Some; congruence).
          destruct (IH (S j) ltac:(lia) ltac:(lia)) as (k & Et). rewrite Et. cbn [omap obind].
          rewrite (skipn_nth_cons l j v Ev). exists k. reflexivity.
        + cbn [at_]. rewrite Ev. apply nth_error_None in Ev. rewrite (skipn_all2 l Ev). exists (S j). reflexivity.
    Qed.
  End Drain.

  (* ---------------------------------------------------------------------------------------------- *)
  (** * PReverse(p): the values of p in reverse order.  __init__ calls reset(): list(p) — which first asks len(p)
        (p.all(), which drains and resets p) and then drains p — reversed *)

  Lemma step_reverse_eq f input values :
    step (S f) (PReverse input values) =
      match values with
      | v :: r => (Yield v, PReverse input r)
      | [] => (Stop, PReverse input values)
      end.
  Proof. reflexivity. Qed.

  Lemma reverse_vals_den g input : forall vs, Den (S g) (PReverse input vs) (Fin vs).
  Proof.
    intro vs. apply (Den_sim binop LMAX) with (R := fun j p => p = PReverse input (skipn j vs)); [reflexivity|].
    intros j p ->. rewrite step_reverse_eq. destruct (skipn j vs) as [|x r] eqn:E.
    - cbn [fst snd at_]. rewrite (skipn_nil_nth vs j E). split; [reflexivity|].
      f_equal. symmetry. apply skipn_all2. apply skipn_nil_nth in E. apply nth_error_None in E. lia.
    - destruct (skipn_cons_at vs j x r E) as [Hx Hr]. cbn [fst snd at_]. rewrite Hx, Hr. split; reflexivity.
  Qed.

  Lemma reset_reverse_eq F input values :
    reset (S F) (PReverse input values) =
      obind (reset_field (reset F) input) (fun i1 =>
        match i1 with
        | AP _ =>
            let '(olen, i2) := aall binop LMAX F LMAX i1 in
            let olen' := match olen with Raise TypeError => Yield [] | _ => olen end in
            obind olen' (fun _ =>
            match i2 with
            | AP p2 =>
                let '(ovs, p3) := take OutOfFuel (step F) F p2 in
                obind ovs (fun vs => Yield (PReverse (AP p3) (rev vs)))
            | _ => Inexact
            end)
        | AV (VList vs) | AV (VTup vs) => Yield (PReverse i1 (rev vs))
        | AV (VStr _) | AV (VDict _) | AL _ | AT _ | AD _ => Inexact
        | AV _ => Raise TypeError
        end).
  Proof. reflexivity. Qed.

  (* the constructor PReverse(c) succeeds and the object it makes denotes the reversed values: any fuel F above the
     operand's fuel and the number of values *)
  Theorem reverse_den f c l F : Den f c (Fin l) -> Resets f c -> (f + List.length l + 3 <= F)%nat ->
    exists p, construct binop LMAX F CReverse [AP c] = Yield p /\ forall g, Den (S g) p (Fin (ref_reverse l)).
  Proof.
    intros Hc Hr HF. cbn [construct]. destruct F as [|F]; [lia|]. rewrite reset_reverse_eq.
    cbn [reset_field reset_value]. change c with (after f 0 c) at 1. rewrite (Resets_ge f F c 0 Hr ltac:(lia)). cbn [omap obind].
    destruct F as [|F2]; [lia|]. rewrite (aall_unfold binop LMAX).
    destruct (take_some f c l Hc F2 ltac:(lia) LMAX 0) as (vs & k & Et). cbn [after] in Et. rewrite Et.
    rewrite (Resets_ge f F2 c k Hr ltac:(lia)). cbn [obind].
    pose proof (take_all f c l Hc OutOfFuel (S F2) ltac:(lia) (S F2) 0 ltac:(lia) ltac:(lia)) as Ea. cbn [after skipn] in Ea.
    rewrite Ea. cbn [obind].
    eexists. split; [reflexivity|]. intro g. apply reverse_vals_den.
  Qed.

  (* ---------------------------------------------------------------------------------------------- *)
  (** * runs: the next outputs of an object are the values xs, and then it is the object p' *)
  Inductive Run (f : nat) : pat -> list val -> pat -> Prop :=
  | Run_nil p : Run f p [] p
  | Run_cons p x p1 xs p' : step f p = (Yield x, p1) -> Run f p1 xs p' -> Run f p (x :: xs) p'.

  Lemma Run_app f p xs p1 ys p2 : Run f p xs p1 -> Run f p1 ys p2 -> Run f p (xs ++ ys) p2.
  Proof. induction 1 as [|p x q xs p' E _ IH]; intro H2; [exact H2|]. cbn [app]. econstructor; [exact E | apply IH; exact H2]. Qed.

  Lemma Run_Den f p xs p' r : Run f p xs p' -> Den f p' (Fin r) -> Den f p (Fin (xs ++ r)).
  Proof.
    induction 1 as [|p x q xs p' E _ IH]; intro H2; [exact H2|]. specialize (IH H2). intros [|j].
    - unfold out. cbn [after]. rewrite E. reflexivity.
    - unfold out. cbn [after]. rewrite E. cbn [snd]. specialize (IH j). unfold out in IH. rewrite IH. reflexivity.
  Qed.

  (* ---------------------------------------------------------------------------------------------- *)
  (** * PPingPong(p, count): forwards and back count times, ending on the first value.  __init__ calls reset():
        self.pattern.reset(); self.values = self.pattern.all() *)

  Lemma step_pingpong_eq f pattern count values pos dir rpos :
    step (S f) (PPingPong pattern count values pos dir rpos) =
      (let p := PPingPong pattern count values pos dir rpos in
       match obind (if pos =? 1 then cmp OGe (VInt rpos) count else Yield false) (fun b => Yield (b || (pos >=? zlen values))) with
       | Yield true => (Stop, p)
       | Yield false =>
           match py_index values pos with
           | None => (Raise IndexError, p)
           | Some v =>
               let pos1 := pos + dir in
               if pos1 =? zlen values - 1 then (Yield v, PPingPong pattern count values pos1 (-1) rpos)
               else if pos1 =? 0 then (Yield v, PPingPong pattern count values pos1 1 (rpos + 1))
               else (Yield v, PPingPong pattern count values pos1 dir rpos)
           end
       | oc => (ocast oc, p)
       end).
  Proof. reflexivity. Qed.

  Section PingPong.
    Variables (g : nat) (a : arg) (count : nat) (l : list val).
    Let L := List.length l.
    Hypothesis HL : (2 <= L)%nat.
    Definition pp (pos : nat) (dir : Z) (q : nat) : pat :=
      PPingPong a (VInt (Z.of_nat count)) l (Z.of_nat pos) dir (Z.of_nat q).

    (* upwards from pos, k steps, not beyond the last index *)
    Lemma pp_up q : (q < count)%nat -> forall k pos, (pos + k <= L - 1)%nat -> (0 < k)%nat ->
      Run (S g) (pp pos 1 q) (firstn k (skipn pos l)) (pp (pos + k) (if (pos + k =? L - 1)%nat then -1 else 1) q).
    Proof.
      intros Hq. induction k as [|k IH]; intros pos Hk Hk0; [lia|].
      destruct (nth_error l pos) as [v|] eqn:Ev; [|apply nth_error_None in Ev; fold L in Ev; lia].
      rewrite (skipn_nth_cons l pos v Ev). cbn [firstn].
      assert (Est : step (S g) (pp pos 1 q) = (Yield v, pp (S pos) (if (S pos =? L - 1)%nat then -1 else 1) q)).
      { unfold pp. rewrite step_pingpong_eq. cbv zeta.
        assert (T : obind (if Z.of_nat pos =? 1 then cmp OGe (VInt (Z.of_nat q)) (VInt (Z.of_nat count)) else Yield false)
                      (fun b => Yield (b || (Z.of_nat pos >=? zlen l))) = Yield false).
        { unfold zlen. fold L. destruct (Z.of_nat pos =? 1).
          - rewrite cmp_ge_int. cbn [obind]. destruct (Z.of_nat count <=? Z.of_nat q) eqn:E; [lia|]. cbn [orb]. f_equal. rewrite Z.geb_leb. apply Z.leb_gt. lia.
          - cbn [obind orb]. f_equal. rewrite Z.geb_leb. apply Z.leb_gt. lia. }
        rewrite T. rewrite py_index_nat by (fold L; lia). rewrite Ev. unfold zlen. fold L.
        destruct (S pos =? L - 1)%nat eqn:E1.
        - apply Nat.eqb_eq in E1. destruct (Z.of_nat pos + 1 =? Z.of_nat L - 1) eqn:E2; [|lia]. do 2 f_equal. lia.
        - apply Nat.eqb_neq in E1. destruct (Z.of_nat pos + 1 =? Z.of_nat L - 1) eqn:E2; [lia|].
          destruct (Z.of_nat pos + 1 =? 0) eqn:E3; [lia|]. do 2 f_equal. lia. }
      destruct k as [|k].
      - cbn [firstn]. replace (pos + 1)%nat with (S pos) by lia. econstructor; [exact Est | constructor].
      - econstructor; [exact Est|]. replace (pos + S (S k))%nat with (S pos + S k)%nat by lia.
        assert (E1 : (S pos =? L - 1)%nat = false) by (apply Nat.eqb_neq; lia). rewrite E1.
        apply IH; lia.
    Qed.

    (* downwards from pos, k steps, not beyond index 0: arriving there starts the next round *)
    Lemma pp_down q : (q < count)%nat -> forall k pos, (k <= pos)%nat -> (pos <= L - 1)%nat -> (0 < k)%nat ->
      Run (S g) (pp pos (-1) q) (rev (firstn k (skipn (pos + 1 - k) l)))
          (if (pos - k =? 0)%nat then pp 0 1 (S q) else pp (pos - k) (-1) q).
    Proof.
      intros Hq. induction k as [|k IH]; intros pos Hk Hp Hk0; [lia|].
      destruct (nth_error l pos) as [v|] eqn:Ev; [|apply nth_error_None in Ev; fold L in Ev; lia].
      assert (Est : step (S g) (pp pos (-1) q) = (Yield v, if (pos - 1 =? 0)%nat then pp 0 1 (S q) else pp (pos - 1) (-1) q)).
      { unfold pp. rewrite step_pingpong_eq. cbv zeta.
        assert (T : obind (if Z.of_nat pos =? 1 then cmp OGe (VInt (Z.of_nat q)) (VInt (Z.of_nat count)) else Yield false)
                      (fun b => Yield (b || (Z.of_nat pos >=? zlen l))) = Yield false).
        { unfold zlen. fold L. destruct (Z.of_nat pos =? 1).
          - rewrite cmp_ge_int. cbn [obind]. destruct (Z.of_nat count <=? Z.of_nat q) eqn:E; [lia|]. cbn [orb]. f_equal. rewrite Z.geb_leb. apply Z.leb_gt. lia.
          - cbn [obind orb]. f_equal. rewrite Z.geb_leb. apply Z.leb_gt. lia. }
        rewrite T. rewrite py_index_nat by (fold L; lia). rewrite Ev. unfold zlen. fold L.
        destruct (Z.of_nat pos + -1 =? Z.of_nat L - 1) eqn:E2; [lia|].
        destruct (pos - 1 =? 0)%nat eqn:E1.
        - apply Nat.eqb_eq in E1. destruct (Z.of_nat pos + -1 =? 0) eqn:E3; [|lia]. do 2 f_equal; lia.
        - apply Nat.eqb_neq in E1. destruct (Z.of_nat pos + -1 =? 0) eqn:E3; [lia|]. do 2 f_equal. lia. }
      (* the values: l[pos], then the k values below it *)
      assert (Esplit : firstn (S k) (skipn (pos + 1 - S k) l) = firstn k (skipn (pos - k) l) ++ [v]).
      { replace (pos + 1 - S k)%nat with (pos - k)%nat by lia. symmetry. apply firstn_snoc_nth.
        rewrite nth_error_skipn'. replace (pos - k + k)%nat with pos by lia. exact Ev. }
      rewrite Esplit, rev_app_distr. cbn [rev app].
      destruct k as [|k].
      - cbn [firstn rev]. replace (pos - 1 =? 0)%nat with (pos - 1 =? 0)%nat in Est by reflexivity.
        econstructor; [exact Est | constructor].
      - econstructor; [exact Est|].
        assert (E1 : (pos - 1 =? 0)%nat = false) by (apply Nat.eqb_neq; lia). rewrite E1.
        replace (pos - S (S k))%nat with (pos - 1 - S k)%nat by lia.
        replace (pos - S k)%nat with (pos - 1 + 1 - S k)%nat by lia.
        apply IH; lia.
    Qed.

    Definition cyc : list val := l ++ tl (rev (tl l)).

    Lemma cyc_eq : cyc = firstn (L - 1) l ++ rev (tl l).
    Proof.
      unfold cyc. destruct l as [|x0 t] eqn:El; [cbn in L; lia|]. cbn [tl].
      assert (Ht : t <> []) by (destruct t; [cbn in L; lia | discriminate]).
      destruct (exists_last Ht) as (t' & y & ->). rewrite rev_app_distr. cbn [rev app tl].
      replace (L - 1)%nat with (List.length (x0 :: t')) by (unfold L; cbn [List.length]; rewrite app_length; cbn; lia).
      change (x0 :: t' ++ [y]) with ((x0 :: t') ++ [y]). rewrite firstn_app, firstn_all, Nat.sub_diag. cbn [firstn].
      rewrite app_nil_r, <- app_assoc. reflexivity.
    Qed.

    (* one round *)
    Lemma pp_round q : (q < count)%nat -> Run (S g) (pp 0 1 q) cyc (pp 0 1 (S q)).
    Proof.
      intros Hq. rewrite cyc_eq.
      pose proof (pp_up q Hq (L - 1) 0 ltac:(lia) ltac:(lia)) as Hu. cbn [Nat.add skipn] in Hu.
      rewrite Nat.eqb_refl in Hu.
      pose proof (pp_down q Hq (L - 1) (L - 1) ltac:(lia) ltac:(lia) ltac:(lia)) as Hd.
      replace (L - 1 + 1 - (L - 1))%nat with 1%nat in Hd by lia. rewrite Nat.sub_diag in Hd. cbn [Nat.eqb] in Hd.
      assert (Et : firstn (L - 1) (skipn 1 l) = tl l).
      { destruct l as [|x0 t]; [reflexivity|]. cbn [skipn tl]. apply firstn_all2. unfold L. cbn [List.length]. lia. }
      rewrite Et in Hd. eapply Run_app; eassumption.
    Qed.

    Lemma pp_rounds : forall n q, (q + n <= count)%nat -> Run (S g) (pp 0 1 q) (repeat_list cyc n) (pp 0 1 (q + n)).
    Proof.
      induction n as [|n IH]; intros q Hq.
      - rewrite Nat.add_0_r. constructor.
      - cbn [repeat_list]. eapply Run_app; [apply pp_round; lia|]. replace (q + S n)%nat with (S q + n)%nat by lia. apply IH. lia.
    Qed.

    (* after the last round: the first value once more, then the end *)
    Lemma pp_stopped d : Den (S g) (pp 1 d count) (Fin []).
    Proof.
      apply (Den_sim binop LMAX) with (R := fun _ p => p = pp 1 d count); [reflexivity|].
      intros j p ->. unfold pp. rewrite step_pingpong_eq. cbv zeta. cbn [Z.of_nat Pos.of_succ_nat Z.eqb Pos.eqb].
      rewrite cmp_ge_int. rewrite Z.leb_refl. cbn [obind orb fst snd at_]. destruct j; split; reflexivity.
    Qed.

    Lemma pp_last x : nth_error l 0 = Some x -> exists d, Run (S g) (pp 0 1 count) [x] (pp 1 d count).
    Proof.
      intros Ex. exists (if (1 =? L - 1)%nat then -1 else 1). econstructor; [|constructor].
      unfold pp. rewrite step_pingpong_eq. cbv zeta. cbn [Z.of_nat Z.eqb obind orb].
      assert (T : (0 >=? zlen l) = false) by (unfold zlen; fold L; rewrite Z.geb_leb; apply Z.leb_gt; lia).
      rewrite T. change 0 with (Z.of_nat 0) at 1. rewrite py_index_nat by (fold L; lia). rewrite Ex.
      unfold zlen. fold L. cbn [Z.add].
      destruct (1 =? L - 1)%nat eqn:E1.
      - apply Nat.eqb_eq in E1. destruct (1 =? Z.of_nat L - 1) eqn:E2; [reflexivity | lia].
      - apply Nat.eqb_neq in E1. destruct (1 =? Z.of_nat L - 1) eqn:E2; [lia|]. reflexivity.
    Qed.

    Lemma pp_den : Den (S g) (pp 0 1 0) (Fin (ref_pingpong count l)).
    Proof.
      destruct (nth_error l 0) as [x|] eqn:Ex; [|apply nth_error_None in Ex; fold L in Ex; lia].
      destruct (pp_last x Ex) as [d Hl].
      pose proof (pp_rounds count 0 ltac:(lia)) as Hr. cbn [Nat.add] in Hr.
      pose proof (Run_Den (S g) _ _ _ [] (Run_app _ _ _ _ _ _ Hr Hl) (pp_stopped d)) as H.
      rewrite app_nil_r in H. unfold cyc in H.
      assert (E : ref_pingpong count l = repeat_list (l ++ tl (rev (tl l))) count ++ [x]).
      { unfold ref_pingpong. destruct l as [|x0 [|x1 t]] eqn:El; try (cbn in L; lia). cbn in Ex. inversion Ex. reflexivity. }
      rewrite E. exact H.
    Qed.
  End PingPong.

  (* an input of fewer than two values is played as it is *)
  Lemma pp_short_den g a count l : (List.length l <= 1)%nat ->
    Den (S g) (PPingPong a (VInt (Z.of_nat count)) l 0 1 0) (Fin (ref_pingpong count l)).
  Proof.
    intros HL. destruct l as [|x [|y t]]; [| |cbn in HL; lia].
    - apply (Den_sim binop LMAX) with (R := fun _ p => p = PPingPong a (VInt (Z.of_nat count)) [] 0 1 0); [reflexivity|].
      intros j p ->. rewrite step_pingpong_eq. cbn. destruct j; split; reflexivity.
    - apply (Den_sim binop LMAX) with (R := fun j p => (j = O /\ p = PPingPong a (VInt (Z.of_nat count)) [x] 0 1 0) \/
                                                     ((0 < j)%nat /\ p = PPingPong a (VInt (Z.of_nat count)) [x] 1 1 0)).
      + left. split; reflexivity.
      + intros j p [[-> ->]|[Hj ->]]; rewrite step_pingpong_eq.
        * cbn. split; [reflexivity|]. right. split; [lia | reflexivity].
        * cbv zeta. cbn [Z.eqb Pos.eqb]. rewrite cmp_ge_int. destruct (Z.of_nat count <=? 0); cbn [obind orb zlen List.length Z.of_nat Pos.of_succ_nat Z.geb Z.compare Pos.compare Pos.compare_cont fst snd];
            (split; [destruct j as [|[|j]]; [lia | reflexivity | reflexivity] | right; split; [lia | reflexivity]]).
  Qed.

  Lemma reset_pingpong_eq F pattern count values pos dir rpos :
    reset (S F) (PPingPong pattern count values pos dir rpos) =
      obind (reset_field (reset F) pattern) (fun p1 =>
      obind (areset_strict binop LMAX F p1) (fun p2 =>
      let '(ovs, p3) := aall binop LMAX F LMAX p2 in
      obind ovs (fun vs => Yield (PPingPong p3 count vs 0 1 0)))).
  Proof. reflexivity. Qed.

  (* the constructor PPingPong(c, count) succeeds (the input has at most Pattern.LENGTH_MAX values) and the object
     denotes the closed form *)
  Theorem pingpong_den f c l count F : Den f c (Fin l) -> Resets f c -> (List.length l <= LMAX)%nat -> (f + 3 <= F)%nat ->
    exists p, construct binop LMAX F CPingPong [AP c; AV (VInt (Z.of_nat count))] = Yield p /\
              forall g, Den (S g) p (Fin (ref_pingpong count l)).
  Proof.
    intros Hc Hr HL HF. cbn [construct]. destruct F as [|F]; [lia|]. rewrite reset_pingpong_eq.
    cbn [reset_field reset_value]. change c with (after f 0 c) at 1. rewrite (Resets_ge f F c 0 Hr ltac:(lia)). cbn [omap obind].
    destruct F as [|F2]; [lia|]. rewrite (areset_strict_unfold binop LMAX).
    change c with (after f 0 c) at 1. rewrite (Resets_ge f F2 c 0 Hr ltac:(lia)). cbn [omap obind].
    rewrite (aall_unfold binop LMAX).
    destruct (take_exact f c l Hc F2 ltac:(lia) LMAX 0 ltac:(lia) ltac:(lia)) as (k & Et). cbn [after skipn] in Et. rewrite Et.
    rewrite (Resets_ge f F2 c k Hr ltac:(lia)). cbn [obind].
    eexists. split; [reflexivity|]. intro g.
    destruct (Nat.le_gt_cases (List.length l) 1) as [Hs|Hs].
    - apply pp_short_den. exact Hs.
    - apply (pp_den g (AP c) count l Hs).
  Qed.

  (* ---------------------------------------------------------------------------------------------- *)
  (** * PReset(p, trigger): p, restarted whenever the trigger is positive; ends with the trigger.
        Output j is value number (ridx trigger j) of p, where the index restarts at 0 on every positive trigger. *)
  Definition fire (v : val) : bool := match v with VInt t => 0 <? t | _ => false end.
  Fixpoint ridx (st : sem) (j : nat) : nat :=
    match j with
    | O => O
    | S j' => match at_ st (S j') with Yield v => if fire v then O else S (ridx st j') | _ => ridx st j' end
    end.

  Lemma step_reset_eq f pattern trigger :
    step (S f) (PReset pattern trigger) =
      (let '(ot, trigger') := anext f trigger in
       match ot with
       | Yield vt =>
           match (if is_none vt then Yield false else cmp OGt vt (VInt 0)) with
           | Yield fire =>
               let opat := if fire then areset_strict binop LMAX f pattern else Yield pattern in
               match opat with
               | Yield pattern1 =>
                   let '(o, pattern2) := anext f pattern1 in
                   (o, PReset pattern2 trigger')
               | o => (ocast o, PReset pattern trigger')
               end
           | oc => (ocast oc, PReset pattern trigger')
           end
       | _ => (ot, PReset pattern trigger')
       end).
  Proof. reflexivity. Qed.

  Theorem reset_out f c s ct st : Den f c s -> Resets f c -> Den f ct st ->
    (forall j v, at_ st j = Yield v -> v = VNone \/ exists t, v = VInt t) ->
    forall j, out binop LMAX (S (S f)) j (PReset (AP c) (AP ct)) =
              match at_ st j with Yield _ => at_ s (ridx st j) | o => o end.
  Proof.
    intros Hc Hr Ht Hv.
    apply (Out_sim binop LMAX) with (R := fun j p => exists n,
      p = PReset (AP (after f n c)) (AP (after f j ct)) /\ (j = O -> n = O) /\
      (forall j', j = S j' -> (exists v, at_ st j' = Yield v) -> n = S (ridx st j'))).
    - exists O. split; [reflexivity|]. split; [reflexivity|]. intros j' E; discriminate.
    - intros j p (n & -> & Hn0 & HnS). rewrite step_reset_eq, (Den_anext_ge binop LMAX f f ct st j Ht (le_n _)).
      destruct (at_cases st j) as [[vt Evt]|Evt]; rewrite Evt.
      + (* the index the value is read at *)
        assert (Hk : (if fire vt then O else n) = ridx st j).
        { destruct j as [|j'].
          - rewrite (Hn0 eq_refl). cbn [ridx]. destruct (fire vt); reflexivity.
          - cbn [ridx]. rewrite Evt. destruct (fire vt); [reflexivity|]. apply HnS; [reflexivity|].
            destruct (at_cases st j') as [[v E]|E]; [eexists; exact E|].
            rewrite (at_stop_mono st j' (S j') ltac:(lia) E) in Evt. discriminate. }
        assert (Hfire : (if is_none vt then Yield false else cmp OGt vt (VInt 0)) = Yield (fire vt)).
        { destruct (Hv j vt Evt) as [-> | [t ->]]; [reflexivity|]. cbn [is_none fire]. apply cmp_gt_int. }
        rewrite Hfire. destruct (fire vt) eqn:Ef.
        * rewrite (areset_strict_unfold binop LMAX), (Hr n). cbn [omap obind].
          pose proof (Den_anext_ge binop LMAX f f c s 0 Hc (le_n _)) as Ea. cbn [RefProofs.after] in Ea. rewrite Ea. rewrite <- Hk.
          cbn [fst snd]. split; [reflexivity|]. exists 1%nat. split; [reflexivity|]. split; [discriminate|].
          intros j' E _. inversion E; subst j'. rewrite <- Hk. reflexivity.
        * cbv beta iota zeta. rewrite (Den_anext_ge binop LMAX f f c s n Hc (le_n _)). rewrite <- Hk. cbn [fst snd]. split; [reflexivity|].
          exists (S n). split; [reflexivity|]. split; [discriminate|].
          intros j' E _. inversion E; subst j'. rewrite <- Hk. reflexivity.
      + cbn [fst snd]. split; [reflexivity|]. exists n. split; [reflexivity|]. split; [discriminate|].
        intros j' E [v Ev]. inversion E; subst j'. congruence.
  Qed.

  (* over an endless p: a denotation — as long as the trigger lasts *)
  Definition sem_reset (g : nat -> val) (st : sem) : sem :=
    match st with
    | Fin lt => Fin (map (fun j => g (ridx st j)) (seq 0 (List.length lt)))
    | Inf _ => Inf (fun j => g (ridx st j))
    end.

  Theorem reset_den f c g ct st : Den f c (Inf g) -> Resets f c -> Den f ct st ->
    (forall j v, at_ st j = Yield v -> v = VNone \/ exists t, v = VInt t) ->
    Den (S (S f)) (PReset (AP c) (AP ct)) (sem_reset g st).
  Proof.
    intros Hc Hr Ht Hv j. rewrite (reset_out f c (Inf g) ct st Hc Hr Ht Hv j).
    destruct st as [lt|gt]; cbn [sem_reset at_].
    - rewrite nth_error_map. destruct (nth_error lt j) eqn:E.
      + assert (j < List.length lt)%nat by (apply nth_error_Some; congruence). rewrite nth_error_seq' by assumption. reflexivity.
      + apply nth_error_None in E. assert (H : nth_error (seq 0 (List.length lt)) j = None) by (apply nth_error_None; rewrite seq_length; exact E).
        rewrite H. reflexivity.
    - reflexivity.
  Qed.
End Den3.

(* Pat/StepTonalSrc.v — the step function of Pat/TonalStreams.v (the tonal classes over parameter streams, property C10)
   agrees with the __next__ bodies GENERATED FROM THE SOURCE TEXT of isobar/pattern/tonal.py (harness/gen_tables_steptonal.py
   -> Generated/TablesSteptonal.v on every run; translation rules: docs/TRANSLATOR.md).

     tstep binop LMAX f (mkT <class> a b) = src_<Class>_next Val.binop (value binop LMAX) (anext binop LMAX) f a b

   The bodies call methods of Scale / Key objects (`note in key`, `key.nearest_note(note)`, `scale[degree]`).  In the generated
   terms these are the functions of Pat/TonalSrcLib.v, which decode the object and run the method body translated from
   isobar/key.py / isobar/scale.py (Generated/TablesTonal.v); Tonal/KeySrc.v ties those bodies to Tonal/Key.v, and the lemmas
   below use exactly these ties (src_key_contains_is, src_key_nearest_note_is, src_scale_get_is).  So the chain is
   tonal.py body -> (generated) -> key.py / scale.py bodies -> (generated, KeySrc) -> Tonal/Key.v -> TonalStreams.tonal_h.

   PDegree: `if degree is None: return None` does not look at the scale, whereas the model vouches for nothing ([Inexact])
   when the parameter value is not a well-formed scale.  The tie for PDegree therefore carries the hypothesis that
   Pattern.value(self.scale) returns an encoded scale of the documented domain (the other two classes consult the key in
   every case and need no hypothesis). *)
From Isobar Require Import Base.Prelude Pat.Val Pat.Syntax Pat.Step Pat.SrcLib Pat.Ref Tonal.Key Tonal.KeyProofs Pat.TonalStreams.
From Isobar Require Import Generated.TablesTonal Tonal.KeySrc Pat.TonalSrcLib Generated.TablesSteptonal.
From Coq Require Import String QArith.
Open Scope Z_scope.

Section TieTonal.
  Variable binop : op -> val -> val -> outcome val.
  Variable LMAX : nat.
  Notation value := (value binop LMAX).
  Notation anext := (anext binop LMAX).
  Notation tstep := (tstep binop LMAX).

  Lemma PFilterByKey_next_src f a b :
    tstep f (mkT TFilterByKey a b) = src_PFilterByKey_next Val.binop value anext f a b.
  Proof.
    unfold TonalStreams.tstep, src_PFilterByKey_next, tonal_comb, tonal_ok, tonal_h, m_key_contains. cbn [t_in t_par t_cls].
    destruct (value f a) as [ox a']. destruct ox as [x| | | |]; try reflexivity.
    destruct (value f b) as [op_ b']. destruct op_ as [p| | | |]; try reflexivity.
    destruct (val_key p) as [k|]; [|reflexivity]. destruct (scale_ok (kscale k)); [|reflexivity].
    destruct x; try reflexivity; rewrite ?src_key_contains_is; cbn [key_contains_opt andb]; try reflexivity.
    match goal with |- context [key_contains ?k ?z] => destruct (key_contains k z) end; reflexivity.
  Qed.

  Lemma PNearestNoteInKey_next_src f a b :
    tstep f (mkT TNearestNoteInKey a b) = src_PNearestNoteInKey_next Val.binop value anext f a b.
  Proof.
    unfold TonalStreams.tstep, src_PNearestNoteInKey_next, tonal_comb, tonal_ok, tonal_h, m_key_nearest_note. cbn [t_in t_par t_cls].
    destruct (value f a) as [ox a']. destruct ox as [x| | | |]; try reflexivity.
    destruct (value f b) as [op_ b']. destruct op_ as [p| | | |]; try reflexivity.
    destruct (val_key p) as [k|]; [|reflexivity]. destruct (scale_ok (kscale k)); [|reflexivity].
    destruct x; try reflexivity; rewrite ?src_key_contains_is, ?src_key_nearest_note_is; reflexivity.
  Qed.

  (* tuple(scale[d] for d in degree) on a tuple of values *)
  Lemma degree_tuple_src p s : val_scale p = Some s -> scale_ok s = true -> forall ds,
    mapM (m_scale_getitem p) ds =
    match ints_of ds with Some zs => Yield (map (fun d => VInt (scale_get s d)) zs) | None => Inexact end.
  Proof.
    intros Hp Hs. induction ds as [|d ds IH]; [reflexivity|].
    cbn [mapM ints_of]. destruct d; unfold m_scale_getitem at 1; rewrite Hp, Hs; try reflexivity.
    rewrite src_scale_get_is. cbn [option_map obind]. rewrite IH.
    destruct (ints_of ds); reflexivity.
  Qed.

  Definition scale_value (p : val) : Prop := exists s, val_scale p = Some s /\ scale_ok s = true.

  Lemma PDegree_next_src f a b :
    (forall p b', value f b = (Yield p, b') -> scale_value p) ->
    tstep f (mkT TDegree a b) = src_PDegree_next Val.binop value anext f a b.
  Proof.
    intro H.
    unfold TonalStreams.tstep, src_PDegree_next, tonal_comb, tonal_ok, tonal_h. cbn [t_in t_par t_cls].
    destruct (value f a) as [ox a']. destruct ox as [x| | | |]; try reflexivity.
    destruct (value f b) as [op_ b'] eqn:E. destruct op_ as [p| | | |]; try reflexivity.
    destruct (H _ _ eq_refl) as (s & Hp & Hs). rewrite Hp, Hs. cbn [andb].
    destruct x; cbn [is_none is_iterable]; try reflexivity;
      try (unfold m_scale_getitem; rewrite Hp, Hs, ?src_scale_get_is; reflexivity).
    unfold m_tuple_of. rewrite (degree_tuple_src p s Hp Hs). destruct (ints_of l); reflexivity.
  Qed.

  (** one call of __next__ as the source of tonal.py defines it *)
  Definition src_tstep (f : nat) (o : tobj) : outcome val * tobj :=
    match t_cls o with
    | TDegree => src_PDegree_next Val.binop value anext f (t_in o) (t_par o)
    | TFilterByKey => src_PFilterByKey_next Val.binop value anext f (t_in o) (t_par o)
    | TNearestNoteInKey => src_PNearestNoteInKey_next Val.binop value anext f (t_in o) (t_par o)
    end.
  Theorem src_tstep_is f o :
    (t_cls o = TDegree -> forall p b', value f (t_par o) = (Yield p, b') -> scale_value p) ->
    src_tstep f o = tstep f o.
  Proof.
    destruct o as [c a b]. unfold src_tstep. cbn [t_cls t_in t_par]. intro H. destruct c; symmetry;
      [apply PDegree_next_src; exact (H eq_refl) | apply PFilterByKey_next_src | apply PNearestNoteInKey_next_src].
  Qed.
End TieTonal.

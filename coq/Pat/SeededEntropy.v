(* Pat/SeededEntropy.v — seed() WITHOUT an argument (seed(None)) in the histories of Pat/Seeded.v.
   chance.py, PStochasticPattern.seed:
       if seed is None: seed = random.randint(0, sys.maxsize)      # module-level generator: the environment
       self._seed = seed
       self.rng.seed(self._seed)
   The module-level generator is environment: it enters as DATA, the list [ent] of the values it will hand out
   (any values, any length; an exhausted list hands out 0 - the theorems hold for every list).  An argument-less
   seed() takes the next value, STORES it and seeds the private generator with it: it is seed(s) for an s nobody
   outside the object knows.  No proofs here. *)
From Isobar Require Import Base.Prelude Pat.Chance Pat.Seeded.
Open Scope Z_scope.

Section Entropy.
  Variable R : Type.
  Variable r_seed : Z -> R.
  Variables St Cf : Type.
  Variable cls : sclass R St Cf.

  (** the operations of a history, seed() now with an optional argument *)
  Inductive eop := ENext | EReset | ESeed (s : option Z) | EConfig (c : Cf).

  (** one operation on (object, what the module-level generator will still hand out) *)
  Definition edo (i : kinst R St) (ent : list Z) (o : eop) : kinst R St * list Z * option res :=
    match o with
    | ENext => let (i', e) := kdo R r_seed cls i KNext in (i', ent, e)
    | EReset => let (i', e) := kdo R r_seed cls i KReset in (i', ent, e)
    | ESeed (Some s) => let (i', e) := kdo R r_seed cls i (KSeed s) in (i', ent, e)
    | ESeed None => let (i', e) := kdo R r_seed cls i (KSeed (hd 0 ent)) in (i', tl ent, e)
    | EConfig c => let (i', e) := kdo R r_seed cls i (KConfig c) in (i', ent, e)
    end.

  Fixpoint erun_st (i : kinst R St) (ent : list Z) (ops : list eop) : kinst R St * list Z * list res :=
    match ops with
    | [] => (i, ent, [])
    | o :: r => let '(i', ent', e) := edo i ent o in
                let '(i'', ent'', es) := erun_st i' ent' r in
                (i'', ent'', match e with Some x => x :: es | None => es end)
    end.
  Definition erun (i : kinst R St) (ent : list Z) (ops : list eop) : list res := snd (erun_st i ent ops).
  Definition eafter (i : kinst R St) (ent : list Z) (ops : list eop) : kinst R St := fst (fst (erun_st i ent ops)).
  Definition ent_left (i : kinst R St) (ent : list Z) (ops : list eop) : list Z := snd (fst (erun_st i ent ops)).

  (** the history with every argument-less seed() replaced by seed(the value the environment handed out) *)
  Fixpoint resolve (ent : list Z) (h : list eop) : list (kop Cf) :=
    match h with
    | [] => []
    | ENext :: r => KNext :: resolve ent r
    | EReset :: r => KReset :: resolve ent r
    | ESeed (Some s) :: r => KSeed s :: resolve ent r
    | ESeed None :: r => KSeed (hd 0 ent) :: resolve (tl ent) r
    | EConfig c :: r => KConfig c :: resolve ent r
    end.
  Fixpoint ent_after (ent : list Z) (h : list eop) : list Z :=
    match h with
    | [] => ent
    | ESeed None :: r => ent_after (tl ent) r
    | _ :: r => ent_after ent r
    end.
  (** next() and reset() only *)
  Definition inj_plain (o : kop Cf) : eop :=
    match o with KNext => ENext | KReset => EReset | KSeed s => ESeed (Some s) | KConfig c => EConfig c end.
End Entropy.
Arguments ENext {Cf}. Arguments EReset {Cf}. Arguments ESeed {Cf}. Arguments EConfig {Cf}.

(* Pat/TonalStreamsProofs.v — the tonal classes over parameter streams denote the pointwise closed form (Pat/TonalStreams.v). *)
From Isobar Require Import Base.Prelude Pat.Val Pat.Syntax Pat.Step Pat.Ref Pat.RefProofs Tonal.Key Pat.TonalStreams.
From Coq Require Import String.
Open Scope Z_scope.

Section Den.
  Variable binop : op -> val -> val -> outcome val.
  Variable LMAX : nat.
  Notation tstep := (tstep binop LMAX).
  Notation tafter := (tafter binop LMAX).
  Notation TDen := (TDen binop LMAX).
  Notation ADen := (ADen binop LMAX).
  Notation aafter := (aafter binop LMAX).

  Lemma tafter_S f j : forall o, tafter f (S j) o = snd (tstep f (tafter f j o)).
  Proof. induction j as [|j IH]; intro o; [reflexivity|]. cbn [TonalStreams.tafter] in *. rewrite IH. reflexivity. Qed.

  Lemma TDen_sim f o0 s (R : nat -> tobj -> Prop) :
    R O o0 -> (forall j o, R j o -> fst (tstep f o) = at_ s j /\ R (S j) (snd (tstep f o))) -> TDen f o0 s.
  Proof.
    intros H0 Hstep. assert (HR : forall j, R j (tafter f j o0)).
    { induction j as [|j IH]; [exact H0|]. rewrite tafter_S. apply Hstep. exact IH. }
    intro j. unfold tout. apply Hstep. apply HR.
  Qed.

  (** MAIN: the two inputs are ARBITRARY operands (patterns of any class and depth, or scalars) denoting the streams
      ins and pars; wherever the class is defined on the values that meet (tonal_ok), the object denotes the POINTWISE
      closed form: call j reads element j of BOTH streams - a rest in the main input does not hold the parameter back -
      and the object ends with the shorter input *)
  Theorem tonal_den f c a b ins pars : ADen f a ins -> ADen f b pars ->
    (forall j x p, at_ ins j = Yield x -> at_ pars j = Yield p -> tonal_ok c x p = true) ->
    TDen f (mkT c a b) (ref_tonal c ins pars).
  Proof.
    intros Ha Hb Hok. unfold ref_tonal.
    apply TDen_sim with (R := fun j o => exists jb, o = mkT c (aafter f j a) (aafter f jb b) /\
                                         (jb = j \/ ((jb <= j)%nat /\ at_ ins jb = Stop))).
    - exists O. split; [reflexivity|left; reflexivity].
    - intros j o (jb & -> & Hjb). unfold TonalStreams.tstep. cbn [t_in t_par t_cls].
      rewrite (ADen_step binop LMAX f a ins j Ha), (at_zip binop).
      destruct Hjb as [-> | [Hle Hs]].
      + destruct (at_cases ins j) as [[x E] | E]; rewrite E.
        * rewrite (ADen_step binop LMAX f b pars j Hb). destruct (at_cases pars j) as [[p E2] | E2]; rewrite E2; cbn [fst snd].
          -- split; [unfold tonal_comb; rewrite (Hok j x p E E2); reflexivity|]. exists (S j). split; [reflexivity|left; reflexivity].
          -- split; [reflexivity|]. exists (S j). split; [reflexivity|left; reflexivity].
        * cbn [fst snd]. split; [reflexivity|]. exists j. split; [reflexivity|right; split; [lia|exact E]].
      + rewrite (at_stop_mono ins jb j Hle Hs). cbn [fst snd]. split; [reflexivity|].
        exists jb. split; [reflexivity|right; split; [lia|exact Hs]].
  Qed.

  (** read off, index by index *)
  Lemma ref_tonal_at c ins pars j :
    at_ (ref_tonal c ins pars) j =
    match at_ ins j, at_ pars j with Yield x, Yield p => Yield (tonal_h c x p) | _, _ => Stop end.
  Proof. unfold ref_tonal. apply (at_zip binop). Qed.

  (* a rest in the main input yields a rest and the NEXT call reads the NEXT parameter all the same *)
  Corollary rest_does_not_shift f c a b ins pars j p : ADen f a ins -> ADen f b pars ->
    (forall j x p, at_ ins j = Yield x -> at_ pars j = Yield p -> tonal_ok c x p = true) ->
    at_ ins j = Yield VNone -> at_ pars j = Yield p ->
    tout binop LMAX f j (mkT c a b) = Yield VNone /\
    tout binop LMAX f (S j) (mkT c a b) =
      match at_ ins (S j), at_ pars (S j) with Yield x, Yield q => Yield (tonal_h c x q) | _, _ => Stop end.
  Proof.
    intros Ha Hb Hok E1 E2. pose proof (tonal_den f c a b ins pars Ha Hb Hok) as D.
    rewrite (D j), (D (S j)), !ref_tonal_at, E1, E2. split; [|reflexivity].
    destruct c; reflexivity.
  Qed.
End Den.

(** what the closed form says for the three classes on the values of their documented domain *)
Lemma tonal_h_degree d s : tonal_h TDegree (VInt d) (scale_val s) = VInt (scale_get s d).
Proof.
  cbn. assert (E : ints_of (map VInt (semis s)) = Some (semis s)).
  { induction (semis s) as [|z l IH]; [reflexivity|]. cbn. rewrite IH. reflexivity. }
  rewrite E. destruct s; reflexivity.
Qed.

(* Pat/Instances.v — SEVERAL INSTANCES of a pattern class alive together - constructed with equal or different arguments,
   copied, advanced and REWOUND (reset / all / len) at different moments - for the iterator-protocol and copy clauses of
   property C09 ("advancing either object never affects the other").

   Generic over the kind of object: anything whose constructor, next(), reset() and copy() are functions of the
   program text / the object alone.  The helpers are the base-class loops over next():
     nextn(n) / for      at most n calls, StopIteration ends the loop, another exception propagates
     all(m)              the same, then reset()
     len()               len(all(LENGTH_MAX))
   A world is the list of objects created so far; WNew p appends a newly constructed one, WCopy j a copy of object j,
   WOp i o applies helper / next / reset o to object i.  [alone] is one object on its own.  No proofs here. *)
From Isobar Require Import Base.Prelude Pat.Val.
Open Scope Z_scope.

Inductive oop := ONext | ONextN (n : nat) | OReset | OAll (m : nat) | OLen.

Section Instances.
  Variables Prog Obj : Type.
  Variable build : Prog -> option Obj.
  Variable onext : Obj -> outcome val * Obj.
  Variable oreset : Obj -> Obj.
  Variable ocopy : Obj -> Obj.
  Variable LENGTH_MAX : nat.

  Fixpoint otake (m : nat) (x : Obj) : outcome (list val) * Obj :=
    match m with
    | O => (Yield [], x)
    | S m' =>
        let '(o, x1) := onext x in
        match o with
        | Yield v => let '(os, x2) := otake m' x1 in (omap (cons v) os, x2)
        | Stop => (Yield [], x1)
        | _ => (ocast o, x1)
        end
    end.

  Definition oapply (x : Obj) (o : oop) : outcome val * Obj :=
    match o with
    | ONext => onext x
    | ONextN n => let '(r, x') := otake n x in (omap VList r, x')
    | OReset => (Yield VNone, oreset x)
    | OAll m => let '(r, x') := otake m x in
                match r with
                | Yield vs => (Yield (VList vs), oreset x')
                | _ => (omap VList r, x')                      (* the exception escapes all(): no reset *)
                end
    | OLen => let '(r, x') := otake LENGTH_MAX x in
              match r with
              | Yield vs => (Yield (VInt (Z.of_nat (List.length vs))), oreset x')
              | _ => (ocast r, x')
              end
    end.

  Inductive wop := WNew (p : Prog) | WCopy (j : nat) | WOp (i : nat) (o : oop).

  Definition wstep (w : list Obj) (op : wop) : list Obj * option (nat * outcome val) :=
    match op with
    | WNew p => (match build p with Some x => w ++ [x] | None => w end, None)
    | WCopy j => (match nth_error w j with Some x => w ++ [ocopy x] | None => w end, None)
    | WOp i o => match nth_error w i with
                 | Some x => let '(r, x') := oapply x o in (update_nth i x' w, Some (i, r))
                 | None => (w, None)
                 end
    end.
  Fixpoint wrun (w : list Obj) (ops : list wop) : list (nat * outcome val) :=
    match ops with
    | [] => []
    | op :: r => let '(w', e) := wstep w op in
                 match e with Some x => x :: wrun w' r | None => wrun w' r end
    end.
  Fixpoint wafter (w : list Obj) (ops : list wop) : list Obj :=
    match ops with
    | [] => w
    | op :: r => wafter (fst (wstep w op)) r
    end.

  Fixpoint alone (x : Obj) (ops : list oop) : list (outcome val) :=
    match ops with
    | [] => []
    | o :: r => let '(v, x') := oapply x o in v :: alone x' r
    end.
  Fixpoint wproj (i : nat) (ops : list wop) : list oop :=
    match ops with
    | [] => []
    | WOp j o :: r => if Nat.eqb j i then o :: wproj i r else wproj i r
    | _ :: r => wproj i r
    end.
  Fixpoint outs_of (i : nat) (es : list (nat * outcome val)) : list (outcome val) :=
    match es with
    | [] => []
    | (k, v) :: r => if Nat.eqb k i then v :: outs_of i r else outs_of i r
    end.

  (** the observations of a whole script, one per operation (a construction / a copy is observed as None; an operation on
      a handle that does not exist is outside the model: Inexact), compared with the implementation's *)
  Fixpoint wtrace (w : list Obj) (ops : list wop) : list (outcome val) :=
    match ops with
    | [] => []
    | op :: r =>
        let ob := match op with
                  | WNew p => match build p with Some _ => Yield VNone | None => Inexact end
                  | WCopy j => match nth_error w j with Some _ => Yield VNone | None => Inexact end
                  | WOp i o => match nth_error w i with Some x => fst (oapply x o) | None => Inexact end
                  end in
        ob :: wtrace (fst (wstep w op)) r
    end.
  Definition iobs_eqb (a b : outcome val) : bool :=
    match a, b with
    | Yield x, Yield y => val_eqb x y
    | Stop, Stop => true
    | Raise e, Raise e' => exn_eqb e e'
    | _, _ => false
    end.
  Fixpoint icompare (got expected : list (outcome val)) : nat :=      (* 0 agree, 1 disagree, 2 discard *)
    match got, expected with
    | [], [] => 0%nat
    | (OutOfFuel | Inexact) :: _, _ => 2%nat
    | g :: r, x :: xs => if iobs_eqb g x then icompare r xs else 1%nat
    | _, _ => 1%nat
    end.
End Instances.
Arguments WNew {Prog}. Arguments WCopy {Prog}. Arguments WOp {Prog}.

(* Pat/RefProofs.v — the state machines of Pat/Step.v produce the reference definitions of Pat/Ref.v (C10).

   Vocabulary.  [after f j p]   the object p after j calls of next() (fuel f per call);
                [out f j p]     the outcome of call number j (0-based);
                [Den f p s]     every call j of next() on p has the outcome [at_ s j]: the object DENOTES s — for
                                s = Fin l these are the values of l followed by StopIteration for ever, for s = Inf g
                                the values g 0, g 1, ... (so the statement is about every finite gprefix);
                [ADen f a s]    the same for an operand read with Pattern.value() (a scalar is the constant stream).
   Each class theorem takes ARBITRARY operand objects that denote some s and concludes that the class object, in
   the state __init__ leaves it in, denotes the closed form of Ref.v applied to s: induction on the number of calls
   through an explicit invariant ([Den_sim]).  Lemmas only; the model is Step.v, the definitions Ref.v. *)
From Isobar Require Import Base.Prelude Pat.Val Pat.Syntax Pat.Step Pat.StepProofs Pat.Ref.
From Coq Require Import String QArith Qround.
Open Scope Z_scope.

(* ------------------------------------------------------------------------------------------------ *)
(** * Python arithmetic on ints, as the class bodies use it *)

Lemma binop_add_int a b : Val.binop OAdd (VInt a) (VInt b) = Yield (VInt (a + b)).
Proof. unfold Val.binop, num_of. cbn [orb]. rewrite !Qfloor_Z. reflexivity. Qed.
Lemma binop_sub_int a b : Val.binop OSub (VInt a) (VInt b) = Yield (VInt (a - b)).
Proof. unfold Val.binop, num_of. cbn [orb]. rewrite !Qfloor_Z. reflexivity. Qed.
Lemma binop_mul_int a b : Val.binop OMul (VInt a) (VInt b) = Yield (VInt (a * b)).
Proof. unfold Val.binop, num_of. cbn [orb]. rewrite !Qfloor_Z. reflexivity. Qed.
Lemma binop_mod_int a b : b <> 0 -> Val.binop OMod (VInt a) (VInt b) = Yield (VInt (a mod b)).
Proof.
  intro H. unfold Val.binop, num_of. cbn [orb]. rewrite !Qfloor_Z. cbn [int_binop].
  destruct (b =? 0) eqn:E; [lia | reflexivity].
Qed.
Lemma cmp_ge_int a b : cmp OGe (VInt a) (VInt b) = Yield (b <=? a).
Proof. unfold cmp, Val.binop, num_of. cbn [orb]. rewrite !Qfloor_Z. reflexivity. Qed.
Lemma cmp_gt_int a b : cmp OGt (VInt a) (VInt b) = Yield (b <? a).
Proof. unfold cmp, Val.binop, num_of. cbn [orb]. rewrite !Qfloor_Z. reflexivity. Qed.
Lemma cmp_lt_int a b : cmp OLt (VInt a) (VInt b) = Yield (a <? b).
Proof. unfold cmp, Val.binop, num_of. cbn [orb]. rewrite !Qfloor_Z. reflexivity. Qed.
Lemma cmp_le_int a b : cmp OLe (VInt a) (VInt b) = Yield (a <=? b).
Proof. unfold cmp, Val.binop, num_of. cbn [orb]. rewrite !Qfloor_Z. reflexivity. Qed.

(* ------------------------------------------------------------------------------------------------ *)
(** * Lists *)
Lemma nth_error_seq' : forall len s n, (n < len)%nat -> nth_error (seq s len) n = Some (s + n)%nat.
Proof.
  induction len as [|len IH]; intros s n H; [lia|]. destruct n as [|n]; cbn [seq nth_error].
  - f_equal. lia.
  - rewrite IH by lia. f_equal. lia.
Qed.

Lemma nth_error_repeat' {A} (x : A) : forall n i, (i < n)%nat -> nth_error (repeat x n) i = Some x.
Proof. induction n as [|n IH]; intros i H; [lia|]. destruct i; cbn; [reflexivity | apply IH; lia]. Qed.

Lemma nth_error_zipw {A B C} (f : A -> B -> C) : forall l1 l2 j,
  nth_error (zipw f l1 l2) j =
    match nth_error l1 j, nth_error l2 j with Some a, Some b => Some (f a b) | _, _ => None end.
Proof.
  induction l1 as [|a l1 IH]; intros l2 j.
  - cbn. destruct j; reflexivity.
  - destruct l2 as [|b l2].
    + cbn. destruct j; cbn; [reflexivity|]. destruct (nth_error l1 j); reflexivity.
    + destruct j; cbn; [reflexivity | apply IH].
Qed.

Lemma nth_error_prefix g n j : nth_error (gprefix g n) j = if (j <? n)%nat then Some (g j) else None.
Proof.
  unfold gprefix. rewrite nth_error_map. destruct (j <? n)%nat eqn:E.
  - apply Nat.ltb_lt in E. rewrite nth_error_seq' by exact E. reflexivity.
  - apply Nat.ltb_ge in E. assert (H : nth_error (seq 0 n) j = None) by (apply nth_error_None; rewrite seq_length; exact E).
    rewrite H. reflexivity.
Qed.

Lemma nth_error_adj_from h : forall l prev j,
  nth_error (adj_from h prev l) j =
    match nth_error (prev :: l) j, nth_error l j with Some c, Some n => Some (h c n) | _, _ => None end.
Proof.
  induction l as [|v l IH]; intros prev j.
  - cbn. destruct j; cbn; [reflexivity|]. destruct j; reflexivity.
  - destruct j; [reflexivity|]. cbn [adj_from nth_error]. rewrite IH. reflexivity.
Qed.

(** * Denotations *)

Lemma at_fin l j : at_ (Fin l) j = match nth_error l j with Some v => Yield v | None => Stop end.
Proof. reflexivity. Qed.

Lemma at_fin_lt l j : (j < List.length l)%nat -> exists v, nth_error l j = Some v /\ at_ (Fin l) j = Yield v.
Proof.
  intro H. destruct (nth_error l j) eqn:E.
  - exists v. split; [reflexivity|]. cbn. rewrite E. reflexivity.
  - apply nth_error_None in E. lia.
Qed.

Lemma at_fin_ge l j : (List.length l <= j)%nat -> at_ (Fin l) j = Stop.
Proof. intro H. cbn. apply nth_error_None in H. rewrite H. reflexivity. Qed.

(** once a denotation has ended it has ended *)
Lemma at_stop_mono s i i' : (i <= i')%nat -> at_ s i = Stop -> at_ s i' = Stop.
Proof.
  destruct s as [l|g]; cbn; [|discriminate].
  intros H E. destruct (nth_error l i) eqn:E1; [discriminate|].
  apply nth_error_None in E1. assert (H2 : (List.length l <= i')%nat) by lia.
  apply nth_error_None in H2. rewrite H2. reflexivity.
Qed.

(** a denotation only holds values and StopIteration *)
Lemma at_cases s i : (exists v, at_ s i = Yield v) \/ at_ s i = Stop.
Proof. destruct s as [l|g]; cbn; [destruct (nth_error l i); eauto | eauto]. Qed.

Section Den.
  Variable binop : op -> val -> val -> outcome val.
  Variable LMAX : nat.
  Notation step := (step binop LMAX).
  Notation value := (value binop LMAX).
  Notation anext := (anext binop LMAX).
  Notation reset := (reset binop LMAX).

  Fixpoint after (f j : nat) (p : pat) : pat :=
    match j with O => p | S j' => after f j' (snd (step f p)) end.
  Definition out (f j : nat) (p : pat) : outcome val := fst (step f (after f j p)).
  Definition Den (f : nat) (p : pat) (s : sem) : Prop := forall j, out f j p = at_ s j.

  Fixpoint aafter (f j : nat) (a : arg) : arg :=
    match j with O => a | S j' => aafter f j' (snd (value f a)) end.
  Definition aout (f j : nat) (a : arg) : outcome val := fst (value f (aafter f j a)).
  Definition ADen (f : nat) (a : arg) (s : sem) : Prop := forall j, aout f j a = at_ s j.

  Lemma after_S f j : forall p, after f (S j) p = snd (step f (after f j p)).
  Proof. induction j as [|j IH]; intro p; [reflexivity|]. cbn [after] in *. rewrite IH. reflexivity. Qed.
  Lemma aafter_S f j : forall a, aafter f (S j) a = snd (value f (aafter f j a)).
  Proof. induction j as [|j IH]; intro a; [reflexivity|]. cbn [aafter] in *. rewrite IH. reflexivity. Qed.

  (** the proof principle: an invariant indexed by the number of calls made so far *)
  Lemma Den_sim f p0 s (R : nat -> pat -> Prop) :
    R O p0 ->
    (forall j p, R j p -> fst (step f p) = at_ s j /\ R (S j) (snd (step f p))) ->
    Den f p0 s.
  Proof.
    intros H0 Hstep. assert (HR : forall j, R j (after f j p0)).
    { induction j as [|j IH]; [exact H0|]. rewrite after_S. apply Hstep. exact IH. }
    intro j. unfold out. apply Hstep. apply HR.
  Qed.

  Lemma step_pair f p : step f p = (fst (step f p), snd (step f p)).
  Proof. destruct (step f p); reflexivity. Qed.

  (** stepping an operand object that denotes s *)
  Lemma Den_step f p s q : Den f p s -> step f (after f q p) = (at_ s q, after f (S q) p).
  Proof. intro H. rewrite after_S. rewrite (step_pair f (after f q p)). f_equal. apply H. Qed.

  Lemma anext_pat f p : anext (S f) (AP p) = (fst (step f p), AP (snd (step f p))).
  Proof. rewrite (anext_pattern binop LMAX). destruct (step f p); reflexivity. Qed.
  Lemma value_pat f p : value (S f) (AP p) = (fst (step f p), AP (snd (step f p))).
  Proof. rewrite (value_pattern binop LMAX). destruct (step f p); reflexivity. Qed.
  Lemma value_av f v : value (S f) (AV v) = (Yield v, AV v).
  Proof. reflexivity. Qed.

  Lemma Den_anext f p s q : Den f p s -> anext (S f) (AP (after f q p)) = (at_ s q, AP (after f (S q) p)).
  Proof. intro H. rewrite anext_pat, (Den_step f p s q H). reflexivity. Qed.
  Lemma Den_value f p s q : Den f p s -> value (S f) (AP (after f q p)) = (at_ s q, AP (after f (S q) p)).
  Proof. intro H. rewrite value_pat, (Den_step f p s q H). reflexivity. Qed.

  (** a pattern operand read with Pattern.value denotes what the pattern denotes; a scalar is the constant stream *)
  Lemma aafter_pat f j : forall p, aafter (S f) j (AP p) = AP (after f j p).
  Proof. induction j as [|j IH]; intro p; [reflexivity|]. cbn [aafter after]. rewrite value_pat. cbn [snd]. apply IH. Qed.
  Lemma ADen_pat f p s : Den f p s -> ADen (S f) (AP p) s.
  Proof. intros H j. unfold aout. rewrite aafter_pat, value_pat. cbn [fst]. apply H. Qed.
  Lemma aafter_av f j v : aafter (S f) j (AV v) = AV v.
  Proof. induction j as [|j IH]; [reflexivity|]. cbn [aafter]. rewrite value_av. exact IH. Qed.
  Lemma ADen_scalar f v : ADen (S f) (AV v) (Inf (fun _ => v)).
  Proof. intro j. unfold aout. rewrite aafter_av. reflexivity. Qed.

  Lemma ADen_step f a s q : ADen f a s -> value f (aafter f q a) = (at_ s q, aafter f (S q) a).
  Proof.
    intro H. rewrite aafter_S. destruct (value f (aafter f q a)) as [o a'] eqn:E. cbn [snd]. f_equal.
    specialize (H q). unfold aout in H. rewrite E in H. exact H.
  Qed.

  (* ---------------------------------------------------------------------------------------------- *)
  (** * PSeries(start, step, length) with int arguments: start + i*step for i < length *)

  Lemma at_series a d n j :
    at_ (Fin (ref_series a d n)) j = if (j <? n)%nat then Yield (VInt (a + Z.of_nat j * d)) else Stop.
  Proof.
    unfold ref_series. cbn [at_]. rewrite nth_error_map.
    destruct (j <? n)%nat eqn:E.
    - apply Nat.ltb_lt in E. rewrite nth_error_seq' by exact E. reflexivity.
    - apply Nat.ltb_ge in E. assert (H : nth_error (seq 0 n) j = None) by (apply nth_error_None; rewrite seq_length; exact E).
      rewrite H. reflexivity.
  Qed.

  Lemma step_series_eq f start v stp length count :
    step (S f) (PSeries start v stp length count) =
      (let '(ol, length') := value f length in
       match ol with
       | Yield vlen =>
           match cmp OGe (VInt count) vlen with
           | Yield true => (Stop, PSeries start v stp length' count)
           | Yield false =>
               let '(os, stp') := value f stp in
               match os with
               | Yield vstep =>
                   match Val.binop OAdd v vstep with
                   | Yield v' => (Yield v, PSeries start v' stp' length' (count + 1))
                   | o => (o, PSeries start v stp' length' count)
                   end
               | _ => (os, PSeries start v stp' length' count)
               end
           | oc => (ocast oc, PSeries start v stp length' count)
           end
       | _ => (ol, PSeries start v stp length' count)
       end).
  Proof. reflexivity. Qed.

  Theorem series_den f a d n :
    Den (S (S f)) (PSeries (VInt a) (VInt a) (AV (VInt d)) (AV (VInt (Z.of_nat n))) 0) (Fin (ref_series a d n)).
  Proof.
    apply Den_sim with (R := fun j p =>
      p = PSeries (VInt a) (VInt (a + Z.of_nat (Nat.min j n) * d)) (AV (VInt d)) (AV (VInt (Z.of_nat n))) (Z.of_nat (Nat.min j n))).
    - rewrite Nat.min_0_l. cbn [Z.of_nat]. rewrite Z.mul_0_l, Z.add_0_r. reflexivity.
    - intros j p ->. rewrite step_series_eq, !value_av, cmp_ge_int, at_series.
      destruct (j <? n)%nat eqn:E.
      + apply Nat.ltb_lt in E. rewrite (Nat.min_l j n), (Nat.min_l (S j) n) by lia.
        destruct (Z.of_nat n <=? Z.of_nat j) eqn:E2; [lia|].
        rewrite binop_add_int. cbn [fst snd]. split; [reflexivity|].
        rewrite Nat2Z.inj_succ. f_equal. f_equal. ring.
      + apply Nat.ltb_ge in E. rewrite (Nat.min_r j n), (Nat.min_r (S j) n) by lia.
        destruct (Z.of_nat n <=? Z.of_nat n) eqn:E2; [|lia].
        cbn [fst snd]. split; reflexivity.
  Qed.

  (* ---------------------------------------------------------------------------------------------- *)
  (** * PRange(start, end, step), ints, step <> 0 *)

  Lemma range_len_spec a e d (i : nat) : d <> 0 ->
    ((i < range_len a e d)%nat <-> (if 0 <? d then a + Z.of_nat i * d < e else e < a + Z.of_nat i * d)).
  Proof.
    intro Hd. unfold range_len. destruct (0 <? d) eqn:E1.
    - assert (0 < d) by lia. set (q := (e - a + d - 1) / d).
      assert (Hq : d * q <= e - a + d - 1 < d * q + d) by (unfold q; split; [apply Z.mul_div_le; lia | ]; 
        pose proof (Z.mul_succ_div_gt (e - a + d - 1) d ltac:(lia)); lia).
      split; intro Hi.
      + assert (Z.of_nat i < q) by lia. nia.
      + assert (Z.of_nat i < q) by nia. lia.
    - destruct (d <? 0) eqn:E2; [|lia]. assert (d < 0) by lia. set (q := (a - e + - d - 1) / - d).
      assert (Hq : (- d) * q <= a - e + - d - 1 < (- d) * q + - d) by (unfold q; split; [apply Z.mul_div_le; lia | ];
        pose proof (Z.mul_succ_div_gt (a - e + - d - 1) (- d) ltac:(lia)); lia).
      split; intro Hi.
      + assert (Z.of_nat i < q) by lia. nia.
      + assert (Z.of_nat i < q) by nia. lia.
  Qed.

  Lemma at_range a e d j :
    at_ (Fin (ref_range a e d)) j = if (j <? range_len a e d)%nat then Yield (VInt (a + Z.of_nat j * d)) else Stop.
  Proof. apply (at_series a d (range_len a e d) j). Qed.

  Lemma step_range_eq f start end_ stp v :
    step (S f) (PRange start end_ stp v) =
      (let '(oe, end') := value f end_ in
       match oe with
       | Yield vend =>
           let '(os, stp') := value f stp in
           match os with
           | Yield vstep =>
               let st := PRange start end' stp' v in
               let t1 := obind (cmp OGt vstep (VInt 0)) (fun b => if b then cmp OGe v vend else Yield false) in
               match t1 with
               | Yield true => (Stop, st)
               | Yield false =>
                   let t2 := obind (cmp OLt vstep (VInt 0)) (fun b => if b then cmp OLe v vend else Yield false) in
                   match t2 with
                   | Yield true => (Stop, st)
                   | Yield false =>
                       match Val.binop OAdd v vstep with
                       | Yield v' => (Yield v, PRange start end' stp' v')
                       | o => (o, st)
                       end
                   | oc => (ocast oc, st)
                   end
               | oc => (ocast oc, st)
               end
           | _ => (os, PRange start end' stp' v)
           end
       | _ => (oe, PRange start end' stp v)
       end).
  Proof. reflexivity. Qed.

  Theorem range_den f a e d : d <> 0 ->
    Den (S (S f)) (PRange (VInt a) (AV (VInt e)) (AV (VInt d)) (VInt a)) (Fin (ref_range a e d)).
  Proof.
    intro Hd. set (n := range_len a e d).
    apply Den_sim with (R := fun j p =>
      p = PRange (VInt a) (AV (VInt e)) (AV (VInt d)) (VInt (a + Z.of_nat (Nat.min j n) * d))).
    - rewrite Nat.min_0_l. cbn [Z.of_nat]. rewrite Z.mul_0_l, Z.add_0_r. reflexivity.
    - intros j p ->. rewrite step_range_eq, !value_av, at_range. fold n.
      rewrite cmp_gt_int, cmp_lt_int. cbn [obind]. rewrite cmp_ge_int, cmp_le_int.
      destruct (j <? n)%nat eqn:E.
      + apply Nat.ltb_lt in E. rewrite (Nat.min_l j n), (Nat.min_l (S j) n) by lia.
        pose proof (proj1 (range_len_spec a e d j Hd) E) as Hs.
        destruct (0 <? d) eqn:E1.
        * destruct (e <=? a + Z.of_nat j * d) eqn:E2; [lia|]. destruct (d <? 0) eqn:E3; [lia|].
          rewrite binop_add_int. cbn [fst snd]. split; [reflexivity|]. rewrite Nat2Z.inj_succ. do 2 f_equal. ring.
        * destruct (d <? 0) eqn:E3; [|lia]. destruct (a + Z.of_nat j * d <=? e) eqn:E2; [lia|].
          rewrite binop_add_int. cbn [fst snd]. split; [reflexivity|]. rewrite Nat2Z.inj_succ. do 2 f_equal. ring.
      + apply Nat.ltb_ge in E. rewrite (Nat.min_r j n), (Nat.min_r (S j) n) by lia.
        pose proof (range_len_spec a e d n Hd) as Hs0. fold n in Hs0.
        assert (Hs : ~ (if 0 <? d then a + Z.of_nat n * d < e else e < a + Z.of_nat n * d)) by (intro X; apply Hs0 in X; lia).
        destruct (0 <? d) eqn:E1.
        * destruct (e <=? a + Z.of_nat n * d) eqn:E2; [|lia]. cbn [fst snd]. split; reflexivity.
        * destruct (d <? 0) eqn:E3; [|lia]. destruct (a + Z.of_nat n * d <=? e) eqn:E2; [|lia]. cbn [fst snd]. split; reflexivity.
  Qed.

  (* ---------------------------------------------------------------------------------------------- *)
  (** * PGeom(start, multiply, length), ints *)

  Lemma at_geom a m n j :
    at_ (Fin (ref_geom a m n)) j = if (j <? n)%nat then Yield (VInt (a * m ^ Z.of_nat j)) else Stop.
  Proof.
    unfold ref_geom. cbn [at_]. rewrite nth_error_map.
    destruct (j <? n)%nat eqn:E.
    - apply Nat.ltb_lt in E. rewrite nth_error_seq' by exact E. reflexivity.
    - apply Nat.ltb_ge in E. assert (H : nth_error (seq 0 n) j = None) by (apply nth_error_None; rewrite seq_length; exact E).
      rewrite H. reflexivity.
  Qed.

  Lemma step_geom_eq f start v multiply length count :
    step (S f) (PGeom start v multiply length count) =
      match cmp OGe (VInt count) length with
      | Yield true => (Stop, PGeom start v multiply length count)
      | Yield false =>
          let '(om, multiply') := value f multiply in
          match om with
          | Yield vm =>
              match Val.binop OMul v vm with
              | Yield v' => (Yield v, PGeom start v' multiply' length (count + 1))
              | o => (o, PGeom start v multiply' length count)
              end
          | _ => (om, PGeom start v multiply' length count)
          end
      | oc => (ocast oc, PGeom start v multiply length count)
      end.
  Proof. reflexivity. Qed.

  Theorem geom_den f a m n :
    Den (S (S f)) (PGeom (VInt a) (VInt a) (AV (VInt m)) (VInt (Z.of_nat n)) 0) (Fin (ref_geom a m n)).
  Proof.
    apply Den_sim with (R := fun j p =>
      p = PGeom (VInt a) (VInt (a * m ^ Z.of_nat (Nat.min j n))) (AV (VInt m)) (VInt (Z.of_nat n)) (Z.of_nat (Nat.min j n))).
    - rewrite Nat.min_0_l. cbn [Z.of_nat]. rewrite Z.pow_0_r, Z.mul_1_r. reflexivity.
    - intros j p ->. rewrite step_geom_eq, cmp_ge_int, at_geom.
      destruct (j <? n)%nat eqn:E.
      + apply Nat.ltb_lt in E. rewrite (Nat.min_l j n), (Nat.min_l (S j) n) by lia.
        destruct (Z.of_nat n <=? Z.of_nat j) eqn:E2; [lia|].
        rewrite value_av, binop_mul_int. cbn [fst snd]. split; [reflexivity|].
        rewrite Nat2Z.inj_succ, Z.pow_succ_r by lia. f_equal. f_equal. ring.
      + apply Nat.ltb_ge in E. rewrite (Nat.min_r j n), (Nat.min_r (S j) n) by lia.
        destruct (Z.of_nat n <=? Z.of_nat n) eqn:E2; [|lia]. cbn [fst snd]. split; reflexivity.
  Qed.

  (* ---------------------------------------------------------------------------------------------- *)
  (** * PConstant: the constant stream *)
  Theorem constant_den f c : Den (S f) (PConstant c) (Inf (fun _ => c)).
  Proof.
    apply Den_sim with (R := fun _ p => p = PConstant c); [reflexivity|].
    intros j p ->. split; reflexivity.
  Qed.

  (* ---------------------------------------------------------------------------------------------- *)
  (** * PStutter(p, count), count >= 1 a scalar: each value count times *)

  Lemma nth_error_stutter k : (0 < k)%nat -> forall l q r, (r < k)%nat ->
    nth_error (ref_stutter k l) (q * k + r) = nth_error l q.
  Proof.
    intros Hk l. unfold ref_stutter. induction l as [|x l IH]; intros q r Hr.
    - cbn. destruct (q * k + r)%nat; destruct q; reflexivity.
    - cbn [flat_map]. destruct q as [|q].
      + cbn [Nat.mul Nat.add nth_error]. rewrite nth_error_app1 by (rewrite repeat_length; lia).
        destruct (nth_error (repeat x k) r) eqn:E.
        * apply nth_error_In, repeat_spec in E. subst. reflexivity.
        * apply nth_error_None in E. rewrite repeat_length in E. lia.
      + rewrite nth_error_app2 by (rewrite repeat_length; nia). rewrite repeat_length.
        replace (S q * k + r - k)%nat with (q * k + r)%nat by nia. cbn [nth_error]. apply IH. exact Hr.
  Qed.

  Lemma at_stutter k s q r : (0 < k)%nat -> (r < k)%nat -> at_ (sem_stutter k s) (q * k + r) = at_ s q.
  Proof.
    intros Hk Hr. destruct s as [l|g]; cbn [sem_stutter at_].
    - rewrite (nth_error_stutter k Hk l q r Hr). reflexivity.
    - f_equal. f_equal. rewrite Nat.div_add_l by lia. rewrite (Nat.div_small r k Hr). lia.
  Qed.

  Lemma step_stutter_eq f pattern count count_current pos v :
    step (S f) (PStutter pattern count count_current pos v) =
      match cmp OGe (VInt pos) count_current with
      | Yield true =>
          let '(oc, count') := value f count in
          match oc with
          | Yield cc =>
              let '(o, pattern') := anext f pattern in
              match o with
              | Yield v' => (Yield v', PStutter pattern' count' cc 1 v')
              | _ => (o, PStutter pattern' count' count_current pos v)
              end
          | _ => (oc, PStutter pattern count' count_current pos v)
          end
      | Yield false => (Yield v, PStutter pattern count count_current (pos + 1) v)
      | oc => (ocast oc, PStutter pattern count count_current pos v)
      end.
  Proof. reflexivity. Qed.

  Theorem stutter_den f c s k : (0 < k)%nat -> Den f c s ->
    Den (S (S f)) (PStutter (AP c) (AV (VInt (Z.of_nat k))) (VInt 0) 0 (VInt 0)) (sem_stutter k s).
  Proof.
    intros Hk Hc. set (K := Z.of_nat k).
    apply Den_sim with (R := fun j p =>
      (j = O /\ p = PStutter (AP c) (AV (VInt K)) (VInt 0) 0 (VInt 0)) \/
      (exists q r v, j = (q * k + r)%nat /\ (1 <= r <= k)%nat /\ at_ s q = Yield v /\
                     p = PStutter (AP (after f (S q) c)) (AV (VInt K)) (VInt K) (Z.of_nat r) v) \/
      (exists q m cc pos v, (q * k <= j)%nat /\ at_ s q = Stop /\ (q < m)%nat /\ cc <= pos /\
                     p = PStutter (AP (after f m c)) (AV (VInt K)) (VInt cc) pos v)).
    - left. split; reflexivity.
    - intros j p [[-> ->] | [(q & r & v & -> & Hr & Hq & ->) | (q & m & cc & pos & v & Hj & Hq & Hm & Hpos & ->)]].
      + (* first call *)
        rewrite step_stutter_eq, cmp_ge_int. cbn [Z.leb Z.compare]. rewrite value_av.
        change (AP c) with (AP (after f 0 c)). rewrite (Den_anext f c s 0 Hc).
        assert (A0 : at_ (sem_stutter k s) 0 = at_ s 0) by (exact (at_stutter k s 0 0 Hk Hk)). rewrite A0.
        destruct (at_cases s 0) as [[v Hv] | Hv]; rewrite Hv; cbn [fst snd]; (split; [reflexivity|]).
        * right. left. exists O, 1%nat, v. repeat split; try lia; try assumption.
        * right. right. exists O, 1%nat, 0, 0, (VInt 0). repeat split; try lia; assumption.
      + (* inside / at the end of a block *)
        rewrite step_stutter_eq, cmp_ge_int. destruct (K <=? Z.of_nat r) eqn:E.
        * assert (r = k) by lia. subst r. rewrite value_av, (Den_anext f c s (S q) Hc).
          replace (q * k + k)%nat with (S q * k + 0)%nat by lia. rewrite (at_stutter k s (S q) 0 Hk Hk).
          destruct (at_cases s (S q)) as [[v' Hv] | Hv]; rewrite Hv; cbn [fst snd]; (split; [reflexivity|]).
          -- right. left. exists (S q), 1%nat, v'. repeat split; try lia; try assumption.
          -- right. right. exists (S q), (S (S q)), K, (Z.of_nat k), v. repeat split; try lia; assumption.
        * assert (r < k)%nat by lia. cbn [fst snd]. rewrite (at_stutter k s q r Hk H). split; [symmetry; exact Hq|].
          right. left. exists q, (S r), v. repeat split; try lia; try assumption. do 2 f_equal. lia.
      + (* the input has ended: every call asks it again *)
        rewrite step_stutter_eq, cmp_ge_int. destruct (cc <=? pos) eqn:E; [|lia].
        rewrite value_av, (Den_anext f c s m Hc). rewrite (at_stop_mono s q m ltac:(lia) Hq). cbn [fst snd]. split.
        * symmetry. pose proof (Nat.div_mod_eq j k) as D. pose proof (Nat.mod_upper_bound j k ltac:(lia)) as U.
          rewrite D. rewrite (Nat.mul_comm k). rewrite (at_stutter k s (j / k) (j mod k) Hk U).
          apply (at_stop_mono s q); [|exact Hq]. apply Nat.div_le_lower_bound; lia.
        * right. right. exists q, (S m), cc, pos, v. repeat split; try lia; assumption.
  Qed.

  (* ---------------------------------------------------------------------------------------------- *)
  (** * element-wise classes *)

  Lemma at_map h s j : at_ (sem_map h s) j = match at_ s j with Yield v => Yield (h v) | o => o end.
  Proof. destruct s as [l|g]; cbn; [rewrite nth_error_map; destruct (nth_error l j); reflexivity | reflexivity]. Qed.

  Lemma at_zip h s1 s2 j :
    at_ (sem_zip h s1 s2) j = match at_ s1 j, at_ s2 j with Yield a, Yield b => Yield (h a b) | _, _ => Stop end.
  Proof.
    destruct s1 as [l1|g1], s2 as [l2|g2]; cbn [sem_zip at_]; try reflexivity.
    - rewrite nth_error_zipw. destruct (nth_error l1 j), (nth_error l2 j); reflexivity.
    - rewrite nth_error_zipw, nth_error_prefix. destruct (nth_error l1 j) eqn:E; [|reflexivity].
      assert (j < List.length l1)%nat by (apply nth_error_Some; congruence).
      destruct (j <? List.length l1)%nat eqn:E2; [reflexivity | apply Nat.ltb_ge in E2; lia].
    - rewrite nth_error_zipw, nth_error_prefix. destruct (nth_error l2 j) eqn:E.
      + assert (j < List.length l2)%nat by (apply nth_error_Some; congruence).
        destruct (j <? List.length l2)%nat eqn:E2; [reflexivity | apply Nat.ltb_ge in E2; lia].
      + destruct (j <? List.length l2)%nat; reflexivity.
  Qed.

  (** PAbs: |v|, rests kept; the input holds numbers and rests *)
  Definition absable (v : val) : Prop :=
    match v with VNone | VBool _ | VInt _ | VFlt _ => True | _ => False end.

  Theorem abs_den f a s : ADen f a s -> (forall j v, at_ s j = Yield v -> absable v) ->
    Den (S f) (PAbs a) (sem_map abs1 s).
  Proof.
    intros Ha Hv. apply Den_sim with (R := fun j p => p = PAbs (aafter f j a)); [reflexivity|].
    intros j p ->. rewrite (step_abs_eq binop LMAX), (ADen_step f a s j Ha), at_map.
    destruct (at_cases s j) as [[v E] | E]; rewrite E; cbn [fst snd]; (split; [|reflexivity]); [|reflexivity].
    specialize (Hv j v E). destruct v; cbn in Hv; try contradiction; reflexivity.
  Qed.

  (** classes of the shape "a = value(self.a); b = value(self.b); return comb(a, b)": PSkipIf, the operator classes *)
  Section Binary.
    Variable mk : arg -> arg -> pat.
    Variable comb : val -> val -> outcome val.
    Hypothesis mk_step : forall f a b,
      step (S f) (mk a b) =
        (let '(oa, a') := value f a in
         match oa with
         | Yield va =>
             let '(ob, b') := value f b in
             match ob with
             | Yield vb => (comb va vb, mk a' b')
             | _ => (ob, mk a' b')
             end
         | _ => (oa, mk a' b)
         end).

    Theorem binary_den f a b sa sb h : ADen f a sa -> ADen f b sb ->
      (forall j va vb, at_ sa j = Yield va -> at_ sb j = Yield vb -> comb va vb = Yield (h va vb)) ->
      Den (S f) (mk a b) (sem_zip h sa sb).
    Proof.
      intros Ha Hb Hc.
      apply Den_sim with (R := fun j p => exists jb, p = mk (aafter f j a) (aafter f jb b) /\
                                          (jb = j \/ ((jb <= j)%nat /\ at_ sa jb = Stop))).
      - exists O. split; [reflexivity | left; reflexivity].
      - intros j p (jb & -> & Hjb). rewrite mk_step, (ADen_step f a sa j Ha), at_zip.
        destruct Hjb as [-> | [Hle Hs]].
        + destruct (at_cases sa j) as [[va E] | E]; rewrite E.
          * rewrite (ADen_step f b sb j Hb). destruct (at_cases sb j) as [[vb E2] | E2]; rewrite E2; cbn [fst snd].
            -- split; [apply (Hc j); assumption|]. exists (S j). split; [reflexivity | left; reflexivity].
            -- split; [reflexivity|]. exists (S j). split; [reflexivity | left; reflexivity].
          * cbn [fst snd]. split; [reflexivity|]. exists j. split; [reflexivity | right; split; [lia | exact E]].
        + rewrite (at_stop_mono sa jb j Hle Hs). cbn [fst snd]. split; [reflexivity|].
          exists jb. split; [reflexivity | right; split; [lia | exact Hs]].
    Qed.
  End Binary.

  (** PSkipIf(p, skip): a rest where skip is true *)
  Theorem skipif_den f a b sa sb : ADen f a sa -> ADen f b sb ->
    Den (S f) (PSkipIf a b) (sem_zip skip1 sa sb).
  Proof.
    intros Ha Hb. apply (binary_den PSkipIf (fun v s => Yield (skip1 v s))); try assumption.
    - intros. reflexivity.
    - intros. reflexivity.
  Qed.

  (** the operator classes: the element-wise operation (a rest if either side is a rest) wherever it is defined *)
  Definition elem_op (o : op) (va vb : val) : outcome val :=
    if is_none va || is_none vb then Yield VNone else binop o va vb.
  Theorem binop_den f o a b sa sb h : ADen f a sa -> ADen f b sb ->
    (forall j va vb, at_ sa j = Yield va -> at_ sb j = Yield vb -> elem_op o va vb = Yield (h va vb)) ->
    Den (S f) (PBinOp o a b) (sem_zip h sa sb).
  Proof.
    intros Ha Hb Hc. apply (binary_den (PBinOp o) (elem_op o)); try assumption.
    intros. reflexivity.
  Qed.

  (* ---------------------------------------------------------------------------------------------- *)
  (** * functions of neighbouring values: PChanged, PDiff *)

  Lemma at_adj h s j :
    at_ (sem_adj h s) j = match at_ s j, at_ s (S j) with Yield c, Yield n => Yield (h c n) | _, _ => Stop end.
  Proof.
    destruct s as [l|g]; [|reflexivity]. destruct l as [|x r]; cbn [sem_adj at_].
    - destruct j; reflexivity.
    - rewrite nth_error_adj_from. cbn [nth_error]. destruct (nth_error (x :: r) j), (nth_error r j); reflexivity.
  Qed.

  Section Adjacent.
    Variable mk : arg -> val -> pat.
    Variable comb : val -> val -> outcome val.       (* current, next *)
    Hypothesis mk_step : forall f a cur,
      step (S f) (mk a cur) =
        (let '(o, a') := value f a in
         match o with
         | Yield nxt => match comb cur nxt with Yield d => (Yield d, mk a' nxt) | oe => (oe, mk a' cur) end
         | _ => (o, mk a' cur)
         end).

    (* the object as __init__ leaves it: the first value of the input already consumed *)
    Theorem adjacent_den f a s h v0 : ADen f a s -> at_ s 0 = Yield v0 ->
      (forall j c n, at_ s j = Yield c -> at_ s (S j) = Yield n -> comb c n = Yield (h c n)) ->
      Den (S f) (mk (aafter f 1 a) v0) (sem_adj h s).
    Proof.
      intros Ha H0 Hc.
      apply Den_sim with (R := fun j p => exists cur, p = mk (aafter f (S j) a) cur /\ (at_ s j = Yield cur \/ at_ s j = Stop)).
      - exists v0. split; [reflexivity | left; exact H0].
      - intros j p (cur & -> & Hcur). rewrite mk_step, (ADen_step f a s (S j) Ha), at_adj.
        destruct Hcur as [Hcur | Hcur].
        + rewrite Hcur. destruct (at_cases s (S j)) as [[n E] | E]; rewrite E.
          * rewrite (Hc j cur n Hcur E). cbn [fst snd]. split; [reflexivity|]. exists n. split; [reflexivity | left; first [exact E | reflexivity]].
          * cbn [fst snd]. split; [reflexivity|]. exists cur. split; [reflexivity | right; first [exact E | reflexivity]].
        + rewrite Hcur, (at_stop_mono s j (S j) ltac:(lia) Hcur). cbn [fst snd]. split; [reflexivity|].
          exists cur. split; [reflexivity | right; reflexivity].
    Qed.
  End Adjacent.

  Theorem changed_den f a s v0 : ADen f a s -> at_ s 0 = Yield v0 ->
    Den (S f) (PChanged (aafter f 1 a) v0) (sem_adj changed1 s).
  Proof.
    intros Ha H0. apply (adjacent_den PChanged (fun c n => Yield (changed1 c n))); try assumption.
    - intros. reflexivity.
    - intros. reflexivity.
  Qed.

  (** PDiff on streams of ints and rests *)
  Definition intish (v : val) : Prop := match v with VNone | VInt _ => True | _ => False end.
  Definition diff_comb (c n : val) : outcome val :=
    if is_none c || is_none n then Yield VNone else Val.binop OSub n c.

  Lemma step_diff_eq f a cur :
    step (S f) (PDiff a cur) =
      (let '(o, a') := value f a in
       match o with
       | Yield nxt => match diff_comb cur nxt with Yield d => (Yield d, PDiff a' nxt) | oe => (oe, PDiff a' cur) end
       | _ => (o, PDiff a' cur)
       end).
  Proof.
    change (step (S f) (PDiff a cur)) with
      (let '(o, source') := value f a in
       match o with
       | Yield nxt =>
           if is_none cur || is_none nxt then (Yield VNone, PDiff source' nxt)
           else match Val.binop OSub nxt cur with
                | Yield d => (Yield d, PDiff source' nxt)
                | oe => (oe, PDiff source' cur)
                end
       | _ => (o, PDiff source' cur)
       end).
    destruct (value f a) as [[nxt| | | |] a']; try reflexivity.
    unfold diff_comb. destruct (is_none cur || is_none nxt); reflexivity.
  Qed.

  Theorem diff_den f a s v0 : ADen f a s -> at_ s 0 = Yield v0 ->
    (forall j v, at_ s j = Yield v -> intish v) ->
    Den (S f) (PDiff (aafter f 1 a) v0) (sem_adj diff1 s).
  Proof.
    intros Ha H0 Hi. apply (adjacent_den PDiff diff_comb); try assumption.
    - intros. apply step_diff_eq.
    - intros j c n Ec En. pose proof (Hi j c Ec) as Ic. pose proof (Hi (S j) n En) as In_.
      destruct c; cbn in Ic; try contradiction; destruct n; cbn in In_; try contradiction; try reflexivity.
      unfold diff_comb. cbn [is_none orb]. rewrite binop_sub_int. reflexivity.
  Qed.

  (* ---------------------------------------------------------------------------------------------- *)
  (** * PPad(p, length): rests appended until the length is reached *)

  Lemma at_pad n s j :
    at_ (sem_pad n s) j = match at_ s j with Yield v => Yield v | _ => if (j <? n)%nat then Yield VNone else Stop end.
  Proof.
    destruct s as [l|g]; [|reflexivity]. cbn [sem_pad at_]. unfold ref_pad.
    destruct (nth_error l j) eqn:E.
    - rewrite nth_error_app1 by (apply nth_error_Some; congruence). rewrite E. reflexivity.
    - apply nth_error_None in E. rewrite nth_error_app2 by exact E.
      destruct (j <? n)%nat eqn:E2.
      + apply Nat.ltb_lt in E2. rewrite nth_error_repeat' by lia. reflexivity.
      + apply Nat.ltb_ge in E2. assert (H : nth_error (repeat VNone (n - List.length l)) (j - List.length l) = None)
          by (apply nth_error_None; rewrite repeat_length; lia). rewrite H. reflexivity.
  Qed.

  Lemma step_pad_eq f pattern length count :
    step (S f) (PPad pattern length count) =
      (let '(o, pattern') := anext f pattern in
       match o with
       | Stop =>
           match cmp OGe (VInt count) length with
           | Yield true => (Stop, PPad pattern' length count)
           | Yield false => (Yield VNone, PPad pattern' length (count + 1))
           | oc => (ocast oc, PPad pattern' length count)
           end
       | Yield v => (Yield v, PPad pattern' length (count + 1))
       | _ => (o, PPad pattern' length count)
       end).
  Proof. reflexivity. Qed.

  Theorem pad_den f c s n : Den f c s ->
    Den (S (S f)) (PPad (AP c) (VInt (Z.of_nat n)) 0) (sem_pad n s).
  Proof.
    intro Hc.
    apply Den_sim with (R := fun j p => exists count : nat, p = PPad (AP (after f j c)) (VInt (Z.of_nat n)) (Z.of_nat count) /\
                                        (count = j \/ ((count <= j)%nat /\ (n <= count)%nat /\ at_ s count = Stop))).
    - exists O. split; [reflexivity | left; reflexivity].
    - intros j p (count & -> & Hcount). rewrite step_pad_eq, (Den_anext f c s j Hc), at_pad.
      destruct Hcount as [-> | (Hle & Hn & Hs)].
      + destruct (at_cases s j) as [[v E] | E]; rewrite E.
        * cbn [fst snd]. split; [reflexivity|]. exists (S j). split; [do 2 f_equal; lia | left; reflexivity].
        * rewrite cmp_ge_int. destruct (j <? n)%nat eqn:E2.
          -- apply Nat.ltb_lt in E2. destruct (Z.of_nat n <=? Z.of_nat j) eqn:E3; [lia|]. cbn [fst snd].
             split; [reflexivity|]. exists (S j). split; [do 2 f_equal; lia | left; reflexivity].
          -- apply Nat.ltb_ge in E2. destruct (Z.of_nat n <=? Z.of_nat j) eqn:E3; [|lia]. cbn [fst snd].
             split; [reflexivity|]. exists j. split; [reflexivity | right; repeat split; try lia; exact E].
      + rewrite (at_stop_mono s count j Hle Hs), cmp_ge_int.
        destruct (Z.of_nat n <=? Z.of_nat count) eqn:E3; [|lia].
        destruct (j <? n)%nat eqn:E2; [apply Nat.ltb_lt in E2; lia|]. cbn [fst snd].
        split; [reflexivity|]. exists count. split; [reflexivity | right; repeat split; try lia; exact Hs].
  Qed.
End Den.

(* ================================================================================================ *)
(** * PSequence over a list of scalars *)
Lemma repeat_list_length {A} (l : list A) : forall n, List.length (repeat_list l n) = (n * List.length l)%nat.
Proof. induction n as [|n IH]; [reflexivity|]. cbn [repeat_list]. rewrite app_length, IH. lia. Qed.

Lemma nth_error_repeat_list {A} (l : list A) : forall n q i, (q < n)%nat -> (i < List.length l)%nat ->
  nth_error (repeat_list l n) (q * List.length l + i) = nth_error l i.
Proof.
  induction n as [|n IH]; intros q i Hq Hi; [lia|]. cbn [repeat_list]. destruct q as [|q].
  - cbn [Nat.mul Nat.add]. apply nth_error_app1. exact Hi.
  - rewrite nth_error_app2 by nia. replace (S q * List.length l + i - List.length l)%nat with (q * List.length l + i)%nat by nia.
    apply IH; lia.
Qed.

Lemma update_nth_same {A} : forall (l : list A) n x, nth_error l n = Some x -> update_nth n x l = l.
Proof.
  induction l as [|y l IH]; intros n x H; [destruct n; reflexivity|]. destruct n; cbn in *.
  - inversion H; reflexivity.
  - f_equal. apply IH. exact H.
Qed.

Lemma py_index_nat {A} (l : list A) (i : nat) : (i < List.length l)%nat -> py_index l (Z.of_nat i) = nth_error l i.
Proof.
  intro H. unfold py_index. destruct ((0 <=? Z.of_nat i) && (Z.of_nat i <? Z.of_nat (List.length l))) eqn:E; [|lia].
  rewrite Nat2Z.id. reflexivity.
Qed.
Lemma py_index_pos_nat {A} (l : list A) (i : nat) : py_index_pos l (Z.of_nat i) = i.
Proof. unfold py_index_pos. destruct (0 <=? Z.of_nat i) eqn:E; [apply Nat2Z.id | lia]. Qed.

Section Seq.
  Variable binop : op -> val -> val -> outcome val.
  Variable LMAX : nat.
  Notation step := (step binop LMAX).
  Notation value := (value binop LMAX).
  Notation Den := (Den binop LMAX).

  Lemma step_sequence_eq f l repeats rcount pos :
    step (S f) (PSequence (AL l) repeats rcount pos) =
      (let '(orep, repeats') := value f repeats in
       match orep with
       | Yield vrep =>
           let stop_test := if zlen l =? 0 then Yield true else cmp OGe (VInt rcount) vrep in
           match stop_test with
           | Yield true => (Stop, PSequence (AL l) repeats' rcount pos)
           | Yield false =>
               match py_index l pos with
               | None => (Raise IndexError, PSequence (AL l) repeats' rcount pos)
               | Some a =>
                   let '(o, a') := value f a in
                   let l' := update_nth (py_index_pos l pos) a' l in
                   match o with
                   | Yield v =>
                       if pos + 1 >=? zlen l
                       then (Yield v, PSequence (AL l') repeats' (rcount + 1) 0)
                       else (Yield v, PSequence (AL l') repeats' rcount (pos + 1))
                   | _ => (o, PSequence (AL l') repeats' rcount pos)
                   end
               end
           | oc => (ocast oc, PSequence (AL l) repeats' rcount pos)
           end
       | _ => (orep, PSequence (AL l) repeats' rcount pos)
       end).
  Proof. reflexivity. Qed.

  (* PSequence(list of scalars, repeats): the list, repeats times *)
  Theorem sequence_den f (l : list val) (r : nat) :
    Den (S (S f)) (PSequence (AL (map AV l)) (AV (VInt (Z.of_nat r))) 0 0) (Fin (ref_sequence l r)).
  Proof.
    set (L := List.length l). set (ml := map AV l).
    assert (Hml : List.length ml = L) by (unfold ml; apply map_length).
    apply Den_sim with (R := fun j p =>
      (exists q i, j = (q * L + i)%nat /\ (i < L)%nat /\ (q < r)%nat /\
                   p = PSequence (AL ml) (AV (VInt (Z.of_nat r))) (Z.of_nat q) (Z.of_nat i)) \/
      ((r * L <= j)%nat /\ (L = O \/ p = PSequence (AL ml) (AV (VInt (Z.of_nat r))) (Z.of_nat r) 0) /\
       (L = O -> p = PSequence (AL ml) (AV (VInt (Z.of_nat r))) 0 0))).
    - destruct (Nat.eq_dec L 0) as [E|E].
      + right. split; [rewrite E; lia|]. split; [left; exact E | reflexivity].
      + destruct r as [|r].
        * right. split; [lia|]. split; [right; reflexivity | intro; contradiction].
        * left. exists O, O. repeat split; try lia; reflexivity.
    - intros j p [(q & i & -> & Hi & Hq & ->) | (Hj & Hp & Hp0)].
      + rewrite step_sequence_eq, value_av. unfold zlen. rewrite Hml.
        destruct (Z.of_nat L =? 0) eqn:E0; [lia|]. rewrite cmp_ge_int.
        destruct (Z.of_nat r <=? Z.of_nat q) eqn:E1; [lia|].
        destruct (nth_error l i) as [v|] eqn:Ev; [|apply nth_error_None in Ev; fold L in Ev; lia].
        assert (Hn : nth_error ml i = Some (AV v)) by (unfold ml; rewrite nth_error_map, Ev; reflexivity).
        rewrite py_index_nat by lia. rewrite Hn, value_av, py_index_pos_nat.
        rewrite (update_nth_same ml i (AV v) Hn).
        assert (Hat : at_ (Fin (ref_sequence l r)) (q * L + i) = Yield v).
        { cbn [at_]. unfold ref_sequence, L. rewrite nth_error_repeat_list by assumption. rewrite Ev. reflexivity. }
        rewrite Hat. destruct (Z.of_nat i + 1 >=? Z.of_nat L) eqn:E2; cbn [fst snd]; (split; [reflexivity|]).
        * assert (S i = L) by lia. destruct (Nat.eq_dec (S q) r) as [Er|Er].
          -- right. split; [nia|]. split; [right; f_equal; lia | intro HL; exfalso; clear - HL Hi; lia].
          -- left. exists (S q), O. repeat split; try lia. f_equal. lia.
        * left. exists q, (S i). repeat split; try lia. f_equal. lia.
      + assert (Hat : at_ (Fin (ref_sequence l r)) j = Stop).
        { apply at_fin_ge. unfold ref_sequence. rewrite repeat_list_length. fold L. exact Hj. }
        rewrite Hat. destruct (Nat.eq_dec L 0) as [E|E].
        * rewrite (Hp0 E), step_sequence_eq, value_av. unfold zlen. rewrite Hml, E. cbn [Z.of_nat Z.eqb fst snd].
          split; [reflexivity|]. right. split; [clear - E; nia|]. split; [left; first [exact E | reflexivity] | reflexivity].
        * destruct Hp as [Hp | ->]; [contradiction|]. rewrite step_sequence_eq, value_av. unfold zlen. rewrite Hml.
          destruct (Z.of_nat L =? 0) eqn:E0; [lia|]. rewrite cmp_ge_int.
          destruct (Z.of_nat r <=? Z.of_nat r) eqn:E1; [|lia]. cbn [fst snd]. split; [reflexivity|].
          right. split; [lia|]. split; [right; reflexivity | intro; contradiction].
  Qed.
End Seq.

(* ================================================================================================ *)
(** * The reference interpreter is compositional: [init e] denotes [ref_eval n e], by induction on the nesting *)
Section Compose.
  Variable LMAX : nat.
  Notation init := (init Val.binop LMAX).
  Notation init_arg := (init_arg Val.binop LMAX).
  Notation DEN := (Den Val.binop LMAX).
  Notation ADEN := (ADen Val.binop LMAX).

  Definition sound (e : pexpr) (s : sem) (need : nat) : Prop :=
    forall F, (need <= F)%nat -> exists p, init F e = Yield p /\ DEN F p s.

  Lemma init_call F c args : init (S F) (ECall c args) = obind (mapM (init_arg F) args) (construct Val.binop LMAX F c).
  Proof. reflexivity. Qed.
  Lemma init_arg_ev F v : init_arg (S F) (EV v) = Yield (AV v).
  Proof. reflexivity. Qed.
  Lemma init_arg_ep F e : init_arg (S F) (EP e) = omap AP (init F e).
  Proof. reflexivity. Qed.

  (* an operand expression: a scalar (the constant stream) or a sub-expression *)
  Lemma ref_arg_sound n a s (IH : forall e s, ref_eval n e = Some s -> sound e s (2 * n + 1)) :
    ref_arg (ref_eval n) a = Some s ->
    forall F, (2 * n + 1 <= F)%nat -> exists x, init_arg (S F) a = Yield x /\ ADEN (S F) x s.
  Proof.
    intros H F HF. destruct a as [v|e| | |]; try discriminate; cbn [ref_arg] in H.
    - inversion H; subst. exists (AV v). split; [reflexivity | apply ADen_scalar].
    - destruct (IH e s H F HF) as (p & Hi & Hd). exists (AP p). rewrite init_arg_ep, Hi. split; [reflexivity|].
      apply ADen_pat. exact Hd.
  Qed.

  Theorem ref_eval_sound : forall n e s, ref_eval n e = Some s -> sound e s (2 * n + 1).
  Proof.
    induction n as [|n IH]; intros e s H; [discriminate|].
    destruct e as [c args]. cbn [ref_eval] in H. intros F HF.
    destruct F as [|F]; [lia|]. destruct F as [|F]; [lia|]. rewrite init_call.
    destruct c; cbn [ref_call] in H; try discriminate.
    - (* PConstant *)
      destruct args as [|[v| | | |] [|]]; try discriminate. inversion H; subst.
      exists (PConstant v). split; [reflexivity | apply constant_den].
    - (* PSeries *)
      destruct args as [|[[]| | | |] [|[[]| | | |] [|[[]| | | |] [|]]]]; try discriminate.
      destruct (0 <=? z1) eqn:E; [|discriminate]. inversion H; subst.
      eexists. split; [reflexivity|]. replace z1 with (Z.of_nat (Z.to_nat z1)) at 1 by lia. apply series_den.
    - (* PRange *)
      destruct args as [|[[]| | | |] [|[[]| | | |] [|[[]| | | |] [|]]]]; try discriminate.
      destruct (z1 =? 0) eqn:E; [discriminate|]. inversion H; subst.
      eexists. split; [reflexivity|]. apply range_den. lia.
    - (* PGeom *)
      destruct args as [|[[]| | | |] [|[[]| | | |] [|[[]| | | |] [|]]]]; try discriminate.
      destruct (0 <=? z1) eqn:E; [|discriminate]. inversion H; subst.
      eexists. split; [reflexivity|]. replace z1 with (Z.of_nat (Z.to_nat z1)) at 1 by lia. apply geom_den.
    - (* PStutter *)
      destruct args as [|[|e1| | |] [|[[]| | | |] [|]]]; try discriminate.
      destruct (0 <? z) eqn:E; [|discriminate]. destruct (ref_eval n e1) as [s1|] eqn:E1; [|discriminate].
      inversion H; subst. destruct (IH e1 s1 E1 F ltac:(lia)) as (p & Hi & Hd).
      cbn [mapM]. rewrite init_arg_ep, Hi. exists (PStutter (AP p) (AV (VInt z)) (VInt 0) 0 (VInt 0)). split; [reflexivity|].
      replace z with (Z.of_nat (Z.to_nat z)) at 1 by lia. apply stutter_den; [lia | exact Hd].
    - (* PChanged *)
      destruct args as [|[|e1| | |] [|]]; try discriminate.
      destruct (ref_eval n e1) as [s1|] eqn:E1; [|discriminate].
      destruct (IH e1 s1 E1 F ltac:(lia)) as (p & Hi & Hd).
      assert (Hs : exists v0, at_ s1 0 = Yield v0 /\ s = sem_adj changed1 s1).
      { destruct s1 as [[|x r]|g]; try discriminate; inversion H; subst; eexists; split; reflexivity. }
      destruct Hs as (v0 & H0 & ->).
      cbn [mapM]. rewrite init_arg_ep, Hi. cbn [omap obind construct].
      pose proof (ADen_pat Val.binop LMAX F p s1 Hd) as Ha.
      pose proof (ADen_step Val.binop LMAX (S F) (AP p) s1 0 Ha) as Hv. change (aafter Val.binop LMAX (S F) 0 (AP p)) with (AP p) in Hv.
      rewrite Hv, H0. cbn [obind].
      eexists. split; [reflexivity|]. apply changed_den; assumption.
    - (* PSkipIf *)
      destruct args as [|a [|b [|]]]; try discriminate.
      destruct (ref_arg (ref_eval n) a) as [sa|] eqn:Ea; [|discriminate].
      destruct (ref_arg (ref_eval n) b) as [sb|] eqn:Eb; [|discriminate]. inversion H; subst.
      destruct (ref_arg_sound n a sa IH Ea F ltac:(lia)) as (xa & Hia & Hda).
      destruct (ref_arg_sound n b sb IH Eb F ltac:(lia)) as (xb & Hib & Hdb).
      cbn [mapM]. rewrite Hia, Hib. exists (PSkipIf xa xb). split; [reflexivity|].
      apply skipif_den; assumption.
  Qed.
End Compose.

(* ================================================================================================ *)
(** * Euclidean rhythms: the whole stated domain k <= n <= 64 by complete enumeration *)

Lemma zl_eqb_eq : forall a b, zl_eqb a b = true -> a = b.
Proof.
  induction a as [|x a IH]; intros [|y b] H; cbn in H; try discriminate; [reflexivity|].
  apply andb_true_iff in H as [H1 H2]. apply Z.eqb_eq in H1. f_equal; [exact H1 | apply IH; exact H2].
Qed.

Definition euclid_domain_ok : bool :=
  forallb (fun n => forallb (fun k => euclid_ok n k) (seq 0 (S n))) (seq 1 64).

Lemma euclid_domain_checked :
  forallb (fun n => forallb (fun k => euclid_ok n k) (seq 0 (S n))) (seq 1 64) = true.
Proof. vm_compute. reflexivity. Qed.

Lemma euclid_ok_in_domain n k : (1 <= n <= 64)%nat -> (k <= n)%nat -> euclid_ok n k = true.
Proof.
  intros Hn Hk. pose proof euclid_domain_checked as H.
  rewrite forallb_forall in H. specialize (H n ltac:(apply in_seq; lia)).
  rewrite forallb_forall in H. apply H. apply in_seq. lia.
Qed.

Theorem euclid_shape n k : (1 <= n <= 64)%nat -> (k <= n)%nat ->
  List.length (euclid n k) = n /\ (forall x, In x (euclid n k) -> x = 0 \/ x = 1) /\ zsum (euclid n k) = Z.of_nat k.
Proof.
  intros Hn Hk. pose proof (euclid_ok_in_domain n k Hn Hk) as H. unfold euclid_ok in H.
  repeat (apply andb_true_iff in H; destruct H as [H ?]).
  split; [apply Nat.eqb_eq; assumption|]. split; [|apply Z.eqb_eq; assumption].
  intros x Hx. unfold onsets_ok in H3. rewrite forallb_forall in H3. specialize (H3 x Hx).
  apply orb_true_iff in H3. destruct H3 as [E|E]; apply Z.eqb_eq in E; auto.
Qed.

Theorem euclid_even n k : (1 <= n <= 64)%nat -> (k <= n)%nat ->
  even_windows (euclid n k) = true /\ exists r, (r < n)%nat /\ rotate r (euclid n k) = bresenham n k.
Proof.
  intros Hn Hk. pose proof (euclid_ok_in_domain n k Hn Hk) as H. unfold euclid_ok in H.
  repeat (apply andb_true_iff in H; destruct H as [H ?]).
  split; [assumption|]. unfold is_rotation_of_bresenham in H0. apply existsb_exists in H0.
  destruct H0 as (r & Hr & E). exists r. split; [apply in_seq in Hr; lia | apply zl_eqb_eq; exact E].
Qed.

(* ================================================================================================ *)
(** * Arpeggiator orders are the documented arrangements of the sorted chord (chords of 1..8 notes) *)

Ltac chord8 s :=
  destruct s as [|s0 [|s1 [|s2 [|s3 [|s4 [|s5 [|s6 [|s7 [|s8 s]]]]]]]]]; cbn [List.length] in *; try lia; try reflexivity.

Theorem arp_orders (s : list Z) : (1 <= List.length s <= 8)%nat ->
  arp_select ARP_UP s = s /\ arp_select ARP_DOWN s = rev s /\
  arp_select ARP_CONVERGE s = converge_doc s /\ arp_select ARP_DIVERGE s = diverge_doc s /\
  arp_select ARP_UPDOWN s = updown_doc s /\ arp_select ARP_DOWNUP s = downup_doc s.
Proof. intro H. repeat split; chord8 s. Qed.

From Coq Require Import Permutation.

Lemma insert_sorted_perm x : forall l, Permutation (insert_sorted x l) (x :: l).
Proof.
  induction l as [|y l IH]; [reflexivity|]. cbn [insert_sorted]. destruct (x <=? y); [reflexivity|].
  rewrite IH. apply perm_swap.
Qed.
Lemma sort_notes_perm : forall l, Permutation (sort_notes l) l.
Proof.
  induction l as [|x l IH]; [reflexivity|]. unfold sort_notes in *. cbn [fold_right].
  rewrite insert_sorted_perm. apply perm_skip. exact IH.
Qed.
Lemma outside_in_perm : forall f l, (List.length l <= f)%nat -> Permutation (outside_in f l) l.
Proof.
  induction f as [|f IH]; intros l H.
  - destruct l; [reflexivity | cbn in H; lia].
  - destruct l as [|x r]; [reflexivity|]. cbn [outside_in]. apply perm_skip.
    rewrite IH by (rewrite rev_length; cbn in H; lia). symmetry. apply Permutation_rev.
Qed.
Lemma alternate_perm : forall a b, Permutation (alternate a b) (a ++ b).
Proof.
  induction a as [|x a IH]; intro b; [reflexivity|]. cbn [alternate app]. apply perm_skip.
  destruct b as [|y b]; [rewrite app_nil_r; reflexivity|]. rewrite IH. apply Permutation_middle.
Qed.
Lemma diverge_doc_perm l : Permutation (diverge_doc l) l.
Proof.
  unfold diverge_doc. set (h := (List.length l / 2)%nat).
  assert (P : Permutation (rev (firstn h l) ++ skipn h l) l).
  { rewrite <- (firstn_skipn h l) at 3. apply Permutation_app_tail. symmetry. apply Permutation_rev. }
  destruct (Nat.even (List.length l)).
  - rewrite alternate_perm. exact P.
  - destruct (skipn h l) as [|m hi'] eqn:E.
    + rewrite app_nil_r in P. destruct l as [|x l]; [reflexivity|].
      assert (List.length (skipn h (x :: l)) = 0%nat) by (rewrite E; reflexivity).
      rewrite skipn_length in H. unfold h in H.
      pose proof (Nat.div_lt (List.length (x :: l)) 2 ltac:(cbn [List.length]; lia) ltac:(lia)) as H0.
      remember (List.length (x :: l) / 2)%nat as d. remember (List.length (x :: l)) as n. clear - H H0. lia.
    + rewrite alternate_perm. transitivity (rev (firstn h l) ++ m :: hi'); [apply Permutation_middle | exact P].
Qed.

(* UP, DOWN, CONVERGE, DIVERGE play every note of the chord exactly once *)
Theorem arp_permutation notes : (1 <= List.length notes <= 8)%nat ->
  Permutation (arp_notes ARP_UP notes) notes /\ Permutation (arp_notes ARP_DOWN notes) notes /\
  Permutation (arp_notes ARP_CONVERGE notes) notes /\ Permutation (arp_notes ARP_DIVERGE notes) notes.
Proof.
  intro H. unfold arp_notes. set (s := sort_notes notes).
  assert (Hl : (1 <= List.length s <= 8)%nat) by (unfold s; rewrite (Permutation_length (sort_notes_perm notes)); exact H).
  destruct (arp_orders s Hl) as (E1 & E2 & E3 & E4 & _). rewrite E1, E2, E3, E4.
  pose proof (sort_notes_perm notes) as P. fold s in P. repeat split.
  - exact P.
  - rewrite <- Permutation_rev. exact P.
  - unfold converge_doc. rewrite outside_in_perm by lia. exact P.
  - rewrite diverge_doc_perm. exact P.
Qed.

(* Pat/IeeeProofs.v — facts about the rounding operator semantics of Pat/Ieee.v.

   1. [binop_ieee] meets the side condition of the swapped reflected forms (`c + p` builds PAdd(p, c), ...):
      rounded + and * still commute, == != are symmetric, < mirrors >  — so the C08 theorems about reflected
      operands (stated for an arbitrary operator semantics under that side condition) apply to it.
   2. [round64] is the identity on the small dyadics of Pat/Val.v ([round64_small_dyadic]): on the domain for
      which Val.binop vouches, rounding changes nothing.
   3. Rounded addition is NOT associative and rounded multiplication does not distribute (concrete witnesses,
      [vm_compute]): an expression tree denotes its level-by-level evaluation (C08_nesting) and nothing else. *)
From Isobar Require Import Base.Prelude Pat.Val Pat.Syntax Pat.Step Pat.StepProofs Pat.Dunder Pat.OpProofs Pat.Ieee.
From Coq Require Import String QArith Qround Qabs Qpower.
Open Scope Z_scope.

(** [round64] answers a value or declines; it never raises *)
Lemma round64_cases q : (exists r, round64 q = Yield r) \/ round64 q = Inexact.
Proof.
  unfold round64. destruct (qzero q); [left; eauto|]. cbv zeta.
  match goal with |- context [if ?c then _ else _] => destruct c end; [right; reflexivity | left; eauto].
Qed.

Lemma to_flt_cases x f : (exists r, to_flt x f = Yield r) \/ to_flt x f = Inexact.
Proof. unfold to_flt. destruct f; [left; eauto | apply round64_cases]. Qed.

(** + and * on Q commute syntactically *)
Lemma Qplus_comm_eq (x y : Q) : (x + y)%Q = (y + x)%Q.
Proof. unfold Qplus. f_equal; [ring | apply Pos.mul_comm]. Qed.

Lemma Qmult_comm_eq (x y : Q) : (x * y)%Q = (y * x)%Q.
Proof. unfold Qmult. f_equal; [ring | apply Pos.mul_comm]. Qed.

Lemma flt_branch_comm o x fx y fy : o = OAdd \/ o = OMul ->
  obind (to_flt x fx) (fun x' => obind (to_flt y fy) (fun y' => flt_ieee o x' y'))
  = obind (to_flt y fy) (fun y' => obind (to_flt x fx) (fun x' => flt_ieee o y' x')).
Proof.
  intro Ho.
  destruct (to_flt_cases x fx) as [[rx ->] | ->], (to_flt_cases y fy) as [[ry ->] | ->];
    cbn [obind]; try reflexivity.
  destruct Ho as [-> | ->]; cbn [flt_ieee]; [rewrite Qplus_comm_eq | rewrite Qmult_comm_eq]; reflexivity.
Qed.

(** rounded + and * commute *)
Lemma binop_ieee_comm o a b : o = OAdd \/ o = OMul -> scalar_val a = true -> scalar_val b = true ->
  binop_ieee o a b = binop_ieee o b a.
Proof.
  intros Ho Ha Hb. unfold binop_ieee.
  replace (ieee_arith o) with true by (destruct Ho; subst; reflexivity).
  destruct (int_of a) as [za|] eqn:Ia, (int_of b) as [zb|] eqn:Ib.
  - destruct Ho as [-> | ->]; apply binop_comm; auto.
  - destruct (num_of a) as [[x fx]|], (num_of b) as [[y fy]|];
      try (apply binop_comm; assumption). apply flt_branch_comm; assumption.
  - destruct (num_of a) as [[x fx]|], (num_of b) as [[y fy]|];
      try (apply binop_comm; assumption). apply flt_branch_comm; assumption.
  - destruct (num_of a) as [[x fx]|], (num_of b) as [[y fy]|];
      try (apply binop_comm; assumption). apply flt_branch_comm; assumption.
Qed.

(** the comparisons are those of Val.binop *)
Lemma binop_ieee_cmp o a b : is_cmp o = true -> binop_ieee o a b = Val.binop o a b.
Proof. intro H. unfold binop_ieee. destruct o; try discriminate; reflexivity. Qed.

(** hence, as for Val.binop: for every operator whose reflected form swaps the operands the element computed
    is the one for the WRITTEN order *)
Lemma elem_reflected_ieee o c y : swapped_when_reflected o = true -> scalar_val c = true -> scalar_val y = true ->
  elem binop_ieee (mirror o) y c = elem binop_ieee o c y.
Proof.
  intros Hs Hc Hy. unfold elem. rewrite (orb_comm (is_none y)).
  destruct (is_none c || is_none y); [reflexivity|].
  destruct o; try discriminate; cbn [mirror];
    try solve [apply binop_ieee_comm; auto];
    rewrite !binop_ieee_cmp by reflexivity.
  - apply binop_eq_sym; auto.
  - apply binop_eq_sym; auto.
  - apply (binop_mirror OGt); auto.
  - apply (binop_mirror OGe); auto.
  - apply (binop_mirror OLt); auto.
  - apply (binop_mirror OLe); auto.
Qed.

(** on ints and bools (no float involved, no true division) nothing changed *)
Lemma binop_ieee_ints o a b za zb : int_of a = Some za -> int_of b = Some zb -> o <> ODiv ->
  binop_ieee o a b = Val.binop o a b.
Proof.
  intros Ia Ib Ho. unfold binop_ieee. rewrite Ia, Ib.
  destruct o; try reflexivity; try congruence;
    destruct a, b; try discriminate; reflexivity.
Qed.

(** * rounding changes nothing where the exact result is a small dyadic *)
Lemma pow2_pos_is_pow2 (n : nat) : pos_is_pow2 (Z.to_pos (2 ^ Z.of_nat n)) = true.
Proof.
  induction n as [|n IH]; [reflexivity|].
  rewrite Nat2Z.inj_succ, Z.pow_succ_r by lia.
  rewrite Z2Pos.inj_mul by (try lia; apply Z.pow_pos_nonneg; lia).
  exact IH.
Qed.

(** the integer M with M * 2^k = n is what rhe finds for n / 2^k *)
Lemma rhe_pow2_exact M k : 0 <= k -> rhe_pow2 (M * 2 ^ k) k = M.
Proof.
  intro Hk. unfold rhe_pow2. destruct (k <=? 0) eqn:K.
  - assert (k = 0) by lia. subst. rewrite Z.pow_0_r. lia.
  - assert (P : 0 < 2 ^ k) by (apply Z.pow_pos_nonneg; lia).
    rewrite Z.shiftr_div_pow2, Z.div_mul, Z.shiftl_mul_pow2 by lia.
    rewrite Z.sub_diag.
    rewrite Z.shiftl_mul_pow2 by lia.
    assert (Q : 0 < 2 ^ (k - 1)) by (apply Z.pow_pos_nonneg; lia).
    destruct (0 <? 1 * 2 ^ (k - 1)) eqn:E; [reflexivity | lia].
Qed.

Lemma pow2_nonpos u : u <= 0 -> (pow2 u == 1 # Z.to_pos (2 ^ (- u)))%Q.
Proof.
  intro Hu. unfold pow2.
  replace u with (- (- u)) at 1 by lia.
  rewrite Qpower_opp.
  rewrite <- (Zpower_Qpower 2 (- u)) by lia.
  assert (P : 0 < 2 ^ (- u)) by (apply Z.pow_pos_nonneg; lia).
  unfold Qinv, inject_Z. cbn [Qnum Qden].
  destruct (2 ^ (- u)) eqn:E; try lia. reflexivity.
Qed.

Lemma round64_fixes_small_dyadic m k : Z.abs m < 2 ^ 53 -> 0 <= k <= 1074 ->
  round64 (m # Z.to_pos (2 ^ k)) = Yield (Qred (m # Z.to_pos (2 ^ k))).
Proof.
  intros Hm Hk.
  assert (P : 0 < 2 ^ k) by (apply Z.pow_pos_nonneg; lia).
  set (d := Z.to_pos (2 ^ k)).
  assert (Hd : Z.pos d = 2 ^ k) by (unfold d; rewrite Z2Pos.id; lia).
  assert (Hp : pos_is_pow2 d = true).
  { unfold d. rewrite <- (Z2Nat.id k) by lia. apply pow2_pos_is_pow2. }
  unfold round64.
  destruct (qzero (m # d)) eqn:Hz.
  - unfold qzero, Qeq_bool in Hz. cbn [Qnum Qden] in Hz. apply Zeq_is_eq_bool in Hz.
    assert (m = 0) by lia. subst m.
    rewrite (Qred_complete (0 # d) 0) by reflexivity. reflexivity.
  - cbv zeta.
    set (u := Z.max (ilog2 (m # d) - 52) (-1074)).
    assert (Hu : u <= - k).
    { unfold u, ilog2. cbn [Qnum Qden]. rewrite Hd, Z.log2_pow2 by lia.
      assert (Z.log2 (Z.abs m) <= 52).
      { destruct (Z.eq_dec (Z.abs m) 0) as [E|E]; [rewrite E; cbn; lia|].
        assert (Z.log2 (Z.abs m) < 53) by (apply Z.log2_lt_pow2; lia). lia. }
      destruct (Qltb _ _); lia. }
    clearbody u.
    set (M := m * 2 ^ (- u - k)).
    assert (HM : M * 2 ^ k = m * 2 ^ (- u)).
    { unfold M. rewrite <- Z.mul_assoc, <- Z.pow_add_r by lia. f_equal. f_equal. lia. }
    assert (Hr : rhe (if 0 <=? u then (m # (d * Z.to_pos (2 ^ u)))%Q else ((m * 2 ^ (- u)) # d)%Q) = M).
    { destruct (0 <=? u) eqn:U.
      - assert (u = 0) by lia. assert (k = 0) by lia. subst u k.
        assert (d = 1%positive) by (unfold d; reflexivity). 
        unfold M. rewrite H. cbn. unfold rhe. cbn. unfold rhe_pow2. cbn. lia.
      - unfold rhe. cbn [Qnum Qden]. rewrite Hp, Hd, Z.log2_pow2 by lia.
        rewrite <- HM. apply rhe_pow2_exact. lia. }
    cbn [Qnum Qden]. rewrite Hr.
    assert (Hres : Qred (inject_Z M * pow2 u) = Qred (m # d)).
    { apply Qred_complete. rewrite (pow2_nonpos u) by lia.
      assert (P2 : 0 < 2 ^ (- u)) by (apply Z.pow_pos_nonneg; lia).
      unfold Qeq, Qmult, inject_Z. cbn [Qnum Qden].
      rewrite Pos.mul_1_l, Z2Pos.id, Hd by lia. lia. }
    rewrite Hres.
    destruct (Qle_bool MAXF (Qabs (Qred (m # d)))) eqn:O; [|reflexivity].
    exfalso. apply Qle_bool_iff in O. rewrite Qred_correct in O.
    unfold MAXF, Qle, Qabs, inject_Z in O. cbn [Qnum Qden] in O.
    assert (2 ^ 53 <= 2 ^ 1024) by (apply Z.pow_le_mono_r; lia).
    assert (1 <= Z.pos d) by lia. nia.
Qed.

Lemma pos_is_pow2_spec p : pos_is_pow2 p = true -> exists k, 0 <= k /\ Z.pos p = 2 ^ k.
Proof.
  induction p as [p IH|p IH|]; cbn; try discriminate.
  - intro H. destruct (IH H) as [k [Hk E]]. exists (k + 1). split; [lia|].
    rewrite Pos2Z.inj_xO, E, Z.pow_add_r by lia. lia.
  - intros _. exists 0. split; [lia | reflexivity].
Qed.

(** every float Val.binop can produce ([mk_flt]: [dyadic_ok]) is a fixed point of [round64] *)
Lemma round64_fixes_val_floats q : dyadic_ok q = true -> round64 (Qred q) = Yield (Qred q).
Proof.
  unfold dyadic_ok. intro H. apply andb_true_iff in H as [H H3]. apply andb_true_iff in H as [H1 H2].
  destruct (pos_is_pow2_spec _ H1) as [k [Hk E]].
  assert (K : k <= 256).
  { destruct (Z_le_gt_dec k 256) as [L|G]; [exact L|]. exfalso.
    assert (2 ^ 256 < 2 ^ k) by (apply Z.pow_lt_mono_r; lia). lia. }
  assert (D : Qden (Qred q) = Z.to_pos (2 ^ k)) by (rewrite <- E; reflexivity).
  assert (F : Qred q = (Qnum (Qred q) # Z.to_pos (2 ^ k))%Q) by (rewrite <- D; destruct (Qred q); reflexivity).
  rewrite F at 1. rewrite round64_fixes_small_dyadic by lia.
  rewrite <- F. rewrite (Qred_complete (Qred q) q (Qred_correct q)). reflexivity.
Qed.

(** witnesses: the laws of the rationals fail *)
Definition f01 : val := mkf 3602879701896397 (-55).      (* 0.1 *)
Definition f02 : val := mkf 3602879701896397 (-54).      (* 0.2 *)
Definition f03 : val := mkf 5404319552844595 (-54).      (* 0.3 *)

Lemma ieee_add_not_associative :
  exists x c1 c2 l r, obind (binop_ieee OAdd x c1) (fun s => binop_ieee OAdd s c2) = Yield l /\
                      obind (binop_ieee OAdd c1 c2) (fun s => binop_ieee OAdd x s) = Yield r /\
                      val_eqb l r = false.
Proof. exists f01, f02, f03. eexists. eexists. split; [vm_compute; reflexivity|]. split; vm_compute; reflexivity. Qed.

Lemma ieee_cancellation :
  (* (-1e16 + 1e16) + 1.0 = 1.0 but -1e16 + (1e16 + 1.0) = 0.0 *)
  let big := mkf 152587890625 16 in
  obind (binop_ieee OAdd (mkf (-152587890625) 16) big) (fun s => binop_ieee OAdd s (mkf 1 0)) = Yield (VFlt 1) /\
  obind (binop_ieee OAdd big (mkf 1 0)) (fun s => binop_ieee OAdd (mkf (-152587890625) 16) s) = Yield (VFlt 0).
Proof. split; vm_compute; reflexivity. Qed.

Lemma ieee_mul_not_distributive :
  exists x y c l r, obind (binop_ieee OAdd x y) (fun s => binop_ieee OMul s c) = Yield l /\
                    obind (binop_ieee OMul x c) (fun p => obind (binop_ieee OMul y c) (fun q => binop_ieee OAdd p q)) = Yield r /\
                    val_eqb l r = false.
Proof. exists f01, f02, f03. eexists. eexists. split; [vm_compute; reflexivity|]. split; vm_compute; reflexivity. Qed.

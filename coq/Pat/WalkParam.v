(* Pat/WalkParam.v — PRandomWalk with pattern-valued `min` / `max` (property C12), in BOTH modes of its `wrap` flag.

   Pat/Chance.v has the walk as a machine with fixed scalar parameters ([walk_step values mn mx wrap pos g], wrap = false
   included: the position simply leaves the list - Python's negative index / IndexError).  chance.py PRandomWalk.__next__ is
       vvalues = Pattern.value(self.values); vmin = Pattern.value(self.min); vmax = Pattern.value(self.max)
       <the move of Chance.walk_step with vmin, vmax>
   i.e. ONE resolution of each parameter per output step, whatever the mode and whatever the move turns out to be (there is no
   re-draw in the code: a walk that is to turn back at the ends must re-draw the MOVE, not re-enter __next__).  Here the two
   bounds are [arg] operands resolved with the engine's [value]; the list of values is a literal list (a pattern-valued
   `values` is judged by the oracles only).  Definitions and lemmas (the file is new; nothing existing is touched). *)
From Isobar Require Import Base.Prelude Pat.Val Pat.Syntax Pat.Step Pat.StepProofs Pat.Param Pat.ParamProofs Pat.Chance.
From Coq Require Import QArith.
Open Scope Z_scope.

Section WalkParam.
  Variable R : Type.
  Variable r_unit : R -> Z * R.
  Variable r_below : Z -> R -> Z * R.
  Variable binop : Val.op -> val -> val -> outcome val.
  Variable LMAX : nat.

  Record rw := mkRW { w_min : arg; w_max : arg; w_pos : Z }.

  Definition as_int (v : val) : option Z :=
    match v with VInt z => Some z | VBool b => Some (if b then 1 else 0) | _ => None end.

  (* one __next__: min, then max, each resolved once; then the walk's move with those two numbers *)
  Definition rw_step (f : nat) (values : list Z) (wrap : bool) (o : rw) (g : R) : res * rw * R :=
    let '(om, m') := value binop LMAX f (w_min o) in
    match om with
    | Yield vm =>
        let '(ox, x') := value binop LMAX f (w_max o) in
        match ox, as_int vm with
        | Yield vx, Some mn =>
            match as_int vx with
            | Some mx => let '(r, pos', g') := walk_step R r_unit r_below values mn mx wrap (w_pos o) g in (r, mkRW m' x' pos', g')
            | None => (Fail, mkRW m' x' (w_pos o), g)
            end
        | Yield _, None => (Fail, mkRW m' x' (w_pos o), g)
        | Val.Stop, _ => (Chance.Stop, mkRW m' x' (w_pos o), g)
        | _, _ => (Fail, mkRW m' x' (w_pos o), g)
        end
    | Val.Stop => (Chance.Stop, mkRW m' (w_max o) (w_pos o), g)
    | _ => (Fail, mkRW m' (w_max o) (w_pos o), g)
    end.

  Fixpoint rw_outputs (f n : nat) (values : list Z) (wrap : bool) (o : rw) (g : R) : list res * rw * R :=
    match n with
    | O => ([], o, g)
    | S n' => let '(r, o', g') := rw_step f values wrap o g in
              let '(rs, o'', g'') := rw_outputs f n' values wrap o' g' in (r :: rs, o'', g'')
    end.

  (* the step-wise scalar reference: step k uses the k-th value of each stream *)
  Fixpoint rw_scalar_outputs (values : list Z) (wrap : bool) (mins maxs : list Z) (pos : Z) (g : R) : list res * Z * R :=
    match mins, maxs with
    | mn :: mr, mx :: xr =>
        let '(r, pos', g') := walk_step R r_unit r_below values mn mx wrap pos g in
        let '(rs, posn, gn) := rw_scalar_outputs values wrap mr xr pos' g' in (r :: rs, posn, gn)
    | _, _ => ([], pos, g)
    end.

  (* ONE output, in either mode (wrap = true or false), with pattern-valued bounds: it is the move the walk makes with the two
     numbers the patterns give next, and each pattern has advanced by exactly one step - also when the move leaves the list *)
  Theorem rw_use_one_step f values wrap qm qx pos g a qm' b qx' :
    step binop LMAX f qm = (Yield (VInt a), qm') -> step binop LMAX f qx = (Yield (VInt b), qx') ->
    rw_step (S f) values wrap (mkRW (AP qm) (AP qx) pos) g =
      (let '(r, pos', g') := walk_step R r_unit r_below values a b wrap pos g in (r, mkRW (AP qm') (AP qx') pos', g')).
  Proof.
    intros Hm Hx. unfold rw_step. cbn [w_min w_max w_pos]. rewrite !value_pattern, Hm, Hx. cbn [as_int]. reflexivity.
  Qed.

  (* the bounds given as scalars, PConstant, PRef(PConstant) ...: the same walk *)
  Theorem rw_const_step f values wrap a da ma b db mb pos g :
    konst (VInt a) da ma -> konst (VInt b) db mb -> (2 * da + 1 <= f)%nat -> (2 * db + 1 <= f)%nat ->
    rw_step f values wrap (mkRW ma mb pos) g =
      (let '(r, pos', g') := walk_step R r_unit r_below values a b wrap pos g in (r, mkRW ma mb pos', g')).
  Proof.
    intros Ka Kb Fa Fb. pose proof (konst_fixed binop LMAX _ _ _ Ka f Fa) as Ha. pose proof (konst_fixed binop LMAX _ _ _ Kb f Fb) as Hb.
    unfold fixedv in *. unfold rw_step. cbn [w_min w_max w_pos]. rewrite Ha, Hb. cbn [as_int]. reflexivity.
  Qed.

  (* n outputs: the k-th move is made with the k-th values of the two streams; afterwards each stream has given exactly n values *)
  Theorem rw_use_schedule f values wrap : forall n qm qx pos g mins maxs qmn qxn,
    outputs binop LMAX f n qm = (map (fun z => Yield (VInt z)) mins, qmn) ->
    outputs binop LMAX f n qx = (map (fun z => Yield (VInt z)) maxs, qxn) ->
    rw_outputs (S f) n values wrap (mkRW (AP qm) (AP qx) pos) g =
      (let '(rs, posn, gn) := rw_scalar_outputs values wrap mins maxs pos g in (rs, mkRW (AP qmn) (AP qxn) posn, gn)).
  Proof.
    induction n as [|n IH]; intros qm qx pos g mins maxs qmn qxn Hm Hx.
    - cbn in Hm, Hx. inversion Hm; inversion Hx; subst. destruct mins, maxs; try discriminate. reflexivity.
    - rewrite outputs_S in Hm, Hx.
      destruct (step binop LMAX f qm) as [om qm1] eqn:Em. destruct (outputs binop LMAX f n qm1) as [rm qmN] eqn:Om.
      destruct (step binop LMAX f qx) as [ox qx1] eqn:Ex. destruct (outputs binop LMAX f n qx1) as [rx qxN] eqn:Ox.
      destruct mins as [|a mr]; [discriminate|]. destruct maxs as [|b xr]; [discriminate|].
      cbn [map] in Hm, Hx. inversion Hm; inversion Hx; subst.
      cbn [rw_outputs rw_scalar_outputs]. rewrite (rw_use_one_step f values wrap qm qx pos g a qm1 b qx1 Em Ex).
      destruct (walk_step R r_unit r_below values a b wrap pos g) as [[r pos'] g'].
      rewrite (IH qm1 qx1 pos' g' mr xr qmn qxn Om Ox).
      destruct (rw_scalar_outputs values wrap mr xr pos' g') as [[rs posn] gn]. reflexivity.
  Qed.
End WalkParam.

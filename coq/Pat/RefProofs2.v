(* Pat/RefProofs2.v — closed forms of the remaining classes of C10 (continuation of Pat/RefProofs.v, same
   vocabulary: [Den f p s], [ADen f a s], [Den_sim]).  Each theorem takes ARBITRARY operand objects that denote some
   s and concludes that the class object, in the state __init__ leaves it in, denotes the closed form of Pat/Ref.v.
   Classes whose __next__ loops step their operands with whatever fuel is left: Pat/FuelMono.v (more fuel, same
   result) turns a denotation at fuel f into one at every larger fuel, with the same states. *)
From Isobar Require Import Base.Prelude Pat.Val Pat.Syntax Pat.Step Pat.StepProofs Pat.Ref Pat.RefProofs Pat.FuelMono.
From Coq Require Import String QArith Qround.
Open Scope Z_scope.

Lemma at_not_oof s j : at_ s j <> OutOfFuel.
Proof. destruct (at_cases s j) as [[v E]|E]; rewrite E; discriminate. Qed.

Section Den2.
  Variable binop : op -> val -> val -> outcome val.
  Variable LMAX : nat.
  Notation step := (step binop LMAX).
  Notation value := (value binop LMAX).
  Notation anext := (anext binop LMAX).
  Notation reset := (reset binop LMAX).
  Notation after := (after binop LMAX).
  Notation aafter := (aafter binop LMAX).
  Notation Den := (Den binop LMAX).
  Notation ADen := (ADen binop LMAX).

  (** a denotation at fuel f is a denotation at every larger fuel, through the same states *)
  Lemma Den_fuel_after f F c s : Den f c s -> (f <= F)%nat -> forall j, after F j c = after f j c.
  Proof.
    intros H HF. induction j as [|j IH]; [reflexivity|].
    rewrite !(after_S binop LMAX), IH. f_equal. apply step_fuel_mono; [exact HF|].
    specialize (H j). unfold out in H. rewrite H. apply at_not_oof.
  Qed.

  Lemma Den_fuel f F c s : Den f c s -> (f <= F)%nat -> Den F c s.
  Proof.
    intros H HF j. unfold out. rewrite (Den_fuel_after f F c s H HF j).
    rewrite (step_fuel_mono binop LMAX f F) by (try exact HF; specialize (H j); unfold out in H; rewrite H; apply at_not_oof).
    apply H.
  Qed.

  (** stepping the j-th state of an operand with ANY fuel F >= f *)
  Lemma Den_step_ge f F c s q : Den f c s -> (f <= F)%nat -> step F (after f q c) = (at_ s q, after f (S q) c).
  Proof.
    intros H HF. rewrite (step_fuel_mono binop LMAX f F) by (try exact HF; specialize (H q); unfold out in H; rewrite H; apply at_not_oof).
    apply (Den_step binop LMAX). exact H.
  Qed.
  Lemma Den_anext_ge f F c s q : Den f c s -> (f <= F)%nat -> anext (S F) (AP (after f q c)) = (at_ s q, AP (after f (S q) c)).
  Proof. intros H HF. rewrite (anext_pat binop LMAX), (Den_step_ge f F c s q H HF). reflexivity. Qed.
  Lemma Den_value_ge f F c s q : Den f c s -> (f <= F)%nat -> value (S F) (AP (after f q c)) = (at_ s q, AP (after f (S q) c)).
  Proof. intros H HF. rewrite (value_pat binop LMAX), (Den_step_ge f F c s q H HF). reflexivity. Qed.

  (* ---------------------------------------------------------------------------------------------- *)
  (** * PImpulse(period), period >= 1 an int: 1 every period events (starting with a 1), otherwise 0 *)

  Lemma step_impulse_eq f period pos :
    step (S f) (PImpulse period pos) =
      (let '(op_, period') := value f period in
       match op_ with
       | Yield vp =>
           match cmp OGe (VInt pos) vp with
           | Yield b =>
               let pos1 := if b then 0 else pos in
               (Yield (VInt (if pos1 =? 0 then 1 else 0)), PImpulse period' (pos1 + 1))
           | oc => (ocast oc, PImpulse period' pos)
           end
       | _ => (op_, PImpulse period' pos)
       end).
  Proof. reflexivity. Qed.

  Theorem impulse_den f P : 1 <= P ->
    Den (S (S f)) (PImpulse (AV (VInt P)) 0) (Inf (ref_impulse P)).
  Proof.
    intro HP.
    apply (Den_sim binop LMAX) with (R := fun j p =>
      p = PImpulse (AV (VInt P)) (if (j =? 0)%nat then 0 else (Z.of_nat j - 1) mod P + 1)).
    - reflexivity.
    - intros j p ->. rewrite step_impulse_eq, (value_av binop LMAX), cmp_ge_int. cbn [at_]. unfold ref_impulse, zi.
      destruct j as [|j].
      + cbn [Nat.eqb Z.of_nat]. destruct (P <=? 0) eqn:E; [lia|]. cbn [fst snd Z.eqb]. rewrite Z.mod_0_l by lia.
        split; reflexivity.
      + cbn [Nat.eqb]. rewrite Nat2Z.inj_succ. replace (Z.succ (Z.of_nat j) - 1) with (Z.of_nat j) by lia.
        set (J := Z.of_nat j). assert (HJ : 0 <= J) by lia.
        pose proof (Z.mod_pos_bound J P ltac:(lia)) as B.
        assert (D : J = P * (J / P) + J mod P) by (apply Z.div_mod; lia).
        destruct (P <=? J mod P + 1) eqn:E.
        * (* the counter wraps: J mod P = P - 1, so (J + 1) mod P = 0 *)
          assert (Em : J mod P = P - 1) by lia.
          assert (E0 : Z.succ J mod P = 0).
          { replace (Z.succ J) with ((J / P + 1) * P) by nia. apply Z.mod_mul. lia. }
          rewrite E0. cbn [fst snd Z.eqb]. split; [reflexivity|].
          f_equal. replace (Z.of_nat (S (S j)) - 1) with (Z.succ J) by (unfold J; lia). rewrite E0. reflexivity.
        * assert (Em : J mod P + 1 < P) by lia.
          assert (E1 : Z.succ J mod P = J mod P + 1).
          { symmetry. apply (Z.mod_unique_pos _ _ (J / P)); lia. }
          rewrite E1. destruct (J mod P + 1 =? 0) eqn:E2; [lia|]. cbn [fst snd]. split; [reflexivity|].
          f_equal. replace (Z.of_nat (S (S j)) - 1) with (Z.succ J) by (unfold J; lia). rewrite E1. reflexivity.
  Qed.

  (* ---------------------------------------------------------------------------------------------- *)
  (** * PCounter(trigger) over a stream of ints: the number of rising zero-crossings so far *)

  Lemma step_counter_eq f trigger v count :
    step (S f) (PCounter trigger v count) =
      (let '(ot, trigger') := anext f trigger in
       match ot with
       | Yield vt =>
           let st := PCounter trigger' v count in
           match obind (cmp OGt vt (VInt 0)) (fun b => if b then cmp OLe v (VInt 0) else Yield false) with
           | Yield true => (Yield (VInt (count + 1)), PCounter trigger' vt (count + 1))
           | Yield false =>
               match obind (cmp OLe vt (VInt 0)) (fun b => if b then cmp OGt v (VInt 0) else Yield false) with
               | Yield true => (Yield (VInt count), PCounter trigger' vt count)
               | Yield false => (Yield (VInt count), st)
               | oc => (ocast oc, st)
               end
           | oc => (ocast oc, st)
           end
       | _ => (ot, PCounter trigger' v count)
       end).
  Proof. reflexivity. Qed.

  (* one trigger value: the new (previous value, count) *)
  Definition counter1 (st : Z * Z) (t : Z) : Z * Z :=
    let '(prev, count) := st in
    (if ((0 <? t) && (prev <=? 0)) || ((t <=? 0) && (0 <? prev)) then t else prev,
     if (0 <? t) && (prev <=? 0) then count + 1 else count).
  Definition counter_st (st : Z * Z) (ts : list Z) : Z * Z := fold_left counter1 ts st.

  (* the ints among the first j values of a denotation *)
  Definition zpre (s : sem) (j : nat) : list Z :=
    flat_map (fun i => match at_ s i with Yield (VInt t) => [t] | _ => [] end) (seq 0 j).
  Lemma zpre_S s j : zpre s (S j) = zpre s j ++ match at_ s j with Yield (VInt t) => [t] | _ => [] end.
  Proof. unfold zpre. rewrite seq_S, flat_map_app. cbn [flat_map]. rewrite app_nil_r. reflexivity. Qed.

  Lemma Out_sim f p0 (o : nat -> outcome val) (R : nat -> pat -> Prop) :
    R O p0 ->
    (forall j p, R j p -> fst (step f p) = o j /\ R (S j) (snd (step f p))) ->
    forall j, out binop LMAX f j p0 = o j.
  Proof.
    intros H0 Hstep. assert (HR : forall j, R j (after f j p0)).
    { induction j as [|j IH]; [exact H0|]. rewrite (after_S binop LMAX). apply Hstep. exact IH. }
    intro j. unfold out. apply Hstep. apply HR.
  Qed.

  Lemma counter_st_snoc st ts t : counter_st st (ts ++ [t]) = counter1 (counter_st st ts) t.
  Proof. unfold counter_st. rewrite fold_left_app. reflexivity. Qed.

  (* output j, for a finite or endless trigger stream of ints: the count after the first j+1 triggers *)
  Theorem counter_out f c s : Den f c s -> (forall j v, at_ s j = Yield v -> exists t, v = VInt t) ->
    forall j, out binop LMAX (S (S f)) j (PCounter (AP c) (VInt 0) 0) =
              match at_ s j with
              | Yield _ => Yield (zi (snd (counter_st (0, 0) (zpre s (S j)))))
              | o => o
              end.
  Proof.
    intros Hc Hi.
    apply Out_sim with (R := fun j p =>
      p = PCounter (AP (after f j c)) (VInt (fst (counter_st (0, 0) (zpre s j)))) (snd (counter_st (0, 0) (zpre s j)))).
    - reflexivity.
    - intros j p ->. rewrite step_counter_eq, (Den_anext_ge f f c s j Hc (le_n _)), zpre_S.
      destruct (at_cases s j) as [[v Ev]|Ev]; rewrite Ev.
      + destruct (Hi j v Ev) as [t ->]. rewrite counter_st_snoc.
        destruct (counter_st (0, 0) (zpre s j)) as [prev count]. cbn [fst snd counter1].
        rewrite cmp_gt_int. cbn [obind].
        destruct (0 <? t) eqn:E1.
        * rewrite cmp_le_int. destruct (prev <=? 0) eqn:E2.
          -- cbn [andb orb fst snd]. split; reflexivity.
          -- rewrite cmp_le_int. destruct (t <=? 0) eqn:E3; [lia|]. cbn [obind andb orb fst snd]. split; reflexivity.
        * rewrite cmp_le_int. destruct (t <=? 0) eqn:E3; [|lia]. cbn [obind]. rewrite cmp_gt_int.
          destruct (0 <? prev) eqn:E4; cbn [andb orb fst snd]; split; reflexivity.
      + rewrite app_nil_r. cbn [fst snd]. split; reflexivity.
  Qed.

  Lemma ref_counter_nth : forall zs prev count j,
    nth_error (ref_counter_from prev count zs) j =
      match nth_error zs j with
      | Some _ => Some (zi (snd (counter_st (prev, count) (firstn (S j) zs))))
      | None => None
      end.
  Proof.
    induction zs as [|t r IH]; intros prev count j; [destruct j; reflexivity|].
    destruct j as [|j].
    - cbn [ref_counter_from nth_error firstn counter_st fold_left counter1 snd]. reflexivity.
    - cbn [ref_counter_from nth_error]. rewrite IH. destruct (nth_error r j); [|reflexivity].
      remember (S j) as k. cbn [firstn counter_st fold_left counter1]. reflexivity.
  Qed.

  Lemma zpre_fin_ints zs : forall j, zpre (Fin (map zi zs)) j = firstn j zs.
  Proof.
    induction j as [|j IH]; [reflexivity|]. rewrite zpre_S, IH. cbn [at_]. rewrite nth_error_map.
    destruct (nth_error zs j) as [t|] eqn:E; cbn [option_map].
    - clear IH. revert j E. induction zs as [|x zs IHz]; intros j E; [destruct j; discriminate|].
      destruct j as [|j]; cbn in *; [inversion E; reflexivity|]. f_equal. apply IHz. exact E.
    - rewrite app_nil_r. apply nth_error_None in E. rewrite !firstn_all2 by lia. reflexivity.
  Qed.

  Theorem counter_den f c zs : Den f c (Fin (map zi zs)) ->
    Den (S (S f)) (PCounter (AP c) (VInt 0) 0) (Fin (ref_counter_from 0 0 zs)).
  Proof.
    intros Hc j. rewrite (counter_out f c (Fin (map zi zs)) Hc).
    - cbn [at_]. rewrite ref_counter_nth, nth_error_map, zpre_fin_ints.
      destruct (nth_error zs j); reflexivity.
    - intros q v E. cbn [at_] in E. rewrite nth_error_map in E. destruct (nth_error zs q); inversion E. eexists; reflexivity.
  Qed.

  (* an endless trigger (the documented use: PCounter(PImpulse(n))): output j is the last element of the closed form
     applied to the first j+1 triggers *)
  Lemma zpre_inf_ints gz : forall j, zpre (Inf (fun i => zi (gz i))) j = map gz (seq 0 j).
  Proof. induction j as [|j IH]; [reflexivity|]. rewrite zpre_S, IH, seq_S, map_app. reflexivity. Qed.

  Theorem counter_den_inf f c gz : Den f c (Inf (fun i => zi (gz i))) ->
    Den (S (S f)) (PCounter (AP c) (VInt 0) 0)
        (Inf (fun j => nth j (ref_counter_from 0 0 (map gz (seq 0 (S j)))) VNone)).
  Proof.
    intros Hc j. rewrite (counter_out f c _ Hc).
    - cbn [at_]. f_equal. rewrite zpre_inf_ints. symmetry. apply nth_error_nth.
      rewrite ref_counter_nth. rewrite nth_error_map, nth_error_seq' by lia. cbn [option_map].
      rewrite firstn_all2 by (rewrite map_length, seq_length; lia). reflexivity.
    - intros q v E. inversion E. eexists; reflexivity.
  Qed.

  (* ---------------------------------------------------------------------------------------------- *)
  (** * PWrap(p, min, max), ints, min < max: every value wrapped into [min, max) *)

  Lemma wrap_up_int mn mx : mn < mx -> forall n v, mn - v <= Z.of_nat n * (mx - mn) ->
    wrap_up n (VInt v) (VInt mn) (VInt mx) = Yield (VInt (if v <? mn then ref_wrap1 mn mx v else v)).
  Proof.
    intros Hd. unfold ref_wrap1. induction n as [|n IH]; intros v Hn.
    - cbn [wrap_up]. rewrite cmp_lt_int. destruct (v <? mn) eqn:E; [lia | reflexivity].
    - cbn [wrap_up]. rewrite cmp_lt_int. destruct (v <? mn) eqn:E; [|reflexivity].
      rewrite binop_sub_int. cbn [obind]. rewrite binop_add_int. cbn [obind]. rewrite IH by lia.
      do 2 f_equal. destruct (v + (mx - mn) <? mn) eqn:E2.
      + replace (v + (mx - mn) - mn) with (v - mn + 1 * (mx - mn)) by ring. rewrite Z.mod_add by lia. reflexivity.
      + assert (M : v - mn + (mx - mn) = (v - mn) mod (mx - mn)) by (apply (Z.mod_unique_pos _ _ (-1)); lia).
        rewrite <- M. ring.
  Qed.

  Lemma wrap_down_int mn mx : mn < mx -> forall n v, mn <= v -> v - mn <= Z.of_nat n * (mx - mn) ->
    wrap_down n (VInt v) (VInt mn) (VInt mx) = Yield (VInt (ref_wrap1 mn mx v)).
  Proof.
    intros Hd. unfold ref_wrap1. induction n as [|n IH]; intros v Hv Hn.
    - cbn [wrap_down]. rewrite cmp_ge_int. assert (v = mn) by lia. subst v.
      destruct (mx <=? mn) eqn:E; [lia|]. rewrite Z.sub_diag, Z.mod_0_l by lia. do 2 f_equal. lia.
    - cbn [wrap_down]. rewrite cmp_ge_int. destruct (mx <=? v) eqn:E.
      + rewrite binop_sub_int. cbn [obind]. rewrite binop_sub_int. cbn [obind]. rewrite IH by lia.
        do 3 f_equal. replace (v - mn) with (v - (mx - mn) - mn + 1 * (mx - mn)) by ring. rewrite Z.mod_add by lia. reflexivity.
      + do 2 f_equal. rewrite Z.mod_small by lia. lia.
  Qed.

  Lemma wrap_int mn mx n v : mn < mx -> Z.abs (v - mn) <= Z.of_nat n * (mx - mn) ->
    obind (wrap_up n (VInt v) (VInt mn) (VInt mx)) (fun v1 => wrap_down n v1 (VInt mn) (VInt mx)) = Yield (VInt (ref_wrap1 mn mx v)).
  Proof.
    intros Hd Hn. rewrite (wrap_up_int mn mx Hd) by lia. cbn [obind]. destruct (v <? mn) eqn:E.
    - (* wrapped upwards into the range: nothing to take off *)
      assert (R : mn <= ref_wrap1 mn mx v < mx) by (unfold ref_wrap1; pose proof (Z.mod_pos_bound (v - mn) (mx - mn) ltac:(lia)); lia).
      destruct n as [|n]; cbn [wrap_down]; rewrite cmp_ge_int; destruct (mx <=? ref_wrap1 mn mx v) eqn:E2; try lia; reflexivity.
    - apply (wrap_down_int mn mx Hd); lia.
  Qed.

  Definition wrapv (mn mx : Z) (v : val) : val := match v with VInt z => zi (ref_wrap1 mn mx z) | _ => v end.

  Lemma step_wrap_eq f pattern mn mx :
    step (S f) (PWrap pattern mn mx) =
      (let '(o, pattern') := anext f pattern in
       match o with
       | Yield v => (obind (wrap_up f v mn mx) (fun v1 => wrap_down f v1 mn mx), PWrap pattern' mn mx)
       | _ => (o, PWrap pattern' mn mx)
       end).
  Proof. reflexivity. Qed.

  (* K bounds the number of times the range has to be added / taken off: |v - min| <= K * (max - min) *)
  Theorem wrap_den f c s mn mx K : mn < mx -> Den f c s ->
    (forall j v, at_ s j = Yield v -> exists z, v = VInt z /\ Z.abs (z - mn) <= Z.of_nat K * (mx - mn)) ->
    Den (S (S (f + K))) (PWrap (AP c) (VInt mn) (VInt mx)) (sem_map (wrapv mn mx) s).
  Proof.
    intros Hd Hc Hv.
    apply (Den_sim binop LMAX) with (R := fun j p => p = PWrap (AP (after f j c)) (VInt mn) (VInt mx)); [reflexivity|].
    intros j p ->. rewrite step_wrap_eq, (Den_anext_ge f (f + K) c s j Hc ltac:(lia)), at_map.
    destruct (at_cases s j) as [[v Ev]|Ev]; rewrite Ev; cbn [fst snd]; [|split; reflexivity].
    destruct (Hv j v Ev) as (z & -> & Hz). rewrite wrap_int by (try exact Hd; nia). split; reflexivity.
  Qed.

  (* ---------------------------------------------------------------------------------------------- *)
  (** * filtering classes: PCollapse, PNoRepeats.  __next__ reads its input until a value is to be kept:
        `while <drop>: rv = Pattern.value(self.input)` — every value read costs one unit of fuel. *)

  Section Filter.
    Variable St : Type.
    Variable mk : arg -> St -> pat.
    Variable dropb : St -> val -> bool.
    Variable upd : St -> val -> St.
    Hypothesis mk_step : forall F a st,
      step (S F) (mk a st) =
        (let '(o, a') := value F a in
         match o with
         | Yield rv => if dropb st rv then step F (mk a' st) else (Yield rv, mk a' (upd st rv))
         | _ => (o, mk a' st)
         end).

    Fixpoint sfilter (st : St) (l : list val) : list val :=
      match l with
      | [] => []
      | v :: r => if dropb st v then sfilter st r else v :: sfilter (upd st v) r
      end.

    Variable f : nat.
    Variable c : pat.
    Variable l : list val.
    Hypothesis Hc : Den f c (Fin l).

    Lemma skipn_nth_cons {A} (xs : list A) m x : nth_error xs m = Some x -> skipn m xs = x :: skipn (S m) xs.
    Proof.
      revert m. induction xs as [|y xs IH]; intros m H; [destruct m; discriminate|].
      destruct m as [|m]; cbn in *; [inversion H; reflexivity | apply IH; exact H].
    Qed.

    (* one call: the next value that is kept, or the end *)
    Lemma filter_step : forall k m st F, (List.length l - m <= k)%nat -> (f + k + 1 <= F)%nat ->
      exists m', (m <= m')%nat /\
        match sfilter st (skipn m l) with
        | [] => step (S F) (mk (AP (after f m c)) st) = (Stop, mk (AP (after f m' c)) st) /\ (List.length l < m')%nat
        | x :: rest => step (S F) (mk (AP (after f m c)) st) = (Yield x, mk (AP (after f m' c)) (upd st x))
                       /\ sfilter (upd st x) (skipn m' l) = rest
        end.
    Proof.
      induction k as [|k IH]; intros m st F Hk HF.
      - (* nothing left to read *)
        assert (Hm : (List.length l <= m)%nat) by lia.
        rewrite (skipn_all2 l Hm). cbn [sfilter]. exists (S m). split; [lia|].
        destruct F as [|F]; [lia|]. rewrite mk_step, (Den_value_ge f F c (Fin l) m Hc ltac:(lia)), (at_fin_ge l m Hm).
        split; [reflexivity | lia].
      - destruct F as [|F]; [lia|]. rewrite mk_step, (Den_value_ge f F c (Fin l) m Hc ltac:(lia)).
        destruct (nth_error l m) as [v|] eqn:Ev.
        + rewrite (skipn_nth_cons l m v Ev). cbn [sfilter at_]. rewrite Ev.
          destruct (dropb st v) eqn:Ed.
          * destruct (IH (S m) st F ltac:(lia) ltac:(lia)) as (m' & Hm' & Hres). exists m'. split; [lia | exact Hres].
          * exists (S m). split; [lia|]. split; reflexivity.
        + apply nth_error_None in Ev. rewrite (skipn_all2 l Ev). cbn [sfilter]. exists (S m). split; [lia|].
          rewrite (at_fin_ge l m Ev). split; [reflexivity | lia].
    Qed.

    Lemma skipn_nil_at {A} (xs : list A) j : skipn j xs = [] -> nth_error xs j = None.
    Proof. intro H. apply nth_error_None. rewrite <- (firstn_skipn j xs), H, app_nil_r. rewrite firstn_length. lia. Qed.
    Lemma skipn_cons_at {A} (xs : list A) j x r : skipn j xs = x :: r -> nth_error xs j = Some x /\ skipn (S j) xs = r.
    Proof.
      revert j. induction xs as [|y xs IH]; intros j H; [destruct j; discriminate|].
      destruct j as [|j]; cbn in *; [inversion H; split; reflexivity | apply IH; exact H].
    Qed.

    Theorem filter_den st0 :
      Den (S (f + List.length l + 2)) (mk (AP c) st0) (Fin (sfilter st0 l)).
    Proof.
      set (outl := sfilter st0 l).
      apply (Den_sim binop LMAX) with (R := fun j p => exists m st, p = mk (AP (after f m c)) st /\ sfilter st (skipn m l) = skipn j outl).
      - exists O, st0. split; reflexivity.
      - intros j p (m & st & -> & Hrem).
        destruct (filter_step (List.length l) m st (f + List.length l + 2) ltac:(lia) ltac:(lia)) as (m' & Hm' & Hres).
        rewrite Hrem in Hres. destruct (skipn j outl) as [|x rest] eqn:Ej.
        + destruct Hres as [E Hlen]. rewrite E. cbn [fst snd at_]. rewrite (skipn_nil_at outl j Ej). split; [reflexivity|].
          exists m', st. split; [reflexivity|]. rewrite (skipn_all2 l) by lia. cbn [sfilter].
          symmetry. apply skipn_all2. apply nth_error_None. apply skipn_nil_at.
          assert (Hn : nth_error outl j = None) by (apply skipn_nil_at; exact Ej). apply nth_error_None in Hn.
          apply skipn_all2. lia.
        + destruct Hres as [E Hrest]. rewrite E. cbn [fst snd at_]. destruct (skipn_cons_at outl j x rest Ej) as [Hx Hr].
          rewrite Hx. split; [reflexivity|]. exists m', (upd st x). split; [reflexivity|]. rewrite Hrest, Hr. reflexivity.
    Qed.
  End Filter.

  (** PCollapse(p): rests dropped *)
  Lemma step_collapse_eq F input :
    step (S F) (PCollapse input) =
      (let '(o, input') := value F input in
       match o with
       | Yield rv => if is_none rv then step F (PCollapse input') else (Yield rv, PCollapse input')
       | _ => (o, PCollapse input')
       end).
  Proof.
    change (step (S F) (PCollapse input)) with
      (let '(o, input') := value F input in
       match o with
       | Yield VNone => step F (PCollapse input')
       | _ => (o, PCollapse input')
       end).
    destruct (value F input) as [[[]| | | |] a']; reflexivity.
  Qed.

  Lemma sfilter_collapse l : sfilter unit (fun _ v => is_none v) (fun st _ => st) tt l = ref_collapse l.
  Proof.
    unfold ref_collapse. induction l as [|v r IH]; [reflexivity|]. cbn [sfilter filter].
    destruct (is_none v); cbn [negb]; [exact IH | f_equal; exact IH].
  Qed.

  Theorem collapse_den f c l : Den f c (Fin l) ->
    Den (S (f + List.length l + 2)) (PCollapse (AP c)) (Fin (ref_collapse l)).
  Proof.
    intro Hc. rewrite <- sfilter_collapse.
    apply (filter_den unit (fun a _ => PCollapse a) (fun _ v => is_none v) (fun st _ => st)
             (fun F a _ => step_collapse_eq F a) f c l Hc tt).
  Qed.

  (** PNoRepeats(p): a value equal to the one before it is dropped.  sys.maxsize is the class's "no value yet" marker
      (its __next__ also drops every value equal to it): the stream does not contain it *)
  Lemma step_norepeats_eq F input v :
    step (S F) (PNoRepeats input v) =
      (let '(o, input') := value F input in
       match o with
       | Yield rv => if py_eq rv v || py_eq rv (VInt MAXSIZE) then step F (PNoRepeats input' v) else (Yield rv, PNoRepeats input' rv)
       | _ => (o, PNoRepeats input' v)
       end).
  Proof. reflexivity. Qed.

  Lemma sfilter_norepeats : forall l prev, (forall v, In v l -> py_eq v (VInt MAXSIZE) = false) ->
    sfilter val (fun prev rv => py_eq rv prev || py_eq rv (VInt MAXSIZE)) (fun _ rv => rv) prev l = ref_norepeats_from prev l.
  Proof.
    induction l as [|v r IH]; intros prev H; [reflexivity|]. cbn [sfilter ref_norepeats_from].
    rewrite (H v (or_introl eq_refl)), orb_false_r.
    destruct (py_eq v prev); [|f_equal]; apply IH; intros x Hx; apply H; right; exact Hx.
  Qed.

  Theorem norepeats_den f c l : Den f c (Fin l) -> (forall v, In v l -> py_eq v (VInt MAXSIZE) = false) ->
    Den (S (f + List.length l + 2)) (PNoRepeats (AP c) (VInt MAXSIZE)) (Fin (ref_norepeats_from (VInt MAXSIZE) l)).
  Proof.
    intros Hc Hm. rewrite <- (sfilter_norepeats l (VInt MAXSIZE) Hm).
    apply (filter_den val (fun a prev => PNoRepeats a prev) (fun prev rv => py_eq rv prev || py_eq rv (VInt MAXSIZE)) (fun _ rv => rv)
             (fun F a prev => step_norepeats_eq F a prev) f c l Hc (VInt MAXSIZE)).
  Qed.

  (* ---------------------------------------------------------------------------------------------- *)
  (** * PPadToMultiple(p, multiple, minimum_pad): at least minimum_pad rests, then rests until the length is divisible *)

  Lemma py_eq_int a b : py_eq (VInt a) (VInt b) = (a =? b).
  Proof.
    cbn. unfold Qeq_bool. cbn. rewrite !Z.mul_1_r. unfold Zeq_bool. rewrite Z.eqb_compare. destruct (a ?= b); reflexivity.
  Qed.

  Lemma padding_spec L m mp : (1 <= m)%nat ->
    let P := padding L m mp in
    (mp <= P)%nat /\ ((L + P) mod m = 0)%nat /\ (forall k, (mp <= k < P)%nat -> ((L + k) mod m <> 0)%nat).
  Proof.
    intros Hm. unfold padding. cbv zeta.
    set (x := (L + mp)%nat). set (r := ((x + m - 1) mod m)%nat).
    assert (Hr : (r < m)%nat) by (apply Nat.mod_upper_bound; lia).
    pose proof (Nat.div_mod_eq (x + m - 1) m) as D. fold r in D. set (q := ((x + m - 1) / m)%nat) in D.
    split; [lia|]. split.
    - replace (L + (mp + (m - 1 - r)))%nat with (q * m)%nat by lia. apply Nat.mod_mul. lia.
    - intros k Hk E.
      assert (Hq : (1 <= q)%nat) by (destruct q; [lia | lia]).
      assert (Ek : (L + k = (q - 1) * m + (m - (mp + (m - 1 - r) - k)))%nat) by nia.
      rewrite Ek, Nat.add_comm, Nat.mod_add in E by lia. rewrite Nat.mod_small in E by lia. lia.
  Qed.

  Lemma step_padm_eq f pattern multiple minimum_pad count padcount :
    step (S f) (PPadToMultiple pattern multiple minimum_pad count padcount) =
      (let '(o, pattern') := anext f pattern in
       match o with
       | Stop =>
           let st := PPadToMultiple pattern' multiple minimum_pad count padcount in
           match obind (cmp OGe (VInt padcount) minimum_pad)
                   (fun b => if b then omap (fun r => py_eq r (VInt 0)) (Val.binop OMod (VInt count) multiple) else Yield false) with
           | Yield true => (Stop, st)
           | Yield false => (Yield VNone, PPadToMultiple pattern' multiple minimum_pad (count + 1) (padcount + 1))
           | oc => (ocast oc, st)
           end
       | Yield v => (Yield v, PPadToMultiple pattern' multiple minimum_pad (count + 1) padcount)
       | _ => (o, PPadToMultiple pattern' multiple minimum_pad count padcount)
       end).
  Proof. reflexivity. Qed.

  Theorem padm_den_fin f c l m mp : (1 <= m)%nat -> Den f c (Fin l) ->
    Den (S (S f)) (PPadToMultiple (AP c) (VInt (Z.of_nat m)) (VInt (Z.of_nat mp)) 0 0) (Fin (ref_pad_to_multiple m mp l)).
  Proof.
    intros Hm Hc. set (L := List.length l). set (P := padding L m mp).
    destruct (padding_spec L m mp Hm) as (Hp1 & Hp2 & Hp3). fold P in Hp1, Hp2, Hp3.
    apply (Den_sim binop LMAX) with (R := fun j p =>
      p = PPadToMultiple (AP (after f j c)) (VInt (Z.of_nat m)) (VInt (Z.of_nat mp))
            (Z.of_nat (Nat.min j (L + P))) (Z.of_nat (Nat.min j (L + P) - L))).
    - reflexivity.
    - intros j p ->. rewrite step_padm_eq, (Den_anext_ge f f c (Fin l) j Hc (le_n _)).
      unfold ref_pad_to_multiple. fold L P.
      destruct (Nat.lt_ge_cases j L) as [Hj|Hj].
      + (* the input still has values *)
        destruct (at_fin_lt l j Hj) as (v & Hv & Ea). rewrite Ea. cbn [fst snd at_].
        rewrite nth_error_app1 by exact Hj. rewrite Hv. split; [reflexivity|].
        rewrite (Nat.min_l j), (Nat.min_l (S j)) by lia. f_equal; lia.
      + rewrite (at_fin_ge l j Hj). rewrite cmp_ge_int.
        destruct (Nat.lt_ge_cases j (L + P)) as [Hj2|Hj2].
        * (* padding *)
          rewrite (Nat.min_l j), (Nat.min_l (S j)) by lia.
          assert (Hat : at_ (Fin (l ++ repeat VNone P)) j = Yield VNone).
          { cbn [at_]. rewrite nth_error_app2 by exact Hj. rewrite nth_error_repeat' by (fold L; lia). reflexivity. }
          rewrite Hat.
          destruct (Z.of_nat mp <=? Z.of_nat (j - L)) eqn:E1; cbn [obind].
          -- rewrite binop_mod_int by lia. cbn [omap obind]. rewrite py_eq_int.
             assert (Hne : ((L + (j - L)) mod m <> 0)%nat) by (apply Hp3; lia).
             replace (L + (j - L))%nat with j in Hne by lia.
             rewrite <- Nat2Z.inj_mod. destruct (Z.of_nat (j mod m) =? 0) eqn:E2; [lia|].
             cbn [fst snd]. split; [reflexivity|]. f_equal; lia.
          -- cbn [fst snd]. split; [reflexivity|]. f_equal; lia.
        * (* the end *)
          rewrite (Nat.min_r j), (Nat.min_r (S j)) by lia.
          assert (Hat : at_ (Fin (l ++ repeat VNone P)) j = Stop).
          { apply at_fin_ge. rewrite app_length, repeat_length. fold L. lia. }
          rewrite Hat. replace (L + P - L)%nat with P by lia.
          destruct (Z.of_nat mp <=? Z.of_nat P) eqn:E1; [|lia]. cbn [obind].
          rewrite binop_mod_int by lia. cbn [omap obind]. rewrite py_eq_int, <- Nat2Z.inj_mod, Hp2.
          cbn [Z.of_nat Z.eqb fst snd]. split; reflexivity.
  Qed.

  (* an endless input is never padded *)
  Theorem padm_den_inf f c g m mp : Den f c (Inf g) ->
    Den (S (S f)) (PPadToMultiple (AP c) (VInt (Z.of_nat m)) (VInt (Z.of_nat mp)) 0 0) (Inf g).
  Proof.
    intros Hc.
    apply (Den_sim binop LMAX) with (R := fun j p =>
      p = PPadToMultiple (AP (after f j c)) (VInt (Z.of_nat m)) (VInt (Z.of_nat mp)) (Z.of_nat j) 0); [reflexivity|].
    intros j p ->. rewrite step_padm_eq, (Den_anext_ge f f c (Inf g) j Hc (le_n _)). cbn [at_ fst snd].
    split; [reflexivity|]. f_equal. lia.
  Qed.

  Theorem padm_den f c s m mp : (1 <= m)%nat -> Den f c s ->
    Den (S (S f)) (PPadToMultiple (AP c) (VInt (Z.of_nat m)) (VInt (Z.of_nat mp)) 0 0) (sem_pad_to_multiple m mp s).
  Proof. intros Hm Hc. destruct s as [l|g]; [apply padm_den_fin | apply padm_den_inf]; assumption. Qed.

  (* ---------------------------------------------------------------------------------------------- *)
  (** * PLoop(p, count), count >= 1: the values of p, count times (p is read once, while it is played) *)

  Lemma step_loop_eq f pattern count pos loop_index read_all values :
    step (S f) (PLoop pattern count pos loop_index read_all values) =
      (let '(err, pattern1, read_all1, values1) :=
         if read_all then (None, pattern, true, values)
         else
           let '(o, pattern') := anext f pattern in
           match o with
           | Yield v => (None, pattern', false, values ++ [v])
           | Stop => (None, pattern', true, values)
           | _ => (Some o, pattern', false, values)
           end in
       match err with
       | Some o => (o, PLoop pattern1 count pos loop_index read_all1 values1)
       | None =>
           let wrap := read_all1 && (pos >=? zlen values1) in
           let st0 := PLoop pattern1 count pos loop_index read_all1 values1 in
           let go (pos2 loop_index2 : Z) :=
             match py_index values1 pos2 with
             | Some v => (Yield v, PLoop pattern1 count (pos2 + 1) loop_index2 read_all1 values1)
             | None => (Raise IndexError, PLoop pattern1 count pos2 loop_index2 read_all1 values1)
             end in
           if wrap then
             match obind (Val.binop OSub count (VInt 1)) (fun c1 => cmp OGe (VInt loop_index) c1) with
             | Yield true => (Stop, st0)
             | Yield false => if zlen values1 =? 0 then (Stop, st0) else go 0 (loop_index + 1)
             | oc => (ocast oc, st0)
             end
           else go pos loop_index
       end).
  Proof. reflexivity. Qed.

  Lemma firstn_snoc_nth {A} (l : list A) j v : nth_error l j = Some v -> firstn j l ++ [v] = firstn (S j) l.
  Proof.
    revert j. induction l as [|x l IH]; intros j H; [destruct j; discriminate|].
    destruct j as [|j]; cbn in *; [inversion H; reflexivity | f_equal; apply IH; exact H].
  Qed.

  Lemma divmod_small q i L : (i < L)%nat -> ((q * L + i) mod L = i /\ (q * L + i) / L = q)%nat.
  Proof.
    intro H. rewrite Nat.add_comm. rewrite Nat.mod_add, Nat.div_add by lia.
    rewrite Nat.mod_small, Nat.div_small by lia. split; lia.
  Qed.

  Theorem loop_den_fin f c l count : (1 <= count)%nat -> Den f c (Fin l) ->
    Den (S (S f)) (PLoop (AP c) (VInt (Z.of_nat count)) 0 0 false []) (Fin (ref_loop count l)).
  Proof.
    intros Hcount Hc. set (L := List.length l). set (C := VInt (Z.of_nat count)).
    assert (Hlen : List.length (ref_loop count l) = (count * L)%nat) by (unfold ref_loop; apply repeat_list_length).
    apply (Den_sim binop LMAX) with (R := fun j p =>
      ((j <= L)%nat /\ p = PLoop (AP (after f j c)) C (Z.of_nat j) 0 false (firstn j l)) \/
      ((L < j)%nat /\
       let t := (Nat.min j (count * L) - 1)%nat in
       (L = O -> p = PLoop (AP (after f 1 c)) C 0 0 true []) /\
       ((0 < L)%nat -> p = PLoop (AP (after f (S L) c)) C (Z.of_nat (t mod L) + 1) (Z.of_nat (t / L)) true l))).
    - left. split; [lia | reflexivity].
    - intros j p [[Hj ->] | [Hj Hp]].
      + (* first pass: the input is read while it is played *)
        rewrite step_loop_eq, (Den_anext_ge f f c (Fin l) j Hc (le_n _)).
        destruct (Nat.lt_ge_cases j L) as [Hj2|Hj2].
        * destruct (at_fin_lt l j Hj2) as (v & Hv & Ea). rewrite Ea.
          cbv beta iota zeta. rewrite (firstn_snoc_nth l j v Hv). cbn [andb].
          rewrite py_index_nat by (rewrite firstn_length; fold L; lia).
          assert (Hn : nth_error (firstn (S j) l) j = Some v).
          { rewrite <- (firstn_snoc_nth l j v Hv). rewrite nth_error_app2 by (rewrite firstn_length; fold L; lia).
            rewrite firstn_length. fold L. replace (j - Nat.min j L)%nat with O by lia. reflexivity. }
          rewrite Hn. cbn [fst snd].
          assert (Hat : at_ (Fin (ref_loop count l)) j = Yield v).
          { cbn [at_]. unfold ref_loop. replace j with (0 * List.length l + j)%nat by lia.
            rewrite nth_error_repeat_list by (fold L; lia). rewrite Hv. reflexivity. }
          rewrite Hat. split; [reflexivity|]. left. split; [lia|]. f_equal. lia.
        * assert (j = L) by lia. subst j. rewrite (at_fin_ge l L (le_n _)).
          cbv beta iota zeta. replace (firstn L l) with l by (symmetry; apply firstn_all).
          unfold zlen. fold L. replace (Z.of_nat L >=? Z.of_nat L) with true by (symmetry; apply Z.geb_le; lia). cbn [andb].
          unfold C. rewrite binop_sub_int. cbn [obind]. rewrite cmp_ge_int.
          destruct (Z.of_nat count - 1 <=? 0) eqn:E1.
          -- (* count = 1 *)
             assert (count = 1%nat) by lia. subst count.
             assert (Hat : at_ (Fin (ref_loop 1 l)) L = Stop) by (apply at_fin_ge; rewrite Hlen; lia).
             rewrite Hat. cbn [fst snd]. split; [reflexivity|]. right. split; [lia|]. cbv zeta. split.
             ++ intros E0. rewrite E0. cbn [Z.of_nat]. destruct l; [reflexivity | cbn in L; lia].
             ++ intros HL. replace (Nat.min (S L) (1 * L) - 1)%nat with (L - 1)%nat by lia.
                rewrite Nat.mod_small, Nat.div_small by lia. fold C. f_equal. lia.
          -- destruct (Z.of_nat L =? 0) eqn:E0.
             ++ assert (HL : L = O) by lia.
                assert (Hat : at_ (Fin (ref_loop count l)) L = Stop) by (apply at_fin_ge; rewrite Hlen; lia).
                rewrite Hat. cbn [fst snd]. split; [reflexivity|]. right. split; [lia|]. cbv zeta. split; [|lia].
                intros _. rewrite HL. destruct l; [reflexivity | cbn in L; lia].
             ++ assert (HL : (0 < L)%nat) by lia. change 0 with (Z.of_nat 0). rewrite py_index_nat by (fold L; lia).
                destruct (nth_error l 0) as [v|] eqn:Hv; [|apply nth_error_None in Hv; fold L in Hv; lia].
                assert (Hat : at_ (Fin (ref_loop count l)) L = Yield v).
                { cbn [at_]. unfold ref_loop. replace L with (1 * List.length l + 0)%nat at 1 by (fold L; lia).
                  rewrite nth_error_repeat_list by (fold L; lia). rewrite Hv. reflexivity. }
                rewrite Hat. cbn [fst snd]. split; [reflexivity|]. right. split; [lia|]. cbv zeta. split; [lia|]. intros _.
                replace (Nat.min (S L) (count * L) - 1)%nat with (1 * L + 0)%nat by nia.
                destruct (divmod_small 1 0 L HL) as [-> ->]. fold C. f_equal.
      + (* the stored values are replayed *)
        cbv zeta in Hp. destruct Hp as [Hp0 HpL]. destruct (Nat.eq_dec L 0) as [HL|HL].
        * rewrite (Hp0 HL). rewrite step_loop_eq. cbv beta iota zeta. cbn [andb zlen List.length Z.of_nat Z.geb Z.compare].
          unfold C. rewrite binop_sub_int. cbn [obind]. rewrite cmp_ge_int.
          assert (Hat : at_ (Fin (ref_loop count l)) j = Stop) by (apply at_fin_ge; rewrite Hlen; nia).
          rewrite Hat. destruct (Z.of_nat count - 1 <=? 0); cbn [Z.eqb fst snd]; (split; [reflexivity|]); right;
            (split; [lia|]); cbv zeta; (split; [intros _; reflexivity | lia]).
        * assert (HL0 : (0 < L)%nat) by lia. rewrite (HpL HL0). clear Hp0 HpL.
          set (t := (Nat.min j (count * L) - 1)%nat). set (i := (t mod L)%nat). set (q := (t / L)%nat).
          assert (Hi : (i < L)%nat) by (apply Nat.mod_upper_bound; lia).
          assert (Dt : t = (q * L + i)%nat) by (unfold q, i; rewrite Nat.mul_comm; apply Nat.div_mod_eq).
          assert (Hq : (q < count)%nat).
          { unfold q. apply Nat.div_lt_upper_bound; [lia|]. unfold t. nia. }
          rewrite step_loop_eq. cbv beta iota zeta. unfold zlen. fold L. cbn [andb].
          destruct (Z.of_nat i + 1 >=? Z.of_nat L) eqn:Ew.
          -- (* the end of a pass *)
             assert (Ei : S i = L) by lia.
             unfold C. rewrite binop_sub_int. cbn [obind]. rewrite cmp_ge_int.
             destruct (Z.of_nat count - 1 <=? Z.of_nat q) eqn:E1.
             ++ (* the last pass: ended *)
                assert (Hj2 : (count * L <= j)%nat) by (unfold t in Dt; nia).
                assert (Hat : at_ (Fin (ref_loop count l)) j = Stop) by (apply at_fin_ge; rewrite Hlen; lia).
                rewrite Hat. cbn [fst snd]. split; [reflexivity|]. right. split; [lia|]. cbv zeta. split; [lia|]. intros _.
                replace (Nat.min (S j) (count * L)) with (Nat.min j (count * L)) by lia. fold t i q. reflexivity.
             ++ assert (Hj2 : j = (S q * L)%nat) by (unfold t in Dt; nia).
                destruct (Z.of_nat L =? 0) eqn:E0; [lia|]. change 0 with (Z.of_nat 0). rewrite py_index_nat by (fold L; lia).
                destruct (nth_error l 0) as [v|] eqn:Hv; [|apply nth_error_None in Hv; fold L in Hv; lia].
                assert (Hat : at_ (Fin (ref_loop count l)) j = Yield v).
                { cbn [at_]. unfold ref_loop. rewrite Hj2. replace (S q * L)%nat with (S q * List.length l + 0)%nat by (fold L; lia).
                  rewrite nth_error_repeat_list by (fold L; lia). rewrite Hv. reflexivity. }
                rewrite Hat. cbn [fst snd]. split; [reflexivity|]. right. split; [lia|]. cbv zeta. split; [lia|]. intros _.
                replace (Nat.min (S j) (count * L) - 1)%nat with (S q * L + 0)%nat by nia.
                destruct (divmod_small (S q) 0 L HL0) as [-> ->]. fold C. f_equal; lia.
          -- (* inside a pass *)
             assert (Ei : (S i < L)%nat) by lia.
             replace (Z.of_nat i + 1) with (Z.of_nat (S i)) by lia. rewrite py_index_nat by (fold L; lia).
             destruct (nth_error l (S i)) as [v|] eqn:Hv; [|apply nth_error_None in Hv; fold L in Hv; lia].
             assert (Hj2 : j = (q * L + S i)%nat) by (unfold t in Dt; nia).
             assert (Hat : at_ (Fin (ref_loop count l)) j = Yield v).
             { cbn [at_]. unfold ref_loop. rewrite Hj2. unfold L.
               rewrite nth_error_repeat_list by (fold L; lia). rewrite Hv. reflexivity. }
             rewrite Hat. cbn [fst snd]. split; [reflexivity|]. right. split; [lia|]. cbv zeta. split; [lia|]. intros _.
             replace (Nat.min (S j) (count * L) - 1)%nat with (q * L + S i)%nat by nia.
             destruct (divmod_small q (S i) L Ei) as [-> ->]. fold C. f_equal; lia.
  Qed.

  (* an endless input is played as it is (and remembered) *)
  Theorem loop_den_inf f c g count : Den f c (Inf g) ->
    Den (S (S f)) (PLoop (AP c) (VInt count) 0 0 false []) (Inf g).
  Proof.
    intros Hc.
    apply (Den_sim binop LMAX) with (R := fun j p =>
      p = PLoop (AP (after f j c)) (VInt count) (Z.of_nat j) 0 false (gprefix g j)); [reflexivity|].
    intros j p ->. rewrite step_loop_eq, (Den_anext_ge f f c (Inf g) j Hc (le_n _)). cbn [at_].
    cbv beta iota zeta. cbn [andb].
    assert (Ep : gprefix g j ++ [g j] = gprefix g (S j)) by (unfold gprefix; rewrite seq_S, map_app; reflexivity).
    rewrite Ep. assert (Hlen : List.length (gprefix g (S j)) = S j) by (unfold gprefix; rewrite map_length, seq_length; reflexivity).
    rewrite py_index_nat by lia. rewrite nth_error_prefix. destruct (j <? S j)%nat eqn:E; [|apply Nat.ltb_ge in E; lia].
    cbn [fst snd]. split; [reflexivity|]. f_equal. lia.
  Qed.

  Theorem loop_den f c s count : (1 <= count)%nat -> Den f c s ->
    Den (S (S f)) (PLoop (AP c) (VInt (Z.of_nat count)) 0 0 false []) (sem_loop count s).
  Proof. intros H Hc. destruct s as [l|g]; [apply loop_den_fin | apply loop_den_inf]; assumption. Qed.

  (* ---------------------------------------------------------------------------------------------- *)
  (** * PSubsequence(p, offset, length): length values of p starting at index offset (p finite or endless) *)

  (* the first m values of a denotation *)
  Definition pre (s : sem) (m : nat) : list val := match s with Fin l => firstn m l | Inf g => gprefix g m end.
  Definition good (s : sem) (m : nat) : Prop := forall i, (i < m)%nat -> exists v, at_ s i = Yield v.

  Lemma nth_error_firstn_lt {A} (l : list A) : forall m i, (i < m)%nat -> nth_error (firstn m l) i = nth_error l i.
  Proof.
    induction l as [|x l IH]; intros m i H; [destruct m, i; reflexivity|].
    destruct m as [|m]; [lia|]. destruct i as [|i]; [reflexivity|]. cbn. apply IH. lia.
  Qed.

  Lemma nth_error_skipn' {A} (l : list A) : forall n i, nth_error (skipn n l) i = nth_error l (n + i).
  Proof.
    induction l as [|x l IH]; intros n i; [destruct n, i; reflexivity|].
    destruct n as [|n]; [reflexivity|]. cbn. apply IH.
  Qed.

  Lemma pre_nth s m i : (i < m)%nat -> nth_error (pre s m) i = match at_ s i with Yield v => Some v | _ => None end.
  Proof.
    intro H. destruct s as [l|g]; cbn [pre at_].
    - rewrite nth_error_firstn_lt by exact H. destruct (nth_error l i); reflexivity.
    - rewrite nth_error_prefix. destruct (i <? m)%nat eqn:E; [reflexivity | apply Nat.ltb_ge in E; lia].
  Qed.
  Lemma pre_length s m : good s m -> List.length (pre s m) = m.
  Proof.
    intro H. destruct s as [l|g]; cbn [pre].
    - rewrite firstn_length. destruct m as [|m]; [reflexivity|]. destruct (H m ltac:(lia)) as [v E]. cbn [at_] in E.
      destruct (nth_error l m) eqn:E2; [|discriminate]. assert (m < List.length l)%nat by (apply nth_error_Some; congruence). lia.
    - unfold gprefix. rewrite map_length, seq_length. reflexivity.
  Qed.
  Lemma pre_snoc s m v : at_ s m = Yield v -> pre s m ++ [v] = pre s (S m).
  Proof.
    intro H. destruct s as [l|g]; cbn [pre at_] in *.
    - apply firstn_snoc_nth. destruct (nth_error l m); inversion H; reflexivity.
    - inversion H. unfold gprefix. rewrite seq_S, map_app. reflexivity.
  Qed.
  Lemma good_S s m v : good s m -> at_ s m = Yield v -> good s (S m).
  Proof. intros H E i Hi. destruct (Nat.eq_dec i m) as [->|]; [eexists; exact E | apply H; lia]. Qed.

  Lemma at_subsequence off n s j : at_ (sem_subsequence off n s) j = if (j <? n)%nat then at_ s (off + j) else Stop.
  Proof.
    destruct s as [l|g]; cbn [sem_subsequence at_]; unfold ref_subsequence.
    - destruct (j <? n)%nat eqn:E.
      + apply Nat.ltb_lt in E. rewrite nth_error_firstn_lt by exact E. rewrite nth_error_skipn'. reflexivity.
      + apply Nat.ltb_ge in E. assert (H : nth_error (firstn n (skipn off l)) j = None).
        { apply nth_error_None. rewrite firstn_length. lia. }
        rewrite H. reflexivity.
    - rewrite nth_error_map. destruct (j <? n)%nat eqn:E.
      + apply Nat.ltb_lt in E. rewrite nth_error_seq' by exact E. reflexivity.
      + apply Nat.ltb_ge in E. assert (H : nth_error (seq 0 n) j = None) by (apply nth_error_None; rewrite seq_length; exact E).
        rewrite H. reflexivity.
  Qed.

  Section Subseq.
    Variables (f : nat) (c : pat) (s : sem).
    Hypothesis Hc : Den f c s.

    (* the values read so far and where the input stands *)
    Definition sub_inv (m m' : nat) : Prop := good s m /\ (m <= m')%nat /\ (m' = m \/ at_ s m = Stop).

    (* `while len(self.values) <= target: self.values.append(next(self.pattern))` *)
    Lemma pull_spec F : (f <= F)%nat -> forall n m m' t, sub_inv m m' -> (t + 1 - m <= n)%nat ->
      exists o m2 m2', pull_until (anext (S F)) n (AP (after f m' c)) (pre s m) (Z.of_nat t) = (o, pre s m2, AP (after f m2' c))
        /\ sub_inv m2 m2' /\ (m <= m2)%nat
        /\ (forall v, at_ s t = Yield v -> o = Yield tt /\ (t < m2)%nat)
        /\ (at_ s t = Stop -> o = Stop).
    Proof.
      intros HF. induction n as [|n IH]; intros m m' t (Hg & Hm & Hst) Hn.
      - cbn [pull_until]. rewrite (pre_length s m Hg). destruct (Z.of_nat m <=? Z.of_nat t) eqn:E; [lia|].
        exists (Yield tt), m, m'. split; [reflexivity|]. split; [repeat split; assumption|]. split; [lia|]. split.
        + intros v Ev. split; [reflexivity | lia].
        + intros Es. exfalso. destruct (Hg t ltac:(lia)) as [v Ev]. congruence.
      - cbn [pull_until]. rewrite (pre_length s m Hg). destruct (Z.of_nat m <=? Z.of_nat t) eqn:E.
        + rewrite (Den_anext_ge f F c s m' Hc HF).
          destruct Hst as [-> | Hst].
          * destruct (at_cases s m) as [[v Ev]|Ev]; rewrite Ev.
            -- rewrite (pre_snoc s m v Ev).
               destruct (IH (S m) (S m) t ltac:(repeat split; [eapply good_S; eassumption | lia | left; reflexivity]) ltac:(lia))
                 as (o & m2 & m2' & Ep & Hi & Hle & Hy & Hs).
               exists o, m2, m2'. split; [exact Ep|]. split; [exact Hi|]. split; [lia|]. split; assumption.
            -- exists Stop, m, (S m). split; [reflexivity|]. split; [repeat split; [assumption | lia | right; exact Ev]|].
               split; [lia|]. split.
               ++ intros v Et. exfalso. rewrite (at_stop_mono s m t ltac:(lia) Ev) in Et. discriminate.
               ++ intros _. reflexivity.
          * rewrite (at_stop_mono s m m' Hm Hst).
            exists Stop, m, (S m'). split; [reflexivity|]. split; [repeat split; [assumption | lia | right; exact Hst]|].
            split; [lia|]. split.
            -- intros v Et. exfalso. rewrite (at_stop_mono s m t ltac:(lia) Hst) in Et. discriminate.
            -- intros _. reflexivity.
        + exists (Yield tt), m, m'. split; [reflexivity|]. split; [repeat split; assumption|]. split; [lia|]. split.
          * intros v Ev. split; [reflexivity | lia].
          * intros Es. exfalso. destruct (Hg t ltac:(lia)) as [v Ev]. congruence.
    Qed.
  End Subseq.

  Lemma step_subsequence_eq f pattern offset length pos values :
    step (S f) (PSubsequence pattern offset length pos values) =
      (let '(oo, offset') := value f offset in
       match oo with
       | Yield voff =>
           let '(ol, length') := value f length in
           match ol with
           | Yield vlen =>
               let st := PSubsequence pattern offset' length' pos values in
               match cmp OGe (VInt pos) vlen with
               | Yield true => (Stop, st)
               | Yield false =>
                   match int_of voff with
                   | Some off =>
                       let '(ou, values', pattern') := pull_until (anext f) f pattern values (pos + off) in
                       match ou with
                       | Yield _ =>
                           match py_index values' (off + pos) with
                           | Some v => (Yield v, PSubsequence pattern' offset' length' (pos + 1) values')
                           | None => (Raise IndexError, PSubsequence pattern' offset' length' pos values')
                           end
                       | _ => (ocast ou, PSubsequence pattern' offset' length' pos values')
                       end
                   | None => ((if is_none voff then Raise TypeError else Inexact), st)
                   end
               | oc => (ocast oc, st)
               end
           | _ => (ol, PSubsequence pattern offset' length' pos values)
           end
       | _ => (oo, PSubsequence pattern offset' length pos values)
       end).
  Proof. reflexivity. Qed.

  Theorem subsequence_den f c s off n : Den f c s ->
    Den (S (S (f + off))) (PSubsequence (AP c) (AV (VInt (Z.of_nat off))) (AV (VInt (Z.of_nat n))) 0 []) (sem_subsequence off n s).
  Proof.
    intros Hc.
    apply (Den_sim binop LMAX) with (R := fun j p => exists pos m m',
      p = PSubsequence (AP (after f m' c)) (AV (VInt (Z.of_nat off))) (AV (VInt (Z.of_nat n))) (Z.of_nat pos) (pre s m)
      /\ sub_inv s m m' /\ (pos = O \/ off + pos <= m)%nat
      /\ (pos = j \/ ((pos <= j)%nat /\ ((n <= pos)%nat \/ at_ s (off + pos) = Stop)))).
    - exists O, O, O. split; [destruct s; reflexivity|]. split; [repeat split; [intros i Hi; lia | lia | left; reflexivity]|].
      split; [left; reflexivity | left; reflexivity].
    - intros j p (pos & m & m' & -> & Hinv & Hm & Hpos).
      rewrite step_subsequence_eq. rewrite !(value_av binop LMAX).
      rewrite cmp_ge_int, at_subsequence. cbn [int_of].
      destruct (Z.of_nat n <=? Z.of_nat pos) eqn:En.
      + (* the length has been reached *)
        destruct Hpos as [-> | [Hle _]].
        * destruct (j <? n)%nat eqn:E; [apply Nat.ltb_lt in E; lia|]. cbn [fst snd]. split; [reflexivity|].
          exists j, m, m'. split; [reflexivity|]. split; [exact Hinv|]. split; [exact Hm|]. right. split; [lia | left; lia].
        * destruct (j <? n)%nat eqn:E; [apply Nat.ltb_lt in E; lia|]. cbn [fst snd]. split; [reflexivity|].
          exists pos, m, m'. split; [reflexivity|]. split; [exact Hinv|]. split; [exact Hm|]. right. split; [lia | left; lia].
      + replace (Z.of_nat pos + Z.of_nat off) with (Z.of_nat (off + pos)) by lia.
        destruct (pull_spec f c s Hc (f + off) ltac:(lia) (S (f + off)) m m' (off + pos) Hinv ltac:(lia))
          as (o & m2 & m2' & Ep & Hi2 & Hle & Hy & Hs).
        rewrite Ep.
        destruct (at_cases s (off + pos)) as [[v Ev]|Ev].
        * destruct (Hy v Ev) as [-> Hlt]. replace (Z.of_nat off + Z.of_nat pos) with (Z.of_nat (off + pos)) by lia.
          rewrite py_index_nat by (rewrite (pre_length s m2) by apply Hi2; exact Hlt).
          rewrite (pre_nth s m2 (off + pos) Hlt), Ev.
          destruct Hpos as [-> | [Hle2 [Hn | Hst]]]; [| lia | congruence].
          destruct (j <? n)%nat eqn:E; [|apply Nat.ltb_ge in E; lia]. rewrite Ev. cbn [fst snd]. split; [reflexivity|].
          exists (S j), m2, m2'. split; [f_equal; lia|]. split; [exact Hi2|]. split; [right; lia | left; reflexivity].
        * rewrite (Hs Ev). cbn [ocast obind fst snd].
          assert (Hat : (if (j <? n)%nat then at_ s (off + j) else Stop) = Stop).
          { destruct (j <? n)%nat; [|reflexivity]. apply (at_stop_mono s (off + pos)); [|exact Ev].
            destruct Hpos as [-> | [Hle2 _]]; lia. }
          rewrite Hat. split; [reflexivity|].
          exists pos, m2, m2'. split; [reflexivity|]. split; [exact Hi2|].
          split; [destruct Hm as [Hm|Hm]; [left; exact Hm | right; lia]|]. destruct Hpos as [-> | [Hle2 _]].
          -- right. split; [lia | right; exact Ev].
          -- right. split; [lia | right; exact Ev].
  Qed.
End Den2.

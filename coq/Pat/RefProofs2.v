(* Pat/RefProofs2.v — closed forms of the remaining classes of C10 (continuation of Pat/RefProofs.v, same
   vocabulary: [Den f p s], [ADen f a s], [Den_sim]).  Each theorem takes ARBITRARY operand objects that denote some
   s and concludes that the class object, in the state __init__ leaves it in, denotes the closed form of Pat/Ref.v.
   Classes whose __next__ loops step their operands with whatever fuel is left: Pat/FuelMono.v (more fuel, same
   result) turns a denotation at fuel f into one at every larger fuel, with the same states. *)
From Isobar Require Import Base.Prelude Pat.Val Pat.Syntax Pat.Step Pat.StepProofs Pat.Ref Pat.RefProofs Pat.FuelMono.
From Coq Require Import String QArith Qround.
Open Scope Z_scope.

Lemma at_not_oof s j : at_ s j <> OutOfFuel.
Proof. destruct (at_cases s j) as [[v E]|E]; rewrite E; discriminate. Qed.

Section Den2.
  Variable binop : op -> val -> val -> outcome val.
  Variable LMAX : nat.
  Notation step := (step binop LMAX).
  Notation value := (value binop LMAX).
  Notation anext := (anext binop LMAX).
  Notation reset := (reset binop LMAX).
  Notation after := (after binop LMAX).
  Notation aafter := (aafter binop LMAX).
  Notation Den := (Den binop LMAX).
  Notation ADen := (ADen binop LMAX).

  (** a denotation at fuel f is a denotation at every larger fuel, through the same states *)
  Lemma Den_fuel_after f F c s : Den f c s -> (f <= F)%nat -> forall j, after F j c = after f j c.
  Proof.
    intros H HF. induction j as [|j IH]; [reflexivity|].
    rewrite !(after_S binop LMAX), IH. f_equal. apply step_fuel_mono; [exact HF|].
    specialize (H j). unfold out in H. rewrite H. apply at_not_oof.
  Qed.

  Lemma Den_fuel f F c s : Den f c s -> (f <= F)%nat -> Den F c s.
  Proof.
    intros H HF j. unfold out. rewrite (Den_fuel_after f F c s H HF j).
    rewrite (step_fuel_mono binop LMAX f F) by (try exact HF; specialize (H j); unfold out in H; rewrite H; apply at_not_oof).
    apply H.
  Qed.

  (** stepping the j-th state of an operand with ANY fuel F >= f *)
  Lemma Den_step_ge f F c s q : Den f c s -> (f <= F)%nat -> step F (after f q c) = (at_ s q, after f (S q) c).
  Proof.
    intros H HF. rewrite (step_fuel_mono binop LMAX f F) by (try exact HF; specialize (H q); unfold out in H; rewrite H; apply at_not_oof).
    apply (Den_step binop LMAX). exact H.
  Qed.
  Lemma Den_anext_ge f F c s q : Den f c s -> (f <= F)%nat -> anext (S F) (AP (after f q c)) = (at_ s q, AP (after f (S q) c)).
  Proof. intros H HF. rewrite (anext_pat binop LMAX), (Den_step_ge f F c s q H HF). reflexivity. Qed.
  Lemma Den_value_ge f F c s q : Den f c s -> (f <= F)%nat -> value (S F) (AP (after f q c)) = (at_ s q, AP (after f (S q) c)).
  Proof. intros H HF. rewrite (value_pat binop LMAX), (Den_step_ge f F c s q H HF). reflexivity. Qed.

  (* ---------------------------------------------------------------------------------------------- *)
  (** * PImpulse(period), period >= 1 an int: 1 every period events (starting with a 1), otherwise 0 *)

  Lemma step_impulse_eq f period pos :
    step (S f) (PImpulse period pos) =
      (let '(op_, period') := value f period in
       match op_ with
       | Yield vp =>
           match cmp OGe (VInt pos) vp with
           | Yield b =>
               let pos1 := if b then 0 else pos in
               (Yield (VInt (if pos1 =? 0 then 1 else 0)), PImpulse period' (pos1 + 1))
           | oc => (ocast oc, PImpulse period' pos)
           end
       | _ => (op_, PImpulse period' pos)
       end).
  Proof. reflexivity. Qed.

  Theorem impulse_den f P : 1 <= P ->
    Den (S (S f)) (PImpulse (AV (VInt P)) 0) (Inf (ref_impulse P)).
  Proof.
    intro HP.
    apply (Den_sim binop LMAX) with (R := fun j p =>
      p = PImpulse (AV (VInt P)) (if (j =? 0)%nat then 0 else (Z.of_nat j - 1) mod P + 1)).
    - reflexivity.
    - intros j p ->. rewrite step_impulse_eq, (value_av binop LMAX), cmp_ge_int. cbn [at_]. unfold ref_impulse, zi.
      destruct j as [|j].
      + cbn [Nat.eqb Z.of_nat]. destruct (P <=? 0) eqn:E; [lia|]. cbn [fst snd Z.eqb]. rewrite Z.mod_0_l by lia.
        split; reflexivity.
      + cbn [Nat.eqb]. rewrite Nat2Z.inj_succ. replace (Z.succ (Z.of_nat j) - 1) with (Z.of_nat j) by lia.
        set (J := Z.of_nat j). assert (HJ : 0 <= J) by lia.
        pose proof (Z.mod_pos_bound J P ltac:(lia)) as B.
        assert (D : J = P * (J / P) + J mod P) by (apply Z.div_mod; lia).
        destruct (P <=? J mod P + 1) eqn:E.
        * (* the counter wraps: J mod P = P - 1, so (J + 1) mod P = 0 *)
          assert (Em : J mod P = P - 1) by lia.
          assert (E0 : Z.succ J mod P = 0).
          { replace (Z.succ J) with ((J / P + 1) * P) by nia. apply Z.mod_mul. lia. }
          rewrite E0. cbn [fst snd Z.eqb]. split; [reflexivity|].
          f_equal. replace (Z.of_nat (S (S j)) - 1) with (Z.succ J) by (unfold J; lia). rewrite E0. reflexivity.
        * assert (Em : J mod P + 1 < P) by lia.
          assert (E1 : Z.succ J mod P = J mod P + 1).
          { symmetry. apply (Z.mod_unique_pos _ _ (J / P)); lia. }
          rewrite E1. destruct (J mod P + 1 =? 0) eqn:E2; [lia|]. cbn [fst snd]. split; [reflexivity|].
          f_equal. replace (Z.of_nat (S (S j)) - 1) with (Z.succ J) by (unfold J; lia). rewrite E1. reflexivity.
  Qed.

  (* ---------------------------------------------------------------------------------------------- *)
  (** * PCounter(trigger) over a stream of ints: the number of rising zero-crossings so far *)

  Lemma step_counter_eq f trigger v count :
    step (S f) (PCounter trigger v count) =
      (let '(ot, trigger') := anext f trigger in
       match ot with
       | Yield vt =>
           let st := PCounter trigger' v count in
           match obind (cmp OGt vt (VInt 0)) (fun b => if b then cmp OLe v (VInt 0) else Yield false) with
           | Yield true => (Yield (VInt (count + 1)), PCounter trigger' vt (count + 1))
           | Yield false =>
               match obind (cmp OLe vt (VInt 0)) (fun b => if b then cmp OGt v (VInt 0) else Yield false) with
               | Yield true => (Yield (VInt count), PCounter trigger' vt count)
               | Yield false => (Yield (VInt count), st)
               | oc => (ocast oc, st)
               end
           | oc => (ocast oc, st)
           end
       | _ => (ot, PCounter trigger' v count)
       end).
  Proof. reflexivity. Qed.

  (* one trigger value: the new (previous value, count) *)
  Definition counter1 (st : Z * Z) (t : Z) : Z * Z :=
    let '(prev, count) := st in
    (if ((0 <? t) && (prev <=? 0)) || ((t <=? 0) && (0 <? prev)) then t else prev,
     if (0 <? t) && (prev <=? 0) then count + 1 else count).
  Definition counter_st (st : Z * Z) (ts : list Z) : Z * Z := fold_left counter1 ts st.

  (* the ints among the first j values of a denotation *)
  Definition zpre (s : sem) (j : nat) : list Z :=
    flat_map (fun i => match at_ s i with Yield (VInt t) => [t] | _ => [] end) (seq 0 j).
  Lemma zpre_S s j : zpre s (S j) = zpre s j ++ match at_ s j with Yield (VInt t) => [t] | _ => [] end.
  Proof. unfold zpre. rewrite seq_S, flat_map_app. cbn [flat_map]. rewrite app_nil_r. reflexivity. Qed.

  Lemma Out_sim f p0 (o : nat -> outcome val) (R : nat -> pat -> Prop) :
    R O p0 ->
    (forall j p, R j p -> fst (step f p) = o j /\ R (S j) (snd (step f p))) ->
    forall j, out binop LMAX f j p0 = o j.
  Proof.
    intros H0 Hstep. assert (HR : forall j, R j (after f j p0)).
    { induction j as [|j IH]; [exact H0|]. rewrite (after_S binop LMAX). apply Hstep. exact IH. }
    intro j. unfold out. apply Hstep. apply HR.
  Qed.

  Lemma counter_st_snoc st ts t : counter_st st (ts ++ [t]) = counter1 (counter_st st ts) t.
  Proof. unfold counter_st. rewrite fold_left_app. reflexivity. Qed.

  (* output j, for a finite or endless trigger stream of ints: the count after the first j+1 triggers *)
  Theorem counter_out f c s : Den f c s -> (forall j v, at_ s j = Yield v -> exists t, v = VInt t) ->
    forall j, out binop LMAX (S (S f)) j (PCounter (AP c) (VInt 0) 0) =
              match at_ s j with
              | Yield _ => Yield (zi (snd (counter_st (0, 0) (zpre s (S j)))))
              | o => o
              end.
  Proof.
    intros Hc Hi.
    apply Out_sim with (R := fun j p =>
      p = PCounter (AP (after f j c)) (VInt (fst (counter_st (0, 0) (zpre s j)))) (snd (counter_st (0, 0) (zpre s j)))).
    - reflexivity.
    - intros j p ->. rewrite step_counter_eq, (Den_anext_ge f f c s j Hc (le_n _)), zpre_S.
      destruct (at_cases s j) as [[v Ev]|Ev]; rewrite Ev.
      + destruct (Hi j v Ev) as [t ->]. rewrite counter_st_snoc.
        destruct (counter_st (0, 0) (zpre s j)) as [prev count]. cbn [fst snd counter1].
        rewrite cmp_gt_int. cbn [obind].
        destruct (0 <? t) eqn:E1.
        * rewrite cmp_le_int. destruct (prev <=? 0) eqn:E2.
          -- cbn [andb orb fst snd]. split; reflexivity.
          -- rewrite cmp_le_int. destruct (t <=? 0) eqn:E3; [lia|]. cbn [obind andb orb fst snd]. split; reflexivity.
        * rewrite cmp_le_int. destruct (t <=? 0) eqn:E3; [|lia]. cbn [obind]. rewrite cmp_gt_int.
          destruct (0 <? prev) eqn:E4; cbn [andb orb fst snd]; split; reflexivity.
      + rewrite app_nil_r. cbn [fst snd]. split; reflexivity.
  Qed.

  Lemma ref_counter_nth : forall zs prev count j,
    nth_error (ref_counter_from prev count zs) j =
      match nth_error zs j with
      | Some _ => Some (zi (snd (counter_st (prev, count) (firstn (S j) zs))))
      | None => None
      end.
  Proof.
    induction zs as [|t r IH]; intros prev count j; [destruct j; reflexivity|].
    destruct j as [|j].
    - cbn [ref_counter_from nth_error firstn counter_st fold_left counter1 snd]. reflexivity.
    - cbn [ref_counter_from nth_error]. rewrite IH. destruct (nth_error r j); [|reflexivity].
      remember (S j) as k. cbn [firstn counter_st fold_left counter1]. reflexivity.
  Qed.

  Lemma zpre_fin_ints zs : forall j, zpre (Fin (map zi zs)) j = firstn j zs.
  Proof.
    induction j as [|j IH]; [reflexivity|]. rewrite zpre_S, IH. cbn [at_]. rewrite nth_error_map.
    destruct (nth_error zs j) as [t|] eqn:E; cbn [option_map].
    - clear IH. revert j E. induction zs as [|x zs IHz]; intros j E; [destruct j; discriminate|].
      destruct j as [|j]; cbn in *; [inversion E; reflexivity|]. f_equal. apply IHz. exact E.
    - rewrite app_nil_r. apply nth_error_None in E. rewrite !firstn_all2 by lia. reflexivity.
  Qed.

  Theorem counter_den f c zs : Den f c (Fin (map zi zs)) ->
    Den (S (S f)) (PCounter (AP c) (VInt 0) 0) (Fin (ref_counter_from 0 0 zs)).
  Proof.
    intros Hc j. rewrite (counter_out f c (Fin (map zi zs)) Hc).
    - cbn [at_]. rewrite ref_counter_nth, nth_error_map, zpre_fin_ints.
      destruct (nth_error zs j); reflexivity.
    - intros q v E. cbn [at_] in E. rewrite nth_error_map in E. destruct (nth_error zs q); inversion E. eexists; reflexivity.
  Qed.

  (* an endless trigger (the documented use: PCounter(PImpulse(n))): output j is the last element of the closed form
     applied to the first j+1 triggers *)
  Lemma zpre_inf_ints gz : forall j, zpre (Inf (fun i => zi (gz i))) j = map gz (seq 0 j).
  Proof. induction j as [|j IH]; [reflexivity|]. rewrite zpre_S, IH, seq_S, map_app. reflexivity. Qed.

  Theorem counter_den_inf f c gz : Den f c (Inf (fun i => zi (gz i))) ->
    Den (S (S f)) (PCounter (AP c) (VInt 0) 0)
        (Inf (fun j => nth j (ref_counter_from 0 0 (map gz (seq 0 (S j)))) VNone)).
  Proof.
    intros Hc j. rewrite (counter_out f c _ Hc).
    - cbn [at_]. f_equal. rewrite zpre_inf_ints. symmetry. apply nth_error_nth.
      rewrite ref_counter_nth. rewrite nth_error_map, nth_error_seq' by lia. cbn [option_map].
      rewrite firstn_all2 by (rewrite map_length, seq_length; lia). reflexivity.
    - intros q v E. inversion E. eexists; reflexivity.
  Qed.

  (* ---------------------------------------------------------------------------------------------- *)
  (** * PWrap(p, min, max), ints, min < max: every value wrapped into [min, max) *)

  Lemma wrap_up_int mn mx : mn < mx -> forall n v, mn - v <= Z.of_nat n * (mx - mn) ->
    wrap_up n (VInt v) (VInt mn) (VInt mx) = Yield (VInt (if v <? mn then ref_wrap1 mn mx v else v)).
  Proof.
    intros Hd. unfold ref_wrap1. induction n as [|n IH]; intros v Hn.
    - cbn [wrap_up]. rewrite cmp_lt_int. destruct (v <? mn) eqn:E; [lia | reflexivity].
    - cbn [wrap_up]. rewrite cmp_lt_int. destruct (v <? mn) eqn:E; [|reflexivity].
      rewrite binop_sub_int. cbn [obind]. rewrite binop_add_int. cbn [obind]. rewrite IH by lia.
      do 2 f_equal. destruct (v + (mx - mn) <? mn) eqn:E2.
      + replace (v + (mx - mn) - mn) with (v - mn + 1 * (mx - mn)) by ring. rewrite Z.mod_add by lia. reflexivity.
      + assert (M : v - mn + (mx - mn) = (v - mn) mod (mx - mn)) by (apply (Z.mod_unique_pos _ _ (-1)); lia).
        rewrite <- M. ring.
  Qed.

  Lemma wrap_down_int mn mx : mn < mx -> forall n v, mn <= v -> v - mn <= Z.of_nat n * (mx - mn) ->
    wrap_down n (VInt v) (VInt mn) (VInt mx) = Yield (VInt (ref_wrap1 mn mx v)).
  Proof.
    intros Hd. unfold ref_wrap1. induction n as [|n IH]; intros v Hv Hn.
    - cbn [wrap_down]. rewrite cmp_ge_int. assert (v = mn) by lia. subst v.
      destruct (mx <=? mn) eqn:E; [lia|]. rewrite Z.sub_diag, Z.mod_0_l by lia. do 2 f_equal. lia.
    - cbn [wrap_down]. rewrite cmp_ge_int. destruct (mx <=? v) eqn:E.
      + rewrite binop_sub_int. cbn [obind]. rewrite binop_sub_int. cbn [obind]. rewrite IH by lia.
        do 3 f_equal. replace (v - mn) with (v - (mx - mn) - mn + 1 * (mx - mn)) by ring. rewrite Z.mod_add by lia. reflexivity.
      + do 2 f_equal. rewrite Z.mod_small by lia. lia.
  Qed.

  Lemma wrap_int mn mx n v : mn < mx -> Z.abs (v - mn) <= Z.of_nat n * (mx - mn) ->
    obind (wrap_up n (VInt v) (VInt mn) (VInt mx)) (fun v1 => wrap_down n v1 (VInt mn) (VInt mx)) = Yield (VInt (ref_wrap1 mn mx v)).
  Proof.
    intros Hd Hn. rewrite (wrap_up_int mn mx Hd) by lia. cbn [obind]. destruct (v <? mn) eqn:E.
    - (* wrapped upwards into the range: nothing to take off *)
      assert (R : mn <= ref_wrap1 mn mx v < mx) by (unfold ref_wrap1; pose proof (Z.mod_pos_bound (v - mn) (mx - mn) ltac:(lia)); lia).
      destruct n as [|n]; cbn [wrap_down]; rewrite cmp_ge_int; destruct (mx <=? ref_wrap1 mn mx v) eqn:E2; try lia; reflexivity.
    - apply (wrap_down_int mn mx Hd); lia.
  Qed.

  Definition wrapv (mn mx : Z) (v : val) : val := match v with VInt z => zi (ref_wrap1 mn mx z) | _ => v end.

  Lemma step_wrap_eq f pattern mn mx :
    step (S f) (PWrap pattern mn mx) =
      (let '(o, pattern') := anext f pattern in
       match o with
       | Yield v => (obind (wrap_up f v mn mx) (fun v1 => wrap_down f v1 mn mx), PWrap pattern' mn mx)
       | _ => (o, PWrap pattern' mn mx)
       end).
  Proof. reflexivity. Qed.

  (* K bounds the number of times the range has to be added / taken off: |v - min| <= K * (max - min) *)
  Theorem wrap_den f c s mn mx K : mn < mx -> Den f c s ->
    (forall j v, at_ s j = Yield v -> exists z, v = VInt z /\ Z.abs (z - mn) <= Z.of_nat K * (mx - mn)) ->
    Den (S (S (f + K))) (PWrap (AP c) (VInt mn) (VInt mx)) (sem_map (wrapv mn mx) s).
  Proof.
    intros Hd Hc Hv.
    apply (Den_sim binop LMAX) with (R := fun j p => p = PWrap (AP (after f j c)) (VInt mn) (VInt mx)); [reflexivity|].
    intros j p ->. rewrite step_wrap_eq, (Den_anext_ge f (f + K) c s j Hc ltac:(lia)), at_map.
    destruct (at_cases s j) as [[v Ev]|Ev]; rewrite Ev; cbn [fst snd]; [|split; reflexivity].
    destruct (Hv j v Ev) as (z & -> & Hz). rewrite wrap_int by (try exact Hd; nia). split; reflexivity.
  Qed.

  (* ---------------------------------------------------------------------------------------------- *)
  (** * filtering classes: PCollapse, PNoRepeats.  __next__ reads its input until a value is to be kept:
        `while <drop>: rv = Pattern.value(self.input)` — every value read costs one unit of fuel. *)

  Section Filter.
    Variable St : Type.
    Variable mk : arg -> St -> pat.
    Variable dropb : St -> val -> bool.
    Variable upd : St -> val -> St.
    Hypothesis mk_step : forall F a st,
      step (S F) (mk a st) =
        (let '(o, a') := value F a in
         match o with
         | Yield rv => if dropb st rv then step F (mk a' st) else (Yield rv, mk a' (upd st rv))
         | _ => (o, mk a' st)
         end).

    Fixpoint sfilter (st : St) (l : list val) : list val :=
      match l with
      | [] => []
      | v :: r => if dropb st v then sfilter st r else v :: sfilter (upd st v) r
      end.

    Variable f : nat.
    Variable c : pat.
    Variable l : list val.
    Hypothesis Hc : Den f c (Fin l).

    Lemma skipn_nth_cons {A} (xs : list A) m x : nth_error xs m = Some x -> skipn m xs = x :: skipn (S m) xs.
    Proof.
      revert m. induction xs as [|y xs IH]; intros m H; [destruct m; discriminate|].
      destruct m as [|m]; cbn in *; [inversion H; reflexivity | apply IH; exact H].
    Qed.

    (* one call: the next value that is kept, or the end *)
    Lemma filter_step : forall k m st F, (List.length l - m <= k)%nat -> (f + k + 1 <= F)%nat ->
      exists m', (m <= m')%nat /\
        match sfilter st (skipn m l) with
        | [] => step (S F) (mk (AP (after f m c)) st) = (Stop, mk (AP (after f m' c)) st) /\ (List.length l < m')%nat
        | x :: rest => step (S F) (mk (AP (after f m c)) st) = (Yield x, mk (AP (after f m' c)) (upd st x))
                       /\ sfilter (upd st x) (skipn m' l) = rest
        end.
    Proof.
      induction k as [|k IH]; intros m st F Hk HF.
      - (* nothing left to read *)
        assert (Hm : (List.length l <= m)%nat) by lia.
        rewrite (skipn_all2 l Hm). cbn [sfilter]. exists (S m). split; [lia|].
        destruct F as [|F]; [lia|]. rewrite mk_step, (Den_value_ge f F c (Fin l) m Hc ltac:(lia)), (at_fin_ge l m Hm).
        split; [reflexivity | lia].
      - destruct F as [|F]; [lia|]. rewrite mk_step, (Den_value_ge f F c (Fin l) m Hc ltac:(lia)).
        destruct (nth_error l m) as [v|] eqn:Ev.
        + rewrite (skipn_nth_cons l m v Ev). cbn [sfilter at_]. rewrite Ev.
          destruct (dropb st v) eqn:Ed.
          * destruct (IH (S m) st F ltac:(lia) ltac:(lia)) as (m' & Hm' & Hres). exists m'. split; [lia | exact Hres].
          * exists (S m). split; [lia|]. split; reflexivity.
        + apply nth_error_None in Ev. rewrite (skipn_all2 l Ev). cbn [sfilter]. exists (S m). split; [lia|].
          rewrite (at_fin_ge l m Ev). split; [reflexivity | lia].
    Qed.

    Lemma skipn_nil_at {A} (xs : list A) j : skipn j xs = [] -> nth_error xs j = None.
    Proof. intro H. apply nth_error_None. rewrite <- (firstn_skipn j xs), H, app_nil_r. rewrite firstn_length. lia. Qed.
    Lemma skipn_cons_at {A} (xs : list A) j x r : skipn j xs = x :: r -> nth_error xs j = Some x /\ skipn (S j) xs = r.
    Proof.
      revert j. induction xs as [|y xs IH]; intros j H; [destruct j; discriminate|].
      destruct j as [|j]; cbn in *; [inversion H; split; reflexivity | apply IH; exact H].
    Qed.

    Theorem filter_den st0 :
      Den (S (f + List.length l + 2)) (mk (AP c) st0) (Fin (sfilter st0 l)).
    Proof.
      set (outl := sfilter st0 l).
      apply (Den_sim binop LMAX) with (R := fun j p => exists m st, p = mk (AP (after f m c)) st /\ sfilter st (skipn m l) = skipn j outl).
      - exists O, st0. split; reflexivity.
      - intros j p (m & st & -> & Hrem).
        destruct (filter_step (List.length l) m st (f + List.length l + 2) ltac:(lia) ltac:(lia)) as (m' & Hm' & Hres).
        rewrite Hrem in Hres. destruct (skipn j outl) as [|x rest] eqn:Ej.
        + destruct Hres as [E Hlen]. rewrite E. cbn [fst snd at_]. rewrite (skipn_nil_at outl j Ej). split; [reflexivity|].
          exists m', st. split; [reflexivity|]. rewrite (skipn_all2 l) by lia. cbn [sfilter].
          symmetry. apply skipn_all2. apply nth_error_None. apply skipn_nil_at.
          assert (Hn : nth_error outl j = None) by (apply skipn_nil_at; exact Ej). apply nth_error_None in Hn.
          apply skipn_all2. lia.
        + destruct Hres as [E Hrest]. rewrite E. cbn [fst snd at_]. destruct (skipn_cons_at outl j x rest Ej) as [Hx Hr].
          rewrite Hx. split; [reflexivity|]. exists m', (upd st x). split; [reflexivity|]. rewrite Hrest, Hr. reflexivity.
    Qed.
  End Filter.

  (** PCollapse(p): rests dropped *)
  Lemma step_collapse_eq F input :
    step (S F) (PCollapse input) =
      (let '(o, input') := value F input in
       match o with
       | Yield rv => if is_none rv then step F (PCollapse input') else (Yield rv, PCollapse input')
       | _ => (o, PCollapse input')
       end).
  Proof.
    change (step (S F) (PCollapse input)) with
      (let '(o, input') := value F input in
       match o with
       | Yield VNone => step F (PCollapse input')
       | _ => (o, PCollapse input')
       end).
    destruct (value F input) as [[[]| | | |] a']; reflexivity.
  Qed.

  Lemma sfilter_collapse l : sfilter unit (fun _ v => is_none v) (fun st _ => st) tt l = ref_collapse l.
  Proof.
    unfold ref_collapse. induction l as [|v r IH]; [reflexivity|]. cbn [sfilter filter].
    destruct (is_none v); cbn [negb]; [exact IH | f_equal; exact IH].
  Qed.

  Theorem collapse_den f c l : Den f c (Fin l) ->
    Den (S (f + List.length l + 2)) (PCollapse (AP c)) (Fin (ref_collapse l)).
  Proof.
    intro Hc. rewrite <- sfilter_collapse.
    apply (filter_den unit (fun a _ => PCollapse a) (fun _ v => is_none v) (fun st _ => st)
             (fun F a _ => step_collapse_eq F a) f c l Hc tt).
  Qed.

  (** PNoRepeats(p): a value equal to the one before it is dropped.  sys.maxsize is the class's "no value yet" marker
      (its __next__ also drops every value equal to it): the stream does not contain it *)
  Lemma step_norepeats_eq F input v :
    step (S F) (PNoRepeats input v) =
      (let '(o, input') := value F input in
       match o with
       | Yield rv => if py_eq rv v || py_eq rv (VInt MAXSIZE) then step F (PNoRepeats input' v) else (Yield rv, PNoRepeats input' rv)
       | _ => (o, PNoRepeats input' v)
       end).
  Proof. reflexivity. Qed.

  Lemma sfilter_norepeats : forall l prev, (forall v, In v l -> py_eq v (VInt MAXSIZE) = false) ->
    sfilter val (fun prev rv => py_eq rv prev || py_eq rv (VInt MAXSIZE)) (fun _ rv => rv) prev l = ref_norepeats_from prev l.
  Proof.
    induction l as [|v r IH]; intros prev H; [reflexivity|]. cbn [sfilter ref_norepeats_from].
    rewrite (H v (or_introl eq_refl)), orb_false_r.
    destruct (py_eq v prev); [|f_equal]; apply IH; intros x Hx; apply H; right; exact Hx.
  Qed.

  Theorem norepeats_den f c l : Den f c (Fin l) -> (forall v, In v l -> py_eq v (VInt MAXSIZE) = false) ->
    Den (S (f + List.length l + 2)) (PNoRepeats (AP c) (VInt MAXSIZE)) (Fin (ref_norepeats_from (VInt MAXSIZE) l)).
  Proof.
    intros Hc Hm. rewrite <- (sfilter_norepeats l (VInt MAXSIZE) Hm).
    apply (filter_den val (fun a prev => PNoRepeats a prev) (fun prev rv => py_eq rv prev || py_eq rv (VInt MAXSIZE)) (fun _ rv => rv)
             (fun F a prev => step_norepeats_eq F a prev) f c l Hc (VInt MAXSIZE)).
  Qed.
End Den2.

(* Pat/ResetSrc.v — the reset theorem of Pat/ResetProofs.v (property C04) restated for the reset() / __next__ bodies
   generated from the source text (Generated/TablesStep.v), through src_reset_is / src_step_is of Pat/StepSrc.v.
   Lemmas only; the property theorems are in Props/C04Src.v. *)
From Isobar Require Import Base.Prelude Pat.Val Pat.Syntax Pat.Step Pat.StepProofs Pat.IterProofs Pat.ResetProofs
  Generated.TablesStep Pat.StepSrc.
From Coq Require Import String QArith.
Open Scope Z_scope.

Section ResetSrc.
  Variable binop : op -> val -> val -> outcome val.
  Variable LMAX : nat.

  Fixpoint src_run (f' : nat) (k : nat) (p : pat) : pat :=
    match k with O => p | S k' => src_run f' k' (snd (src_step binop LMAX f' p)) end.
  Lemma src_run_is f' k : forall p, src_run f' k p = run binop LMAX f' k p.
  Proof. induction k as [|k IH]; intro p; [reflexivity|]. cbn [src_run run]. rewrite src_step_is. apply IH. Qed.

  Theorem src_reset_step f f' p :
    rpat p -> src_reset binop LMAX f (snd (src_step binop LMAX f' p)) = src_reset binop LMAX f p.
  Proof. intro H. rewrite !src_reset_is, src_step_is. exact (reset_step binop LMAX f f' p H). Qed.

  Theorem src_reset_run f f' k p0 :
    rpat p0 -> src_reset binop LMAX f (src_run f' k p0) = src_reset binop LMAX f p0.
  Proof. intro H. rewrite !src_reset_is, src_run_is. exact (reset_run binop LMAX f f' k p0 H). Qed.
End ResetSrc.

(* Pat/ParamLive.v — C12 observed THROUGH a timeline track: the event stream a track draws from, and the references the
   caller still holds into it.

   Timeline.schedule(events) / Track.update(events) / Timeline.schedule(events, name=n) over a running track named n
   (replace=True) hand the caller's event dict to the track: Track.start wraps it (PDict(dict): one pattern per key,
   `Pattern.pattern(v)`), the PATTERN OBJECTS inside are the caller's own - schedule() takes a shallow copy of the dict
   only.  So a PRef the caller put into the dict and still holds IS the PRef the track evaluates at its next event, and
   `ref.set_pattern(r)` reaches the running track "from the very next step".

   The deep embedding is a tree model (no object identity), so the caller's handle is modelled the way a handle into a
   tree is: by the PLACE of the reference in the stream the track currently plays - the key of the event dict, followed by
   parameter positions (Param.vfield) below it.  [LRetarget t k path r] re-targets the reference at that place of the
   stream track t plays NOW, whichever operation installed that stream; that an installing operation makes the track
   play the caller's tree itself (and not a copy detached from the handle) is what theorems live_*_installs state, and
   what the correspondence check observes on the real Timeline.

   Time is abstracted to the order of events: [LStep t] is one `next(event_stream)` of track t (Track.get_next_event);
   updates are immediate (quantize = delay = 0).  Definitions only; lemmas in Pat/ParamLiveProofs.v. *)
From Isobar Require Import Base.Prelude Pat.Val Pat.Syntax Pat.Step Pat.Param.
From Coq Require Import String.
Open Scope Z_scope.

(** the reference reached from an argument by following parameter positions; [] = the argument is the reference *)
Fixpoint retarget_in (path : list nat) (a : arg) (r : pat) : arg :=
  match path, a with
  | [], AP p => AP (set_pattern p (AP r))
  | i :: rest, AP p => match vfield p i with
                       | Some b => AP (with_vfield p i (retarget_in rest b r))
                       | None => a
                       end
  | _, _ => a
  end.

(** apply g to the value of the first entry with key k *)
Fixpoint map_key (k : string) (g : arg -> arg) (kv : list (string * arg)) : list (string * arg) :=
  match kv with
  | [] => []
  | (k', a) :: r => if String.eqb k k' then (k', g a) :: r else (k', a) :: map_key k g r
  end.

Definition retarget_key (s : pat) (k : string) (path : list nat) (r : pat) : pat :=
  match s with
  | PDict (AD kv) => PDict (AD (map_key k (fun a => retarget_in path a r) kv))
  | _ => s
  end.

(** a track, as far as C12 is concerned: its name and the event stream it draws from *)
Record ltrack := mkLT { lt_name : option Z; lt_stream : pat }.

Inductive lop :=
| LSchedule (name : option Z) (s : pat)                          (* timeline.schedule(events, name=name)   [replace=True] *)
| LUpdate (t : nat) (s : pat)                                    (* timeline.tracks[t].update(events) *)
| LStep (t : nat)                                                (* track t is due: next(event_stream) *)
| LRetarget (t : nat) (k : string) (path : list nat) (r : pat).  (* ref.set_pattern(r), ref = the PRef at that place of what track t plays *)

Fixpoint lfind (nm : Z) (tl : list ltrack) (i : nat) : option nat :=
  match tl with
  | [] => None
  | t :: r => match lt_name t with
              | Some n => if n =? nm then Some i else lfind nm r (S i)
              | None => lfind nm r (S i)
              end
  end.

Definition lset (t : nat) (s : pat) (tl : list ltrack) : list ltrack :=
  match nth_error tl t with
  | Some tr => update_nth t (mkLT (lt_name tr) s) tl
  | None => tl
  end.

Section Live.
  Variable binop : op -> val -> val -> outcome val.
  Variable LMAX : nat.

  (* one operation; for LStep the event drawn (the outcome of next(event_stream)) *)
  Definition lexec (f : nat) (tl : list ltrack) (o : lop) : list ltrack * option (outcome val) :=
    match o with
    | LSchedule name s =>
        match match name with Some nm => lfind nm tl 0 | None => None end with
        | Some i => (lset i s tl, None)                    (* existing_track.update(params) *)
        | None => (tl ++ [mkLT name s], None)              (* a new Track *)
        end
    | LUpdate t s => (lset t s tl, None)
    | LStep t =>
        match nth_error tl t with
        | Some tr => let '(o, s') := step binop LMAX f (lt_stream tr) in (lset t s' tl, Some o)
        | None => (tl, None)
        end
    | LRetarget t k path r =>
        match nth_error tl t with
        | Some tr => (lset t (retarget_key (lt_stream tr) k path r) tl, None)
        | None => (tl, None)
        end
    end.

  Fixpoint lrun (f : nat) (tl : list ltrack) (h : list lop) : list (outcome val) :=
    match h with
    | [] => []
    | o :: r => let '(tl', ev) := lexec f tl o in
                (match ev with Some e => [e] | None => [] end) ++ lrun f tl' r
    end.
  Fixpoint lrun_state (f : nat) (tl : list ltrack) (h : list lop) : list ltrack :=
    match h with
    | [] => tl
    | o :: r => lrun_state f (fst (lexec f tl o)) r
    end.

  (** * For the correspondence check: histories whose event dicts are constructor expressions *)
  Inductive lsop :=
  | LSSchedule (name : option Z) (e : pexpr)
  | LSUpdate (t : nat) (e : pexpr)
  | LSStep (t : nat)
  | LSRetarget (t : nat) (k : string) (path : list nat) (e : pexpr).

  (* the drawn events, each reduced to what reaches the output device: (note, amplitude) *)
  Definition played (o : outcome val) : outcome val :=
    match o with
    | Yield (VDict kv) => Yield (VTup [match assoc "note"%string kv with Some v => v | None => VNone end;
                                       match assoc "amplitude"%string kv with Some v => v | None => VNone end])
    | Yield _ => Inexact
    | o => o
    end.

  Fixpoint lstrace (f : nat) (tl : list ltrack) (h : list lsop) : list (outcome val) :=
    match h with
    | [] => []
    | LSSchedule name e :: r =>
        match init binop LMAX f e with
        | Yield s => lstrace f (fst (lexec f tl (LSchedule name s))) r
        | o => [ocast o]
        end
    | LSUpdate t e :: r =>
        match init binop LMAX f e with
        | Yield s => lstrace f (fst (lexec f tl (LUpdate t s))) r
        | o => [ocast o]
        end
    | LSStep t :: r =>
        let '(tl', ev) := lexec f tl (LStep t) in
        (match ev with Some e => played e | None => Inexact end) :: lstrace f tl' r
    | LSRetarget t k path e :: r =>
        match init binop LMAX f e with
        | Yield p => lstrace f (fst (lexec f tl (LRetarget t k path p))) r
        | o => [ocast o]
        end
    end.
End Live.

(* Pat/SeededNestProofs.v — the reset contract for stochastic objects that contain stochastic objects (Pat/SeededNest.v). *)
From Isobar Require Import Base.Prelude Pat.Chance Pat.Seeded Pat.SeededProofs Pat.SeededNest.
From Coq Require Import QArith.
Local Notation length := List.length (only parsing).
Open Scope Z_scope.

Lemma map_upd {A B} (f : A -> B) x : forall l i, map f (upd i x l) = upd i (f x) (map f l).
Proof. induction l as [|y l IH]; intros [|i]; cbn; try reflexivity. rewrite IH. reflexivity. Qed.
Lemma upd_same {A} (x : A) : forall l i, nth_error l i = Some x -> upd i x l = l.
Proof. induction l as [|y l IH]; intros [|i] H; cbn in *; try discriminate; [inversion H; reflexivity|]. rewrite IH by exact H. reflexivity. Qed.
Lemma nth_error_upd_eq {A} (x : A) : forall l i y, nth_error l i = Some y -> nth_error (upd i x l) i = Some x.
Proof. induction l as [|z l IH]; intros [|i] y H; cbn in *; try discriminate; [reflexivity|]. eapply IH; eauto. Qed.

Section Nest.
  Variable R : Type.
  Variable r_unit : R -> Z * R.
  Variable r_below : Z -> R -> Z * R.
  Variable r_seed : Z -> R.
  Variables StC CfC St : Type.
  Variable pc : pclass R St.
  Notation kid := (kid R StC CfC).
  Notation ndo := (ndo R r_unit r_below r_seed StC CfC pc).
  Notation nafter := (nafter R r_unit r_below r_seed StC CfC pc).
  Notation nrun := (nrun R r_unit r_below r_seed StC CfC pc).
  Notation nnew := (nnew R r_seed StC CfC pc).
  Notation exec := (exec R r_unit r_below r_seed StC CfC).

  (** the contracts: reset() forgets the state and leaves what the constructor leaves (generator included); seed() on a
      new object leaves what the constructor would have left with that generator *)
  Definition pplain : Prop :=
    (forall st g, pc_reset pc st g = pc_new pc g) /\ (forall g' g, pc_seeded pc (fst (pc_new pc g')) g = pc_new pc g).
  Definition kplain (cls : sclass R StC CfC) : Prop :=
    (forall st g, sc_reset cls st g = sc_new cls g) /\ (forall g' g, sc_seeded cls (fst (sc_new cls g')) g = sc_new cls g).

  (* every class of Pat/SeededProofs.v whose contract has no configuration is such a child *)
  Lemma rewinds_kplain cls kcfg : rewinds R StC CfC cls unit (fun _ => tt) kcfg -> kplain cls.
  Proof.
    intro RW. assert (E : forall st g, sc_reset cls st g = sc_new cls g).
    { intros st g. rewrite (rw_reset_canon _ _ _ _ _ _ _ RW st (fst (sc_new cls g)) g eq_refl).
      pose proof (rw_reset_new _ _ _ _ _ _ _ RW [] g g) as H. unfold configs in H. cbn [fold_left] in H. rewrite H.
      destruct (sc_new cls g); reflexivity. }
    split; [exact E|]. intros g' g.
    pose proof (rw_seeded_new _ _ _ _ _ _ _ RW [] g g') as H. unfold configs in H. cbn [fold_left] in H. rewrite H. apply E.
  Qed.

  Definition kshape (kids : list kid) : list (sclass R StC CfC * Z) := map (fun k => (fst k, k_seed (snd k))) kids.

  Lemma nafter_cons o op r : nafter o (op :: r) = nafter (fst (ndo o op)) r.
  Proof.
    unfold SeededNest.nafter. cbn [nrun_st]. destruct (ndo o op) as [o' e]. cbn [fst].
    destruct (nrun_st R r_unit r_below r_seed StC CfC pc o' r). reflexivity.
  Qed.
  Lemma nrun_cons o op r :
    nrun o (op :: r) = match snd (ndo o op) with Some x => x :: nrun (fst (ndo o op)) r | None => nrun (fst (ndo o op)) r end.
  Proof.
    unfold SeededNest.nrun. cbn [nrun_st]. destruct (ndo o op) as [o' e]. cbn [fst snd].
    destruct (nrun_st R r_unit r_below r_seed StC CfC pc o' r). destruct e; reflexivity.
  Qed.
  Lemma nafter_app o a b : nafter o (a ++ b) = nafter (nafter o a) b.
  Proof. revert o. induction a as [|op a IH]; intro o; [reflexivity|]. cbn [app]. rewrite !nafter_cons. apply IH. Qed.
  Lemma nrun_app o a b : nrun o (a ++ b) = nrun o a ++ nrun (nafter o a) b.
  Proof.
    revert o. induction a as [|op a IH]; intro o; [reflexivity|]. cbn [app]. rewrite !nrun_cons, nafter_cons, IH.
    destruct (snd (ndo o op)); reflexivity.
  Qed.

  (* __next__ of the parent advances children by their own __next__ only: classes and stored seeds stay *)
  Lemma exec_shape {A} (p : prog A) : forall g kids, kshape (snd (exec p g kids)) = kshape kids.
  Proof.
    induction p as [a|i k IH|k IH|n k IH]; intros g kids; simpl SeededNest.exec.
    - reflexivity.
    - destruct (nth_error kids i) as [[cls c]|] eqn:E; [|apply IH].
      destruct (sc_step cls (k_seed c) (k_st c) (k_gen c)) as [[r st'] g']. rewrite IH. unfold kshape. rewrite map_upd. cbn [fst snd k_seed].
      apply upd_same. rewrite nth_error_map. unfold SeededNest.kid in *. rewrite E. reflexivity.
    - destruct (r_unit g). apply IH.
    - destruct (r_below n g). apply IH.
  Qed.

  Lemma shape_ndo o op :
    n_seed (fst (ndo o op)) = pseed_of (n_seed o) [op] /\
    kshape (n_kids (fst (ndo o op))) = kshape_step R StC CfC (kshape (n_kids o)) op.
  Proof.
    destruct op as [| |s|i s]; cbn [SeededNest.ndo pseed_of kshape_step].
    - pose proof (exec_shape (pc_step pc (n_st o)) (n_gen o) (n_kids o)) as E.
      destruct (exec (pc_step pc (n_st o)) (n_gen o) (n_kids o)) as [[[r st'] g'] kids']. cbn [fst snd n_seed n_kids] in *.
      split; [reflexivity|exact E].
    - destruct (pc_reset pc (n_st o) (r_seed (n_seed o))). cbn [fst n_seed n_kids]. split; [reflexivity|].
      unfold kshape. rewrite map_map. apply map_ext. intros [cls c]. unfold reset_kid. cbn [fst snd kdo].
      destruct (sc_reset cls (k_st c) (r_seed (k_seed c))). reflexivity.
    - destruct (pc_seeded pc (n_st o) (r_seed s)). cbn [fst n_seed n_kids]. split; reflexivity.
    - cbn [fst n_seed n_kids]. split; [reflexivity|]. unfold kshape at 2. rewrite nth_error_map.
      change (@nth_error (sclass R StC CfC * kinst R StC) (n_kids o) i) with (@nth_error (SeededNest.kid R StC CfC) (n_kids o) i).
      destruct (@nth_error (SeededNest.kid R StC CfC) (n_kids o) i) as [[cls c]|] eqn:E; cbn [option_map]; [|reflexivity].
      unfold kshape. rewrite map_upd. unfold seed_kid. cbn [fst snd kdo].
      destruct (sc_seeded cls (k_st c) (r_seed s)). reflexivity.
  Qed.

  Lemma pseed_of_app s a b : pseed_of s (a ++ b) = pseed_of (pseed_of s a) b.
  Proof. revert s. induction a as [|op a IH]; intro s; [reflexivity|]. destruct op; cbn [app pseed_of]; apply IH. Qed.

  Lemma shape_after h : forall o,
    n_seed (nafter o h) = pseed_of (n_seed o) h /\
    kshape (n_kids (nafter o h)) = kshape_of R StC CfC h (kshape (n_kids o)).
  Proof.
    induction h as [|op h IH]; intro o; [split; reflexivity|].
    rewrite nafter_cons. destruct (IH (fst (ndo o op))) as (E1 & E2). destruct (shape_ndo o op) as (S1 & S2).
    rewrite E1, E2, S1, S2. split; [|reflexivity]. destruct op; reflexivity.
  Qed.

  Hypothesis PP : pplain.

  (* reset() of the parent, from ANY state: the parent as its constructor leaves it with the generator at its stored
     seed, every child as ITS constructor leaves it with the generator at the child's stored seed *)
  Lemma reset_from_shape o :
    Forall kplain (map fst (n_kids o)) ->
    fst (ndo o NReset) = nnew (n_seed o) (kshape (n_kids o)).
  Proof.
    intro HK. cbn [SeededNest.ndo]. unfold SeededNest.nnew. rewrite (proj1 PP).
    destruct (pc_new pc (r_seed (n_seed o))) as [st g]. cbn [fst]. f_equal.
    unfold kshape. rewrite map_map. cbn [fst snd].
    induction (n_kids o) as [|[cls c] l IH]; [reflexivity|]. cbn [map] in *. inversion HK; subst.
    rewrite IH by assumption. f_equal. unfold reset_kid. cbn [fst snd kdo].
    match goal with Hk : kplain cls |- _ => rewrite (proj1 Hk) end. unfold knew. destruct (sc_new cls (r_seed (k_seed c))). reflexivity.
  Qed.

  Lemma kshape_new (kids0 : list (sclass R StC CfC * Z)) :
    kshape (map (fun cs => (fst cs, knew R r_seed (fst cs) (snd cs))) kids0) = kids0.
  Proof.
    unfold kshape. rewrite map_map. rewrite <- (map_id kids0) at 2. apply map_ext. intros [cls s]. cbn [fst snd].
    unfold knew. destruct (sc_new cls (r_seed s)). reflexivity.
  Qed.
  Lemma n_new_seed s0 kids0 : n_seed (nnew s0 kids0) = s0 /\ kshape (n_kids (nnew s0 kids0)) = kids0.
  Proof. unfold SeededNest.nnew. destruct (pc_new pc (r_seed s0)). cbn [n_seed n_kids]. split; [reflexivity|apply kshape_new]. Qed.

  Lemma classes_kshape_of h : forall sh, map fst (kshape_of R StC CfC h sh) = map fst sh.
  Proof.
    induction h as [|op h IH]; intro sh; [reflexivity|]. unfold kshape_of in *. cbn [fold_left]. rewrite IH.
    destruct op as [| |s|i s]; cbn [kshape_step]; try reflexivity.
    destruct (nth_error sh i) as [[c z]|] eqn:E; [|reflexivity]. rewrite map_upd. cbn [fst]. apply upd_same.
    rewrite nth_error_map, E. reflexivity.
  Qed.

  (** MAIN: after ANY history (next / reset / seed of the parent / seed of a child, any order and number) on
      Outer(Inner_0, ..) built with any throw-away seeds, reset() leaves exactly the newly constructed object in which
      the parent has the parent's seed in force and every child the child's seed in force - states, generators, seeds *)
  Theorem nested_reset_is_fresh s0 kids0 h : Forall kplain (map fst kids0) ->
    fst (ndo (nafter (nnew s0 kids0) h) NReset) = nnew (pseed_of s0 h) (kshape_of R StC CfC h kids0).
  Proof.
    intro HK. destruct (shape_after h (nnew s0 kids0)) as (E1 & E2). destruct (n_new_seed s0 kids0) as (N1 & N2).
    rewrite reset_from_shape.
    - rewrite E1, E2, N1, N2. reflexivity.
    - replace (map fst (n_kids (nafter (nnew s0 kids0) h))) with (map fst (kshape (n_kids (nafter (nnew s0 kids0) h))))
        by (unfold kshape; rewrite map_map; reflexivity).
      rewrite E2, N2, classes_kshape_of. exact HK.
  Qed.

  Theorem nested_reset_outputs s0 kids0 h post : Forall kplain (map fst kids0) ->
    nrun (nnew s0 kids0) (h ++ NReset :: post) =
    nrun (nnew s0 kids0) h ++ nrun (nnew (pseed_of s0 h) (kshape_of R StC CfC h kids0)) post.
  Proof.
    intro HK. rewrite nrun_app, nrun_cons. rewrite <- (nested_reset_is_fresh s0 kids0 h HK).
    cbn [SeededNest.ndo snd]. destruct (pc_reset pc _ _). reflexivity.
  Qed.

  (** seeding a newly constructed nest - the parent and/or children, in any order, also repeatedly - gives the object
      that is constructed with those seeds: it does not depend on what the constructors drew, and seed(s) of the parent
      consumes nothing of the parent's stream on behalf of the children *)
  Theorem nested_seeding setup : seeding setup -> forall s0 kids0, Forall kplain (map fst kids0) ->
    nafter (nnew s0 kids0) setup = nnew (pseed_of s0 setup) (kshape_of R StC CfC setup kids0).
  Proof.
    induction 1 as [|op setup Hop _ IH]; intros s0 kids0 HK; [reflexivity|].
    rewrite nafter_cons. destruct op as [| |s|i s]; try contradiction; cbn [pseed_of]; unfold kshape_of; cbn [fold_left kshape_step].
    - assert (fst (ndo (nnew s0 kids0) (NSeed s)) = nnew s kids0) as ->.
      { cbn [SeededNest.ndo]. unfold SeededNest.nnew. destruct (pc_new pc (r_seed s0)) as [st0 g0] eqn:E0. cbn [n_st n_kids].
        replace st0 with (fst (pc_new pc (r_seed s0))) by (rewrite E0; reflexivity). rewrite (proj2 PP).
        destruct (pc_new pc (r_seed s)). reflexivity. }
      apply IH. exact HK.
    - destruct (nth_error kids0 i) as [[cls z]|] eqn:E.
      + assert (fst (ndo (nnew s0 kids0) (NKidSeed i s)) = nnew s0 (upd i (cls, s) kids0)) as ->.
        { cbn [SeededNest.ndo]. unfold SeededNest.nnew. destruct (pc_new pc (r_seed s0)) as [st0 g0]. cbn [n_st n_gen n_seed n_kids fst].
          rewrite nth_error_map, E. cbn [option_map fst snd]. f_equal. rewrite map_upd. cbn [fst snd]. f_equal.
          unfold seed_kid. cbn [fst snd]. f_equal. unfold knew. destruct (sc_new cls (r_seed z)) as [stz gz] eqn:Ez.
          cbn [kdo k_st]. replace stz with (fst (sc_new cls (r_seed z))) by (rewrite Ez; reflexivity).
          assert (Hk : kplain cls).
          { rewrite Forall_forall in HK. apply HK. apply in_map_iff. exists (cls, z). split; [reflexivity|eapply nth_error_In; eauto]. }
          rewrite (proj2 Hk). destruct (sc_new cls (r_seed s)). reflexivity. }
        apply IH. rewrite map_upd. cbn [fst]. rewrite upd_same; [exact HK|]. rewrite nth_error_map, E. reflexivity.
      + assert (fst (ndo (nnew s0 kids0) (NKidSeed i s)) = nnew s0 kids0) as ->.
        { cbn [SeededNest.ndo]. unfold SeededNest.nnew. destruct (pc_new pc (r_seed s0)) as [st0 g0]. cbn [n_st n_gen n_seed n_kids fst].
          rewrite nth_error_map, E. reflexivity. }
        apply IH. exact HK.
  Qed.

  (** the three-way statement for nests: Outer(Inner(..).seed(t), ..).seed(s), consumed straight away, is the object that
      reset() reproduces after any number of next() / reset() calls *)
  Theorem nested_seeded_then_reset s0 kids0 setup h : Forall kplain (map fst kids0) ->
    seeding setup -> nplain h ->
    fst (ndo (nafter (nafter (nnew s0 kids0) setup) h) NReset) = nafter (nnew s0 kids0) setup.
  Proof.
    intros HK Hs Hp. rewrite <- nafter_app, nested_reset_is_fresh, (nested_seeding setup Hs s0 kids0 HK) by exact HK.
    assert (E : forall s sh, pseed_of s h = s /\ kshape_of R StC CfC h sh = sh).
    { induction Hp as [|op h Hop _ IH]; intros s sh; [split; reflexivity|].
      destruct op; try contradiction; cbn [pseed_of]; unfold kshape_of; cbn [fold_left kshape_step]; apply IH. }
    rewrite pseed_of_app. unfold kshape_of. rewrite fold_left_app. fold (kshape_of R StC CfC setup kids0).
    fold (kshape_of R StC CfC h (kshape_of R StC CfC setup kids0)).
    destruct (E (pseed_of s0 setup) (kshape_of R StC CfC setup kids0)) as (-> & ->). reflexivity.
  Qed.

  (* seed(s) of the parent leaves the children alone *)
  Theorem parent_seed_leaves_children o s : n_kids (fst (ndo o (NSeed s))) = n_kids o.
  Proof. cbn [SeededNest.ndo]. destruct (pc_seeded pc (n_st o) (r_seed s)). reflexivity. Qed.
End Nest.

(** the transcribed parents meet the parent contract *)
Lemma pskip_pplain R play : pplain R unit (pskip R play).
Proof. split; intros; reflexivity. Qed.
Lemma pcoin_pplain R : pplain R unit (pcoin R).
Proof. split; intros; reflexivity. Qed.

(* Pat/ResetProofs.v — C04: reset() rewinds a pattern to the state of a new instance.
   Key lemma [reset_step]: reset() erases whatever next() changed:  reset (state after next()) = reset (state).
   With [reset p0 = p0] for a new object this gives reset p_k = p0 after any history.
   Lemmas only; the model is Pat/Step.v. *)
From Isobar Require Import Base.Prelude Pat.Val Pat.Syntax Pat.Step Pat.StepProofs Pat.IterProofs.
From Coq Require Import String QArith.
Open Scope Z_scope.

Section Reset.
  Variable binop : op -> val -> val -> outcome val.
  Variable LMAX : nat.
  Notation step := (step binop LMAX).
  Notation value := (value binop LMAX).
  Notation anext := (anext binop LMAX).
  Notation reset := (reset binop LMAX).
  Notation outputs := (outputs binop LMAX).
  Notation all_ := (all_ binop LMAX).

  (** ** unfolding equations *)
  Lemma step_counter_eq f trigger v count :
    step (S f) (PCounter trigger v count) =
      (let '(ot, trigger') := anext f trigger in         
          match ot with
          | Yield vt =>
              let st := PCounter trigger' v count in
              
              match obind (cmp OGt vt (VInt 0)) (fun b => if b then cmp OLe v (VInt 0) else Yield false) with
              | Yield true => (Yield (VInt (count + 1)), PCounter trigger' vt (count + 1))
              | Yield false =>
                  
                  match obind (cmp OLe vt (VInt 0)) (fun b => if b then cmp OGt v (VInt 0) else Yield false) with
                  | Yield true => (Yield (VInt count), PCounter trigger' vt count)
                  | Yield false => (Yield (VInt count), st)
                  | oc => (ocast oc, st)
                  end
              | oc => (ocast oc, st)
              end
          | _ => (ot, PCounter trigger' v count)
          end).
  Proof. reflexivity. Qed.

  Lemma step_pad_eq f pattern length count :
    step (S f) (PPad pattern length count) =
      (let '(o, pattern') := anext f pattern in
          match o with
          | Stop =>
              match cmp OGe (VInt count) length with
              | Yield true => (Stop, PPad pattern' length count)
              | Yield false => (Yield VNone, PPad pattern' length (count + 1))
              | oc => (ocast oc, PPad pattern' length count)
              end
          | Yield v => (Yield v, PPad pattern' length (count + 1))
          | _ => (o, PPad pattern' length count)
          end).
  Proof. reflexivity. Qed.

  Lemma step_padm_eq f pattern multiple minimum_pad count padcount :
    step (S f) (PPadToMultiple pattern multiple minimum_pad count padcount) =
      (let '(o, pattern') := anext f pattern in
          match o with
          | Stop =>
              let st := PPadToMultiple pattern' multiple minimum_pad count padcount in
              
              match obind (cmp OGe (VInt padcount) minimum_pad)
                      (fun b => if b then omap (fun r => py_eq r (VInt 0)) (Val.binop OMod (VInt count) multiple) else Yield false) with
              | Yield true => (Stop, st)
              | Yield false => (Yield VNone, PPadToMultiple pattern' multiple minimum_pad (count + 1) (padcount + 1))
              | oc => (ocast oc, st)
              end
          | Yield v => (Yield v, PPadToMultiple pattern' multiple minimum_pad (count + 1) padcount)
          | _ => (o, PPadToMultiple pattern' multiple minimum_pad count padcount)
          end).
  Proof. reflexivity. Qed.

  Lemma step_stutter_eq f pattern count count_current pos v :
    step (S f) (PStutter pattern count count_current pos v) =
      (match cmp OGe (VInt pos) count_current with       
          | Yield true =>
              let '(oc, count') := value f count in         
              match oc with
              | Yield cc =>
                  let '(o, pattern') := anext f pattern in  
                  match o with
                  | Yield v' => (Yield v', PStutter pattern' count' cc 1 v')     
                  | _ => (o, PStutter pattern' count' count_current pos v)      
                  end
              | _ => (oc, PStutter pattern count' count_current pos v)
              end
          | Yield false => (Yield v, PStutter pattern count count_current (pos + 1) v)
          | oc => (ocast oc, (PStutter pattern count count_current pos v))
          end).
  Proof. reflexivity. Qed.


  (** ** unfolding equations of the classes added to the fragment (C04 extension) *)
  Lemma step_series_eq f start v stp length count :
    step (S f) (PSeries start v stp length count) =
      (let '(ol, length') := value f length in
          match ol with
          | Yield vlen =>
              match cmp OGe (VInt count) vlen with
              | Yield true => (Stop, PSeries start v stp length' count)
              | Yield false =>
                  let '(os, stp') := value f stp in
                  match os with
                  | Yield vstep =>
                      match Val.binop OAdd v vstep with
                      | Yield v' => (Yield v, PSeries start v' stp' length' (count + 1))
                      | o => (o, PSeries start v stp' length' count)
                      end
                  | _ => (os, PSeries start v stp' length' count)
                  end
              | oc => (ocast oc, PSeries start v stp length' count)
              end
          | _ => (ol, PSeries start v stp length' count)
          end).
  Proof. reflexivity. Qed.

  Lemma step_range_eq f start end_ stp v :
    step (S f) (PRange start end_ stp v) =
      (let '(oe, end') := value f end_ in
          match oe with
          | Yield vend =>
              let '(os, stp') := value f stp in
              match os with
              | Yield vstep =>
                  let st := PRange start end' stp' v in
                  let t1 := obind (cmp OGt vstep (VInt 0)) (fun b => if b then cmp OGe v vend else Yield false) in
                  match t1 with
                  | Yield true => (Stop, st)
                  | Yield false =>
                      let t2 := obind (cmp OLt vstep (VInt 0)) (fun b => if b then cmp OLe v vend else Yield false) in
                      match t2 with
                      | Yield true => (Stop, st)
                      | Yield false =>
                          match Val.binop OAdd v vstep with
                          | Yield v' => (Yield v, PRange start end' stp' v')
                          | o => (o, st)
                          end
                      | oc => (ocast oc, st)
                      end
                  | oc => (ocast oc, st)
                  end
              | _ => (os, PRange start end' stp' v)
              end
          | _ => (oe, PRange start end' stp v)
          end).
  Proof. reflexivity. Qed.

  Lemma step_geom_eq f start v multiply length count :
    step (S f) (PGeom start v multiply length count) =
      (match cmp OGe (VInt count) length with
          | Yield true => (Stop, PGeom start v multiply length count)
          | Yield false =>
              let '(om, multiply') := value f multiply in
              match om with
              | Yield vm =>
                  match Val.binop OMul v vm with
                  | Yield v' => (Yield v, PGeom start v' multiply' length (count + 1))
                  | o => (o, PGeom start v multiply' length count)
                  end
              | _ => (om, PGeom start v multiply' length count)
              end
          | oc => (ocast oc, PGeom start v multiply length count)
          end).
  Proof. reflexivity. Qed.

  Lemma step_impulse_eq f period pos :
    step (S f) (PImpulse period pos) =
      (let '(op_, period') := value f period in
          match op_ with
          | Yield vp =>
              match cmp OGe (VInt pos) vp with
              | Yield b =>
                  let pos1 := if b then 0 else pos in
                  (Yield (VInt (if pos1 =? 0 then 1 else 0)), PImpulse period' (pos1 + 1))
              | oc => (ocast oc, PImpulse period' pos)
              end
          | _ => (op_, PImpulse period' pos)
          end).
  Proof. reflexivity. Qed.

  Lemma step_loop_eq f pattern count pos loop_index read_all values :
    step (S f) (PLoop pattern count pos loop_index read_all values) =
      (let '(err, pattern1, read_all1, values1) :=
            if read_all then (None, pattern, true, values)
            else
              let '(o, pattern') := anext f pattern in
              match o with
              | Yield v => (None, pattern', false, values ++ [v])
              | Stop => (None, pattern', true, values)
              | _ => (Some o, pattern', false, values)
              end in
          match err with
          | Some o => (o, PLoop pattern1 count pos loop_index read_all1 values1)
          | None =>
              let wrap := read_all1 && (pos >=? zlen values1) in
              let st0 := PLoop pattern1 count pos loop_index read_all1 values1 in
              let go (pos2 loop_index2 : Z) :=
                match py_index values1 pos2 with
                | Some v => (Yield v, PLoop pattern1 count (pos2 + 1) loop_index2 read_all1 values1)
                | None => (Raise IndexError, PLoop pattern1 count pos2 loop_index2 read_all1 values1)
                end in
              if wrap then
                match obind (Val.binop OSub count (VInt 1)) (fun c1 => cmp OGe (VInt loop_index) c1) with
                | Yield true => (Stop, st0)
                | Yield false => if zlen values1 =? 0 then (Stop, st0) else go 0 (loop_index + 1)
                | oc => (ocast oc, st0)
                end
              else go pos loop_index
          end).
  Proof. reflexivity. Qed.

  Lemma step_pingpong_eq f pattern count values pos dir rpos :
    step (S f) (PPingPong pattern count values pos dir rpos) =
      (let p := PPingPong pattern count values pos dir rpos in
       match obind (if pos =? 1 then cmp OGe (VInt rpos) count else Yield false) (fun b => Yield (b || (pos >=? zlen values))) with
          | Yield true => (Stop, p)
          | Yield false =>
              match py_index values pos with
              | None => (Raise IndexError, p)
              | Some v =>
                  let pos1 := pos + dir in
                  if pos1 =? zlen values - 1 then (Yield v, PPingPong pattern count values pos1 (-1) rpos)
                  else if pos1 =? 0 then (Yield v, PPingPong pattern count values pos1 1 (rpos + 1))
                  else (Yield v, PPingPong pattern count values pos1 dir rpos)
              end
          | oc => (ocast oc, p)
          end).
  Proof. reflexivity. Qed.

  Lemma step_reverse_eq f input values :
    step (S f) (PReverse input values) =
      match values with
      | v :: r => (Yield v, PReverse input r)
      | [] => (Stop, PReverse input values)
      end.
  Proof. reflexivity. Qed.

  Lemma step_changed_eq f source current :
    step (S f) (PChanged source current) =
      (let '(o, source') := value f source in
          match o with
          | Yield nxt => (Yield (VInt (if py_eq nxt current then 0 else 1)), PChanged source' nxt)
          | _ => (o, PChanged source' current)
          end).
  Proof. reflexivity. Qed.

  Lemma step_diff_eq f source current :
    step (S f) (PDiff source current) =
      (let '(o, source') := value f source in
          match o with
          | Yield nxt =>
              if is_none current || is_none nxt then (Yield VNone, PDiff source' nxt)
              else match Val.binop OSub nxt current with
                   | Yield d => (Yield d, PDiff source' nxt)
                   | oe => (oe, PDiff source' current)
                   end
          | _ => (o, PDiff source' current)
          end).
  Proof. reflexivity. Qed.

  Lemma step_wrap_eq f pattern mn mx :
    step (S f) (PWrap pattern mn mx) =
      (let '(o, pattern') := anext f pattern in
          match o with
          | Yield v => (obind (wrap_up f v mn mx) (fun v1 => wrap_down f v1 mn mx), PWrap pattern' mn mx)
          | _ => (o, PWrap pattern' mn mx)
          end).
  Proof. reflexivity. Qed.

  Lemma step_anyref_eq f pattern :
    step (S f) (PRef pattern) = (let '(o, pattern') := anext f pattern in (o, PRef pattern')).
  Proof. reflexivity. Qed.

  Lemma step_collapse_eq f input :
    step (S f) (PCollapse input) =
      (let '(o, input') := value f input in
          match o with
          | Yield VNone => step f (PCollapse input')
          | _ => (o, PCollapse input')
          end).
  Proof. reflexivity. Qed.

  Lemma step_norepeats_eq f input v :
    step (S f) (PNoRepeats input v) =
      (let '(o, input') := value f input in
          match o with
          | Yield rv =>
              if py_eq rv v || py_eq rv (VInt MAXSIZE) then step f (PNoRepeats input' v)
              else (Yield rv, PNoRepeats input' rv)
          | _ => (o, PNoRepeats input' v)
          end).
  Proof. reflexivity. Qed.

  Lemma step_subsequence_eq f pattern offset length pos values :
    step (S f) (PSubsequence pattern offset length pos values) =
      (let '(oo, offset') := value f offset in
          match oo with
          | Yield voff =>
              let '(ol, length') := value f length in
              match ol with
              | Yield vlen =>
                  let st := PSubsequence pattern offset' length' pos values in
                  match cmp OGe (VInt pos) vlen with
                  | Yield true => (Stop, st)
                  | Yield false =>
                      match int_of voff with
                      | Some off =>
                          let '(ou, values', pattern') := pull_until (anext f) f pattern values (pos + off) in
                          match ou with
                          | Yield _ =>
                              match py_index values' (off + pos) with
                              | Some v => (Yield v, PSubsequence pattern' offset' length' (pos + 1) values')
                              | None => (Raise IndexError, PSubsequence pattern' offset' length' pos values')
                              end
                          | _ => (ocast ou, PSubsequence pattern' offset' length' pos values')
                          end
                      | None => ((if is_none voff then Raise TypeError else Inexact), st)
                      end
                  | oc => (ocast oc, st)
                  end
              | _ => (ol, PSubsequence pattern offset' length' pos values)
              end
          | _ => (oo, PSubsequence pattern offset' length pos values)
          end).
  Proof. reflexivity. Qed.

  Notation fld f a k := (obind (reset_field (reset f) a) k).

  Lemma reset_abs_eq f a : reset (S f) (PAbs a) = fld f a (fun x => Yield (PAbs x)).
  Proof. reflexivity. Qed.
  Lemma reset_int_eq f a : reset (S f) (PInt a) = fld f a (fun x => Yield (PInt x)).
  Proof. reflexivity. Qed.
  Lemma reset_ref_eq f a : reset (S f) (PRef a) = fld f a (fun x => Yield (PRef x)).
  Proof. reflexivity. Qed.
  Lemma reset_binop_eq f o a b : reset (S f) (PBinOp o a b) = fld f a (fun a' => fld f b (fun b' => Yield (PBinOp o a' b'))).
  Proof. reflexivity. Qed.
  Lemma reset_and_eq f a b : reset (S f) (PAnd a b) = fld f a (fun a' => fld f b (fun b' => Yield (PAnd a' b'))).
  Proof. reflexivity. Qed.
  Lemma reset_skipif_eq f a b : reset (S f) (PSkipIf a b) = fld f a (fun a' => fld f b (fun b' => Yield (PSkipIf a' b'))).
  Proof. reflexivity. Qed.
  Lemma reset_counter_eq f t v c : reset (S f) (PCounter t v c) = fld f t (fun t' => Yield (PCounter t' (VInt 0) 0)).
  Proof. reflexivity. Qed.
  Lemma reset_pad_eq f p l c : reset (S f) (PPad p l c) = fld f p (fun x => Yield (PPad x l 0)).
  Proof. reflexivity. Qed.
  Lemma reset_padm_eq f p m mp c pc : reset (S f) (PPadToMultiple p m mp c pc) = fld f p (fun x => Yield (PPadToMultiple x m mp 0 0)).
  Proof. reflexivity. Qed.
  Lemma reset_stutter_eq f p c cc pos v :
    reset (S f) (PStutter p c cc pos v) = fld f p (fun p' => fld f c (fun c' => Yield (PStutter p' c' (VInt 0) 0 (VInt 0)))).
  Proof. reflexivity. Qed.

  Lemma reset_series_eq f start v stp length count :
    reset (S f) (PSeries start v stp length count) = fld f stp (fun s' => fld f length (fun l' => Yield (PSeries start start s' l' 0))).
  Proof. reflexivity. Qed.
  Lemma reset_range_eq f start end_ stp v :
    reset (S f) (PRange start end_ stp v) = fld f end_ (fun e' => fld f stp (fun s' => Yield (PRange start e' s' start))).
  Proof. reflexivity. Qed.
  Lemma reset_geom_eq f start v m length count :
    reset (S f) (PGeom start v m length count) = fld f m (fun m' => Yield (PGeom start start m' length 0)).
  Proof. reflexivity. Qed.
  Lemma reset_impulse_eq f period pos : reset (S f) (PImpulse period pos) = fld f period (fun x => Yield (PImpulse x 0)).
  Proof. reflexivity. Qed.
  Lemma reset_loop_eq f pattern count pos li ra values :
    reset (S f) (PLoop pattern count pos li ra values) = fld f pattern (fun x => Yield (PLoop x count 0 0 false [])).
  Proof. reflexivity. Qed.
  Lemma reset_pingpong_any f pattern count values pos dir rpos values' pos' dir' rpos' :
    reset f (PPingPong pattern count values pos dir rpos) = reset f (PPingPong pattern count values' pos' dir' rpos').
  Proof. destruct f; reflexivity. Qed.
  Lemma reset_reverse_any f input values values' : reset f (PReverse input values) = reset f (PReverse input values').
  Proof. destruct f; reflexivity. Qed.
  Lemma reset_changed_eq f source current :
    reset (S f) (PChanged source current) =
      fld f source (fun s1 => let '(o, s2) := value f s1 in obind o (fun v => Yield (PChanged s2 v))).
  Proof. reflexivity. Qed.
  Lemma reset_diff_eq f source current :
    reset (S f) (PDiff source current) =
      fld f source (fun s1 => let '(o, s2) := value f s1 in obind o (fun v => Yield (PDiff s2 v))).
  Proof. reflexivity. Qed.
  Lemma reset_wrap_eq f pattern mn mx : reset (S f) (PWrap pattern mn mx) = fld f pattern (fun x => Yield (PWrap x mn mx)).
  Proof. reflexivity. Qed.
  Lemma reset_collapse_eq f input : reset (S f) (PCollapse input) = fld f input (fun x => Yield (PCollapse x)).
  Proof. reflexivity. Qed.
  Lemma reset_norepeats_eq f input v : reset (S f) (PNoRepeats input v) = fld f input (fun x => Yield (PNoRepeats x (VInt MAXSIZE))).
  Proof. reflexivity. Qed.
  Lemma reset_subsequence_eq f pattern offset length pos values :
    reset (S f) (PSubsequence pattern offset length pos values) =
      fld f pattern (fun p' => fld f offset (fun o' => fld f length (fun l' => Yield (PSubsequence p' o' l' 0 [])))).
  Proof. reflexivity. Qed.

  (** ** leaves: classes whose state is counters only (scalar parameters) *)
  Definition leaf_reset (p : pat) : bool :=
    match p with
    | PConstant _ => true
    | PSequence (AL l) (AV _) _ _ => scalars l
    | _ => false
    end.

  Lemma update_nth_same {A} (l : list A) : forall i x, nth_error l i = Some x -> update_nth i x l = l.
  Proof.
    induction l as [|y l IH]; intros [|i] x H; cbn in *; try discriminate; try reflexivity.
    - inversion H; reflexivity.
    - rewrite (IH _ _ H). reflexivity.
  Qed.

  Lemma py_index_update {A} (l : list A) i a : py_index l i = Some a -> update_nth (py_index_pos l i) a l = l.
  Proof.
    unfold py_index, py_index_pos. intro H.
    destruct ((0 <=? i) && (i <? Z.of_nat (List.length l))) eqn:E1.
    - apply andb_true_iff in E1 as [E _]. rewrite E. apply update_nth_same; exact H.
    - destruct ((- Z.of_nat (List.length l) <=? i) && (i <? 0)) eqn:E2; [|discriminate].
      apply andb_true_iff in E2 as [_ E]. assert (E0 : (0 <=? i) = false) by lia. rewrite E0.
      apply update_nth_same. exact H.
  Qed.

  Lemma mapM_reset_scalars (g : pat -> outcome pat) l : scalars l = true -> mapM (reset_value g) l = Yield l.
  Proof.
    induction l as [|x l IH]; intro H; [reflexivity|]. destruct x; try discriminate.
    cbn. rewrite (IH H). reflexivity.
  Qed.

  Local Opaque cmp Val.binop py_index py_index_pos Z.add Z.eqb Z.geb zlen.

  Ltac crunchg :=
    cbn;
    repeat (first [ reflexivity
                  | match goal with |- context [match ?x with _ => _ end] => destruct x eqn:?; cbn end
                  | match goal with |- context [if ?x then _ else _] => destruct x eqn:?; cbn end ]).

  Lemma leaf_reset_step f f' p : leaf_reset p = true -> reset f (snd (step f' p)) = reset f p.
  Proof.
    intro Hl. destruct f' as [|f']; [reflexivity|]. destruct f as [|f]; [reflexivity|].
    destruct p; try discriminate Hl.
    - reflexivity.
    - (* PSequence *)
      destruct sequence as [| |l| |]; try discriminate Hl. destruct repeats as [vrep| | | |]; try discriminate Hl.
      cbn in Hl. destruct f' as [|f']; [reflexivity|]. cbn.
      destruct (if zlen l =? 0 then Yield true else cmp OGe (VInt rcount) vrep) as [[|]| | | |]; try reflexivity.
      destruct (py_index l pos) as [a|] eqn:Ei; [|reflexivity].
      destruct (scalars_index _ _ _ Hl Ei) as [v ->]. cbn. rewrite (py_index_update _ _ _ Ei).
      destruct (pos + 1 >=? zlen l); reflexivity.
  Qed.

  (** ** classes whose state is counters only, with scalar parameters: what PReset may restart *)
  Definition flat (p : pat) : bool :=
    match p with
    | PConstant _ => true
    | PSequence (AL l) (AV _) _ _ => scalars l
    | PSeries _ _ (AV _) (AV _) _ => true
    | PRange _ (AV _) (AV _) _ => true
    | PGeom _ _ (AV _) _ _ => true
    | PImpulse (AV _) _ => true
    | _ => false
    end.

  Ltac flat_shape Hf :=
    repeat match type of Hf with
           | context [match ?x with _ => _ end] => is_var x; destruct x; try discriminate Hf
           end.

  Ltac goal_split :=
    repeat (match goal with
            | |- context [match obind ?a ?k with _ => _ end] => destruct (obind a k)
            | |- context [match cmp ?a ?b ?c with _ => _ end] => destruct (cmp a b c)
            | |- context [match Val.binop ?a ?b ?c with _ => _ end] => destruct (Val.binop a b c)
            | |- context [if ?x then _ else _] => is_var x; destruct x
            | |- context [match ?x with _ => _ end] => is_var x; destruct x
            end; cbn).

  Lemma flat_closed f p : flat p = true -> flat (snd (step f p)) = true.
  Proof.
    intro Hf. destruct f as [|f]; [exact Hf|]. destruct p; try discriminate Hf.
    - reflexivity.
    - destruct sequence as [| |l| |]; try discriminate Hf. destruct repeats as [vrep| | | |]; try discriminate Hf.
      cbn in Hf. destruct f as [|f]; [exact Hf|]. cbn.
      destruct (if zlen l =? 0 then Yield true else cmp OGe (VInt rcount) vrep) as [[|]| | | |]; try exact Hf.
      destruct (py_index l pos) as [a|] eqn:Ei; [|exact Hf].
      destruct (scalars_index _ _ _ Hf Ei) as [v ->]. cbn. rewrite (py_index_update _ _ _ Ei).
      destruct (pos + 1 >=? zlen l); exact Hf.
    - cbn in Hf. flat_shape Hf. destruct f; cbn; goal_split; reflexivity.
    - cbn in Hf. flat_shape Hf. destruct f; cbn; goal_split; reflexivity.
    - cbn in Hf. flat_shape Hf. destruct f; cbn; goal_split; reflexivity.
    - cbn in Hf. flat_shape Hf. destruct f; cbn; goal_split; reflexivity.
  Qed.

  Ltac goal_split2 :=
    cbv beta iota zeta;
    repeat (match goal with
            | |- context [match obind ?a ?k with _ => _ end] => destruct (obind a k)
            | |- context [match cmp ?a ?b ?c with _ => _ end] => destruct (cmp a b c)
            | |- context [match Val.binop ?a ?b ?c with _ => _ end] => destruct (Val.binop a b c)
            | |- context [if ?x then _ else _] => is_var x; destruct x
            | |- context [match ?x with _ => _ end] => is_var x; destruct x
            end; cbv beta iota zeta).

  Lemma flat_reset_step f f' p : flat p = true -> reset f (snd (step f' p)) = reset f p.
  Proof.
    intro Hf. destruct f' as [|f']; [reflexivity|]. destruct f as [|f]; [reflexivity|]. destruct p; try discriminate Hf.
    - reflexivity.
    - apply leaf_reset_step. exact Hf.
    - cbn in Hf. flat_shape Hf. rewrite step_series_eq. destruct f'; [reflexivity|]. rewrite !value_scalar. goal_split2; reflexivity.
    - cbn in Hf. flat_shape Hf. rewrite step_range_eq. destruct f'; [reflexivity|]. rewrite !value_scalar. goal_split2; reflexivity.
    - cbn in Hf. flat_shape Hf. rewrite step_geom_eq. destruct f'; [goal_split2; reflexivity|]. rewrite !value_scalar. goal_split2; reflexivity.
    - cbn in Hf. flat_shape Hf. rewrite step_impulse_eq. destruct f'; [reflexivity|]. rewrite !value_scalar. goal_split2; reflexivity.
  Qed.

  (** reset() of such an object is again one, and resetting it again changes nothing *)
  Lemma flat_reset_reset f1 p q : flat p = true -> reset f1 p = Yield q ->
    flat q = true /\ forall f0, reset f0 q = reset f0 p.
  Proof.
    intros Hf H. destruct f1 as [|f1]; [discriminate|]. destruct p; try discriminate Hf.
    - inversion H; subst. split; [reflexivity|reflexivity].
    - destruct sequence as [| |l| |]; try discriminate Hf. destruct repeats as [vrep| | | |]; try discriminate Hf.
      cbn in Hf. cbn in H. rewrite (mapM_reset_scalars _ _ Hf) in H. cbn in H. inversion H; subst.
      split; [exact Hf|]. intros [|f0]; [reflexivity|]. cbn. rewrite (mapM_reset_scalars _ _ Hf). reflexivity.
    - cbn in Hf. flat_shape Hf. cbn in H. inversion H; subst. split; [reflexivity|]. intros [|f0]; reflexivity.
    - cbn in Hf. flat_shape Hf. cbn in H. inversion H; subst. split; [reflexivity|]. intros [|f0]; reflexivity.
    - cbn in Hf. flat_shape Hf. cbn in H. inversion H; subst. split; [reflexivity|]. intros [|f0]; reflexivity.
    - cbn in Hf. flat_shape Hf. cbn in H. inversion H; subst. split; [reflexivity|]. intros [|f0]; reflexivity.
  Qed.

  Lemma step_preset_eq f pattern trigger :
    step (S f) (PReset pattern trigger) =
      (let '(ot, trigger') := anext f trigger in
          match ot with
          | Yield vt =>
              match (if is_none vt then Yield false else cmp OGt vt (VInt 0)) with
              | Yield fire =>
                  let opat := if fire then areset_strict binop LMAX f pattern else Yield pattern in
                  match opat with
                  | Yield pattern1 =>
                      let '(o, pattern2) := anext f pattern1 in
                      (o, PReset pattern2 trigger')
                  | o => (ocast o, PReset pattern trigger')
                  end
              | oc => (ocast oc, PReset pattern trigger')
              end
          | _ => (ot, PReset pattern trigger')
          end).
  Proof. reflexivity. Qed.

  Lemma reset_preset_eq f p t : reset (S f) (PReset p t) = fld f p (fun p' => fld f t (fun t' => Yield (PReset p' t'))).
  Proof. reflexivity. Qed.

  Lemma areset_strict_pattern f p : areset_strict binop LMAX (S f) (AP p) = omap AP (reset f p).
  Proof. reflexivity. Qed.

  (** one next() of PReset over such an object: the object inside is again one, with the same reset() *)
  Lemma preset_step f p t : flat p = true ->
    exists o p', step (S f) (PReset (AP p) t) = (o, PReset (AP p') (snd (anext f t))) /\
                 flat p' = true /\ forall f0, reset f0 p' = reset f0 p.
  Proof.
    intro Hf. rewrite step_preset_eq. destruct (anext f t) as [ot t']. cbn [snd].
    assert (Same : forall o : outcome val, exists o' p', (o, PReset (AP p) t') = (o', PReset (AP p') t') /\
                     flat p' = true /\ forall f0, reset f0 p' = reset f0 p) by (intro o; exists o, p; auto).
    assert (Polled : forall q, flat q = true -> (forall f0, reset f0 q = reset f0 p) ->
              exists o' p', (let '(o, pattern2) := anext f (AP q) in (o, PReset pattern2 t')) = (o', PReset (AP p') t') /\
                     flat p' = true /\ forall f0, reset f0 p' = reset f0 p).
    { intros q Fq Rq. destruct f as [|f'']; [exists OutOfFuel, q; auto|]. rewrite anext_pattern.
      pose proof (flat_closed f'' q Fq) as Fq'. pose proof (fun f0 => flat_reset_step f0 f'' q Fq) as Rq'.
      destruct (step f'' q) as [o q']. cbn [snd] in *. exists o, q'. split; [reflexivity|]. split; [exact Fq'|].
      intro f0. rewrite Rq'. apply Rq. }
    destruct ot as [vt| | | |]; try apply Same.
    destruct (if is_none vt then Yield false else cmp OGt vt (VInt 0)) as [[|]| | | |]; try apply Same; cbv zeta.
    - destruct f as [|f'']; [apply Same|]. rewrite areset_strict_pattern. destruct (reset f'' p) as [q| | | |] eqn:R; cbn [omap obind]; try apply Same.
      destruct (flat_reset_reset _ _ _ Hf R) as [Fq Rq]. apply Polled; assumption.
    - apply Polled; [exact Hf|reflexivity].
  Qed.

  (** ** the reset fragment: any nesting of the operator / unary / stutter / counter / pad classes over leaves *)
  Inductive rpat : pat -> Prop :=
  | RP_leaf p : leaf_reset p = true -> rpat p
  | RP_abs a : rarg a -> rpat (PAbs a)
  | RP_int a : rarg a -> rpat (PInt a)
  | RP_binop o a b : rarg a -> rarg b -> rpat (PBinOp o a b)
  | RP_and a b : rarg a -> rarg b -> rpat (PAnd a b)
  | RP_skipif a b : rarg a -> rarg b -> rpat (PSkipIf a b)
  | RP_counter t v c : rarg t -> rpat (PCounter t v c)
  | RP_pad p l c : rarg p -> rpat (PPad p l c)
  | RP_padm p m mp c pc : rarg p -> rpat (PPadToMultiple p m mp c pc)
  | RP_stutter p c cc pos v : rarg p -> rarg c -> rpat (PStutter p c cc pos v)
  (* leaf classes with scalar or pattern parameters *)
  | RP_series start v stp length count : rarg stp -> rarg length -> rpat (PSeries start v stp length count)
  | RP_range start end_ stp v : rarg end_ -> rarg stp -> rpat (PRange start end_ stp v)
  | RP_geom start v m length count : rarg m -> rpat (PGeom start v m length count)
  | RP_impulse period pos : rarg period -> rpat (PImpulse period pos)
  (* buffering classes *)
  | RP_loop p count pos li ra values : rarg p -> rpat (PLoop p count pos li ra values)
  | RP_pingpong p count values pos dir rpos : rpat (PPingPong p count values pos dir rpos)   (* any input: next() never touches it *)
  | RP_reverse input values : rpat (PReverse input values)                                   (* likewise *)
  | RP_changed source current : rarg source -> rpat (PChanged source current)
  | RP_diff source current : rarg source -> rpat (PDiff source current)
  | RP_collapse input : rarg input -> rpat (PCollapse input)
  | RP_norepeats input v : rarg input -> rpat (PNoRepeats input v)
  | RP_subsequence p offset length pos values : rarg p -> rarg offset -> rarg length -> rpat (PSubsequence p offset length pos values)
  | RP_wrap p mn mx : rarg p -> rpat (PWrap p mn mx)
  | RP_ref p : rarg p -> rpat (PRef p)
  (* PReset over a class whose state is counters only (scalar parameters), any trigger of the fragment *)
  | RP_reset p t : flat p = true -> rarg t -> rpat (PReset (AP p) t)
  with rarg : arg -> Prop :=
  | RA_val v : rarg (AV v)
  | RA_pat p : rpat p -> rarg (AP p).

  Lemma flat_rpat p : flat p = true -> rpat p.
  Proof.
    intro Hf. destruct p; try discriminate Hf.
    - apply RP_leaf. reflexivity.
    - apply RP_leaf. exact Hf.
    - cbn in Hf. flat_shape Hf. apply RP_series; apply RA_val.
    - cbn in Hf. flat_shape Hf. apply RP_range; apply RA_val.
    - cbn in Hf. flat_shape Hf. apply RP_geom; apply RA_val.
    - cbn in Hf. flat_shape Hf. apply RP_impulse; apply RA_val.
  Qed.

  (** ** the fragment is closed under next() (shape preservation) *)
  Lemma leaf_closed f p : leaf_reset p = true -> leaf_reset (snd (step f p)) = true.
  Proof.
    intro Hl. destruct f as [|f]; [exact Hl|].
    destruct p; try discriminate Hl.
    - reflexivity.
    - destruct sequence as [| |l| |]; try discriminate Hl. destruct repeats as [vrep| | | |]; try discriminate Hl.
      cbn in Hl. destruct f as [|f]; [exact Hl|]. cbn.
      destruct (if zlen l =? 0 then Yield true else cmp OGe (VInt rcount) vrep) as [[|]| | | |]; try exact Hl.
      destruct (py_index l pos) as [a|] eqn:Ei; [|exact Hl].
      destruct (scalars_index _ _ _ Hl Ei) as [v ->]. cbn. rewrite (py_index_update _ _ _ Ei).
      destruct (pos + 1 >=? zlen l); exact Hl.
  Qed.

  Lemma pull_until_inv (P : arg -> Prop) g : (forall a, P a -> P (snd (g a))) ->
    forall n pattern values target, P pattern -> P (snd (pull_until g n pattern values target)).
  Proof.
    intros Hg n. induction n as [|n IH]; intros pattern values target HP.
    - cbn. destruct (Z.of_nat (List.length values) <=? target); exact HP.
    - cbn [pull_until]. destruct (Z.of_nat (List.length values) <=? target); [|exact HP].
      pose proof (Hg pattern HP) as K. destruct (g pattern) as [o pattern']. cbn [snd] in K.
      destruct o; try exact K. apply IH. exact K.
  Qed.

  Ltac closed_case IHs IHv IHn :=
    cbv zeta;
    repeat match goal with
           | PU : forall values target, rarg (snd (pull_until ?g ?n ?p values target)) |- context [pull_until ?g ?n ?p ?v ?t] =>
               let K := fresh "K" in pose proof (PU v t) as K; destruct (pull_until g n p v t) as [[? ?] ?]; cbn [snd] in K
           | H : rarg ?a |- context [value ?f ?a] =>
               let K := fresh "K" in pose proof (IHv a H) as K; destruct (value f a) as [? ?]; cbn [snd] in K
           | H : rarg ?a |- context [anext ?f ?a] =>
               let K := fresh "K" in pose proof (IHn a H) as K; destruct (anext f a) as [? ?]; cbn [snd] in K
           | |- context [if ?x then _ else _] => is_var x; destruct x
           | |- context [match ?x with _ => _ end] => is_var x; destruct x
           | |- context [if ?x then _ else _] => destruct x
           | |- context [match ?x with _ => _ end] => destruct x
           | _ => progress (cbv beta iota zeta)
           end;
    cbv beta iota zeta delta [snd]; first [constructor; assumption | apply IHs; constructor; assumption].

  Theorem rpat_closed : forall f,
    (forall p, rpat p -> rpat (snd (step f p))) /\
    (forall a, rarg a -> rarg (snd (value f a))) /\
    (forall a, rarg a -> rarg (snd (anext f a))).
  Proof.
    induction f as [|f [IHs [IHv IHn]]].
    - repeat split; intros; assumption.
    - split; [|split].
      + intros p Hp. inversion Hp; subst.
        * apply RP_leaf. apply leaf_closed. assumption.
        * rewrite step_abs_eq. closed_case IHs IHv IHn.
        * rewrite step_int_eq. closed_case IHs IHv IHn.
        * rewrite step_binop_eq. closed_case IHs IHv IHn.
        * rewrite step_and_eq. closed_case IHs IHv IHn.
        * rewrite step_skipif_eq. closed_case IHs IHv IHn.
        * rewrite step_counter_eq. closed_case IHs IHv IHn.
        * rewrite step_pad_eq. closed_case IHs IHv IHn.
        * rewrite step_padm_eq. closed_case IHs IHv IHn.
        * rewrite step_stutter_eq. closed_case IHs IHv IHn.
        * rewrite step_series_eq. closed_case IHs IHv IHn.
        * rewrite step_range_eq. closed_case IHs IHv IHn.
        * rewrite step_geom_eq. closed_case IHs IHv IHn.
        * rewrite step_impulse_eq. closed_case IHs IHv IHn.
        * rewrite step_loop_eq. destruct ra; closed_case IHs IHv IHn.
        * rewrite step_pingpong_eq. closed_case IHs IHv IHn.
        * rewrite step_reverse_eq. closed_case IHs IHv IHn.
        * rewrite step_changed_eq. closed_case IHs IHv IHn.
        * rewrite step_diff_eq. closed_case IHs IHv IHn.
        * rewrite step_collapse_eq. closed_case IHs IHv IHn.
        * rewrite step_norepeats_eq. closed_case IHs IHv IHn.
        * rewrite step_subsequence_eq.
          pose proof (fun values target => pull_until_inv rarg (anext f) IHn f p0 values target H) as PU.
          closed_case IHs IHv IHn.
        * rewrite step_wrap_eq. closed_case IHs IHv IHn.
        * rewrite step_anyref_eq. closed_case IHs IHv IHn.
        * destruct (preset_step f p0 t H) as [o [p' [E [Fp' _]]]]. rewrite E. cbn [snd].
          apply RP_reset; [exact Fp'|apply IHn; assumption].
      + intros a [v|p Hp]; [exact (RA_val v)|]. rewrite value_pattern. pose proof (IHs p Hp) as K.
        destruct (step f p). apply RA_pat. exact K.
      + intros a [v|p Hp]; [exact (RA_val v)|]. rewrite anext_pattern. pose proof (IHs p Hp) as K.
        destruct (step f p). apply RA_pat. exact K.
  Qed.

  Lemma rpat_step_closed f p : rpat p -> rpat (snd (step f p)).
  Proof. apply rpat_closed. Qed.
  Lemma rarg_value_closed f a : rarg a -> rarg (snd (value f a)).
  Proof. apply rpat_closed. Qed.
  Lemma rarg_anext_closed f a : rarg a -> rarg (snd (anext f a)).
  Proof. apply rpat_closed. Qed.

  Section Step.
    Variable f0 : nat.
    Hypothesis IH : forall f' p, rpat p -> reset f0 (snd (step f' p)) = reset f0 p.

    Lemma arg_value f' a : rarg a -> reset_field (reset f0) (snd (value f' a)) = reset_field (reset f0) a.
    Proof.
      intros [v|p Hp]; (destruct f' as [|f']; [reflexivity|]); [reflexivity|].
      rewrite value_pattern. pose proof (IH f' p Hp) as E. destruct (step f' p) as [o p']. cbn in *. rewrite E. reflexivity.
    Qed.

    Lemma arg_anext f' a : rarg a -> reset_field (reset f0) (snd (anext f' a)) = reset_field (reset f0) a.
    Proof.
      intros [v|p Hp]; (destruct f' as [|f']; [reflexivity|]); [reflexivity|].
      rewrite anext_pattern. pose proof (IH f' p Hp) as E. destruct (step f' p) as [o p']. cbn in *. rewrite E. reflexivity.
    Qed.

    (** classes whose next() calls itself or polls its input several times *)
    Lemma collapse_reset_step : forall f' input, rarg input ->
      reset (S f0) (snd (step f' (PCollapse input))) = reset (S f0) (PCollapse input).
    Proof.
      induction f' as [|f' IHf]; intros input H; [reflexivity|].
      rewrite step_collapse_eq. pose proof (arg_value f' input H) as A. pose proof (rarg_value_closed f' input H) as C.
      destruct (value f' input) as [o i']. cbn [snd] in A, C.
      destruct o as [[]| | | |]; cbv beta iota; try (cbn [snd]; rewrite !reset_collapse_eq, A; reflexivity).
      rewrite (IHf _ C). rewrite !reset_collapse_eq, A. reflexivity.
    Qed.

    Lemma norepeats_reset_step : forall f' input v, rarg input ->
      reset (S f0) (snd (step f' (PNoRepeats input v))) = reset (S f0) (PNoRepeats input v).
    Proof.
      induction f' as [|f' IHf]; intros input v H; [reflexivity|].
      rewrite step_norepeats_eq. pose proof (arg_value f' input H) as A. pose proof (rarg_value_closed f' input H) as C.
      destruct (value f' input) as [o i']. cbn [snd] in A, C.
      destruct o as [rv| | | |]; cbv beta iota; try (cbn [snd]; rewrite !reset_norepeats_eq, A; reflexivity).
      destruct (py_eq rv v || py_eq rv (VInt MAXSIZE)).
      - rewrite (IHf _ _ C). rewrite !reset_norepeats_eq, A. reflexivity.
      - cbn [snd]. rewrite !reset_norepeats_eq, A. reflexivity.
    Qed.

    Lemma pull_until_reset f' n pattern values target : rarg pattern ->
      reset_field (reset f0) (snd (pull_until (anext f') n pattern values target)) = reset_field (reset f0) pattern.
    Proof.
      intro H.
      apply (pull_until_inv (fun a => rarg a /\ reset_field (reset f0) a = reset_field (reset f0) pattern) (anext f')).
      - intros a [Ha Ea]. split; [apply rarg_anext_closed; exact Ha|]. rewrite arg_anext by exact Ha. exact Ea.
      - split; [exact H|reflexivity].
    Qed.
  End Step.

  Ltac split_matches :=
    repeat match goal with
           | |- context [match ?x with _ => _ end] => destruct x
           | |- context [if ?x then _ else _] => destruct x
           end.

  Ltac reset_case f0 IH eqn :=
    cbv zeta;
    repeat match goal with
           | PU : forall values target, reset_field _ (snd (pull_until ?g ?n ?p values target)) = _ |- context [pull_until ?g ?n ?p ?v ?t] =>
               let A := fresh "A" in pose proof (PU v t) as A; destruct (pull_until g n p v t) as [[? ?] ?]; cbn [snd] in A
           | H : rarg ?a |- context [value ?f ?a] =>
               let A := fresh "A" in pose proof (arg_value f0 IH f a H) as A; destruct (value f a) as [? ?]; cbn [snd] in A
           | H : rarg ?a |- context [anext ?f ?a] =>
               let A := fresh "A" in pose proof (arg_anext f0 IH f a H) as A; destruct (anext f a) as [? ?]; cbn [snd] in A
           | |- context [if ?x then _ else _] => is_var x; destruct x
           | |- context [match ?x with _ => _ end] => is_var x; destruct x
           | |- context [if ?x then _ else _] => destruct x
           | |- context [match ?x with _ => _ end] => destruct x
           | _ => progress (cbv beta iota zeta)
           end;
    cbv beta iota zeta delta [snd]; rewrite !eqn;
    repeat match goal with A : reset_field _ _ = reset_field _ _ |- _ => try rewrite A; clear A end;
    reflexivity.

  Theorem reset_step : forall f f' p, rpat p -> reset f (snd (step f' p)) = reset f p.
  Proof.
    induction f as [|f0 IH]; [reflexivity|]. intros f' p Hp.
    destruct f' as [|f']; [reflexivity|].
    inversion Hp; subst.
    - apply leaf_reset_step; assumption.
    - rewrite step_abs_eq. pose proof (arg_value f0 IH f' a H) as A.
      destruct (value f' a) as [o a']. cbn in A. destruct o; cbn [snd]; rewrite !reset_abs_eq, A; reflexivity.
    - rewrite step_int_eq. pose proof (arg_value f0 IH f' a H) as A.
      destruct (value f' a) as [o a']. cbn in A. destruct o; cbn [snd]; rewrite !reset_int_eq, A; reflexivity.
    - rewrite step_binop_eq. pose proof (arg_value f0 IH f' a H) as A. pose proof (arg_value f0 IH f' b H0) as B.
      destruct (value f' a) as [oa a']. cbn in A. destruct oa; cbn [snd]; rewrite ?reset_binop_eq, ?A; try reflexivity.
      destruct (value f' b) as [ob b']. cbn in B. destruct ob; cbn [snd]; rewrite !reset_binop_eq, A, B; reflexivity.
    - rewrite step_and_eq. pose proof (arg_value f0 IH f' a H) as A. pose proof (arg_value f0 IH f' b H0) as B.
      destruct (value f' a) as [oa a']. cbn in A. destruct oa; cbn [snd]; rewrite ?reset_and_eq, ?A; try reflexivity.
      destruct (value f' b) as [ob b']. cbn in B. destruct ob; cbn [snd]; rewrite !reset_and_eq, A, B; reflexivity.
    - rewrite step_skipif_eq. pose proof (arg_value f0 IH f' a H) as A. pose proof (arg_value f0 IH f' b H0) as B.
      destruct (value f' a) as [oa a']. cbn in A. destruct oa; cbn [snd]; rewrite ?reset_skipif_eq, ?A; try reflexivity.
      destruct (value f' b) as [ob b']. cbn in B. destruct ob; cbn [snd]; rewrite !reset_skipif_eq, A, B; reflexivity.
    - rewrite step_counter_eq. pose proof (arg_anext f0 IH f' t H) as A.
      destruct (anext f' t) as [o t']. cbn in A. split_matches; cbn [snd]; rewrite !reset_counter_eq, A; reflexivity.
    - rewrite step_pad_eq. pose proof (arg_anext f0 IH f' p0 H) as A.
      destruct (anext f' p0) as [o t']. cbn in A. split_matches; cbn [snd]; rewrite !reset_pad_eq, A; reflexivity.
    - rewrite step_padm_eq. pose proof (arg_anext f0 IH f' p0 H) as A.
      destruct (anext f' p0) as [o t']. cbn in A. split_matches; cbn [snd]; rewrite !reset_padm_eq, A; reflexivity.
    - rewrite step_stutter_eq. pose proof (arg_anext f0 IH f' p0 H) as A. pose proof (arg_value f0 IH f' c H0) as B.
      destruct (cmp OGe (VInt pos) cc) as [[|]| | | |]; cbn [snd]; try reflexivity.
      destruct (value f' c) as [oc c']. cbn in B. destruct oc; cbn [snd]; rewrite ?reset_stutter_eq, ?B; try reflexivity.
      destruct (anext f' p0) as [o t']. cbn in A. destruct o; cbn [snd]; rewrite !reset_stutter_eq, A, ?B; reflexivity.
    - rewrite step_series_eq. reset_case f0 IH reset_series_eq.
    - rewrite step_range_eq. reset_case f0 IH reset_range_eq.
    - rewrite step_geom_eq. reset_case f0 IH reset_geom_eq.
    - rewrite step_impulse_eq. reset_case f0 IH reset_impulse_eq.
    - rewrite step_loop_eq. reset_case f0 IH reset_loop_eq.
    - rewrite step_pingpong_eq. cbv zeta. split_matches; cbn [snd]; apply reset_pingpong_any.
    - rewrite step_reverse_eq. destruct values; cbn [snd]; apply reset_reverse_any.
    - rewrite step_changed_eq. reset_case f0 IH reset_changed_eq.
    - rewrite step_diff_eq. reset_case f0 IH reset_diff_eq.
    - apply collapse_reset_step; assumption.
    - apply norepeats_reset_step; assumption.
    - rewrite step_subsequence_eq.
      pose proof (fun values target => pull_until_reset f0 IH f' f' p0 values target H) as PU.
      reset_case f0 IH reset_subsequence_eq.
    - rewrite step_wrap_eq. reset_case f0 IH reset_wrap_eq.
    - rewrite step_anyref_eq. reset_case f0 IH reset_ref_eq.
    - destruct (preset_step f' p0 t H) as [o [p' [E [_ Rp']]]]. rewrite E. cbn [snd].
      rewrite !reset_preset_eq. cbn [reset_field reset_value]. rewrite Rp', (arg_anext f0 IH f' t H0). reflexivity.
  Qed.

  (** ** after any history: k calls of next() (each with any outcome), then reset() *)
  Fixpoint run (f' : nat) (k : nat) (p : pat) : pat :=
    match k with O => p | S k' => run f' k' (snd (step f' p)) end.

  (** any history stays in the fragment, and reset() after it is reset() of the untouched object *)
  Lemma run_closed f' k : forall p, rpat p -> rpat (run f' k p).
  Proof. induction k as [|k IH]; intros p H; [exact H|]. cbn [run]. apply IH. apply rpat_step_closed. exact H. Qed.

  Lemma reset_run f f' k : forall p, rpat p -> reset f (run f' k p) = reset f p.
  Proof.
    induction k as [|k IH]; intros p H; [reflexivity|]. cbn [run].
    rewrite IH by (apply rpat_step_closed; exact H). apply reset_step. exact H.
  Qed.
End Reset.

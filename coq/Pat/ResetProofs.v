(* Pat/ResetProofs.v — C04: reset() rewinds a pattern to the state of a new instance.
   Key lemma [reset_step]: reset() erases whatever next() changed:  reset (state after next()) = reset (state).
   With [reset p0 = p0] for a new object this gives reset p_k = p0 after any history.
   Lemmas only; the model is Pat/Step.v. *)
From Isobar Require Import Base.Prelude Pat.Val Pat.Syntax Pat.Step Pat.StepProofs Pat.IterProofs.
From Coq Require Import String QArith.
Open Scope Z_scope.

Section Reset.
  Variable binop : op -> val -> val -> outcome val.
  Variable LMAX : nat.
  Notation step := (step binop LMAX).
  Notation value := (value binop LMAX).
  Notation anext := (anext binop LMAX).
  Notation reset := (reset binop LMAX).
  Notation outputs := (outputs binop LMAX).
  Notation all_ := (all_ binop LMAX).

  (** ** unfolding equations *)
  Lemma step_counter_eq f trigger v count :
    step (S f) (PCounter trigger v count) =
      (let '(ot, trigger') := anext f trigger in         
          match ot with
          | Yield vt =>
              let st := PCounter trigger' v count in
              
              match obind (cmp OGt vt (VInt 0)) (fun b => if b then cmp OLe v (VInt 0) else Yield false) with
              | Yield true => (Yield (VInt (count + 1)), PCounter trigger' vt (count + 1))
              | Yield false =>
                  
                  match obind (cmp OLe vt (VInt 0)) (fun b => if b then cmp OGt v (VInt 0) else Yield false) with
                  | Yield true => (Yield (VInt count), PCounter trigger' vt count)
                  | Yield false => (Yield (VInt count), st)
                  | oc => (ocast oc, st)
                  end
              | oc => (ocast oc, st)
              end
          | _ => (ot, PCounter trigger' v count)
          end).
  Proof. reflexivity. Qed.

  Lemma step_pad_eq f pattern length count :
    step (S f) (PPad pattern length count) =
      (let '(o, pattern') := anext f pattern in
          match o with
          | Stop =>
              match cmp OGe (VInt count) length with
              | Yield true => (Stop, PPad pattern' length count)
              | Yield false => (Yield VNone, PPad pattern' length (count + 1))
              | oc => (ocast oc, PPad pattern' length count)
              end
          | Yield v => (Yield v, PPad pattern' length (count + 1))
          | _ => (o, PPad pattern' length count)
          end).
  Proof. reflexivity. Qed.

  Lemma step_padm_eq f pattern multiple minimum_pad count padcount :
    step (S f) (PPadToMultiple pattern multiple minimum_pad count padcount) =
      (let '(o, pattern') := anext f pattern in
          match o with
          | Stop =>
              let st := PPadToMultiple pattern' multiple minimum_pad count padcount in
              
              match obind (cmp OGe (VInt padcount) minimum_pad)
                      (fun b => if b then omap (fun r => py_eq r (VInt 0)) (Val.binop OMod (VInt count) multiple) else Yield false) with
              | Yield true => (Stop, st)
              | Yield false => (Yield VNone, PPadToMultiple pattern' multiple minimum_pad (count + 1) (padcount + 1))
              | oc => (ocast oc, st)
              end
          | Yield v => (Yield v, PPadToMultiple pattern' multiple minimum_pad (count + 1) padcount)
          | _ => (o, PPadToMultiple pattern' multiple minimum_pad count padcount)
          end).
  Proof. reflexivity. Qed.

  Lemma step_stutter_eq f pattern count count_current pos v :
    step (S f) (PStutter pattern count count_current pos v) =
      (match cmp OGe (VInt pos) count_current with       
          | Yield true =>
              let '(oc, count') := value f count in         
              match oc with
              | Yield cc =>
                  let '(o, pattern') := anext f pattern in  
                  match o with
                  | Yield v' => (Yield v', PStutter pattern' count' cc 1 v')     
                  | _ => (o, PStutter pattern' count' count_current pos v)      
                  end
              | _ => (oc, PStutter pattern count' count_current pos v)
              end
          | Yield false => (Yield v, PStutter pattern count count_current (pos + 1) v)
          | oc => (ocast oc, (PStutter pattern count count_current pos v))
          end).
  Proof. reflexivity. Qed.

  Notation fld f a k := (obind (reset_field (reset f) a) k).

  Lemma reset_abs_eq f a : reset (S f) (PAbs a) = fld f a (fun x => Yield (PAbs x)).
  Proof. reflexivity. Qed.
  Lemma reset_int_eq f a : reset (S f) (PInt a) = fld f a (fun x => Yield (PInt x)).
  Proof. reflexivity. Qed.
  Lemma reset_ref_eq f a : reset (S f) (PRef a) = fld f a (fun x => Yield (PRef x)).
  Proof. reflexivity. Qed.
  Lemma reset_binop_eq f o a b : reset (S f) (PBinOp o a b) = fld f a (fun a' => fld f b (fun b' => Yield (PBinOp o a' b'))).
  Proof. reflexivity. Qed.
  Lemma reset_and_eq f a b : reset (S f) (PAnd a b) = fld f a (fun a' => fld f b (fun b' => Yield (PAnd a' b'))).
  Proof. reflexivity. Qed.
  Lemma reset_skipif_eq f a b : reset (S f) (PSkipIf a b) = fld f a (fun a' => fld f b (fun b' => Yield (PSkipIf a' b'))).
  Proof. reflexivity. Qed.
  Lemma reset_counter_eq f t v c : reset (S f) (PCounter t v c) = fld f t (fun t' => Yield (PCounter t' (VInt 0) 0)).
  Proof. reflexivity. Qed.
  Lemma reset_pad_eq f p l c : reset (S f) (PPad p l c) = fld f p (fun x => Yield (PPad x l 0)).
  Proof. reflexivity. Qed.
  Lemma reset_padm_eq f p m mp c pc : reset (S f) (PPadToMultiple p m mp c pc) = fld f p (fun x => Yield (PPadToMultiple x m mp 0 0)).
  Proof. reflexivity. Qed.
  Lemma reset_stutter_eq f p c cc pos v :
    reset (S f) (PStutter p c cc pos v) = fld f p (fun p' => fld f c (fun c' => Yield (PStutter p' c' (VInt 0) 0 (VInt 0)))).
  Proof. reflexivity. Qed.

  (** ** leaves: classes whose state is counters only (scalar parameters) *)
  Definition leaf_reset (p : pat) : bool :=
    match p with
    | PConstant _ => true
    | PSequence (AL l) (AV _) _ _ => scalars l
    | _ => false
    end.

  Lemma update_nth_same {A} (l : list A) : forall i x, nth_error l i = Some x -> update_nth i x l = l.
  Proof.
    induction l as [|y l IH]; intros [|i] x H; cbn in *; try discriminate; try reflexivity.
    - inversion H; reflexivity.
    - rewrite (IH _ _ H). reflexivity.
  Qed.

  Lemma py_index_update {A} (l : list A) i a : py_index l i = Some a -> update_nth (py_index_pos l i) a l = l.
  Proof.
    unfold py_index, py_index_pos. intro H.
    destruct ((0 <=? i) && (i <? Z.of_nat (List.length l))) eqn:E1.
    - apply andb_true_iff in E1 as [E _]. rewrite E. apply update_nth_same; exact H.
    - destruct ((- Z.of_nat (List.length l) <=? i) && (i <? 0)) eqn:E2; [|discriminate].
      apply andb_true_iff in E2 as [_ E]. assert (E0 : (0 <=? i) = false) by lia. rewrite E0.
      apply update_nth_same. exact H.
  Qed.

  Lemma mapM_reset_scalars (g : pat -> outcome pat) l : scalars l = true -> mapM (reset_item g) l = Yield l.
  Proof.
    induction l as [|x l IH]; intro H; [reflexivity|]. destruct x; try discriminate.
    cbn. rewrite (IH H). reflexivity.
  Qed.

  Local Opaque cmp Val.binop py_index py_index_pos Z.add Z.eqb Z.geb zlen.

  Ltac crunchg :=
    cbn;
    repeat (first [ reflexivity
                  | match goal with |- context [match ?x with _ => _ end] => destruct x eqn:?; cbn end
                  | match goal with |- context [if ?x then _ else _] => destruct x eqn:?; cbn end ]).

  Lemma leaf_reset_step f f' p : leaf_reset p = true -> reset f (snd (step f' p)) = reset f p.
  Proof.
    intro Hl. destruct f' as [|f']; [reflexivity|]. destruct f as [|f]; [reflexivity|].
    destruct p; try discriminate Hl.
    - reflexivity.
    - (* PSequence *)
      destruct sequence as [| |l| |]; try discriminate Hl. destruct repeats as [vrep| | | |]; try discriminate Hl.
      cbn in Hl. destruct f' as [|f']; [reflexivity|]. cbn.
      destruct (if zlen l =? 0 then Yield true else cmp OGe (VInt rcount) vrep) as [[|]| | | |]; try reflexivity.
      destruct (py_index l pos) as [a|] eqn:Ei; [|reflexivity].
      destruct (scalars_index _ _ _ Hl Ei) as [v ->]. cbn. rewrite (py_index_update _ _ _ Ei).
      destruct (pos + 1 >=? zlen l); reflexivity.
  Qed.

  (** ** the reset fragment: any nesting of the operator / unary / stutter / counter / pad classes over leaves *)
  Inductive rpat : pat -> Prop :=
  | RP_leaf p : leaf_reset p = true -> rpat p
  | RP_abs a : rarg a -> rpat (PAbs a)
  | RP_int a : rarg a -> rpat (PInt a)
  | RP_binop o a b : rarg a -> rarg b -> rpat (PBinOp o a b)
  | RP_and a b : rarg a -> rarg b -> rpat (PAnd a b)
  | RP_skipif a b : rarg a -> rarg b -> rpat (PSkipIf a b)
  | RP_counter t v c : rarg t -> rpat (PCounter t v c)
  | RP_pad p l c : rarg p -> rpat (PPad p l c)
  | RP_padm p m mp c pc : rarg p -> rpat (PPadToMultiple p m mp c pc)
  | RP_stutter p c cc pos v : rarg p -> rarg c -> rpat (PStutter p c cc pos v)
  with rarg : arg -> Prop :=
  | RA_val v : rarg (AV v)
  | RA_pat p : rpat p -> rarg (AP p).

  Section Step.
    Variable f0 : nat.
    Hypothesis IH : forall f' p, rpat p -> reset f0 (snd (step f' p)) = reset f0 p.

    Lemma arg_value f' a : rarg a -> reset_field (reset f0) (snd (value f' a)) = reset_field (reset f0) a.
    Proof.
      intros [v|p Hp]; (destruct f' as [|f']; [reflexivity|]); [reflexivity|].
      rewrite value_pattern. pose proof (IH f' p Hp) as E. destruct (step f' p) as [o p']. cbn in *. rewrite E. reflexivity.
    Qed.

    Lemma arg_anext f' a : rarg a -> reset_field (reset f0) (snd (anext f' a)) = reset_field (reset f0) a.
    Proof.
      intros [v|p Hp]; (destruct f' as [|f']; [reflexivity|]); [reflexivity|].
      rewrite anext_pattern. pose proof (IH f' p Hp) as E. destruct (step f' p) as [o p']. cbn in *. rewrite E. reflexivity.
    Qed.
  End Step.

  Ltac split_matches :=
    repeat match goal with
           | |- context [match ?x with _ => _ end] => destruct x
           | |- context [if ?x then _ else _] => destruct x
           end.

  Theorem reset_step : forall f f' p, rpat p -> reset f (snd (step f' p)) = reset f p.
  Proof.
    induction f as [|f0 IH]; [reflexivity|]. intros f' p Hp.
    destruct f' as [|f']; [reflexivity|].
    inversion Hp; subst.
    - apply leaf_reset_step; assumption.
    - rewrite step_abs_eq. pose proof (arg_value f0 IH f' a H) as A.
      destruct (value f' a) as [o a']. cbn in A. destruct o; cbn [snd]; rewrite !reset_abs_eq, A; reflexivity.
    - rewrite step_int_eq. pose proof (arg_value f0 IH f' a H) as A.
      destruct (value f' a) as [o a']. cbn in A. destruct o; cbn [snd]; rewrite !reset_int_eq, A; reflexivity.
    - rewrite step_binop_eq. pose proof (arg_value f0 IH f' a H) as A. pose proof (arg_value f0 IH f' b H0) as B.
      destruct (value f' a) as [oa a']. cbn in A. destruct oa; cbn [snd]; rewrite ?reset_binop_eq, ?A; try reflexivity.
      destruct (value f' b) as [ob b']. cbn in B. destruct ob; cbn [snd]; rewrite !reset_binop_eq, A, B; reflexivity.
    - rewrite step_and_eq. pose proof (arg_value f0 IH f' a H) as A. pose proof (arg_value f0 IH f' b H0) as B.
      destruct (value f' a) as [oa a']. cbn in A. destruct oa; cbn [snd]; rewrite ?reset_and_eq, ?A; try reflexivity.
      destruct (value f' b) as [ob b']. cbn in B. destruct ob; cbn [snd]; rewrite !reset_and_eq, A, B; reflexivity.
    - rewrite step_skipif_eq. pose proof (arg_value f0 IH f' a H) as A. pose proof (arg_value f0 IH f' b H0) as B.
      destruct (value f' a) as [oa a']. cbn in A. destruct oa; cbn [snd]; rewrite ?reset_skipif_eq, ?A; try reflexivity.
      destruct (value f' b) as [ob b']. cbn in B. destruct ob; cbn [snd]; rewrite !reset_skipif_eq, A, B; reflexivity.
    - rewrite step_counter_eq. pose proof (arg_anext f0 IH f' t H) as A.
      destruct (anext f' t) as [o t']. cbn in A. split_matches; cbn [snd]; rewrite !reset_counter_eq, A; reflexivity.
    - rewrite step_pad_eq. pose proof (arg_anext f0 IH f' p0 H) as A.
      destruct (anext f' p0) as [o t']. cbn in A. split_matches; cbn [snd]; rewrite !reset_pad_eq, A; reflexivity.
    - rewrite step_padm_eq. pose proof (arg_anext f0 IH f' p0 H) as A.
      destruct (anext f' p0) as [o t']. cbn in A. split_matches; cbn [snd]; rewrite !reset_padm_eq, A; reflexivity.
    - rewrite step_stutter_eq. pose proof (arg_anext f0 IH f' p0 H) as A. pose proof (arg_value f0 IH f' c H0) as B.
      destruct (cmp OGe (VInt pos) cc) as [[|]| | | |]; cbn [snd]; try reflexivity.
      destruct (value f' c) as [oc c']. cbn in B. destruct oc; cbn [snd]; rewrite ?reset_stutter_eq, ?B; try reflexivity.
      destruct (anext f' p0) as [o t']. cbn in A. destruct o; cbn [snd]; rewrite !reset_stutter_eq, A, ?B; reflexivity.
  Qed.

  (** ** after any history: k calls of next() (each with any outcome), then reset() *)
  Fixpoint run (f' : nat) (k : nat) (p : pat) : pat :=
    match k with O => p | S k' => run f' k' (snd (step f' p)) end.
End Reset.

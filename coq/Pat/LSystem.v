(* Pat/LSystem.v — PLSystem (isobar/pattern/lsystem.py): string rewriting + the bracket stack machine that reads the
   expanded string, as a self-contained object: everything next() reads or writes - position, current state, the stack
   of states saved at `[` - belongs to the object itself.  Tokens: N (emit the state) _ (emit a rest) - + (move the state)
   [ ] (save / restore it); any other character is skipped; `?` (a step drawn from Python's global generator) is outside
   the model.  No proofs here (Pat/LSystemProofs.v). *)
From Isobar Require Import Base.Prelude Pat.Val Pat.Instances.
Open Scope Z_scope.

Inductive tok := TN | TRest | TMinus | TPlus | TOpen | TClose | TOther.

(* LSystem.iterate: for char in self.string: string_new += self.rule if char == "N" else char *)
Definition rewrite (rule s : list tok) : list tok :=
  flat_map (fun t => match t with TN => rule | _ => [t] end) s.
Fixpoint expand (rule : list tok) (n : nat) (s : list tok) : list tok :=
  match n with
  | O => s
  | S n' => expand rule n' (rewrite rule s)
  end.
Definition count_tok (t : tok) (s : list tok) : nat :=
  List.length (filter (fun u => match t, u with TOpen, TOpen | TClose, TClose => true | _, _ => false end) s).
(* iterate() raises ValueError when the rule has as many `[` as `]` ... not *)
Definition balanced (rule : list tok) : bool := Nat.eqb (count_tok TOpen rule) (count_tok TClose rule).

(* the LSystem object: the string, what is left of it (string[pos:]), the stack, the state *)
Record lsys := mkLsys { ls_string : list tok; ls_rest : list tok; ls_stack : list Z; ls_state : Z }.

(* LSystem.__next__: while self.pos < len(self.string): token = ...; self.pos += 1; ...; raise StopIteration *)
Fixpoint ls_scan (rest : list tok) (stack : list Z) (state : Z) : outcome val * list tok * list Z * Z :=
  match rest with
  | [] => (Stop, [], stack, state)
  | t :: r =>
      match t with
      | TN => (Yield (VInt state), r, stack, state)
      | TRest => (Yield VNone, r, stack, state)
      | TMinus => ls_scan r stack (state - 1)
      | TPlus => ls_scan r stack (state + 1)
      | TOpen => ls_scan r (state :: stack) state              (* self.stack.append(self.state) *)
      | TClose => match stack with
                  | s :: st => ls_scan r st s                  (* self.state = self.stack.pop() *)
                  | [] => (Raise IndexError, r, stack, state)  (* pop from empty list *)
                  end
      | TOther => ls_scan r stack state
      end
  end.
Definition ls_next (l : lsys) : outcome val * lsys :=
  let '(o, r, st, s) := ls_scan (ls_rest l) (ls_stack l) (ls_state l) in (o, mkLsys (ls_string l) r st s).
(* LSystem.reset(): pos = 0; stack = []; state = 0 *)
Definition ls_reset (l : lsys) : lsys := mkLsys (ls_string l) (ls_string l) [] 0.

(* PLSystem(rule, depth, loop) *)
Record plsys := mkPl { pl_rule : list tok; pl_depth : nat; pl_loop : bool; pl_lsys : lsys }.
(* PLSystem.reset(): self.lsys = LSystem(self.rule, "N"); self.lsys.iterate(self.depth) *)
Definition pl_fresh (rule : list tok) (depth : nat) : lsys :=
  let s := expand rule depth [TN] in mkLsys s s [] 0.
Definition pl_build (p : list tok * nat * bool) : option plsys :=
  let '(rule, depth, loop) := p in
  if balanced rule then Some (mkPl rule depth loop (pl_fresh rule depth)) else None.       (* ValueError *)
Definition pl_reset (x : plsys) : plsys := mkPl (pl_rule x) (pl_depth x) (pl_loop x) (pl_fresh (pl_rule x) (pl_depth x)).
(* PLSystem.__next__: n = next(self.lsys); if self.loop and n is None: self.lsys.reset(); n = next(self.lsys); return n *)
Definition pl_next (x : plsys) : outcome val * plsys :=
  let '(o, l) := ls_next (pl_lsys x) in
  match o with
  | Yield VNone => if pl_loop x then let '(o2, l2) := ls_next (ls_reset l) in (o2, mkPl (pl_rule x) (pl_depth x) (pl_loop x) l2)
                   else (o, mkPl (pl_rule x) (pl_depth x) (pl_loop x) l)
  | _ => (o, mkPl (pl_rule x) (pl_depth x) (pl_loop x) l)
  end.
(* copy.deepcopy of an object that owns all of its state *)
Definition pl_copy (x : plsys) : plsys := x.

(** the correspondence check: a script over several PLSystem objects (Pat/Instances.v) against the observations *)
Definition pl_check (LMAX : nat) (ops : list (wop (list tok * nat * bool))) (expected : list (outcome val)) : nat :=
  icompare (wtrace _ plsys pl_build pl_next pl_reset pl_copy LMAX [] ops) expected.

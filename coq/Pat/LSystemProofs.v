(* Pat/LSystemProofs.v — PLSystem (Pat/LSystem.v): StopIteration is sticky; instances and copies are independent
   (instances of Pat/InstancesProofs.v: the object owns its stack). *)
From Isobar Require Import Base.Prelude Pat.Val Pat.Instances Pat.InstancesProofs Pat.LSystem.
Open Scope Z_scope.

Lemma ls_scan_stop : forall rest stack state r st s,
  ls_scan rest stack state = (Stop, r, st, s) -> r = [].
Proof.
  induction rest as [|t rest IH]; intros stack state r st s H; cbn in H.
  - inversion H. reflexivity.
  - destruct t; try discriminate; try (eapply IH; exact H).
    destruct stack; [discriminate|eapply IH; exact H].
Qed.

(* the whole string has been read: next() raises StopIteration and changes nothing *)
Lemma pl_next_done x : ls_rest (pl_lsys x) = [] -> pl_next x = (Stop, x).
Proof.
  destruct x as [rule depth loop [str rest stack state]]. cbn [pl_lsys ls_rest]. intros ->. reflexivity.
Qed.

Lemma pl_next_stop_rest x x' : pl_next x = (Stop, x') -> ls_rest (pl_lsys x') = [].
Proof.
  unfold pl_next, ls_next. intro H.
  destruct (ls_scan (ls_rest (pl_lsys x)) (ls_stack (pl_lsys x)) (ls_state (pl_lsys x))) as [[[o r] st] s] eqn:E1.
  destruct o as [v| | | |]; try (inversion H; fail).
  - destruct v; try (inversion H; fail). destruct (pl_loop x); [|inversion H].
    cbn [ls_reset ls_rest ls_stack ls_state ls_string] in H.
    destruct (ls_scan (ls_string (pl_lsys x)) [] 0) as [[[o2 r2] st2] s2] eqn:E2.
    inversion H; subst. apply ls_scan_stop in E2. subst r2. reflexivity.
  - apply ls_scan_stop in E1. subst r. inversion H. reflexivity.
Qed.

(* once next() has raised StopIteration, every later next() raises it again and changes nothing *)
Theorem pl_sticky x x' : pl_next x = (Stop, x') -> pl_next x' = (Stop, x').
Proof. intro H. apply pl_next_done. eapply pl_next_stop_rest. exact H. Qed.

Theorem pl_dead x x' : pl_next x = (Stop, x') -> forall n, alone plsys pl_next pl_reset 0 x' (repeat ONext n) = repeat Stop n.
Proof.
  intros H n. induction n as [|n IH]; [reflexivity|]. cbn [repeat alone oapply]. rewrite (pl_sticky x x' H). f_equal. exact IH.
Qed.

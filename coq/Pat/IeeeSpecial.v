(* Pat/IeeeSpecial.v — the Python operators on floats INCLUDING the special IEEE-754 values NaN, +inf, -inf.

   Pat/Val.v and Pat/Ieee.v describe finite floats only ([VFlt q], q a rational); [val] has no constructor for
   a NaN or an infinity, and cannot get one (other properties' proofs do case analysis on it).  The special
   values therefore live in a model of their own:

     xf  =  XNaN | XInf neg | XFin q          a Python float
     xv  =  XN | XB b | XI z | XF x           None | bool | int | float: what an operand stream of the C08
                                              strata carries

   with the Python semantics of
     * the six comparisons (NaN is unordered: every comparison with a NaN is False except != ; int/float
       comparisons are exact),
     * + - * / (IEEE-754: inf - inf, 0 * inf, inf / inf are NaN; a NaN operand gives NaN; a finite result is the
       exact rational result rounded to binary64 by Pat/Ieee.v [round64], and a result too large for binary64
       is an infinity; x / 0 is ZeroDivisionError whatever x is; an int operand is converted first, and an int
       too large for a float is OverflowError),
     * // and % when an operand is not finite (CPython float_divmod), << >> (TypeError on a float),
     * abs() and truthiness (bool(nan) = True),
   and, on finite operands, [binop_ieee] unchanged for // % ** (so this extends Pat/Ieee.v).
   Not covered ([Inexact]: judged by the oracle only): ** with a non-finite operand (libm pow), the sign of a zero.

   [binop_sp] is the same semantics transported to [val] through an encoding ([enc]: the three special floats
   are written as the tagged tuples ("nan",) ("inf",) ("-inf",), everything else as itself), so that the whole
   pattern model Pat/Step.v — whose operator semantics is a Section variable — runs on operand streams that
   contain the special values.  No proofs here. *)
From Isobar Require Import Base.Prelude Pat.Val Pat.Ieee.
From Coq Require Import QArith Qabs String.
Open Scope Z_scope.

Inductive xf := XNaN | XInf (neg : bool) | XFin (q : Q).
Inductive xv := XN | XB (b : bool) | XI (z : Z) | XF (x : xf).

Definition is_nan (x : xf) : bool := match x with XNaN => true | _ => false end.
(** neither x < y nor x == y nor x > y *)
Definition unordered (x y : xf) : bool := is_nan x || is_nan y.
Definition qneg (q : Q) : bool := Qltb q 0.

(** * Comparisons (float_richcompare on C doubles) *)
Definition xlt (x y : xf) : bool :=
  match x, y with
  | XNaN, _ | _, XNaN => false
  | XInf s, XInf t => s && negb t                    (* -inf < +inf only *)
  | XInf s, XFin _ => s
  | XFin _, XInf t => negb t
  | XFin a, XFin b => Qltb a b
  end.
Definition xeq (x y : xf) : bool :=
  match x, y with
  | XInf s, XInf t => Bool.eqb s t
  | XFin a, XFin b => Qeq_bool a b
  | _, _ => false                                    (* in particular nan == nan is False *)
  end.
Definition xne (x y : xf) : bool := negb (xeq x y).
Definition xle (x y : xf) : bool := xlt x y || xeq x y.
Definition xgt (x y : xf) : bool := xlt y x.
Definition xge (x y : xf) : bool := xle y x.

Definition xcmp (o : op) (x y : xf) : bool :=
  match o with
  | OEq => xeq x y | ONe => xne x y | OLt => xlt x y | OLe => xle x y | OGt => xgt x y | OGe => xge x y
  | _ => false
  end.

(** the classic three-way comparison (a > b) - (a < b), and the orderings derived from it *)
Definition cmp3 (x y : xf) : Z := Z.b2z (xgt x y) - Z.b2z (xlt x y).
Definition ge3 (x y : xf) : bool := (cmp3 x y =? 0) || (cmp3 x y =? 1).
Definition le3 (x y : xf) : bool := (cmp3 x y =? -1) || (cmp3 x y =? 0).
Definition gt3 (x y : xf) : bool := cmp3 x y =? 1.
Definition lt3 (x y : xf) : bool := cmp3 x y =? -1.

(** * Arithmetic *)
(** the binary64 nearest to the exact result q; beyond the largest finite float: an infinity *)
Definition fin_round (q : Q) : xf :=
  match round64 q with Yield r => XFin r | _ => XInf (qneg q) end.

Definition xneg (x : xf) : xf :=
  match x with XNaN => XNaN | XInf s => XInf (negb s) | XFin q => XFin (- q) end.
Definition xabs (x : xf) : xf :=
  match x with XNaN => XNaN | XInf _ => XInf false | XFin q => XFin (Qabs q) end.
Definition xadd (x y : xf) : xf :=
  match x, y with
  | XNaN, _ | _, XNaN => XNaN
  | XInf s, XInf t => if Bool.eqb s t then XInf s else XNaN        (* inf - inf *)
  | XInf s, XFin _ => XInf s
  | XFin _, XInf t => XInf t
  | XFin a, XFin b => fin_round (a + b)
  end.
Definition xsub (x y : xf) : xf := xadd x (xneg y).
Definition xmul (x y : xf) : xf :=
  match x, y with
  | XNaN, _ | _, XNaN => XNaN
  | XInf s, XInf t => XInf (xorb s t)
  | XInf s, XFin b => if qzero b then XNaN else XInf (xorb s (qneg b))     (* inf * 0 *)
  | XFin a, XInf t => if qzero a then XNaN else XInf (xorb (qneg a) t)
  | XFin a, XFin b => fin_round (a * b)
  end.
(** float_div: a zero divisor raises before anything is computed *)
Definition xdiv (x y : xf) : outcome xf :=
  match y with
  | XFin b =>
      if qzero b then Raise ZeroDivisionError
      else match x with
           | XNaN => Yield XNaN
           | XInf s => Yield (XInf (xorb s (qneg b)))
           | XFin a => Yield (fin_round (a / b))
           end
  | XNaN => Yield XNaN
  | XInf _ => match x with XFin _ => Yield (XFin 0) | _ => Yield XNaN end   (* inf / inf *)
  end.
(** float_divmod with a non-finite operand (fmod and the sign adjustment of CPython); finite/finite is
    left to Pat/Val.v *)
Definition xfloordiv_special (x y : xf) : outcome xf :=
  match y with
  | XFin b => if qzero b then Raise ZeroDivisionError
              else match x with XFin _ => Inexact | _ => Yield XNaN end
  | XNaN => Yield XNaN
  | XInf t => match x with
              | XFin a => Yield (XFin (if qzero a then 0 else if Bool.eqb (qneg a) t then 0 else -1))
              | _ => Yield XNaN
              end
  end.
Definition xmod_special (x y : xf) : outcome xf :=
  match y with
  | XFin b => if qzero b then Raise ZeroDivisionError
              else match x with XFin _ => Inexact | _ => Yield XNaN end
  | XNaN => Yield XNaN
  | XInf t => match x with
              | XFin a => Yield (if qzero a then XFin 0 else if Bool.eqb (qneg a) t then XFin a else XInf t)
              | _ => Yield XNaN
              end
  end.
Definition xarith (o : op) (x y : xf) : outcome xf :=
  match o with
  | OAdd => Yield (xadd x y) | OSub => Yield (xsub x y) | OMul => Yield (xmul x y) | ODiv => xdiv x y
  | OFloorDiv => xfloordiv_special x y | OMod => xmod_special x y
  | _ => Inexact
  end.
Definition xtruthy (x : xf) : bool := match x with XFin q => negb (qzero q) | _ => true end.

(** * Operand values: None, bool, int, float *)
Definition xnone (v : xv) : bool := match v with XN => true | _ => false end.
Definition xint (v : xv) : option Z :=
  match v with XB b => Some (if b then 1 else 0) | XI z => Some z | _ => None end.
(** exact numeric value (comparisons between int and float are exact in Python) *)
Definition xexact (v : xv) : option xf :=
  match v with
  | XF x => Some x
  | XN => None
  | XB b => Some (XFin (inject_Z (if b then 1 else 0)))
  | XI z => Some (XFin (inject_Z z))
  end.
(** an operand of a float operation: float(int) is correctly rounded, OverflowError beyond the range *)
Definition xto_f (v : xv) : outcome xf :=
  match v with
  | XF x => Yield x
  | XN => Raise TypeError
  | _ => match xint v with
         | Some z => match round64 (inject_Z z) with Yield r => Yield (XFin r) | _ => Raise OverflowError end
         | None => Raise TypeError
         end
  end.
(** the finite values are those of Pat/Val.v *)
Definition xto_val (v : xv) : option val :=
  match v with
  | XN => Some VNone | XB b => Some (VBool b) | XI z => Some (VInt z)
  | XF (XFin q) => Some (VFlt q) | XF _ => None
  end.
Definition xof_val (v : val) : option xv :=
  match v with
  | VNone => Some XN | VBool b => Some (XB b) | VInt z => Some (XI z) | VFlt q => Some (XF (XFin q))
  | _ => None
  end.
Definition xlift (o : outcome val) : outcome xv :=
  obind o (fun v => match xof_val v with Some x => Yield x | None => Inexact end).

Definition is_arith4 (o : op) : bool := match o with OAdd | OSub | OMul | ODiv => true | _ => false end.

(** The Python binary operators on None / bool / int / float with the special values. *)
Definition xbinop (o : op) (a b : xv) : outcome xv :=
  match a, b with
  | XN, _ | _, XN =>
      match o with
      | OEq => Yield (XB (xnone a && xnone b))
      | ONe => Yield (XB (negb (xnone a && xnone b)))
      | _ => Raise TypeError
      end
  | _, _ =>
      if is_cmp o then
        match xexact a, xexact b with
        | Some x, Some y => Yield (XB (xcmp o x y))
        | _, _ => Inexact
        end
      else
        match xint a, xint b with
        | Some za, Some zb =>
            match o with
            | ODiv => if zb =? 0 then Raise ZeroDivisionError
                      else match round64 (inject_Z za / inject_Z zb) with
                           | Yield r => Yield (XF (XFin r))
                           | _ => Raise OverflowError      (* integer division result too large for a float *)
                           end
            | _ => xlift (int_binop o za zb)
            end
        | _, _ =>                                           (* a float is involved *)
            if is_arith4 o then
              obind (xto_f a) (fun x => obind (xto_f b) (fun y => omap XF (xarith o x y)))
            else
              match xto_val a, xto_val b with
              | Some va, Some vb => xlift (binop_ieee o va vb)          (* finite: as Pat/Ieee.v *)
              | _, _ =>
                  match o with
                  | OFloorDiv | OMod =>
                      obind (xto_f a) (fun x => obind (xto_f b) (fun y => omap XF (xarith o x y)))
                  | OLShift | ORShift => Raise TypeError
                  | _ => Inexact                                        (* ** : libm pow *)
                  end
              end
        end
  end.

Definition xabs_v (v : xv) : outcome xv :=
  match v with
  | XN => Raise TypeError
  | XB b => Yield (XI (if b then 1 else 0))
  | XI z => Yield (XI (Z.abs z))
  | XF x => Yield (XF (xabs x))
  end.
Definition xtruthy_v (v : xv) : bool :=
  match v with XN => false | XB b => b | XI z => negb (z =? 0) | XF x => xtruthy x end.

(** what the property demands of one element (compare Pat/OpProofs.v [elem], [elem_and], [elem_abs]) *)
Definition xelem (o : op) (a b : xv) : outcome xv :=
  if xnone a || xnone b then Yield XN else xbinop o a b.
Definition xelem_and (a b : xv) : outcome xv := Yield (XB (xtruthy_v a && xtruthy_v b)).
Definition xelem_abs (a : xv) : outcome xv := if xnone a then Yield XN else xabs_v a.
Definition xelem_neg (a : xv) : outcome xv := xelem OSub (XI 0) a.            (* -p is 0 - p *)

(** * Comparison with what the implementation returned (typed: 1, 1.0, True differ; nan matches nan) *)
Definition xf_eqb (x y : xf) : bool :=
  match x, y with
  | XNaN, XNaN => true
  | XInf s, XInf t => Bool.eqb s t
  | XFin a, XFin b => Qeq_bool a b
  | _, _ => false
  end.
Definition xv_eqb (a b : xv) : bool :=
  match a, b with
  | XN, XN => true
  | XB x, XB y => Bool.eqb x y
  | XI x, XI y => x =? y
  | XF x, XF y => xf_eqb x y
  | _, _ => false
  end.
(** 0 agree, 1 disagree, 2 the model declines *)
Definition xobs_code (model expected : outcome xv) : nat :=
  match model, expected with
  | Inexact, _ | OutOfFuel, _ => 2
  | Yield x, Yield y => if xv_eqb x y then 0 else 1
  | Raise e, Raise e' => if exn_eqb e e' then 0 else 1
  | Stop, Stop => 0
  | _, _ => 1
  end%nat.
Inductive xsym := XOp (o : op) | XAnd | XAbs | XNeg.
Definition xapply (s : xsym) (a b : xv) : outcome xv :=
  match s with XOp o => xelem o a b | XAnd => xelem_and a b | XAbs => xelem_abs a | XNeg => xelem_neg a end.
(** one row of the element-wise table: the implementation's outputs of `x_j s y_j` for every j *)
Fixpoint xrow (s : xsym) (xs ys : list xv) (expected : list (outcome xv)) : list nat :=
  match xs, ys, expected with
  | x :: xs', y :: ys', e :: es => xobs_code (xapply s x y) e :: xrow s xs' ys' es
  | [], [], [] => []
  | _, _, _ => [1%nat]
  end.

(** the float m * 2^e (how the harness writes finite float literals) *)
Definition xmk (m e : Z) : xv :=
  XF (XFin (if 0 <=? e then (m * 2 ^ e) # 1 else m # Z.to_pos (2 ^ (- e)))).

(** * The same semantics on [val], through an encoding of the special floats *)
Definition enc_f (x : xf) : val :=
  match x with
  | XFin q => VFlt q
  | XNaN => VTup [VStr "nan"]
  | XInf false => VTup [VStr "inf"]
  | XInf true => VTup [VStr "-inf"]
  end.
Definition enc (v : xv) : val :=
  match v with XN => VNone | XB b => VBool b | XI z => VInt z | XF x => enc_f x end.
Definition dec (v : val) : option xv :=
  match v with
  | VNone => Some XN | VBool b => Some (XB b) | VInt z => Some (XI z) | VFlt q => Some (XF (XFin q))
  | VTup [VStr s] =>
      if String.eqb s "nan" then Some (XF XNaN)
      else if String.eqb s "inf" then Some (XF (XInf false))
      else if String.eqb s "-inf" then Some (XF (XInf true))
      else None
  | _ => None
  end.
(** the operator semantics passed to Pat/Step.v for operand streams with special values; operands that are
    not None/bool/int/float (str, real tuples ...) as in Pat/Ieee.v *)
Definition binop_sp (o : op) (a b : val) : outcome val :=
  match dec a, dec b with
  | Some x, Some y => omap enc (xbinop o x y)
  | _, _ => binop_ieee o a b
  end.

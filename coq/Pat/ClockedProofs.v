(* Pat/ClockedProofs.v — PStaticPattern over an abstract clock (Pat/Clocked.v): once it has raised StopIteration it raises
   it on every later next(), for EVERY history of (advance the clock by dt >= 0, next()) steps, every sticky inner pattern
   and every element_duration sequence. *)
From Isobar Require Import Base.Prelude Pat.Clocked.
Open Scope Z_scope.

Section StaticProofs.
  Variable S : Type.
  Variable istep : S -> option Z * S.
  Variable durf : nat -> Z.

  (* the inner pattern is sticky: the state a StopIteration leaves behind raises StopIteration again *)
  Definition inner_sticky : Prop := forall i i', istep i = (None, i') -> fst (istep i') = None.

  (* "has ended" at clock reading `now`: the inner pattern is exhausted and the current element has run out *)
  Definition s_stopped (st : sstate S) (now : Z) : Prop :=
    fst (istep (s_inner st)) = None /\ s_need S st now = true.

  Lemma s_need_mono : forall st now now', s_need S st now = true -> now <= now' -> s_need S st now' = true.
  Proof.
    intros st now now' H L. unfold s_need in *. destruct (s_start st) as [t0|]; [|reflexivity].
    apply Z.leb_le in H. apply Z.leb_le. lia.
  Qed.

  Lemma s_next_stop_stopped : inner_sticky -> forall fuel now st st',
    s_next S istep durf fuel now st = (CStop, st') -> s_stopped st' now.
  Proof.
    intros HS fuel now. induction fuel as [|f IH]; intros st st' H; simpl in H; [discriminate|].
    destruct (s_need S st now) eqn:N.
    - destruct (istep (s_inner st)) as [[v|] i'] eqn:I.
      + apply IH in H. exact H.
      + inversion H; subst; clear H. split; simpl.
        * apply (HS _ _ I).
        * unfold s_need in *; simpl. exact N.
    - discriminate.
  Qed.

  Lemma s_stopped_next : forall st now now' fuel, s_stopped st now -> now <= now' ->
    exists st', s_next S istep durf (Datatypes.S fuel) now' st = (CStop, st') /\
                s_inner st' = snd (istep (s_inner st)) /\ s_value st' = s_value st /\ s_start st' = s_start st /\ s_dur st' = s_dur st.
  Proof.
    intros st now now' fuel [D N] L. simpl. rewrite (s_need_mono _ _ _ N L).
    destruct (istep (s_inner st)) as [[v|] i'] eqn:I; simpl in D; [discriminate|].
    eexists; split; [reflexivity|]. simpl. repeat split; reflexivity.
  Qed.

  (* a history whose clock never runs backwards and whose calls are given at least one turn of the loop *)
  Definition monotone_history (h : list (Z * nat)) : Prop := Forall (fun p => 0 <= fst p /\ snd p <> O) h.

  Lemma s_stopped_run : inner_sticky -> forall h now st, s_stopped st now -> monotone_history h ->
    Forall (fun o => o = CStop) (fst (s_run S istep durf now st h)).
  Proof.
    intros HS h. induction h as [|[dt fuel] h IH]; intros now st St M; simpl; [constructor|].
    inversion M as [|x l [Hdt Hf] M']; subst; simpl in *.
    destruct fuel as [|f]; [contradiction|].
    destruct (s_stopped_next st now (now + dt) f St ltac:(lia)) as [st' [E _]].
    rewrite E.
    assert (St' : s_stopped st' (now + dt)) by (apply (s_next_stop_stopped HS _ _ _ _ E)).
    specialize (IH (now + dt) st' St' M').
    destruct (s_run S istep durf (now + dt) st' h) as [os fin] eqn:R. simpl in *.
    constructor; [reflexivity | exact IH].
  Qed.

  (* once exhausted, always exhausted *)
  Theorem s_sticky : inner_sticky -> forall fuel now st st' h,
    s_next S istep durf fuel now st = (CStop, st') -> monotone_history h ->
    Forall (fun o => o = CStop) (fst (s_run S istep durf now st' h)).
  Proof.
    intros HS fuel now st st' h H M. apply (s_stopped_run HS); [|exact M].
    exact (s_next_stop_stopped HS _ _ _ _ H).
  Qed.

  (* the same over a whole history from any state: after the first StopIteration there is nothing but StopIteration *)
  Theorem s_run_sticky : inner_sticky -> forall h now st, monotone_history h ->
    forall k, nth_error (fst (s_run S istep durf now st h)) k = Some CStop ->
    forall j o, (k <= j)%nat -> nth_error (fst (s_run S istep durf now st h)) j = Some o -> o = CStop.
  Proof.
    intros HS h. induction h as [|[dt fuel] h IH]; intros now st M k Hk j o Hj Ho; simpl in *.
    - destruct k; discriminate.
    - inversion M as [|x l [Hdt Hf] M']; subst; simpl in *.
      destruct (s_next S istep durf fuel (now + dt) st) as [o1 st1] eqn:E.
      destruct (s_run S istep durf (now + dt) st1 h) as [os fin] eqn:R. simpl in *.
      destruct k as [|k].
      + simpl in Hk. inversion Hk; subst o1.
        destruct j as [|j]; simpl in Ho; [inversion Ho; reflexivity|].
        pose proof (s_sticky HS _ _ _ _ h E M') as F. rewrite R in F. simpl in F.
        rewrite Forall_forall in F. apply F. eapply nth_error_In; exact Ho.
      + destruct j as [|j]; [lia|]. simpl in Hk, Ho.
        specialize (IH (now + dt) st1 M' k). rewrite R in IH. simpl in IH.
        apply (IH Hk j o); [lia | exact Ho].
  Qed.
End StaticProofs.

Lemma list_step_sticky : inner_sticky (list Z) list_step.
Proof. intros i i' H. destruct i as [|v l]; simpl in H; inversion H; reflexivity. Qed.

(* PStaticPattern(<finite pattern with these values>, <scalar or endless duration pattern>), polled on any clock that does not
   run backwards: nothing but StopIteration after the first StopIteration *)
Theorem static_outcomes_sticky : forall values ds t0 h, Forall (fun dt => 0 <= dt) h ->
  forall k, nth_error (static_outcomes values ds t0 h) k = Some CStop ->
  forall j o, (k <= j)%nat -> nth_error (static_outcomes values ds t0 h) j = Some o -> o = CStop.
Proof.
  intros values ds t0 h M. unfold static_outcomes.
  apply (s_run_sticky (list Z) list_step (cyc_dur ds) list_step_sticky).
  unfold monotone_history. rewrite Forall_map. rewrite Forall_forall in *. intros dt In. simpl. split; [apply M; exact In | discriminate].
Qed.

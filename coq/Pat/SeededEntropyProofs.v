(* Pat/SeededEntropyProofs.v — argument-less seed() anywhere in a history (Pat/SeededEntropy.v): for every class meeting
   the contract [rewinds] and EVERY list of values the module-level generator may hand out, a history with seed() calls
   is the history with seed(s) calls for the values handed out; hence reset() rewinds to the instance seeded with the
   value seed() stored, and what is drawn after seed() on a rewound (or new) object is reproduced after reset(). *)
From Isobar Require Import Base.Prelude Pat.Chance Pat.Seeded Pat.SeededProofs Pat.SeededEntropy.
Open Scope Z_scope.

Section EntropyProofs.
  Variable R : Type.
  Variable r_seed : Z -> R.
  Variables St Cf : Type.
  Variable cls : sclass R St Cf.
  Notation kdo := (kdo R r_seed cls).
  Notation krun := (krun R r_seed cls).
  Notation kafter := (kafter R r_seed cls).
  Notation knew := (knew R r_seed cls).
  Notation erun_st := (erun_st R r_seed St Cf cls).
  Notation erun := (erun R r_seed St Cf cls).
  Notation eafter := (eafter R r_seed St Cf cls).
  Notation resolve := (resolve Cf).
  Notation ent_after := (ent_after Cf).

  Lemma erun_st_resolve h : forall i ent,
    erun_st i ent h = (kafter i (resolve ent h), ent_after ent h, krun i (resolve ent h)).
  Proof.
    induction h as [|o h IH]; intros i ent; [reflexivity|].
    cbn [SeededEntropy.erun_st].
    destruct o as [| |[s|]|c]; cbn [edo resolve SeededEntropy.ent_after];
      rewrite (kafter_cons R r_seed St Cf cls), (krun_cons R r_seed St Cf cls);
      match goal with |- context [Seeded.kdo R r_seed cls i ?o] => destruct (Seeded.kdo R r_seed cls i o) as [i' e] end;
      cbn [fst snd]; rewrite IH; destruct e; reflexivity.
  Qed.
  Lemma eafter_resolve i ent h : eafter i ent h = kafter i (resolve ent h).
  Proof. unfold SeededEntropy.eafter. rewrite erun_st_resolve. reflexivity. Qed.
  Lemma erun_resolve i ent h : erun i ent h = krun i (resolve ent h).
  Proof. unfold SeededEntropy.erun. rewrite erun_st_resolve. reflexivity. Qed.
  Lemma resolve_app ent a b : resolve ent (a ++ b) = resolve ent a ++ resolve (ent_after ent a) b.
  Proof.
    revert ent. induction a as [|o a IH]; intro ent; [reflexivity|].
    destruct o as [| |[s|]|c]; cbn [app resolve SeededEntropy.ent_after]; rewrite IH; reflexivity.
  Qed.

  Variable K : Type.
  Variable key : St -> K.
  Variable kcfg : Cf -> K -> K.
  Hypothesis RW : rewinds R St Cf cls K key kcfg.
  Notation canonical := (canonical R r_seed St Cf cls).

  (** reset() after ANY history with argument-less seed() calls anywhere, whatever the environment hands out: the newly
      constructed instance with the seed in force - for a seed() call the value it took and stored *)
  Theorem entropy_reset_is_fresh ent s0 h :
    fst (kdo (eafter (knew s0) ent h) KReset) = canonical (seed_of s0 (resolve ent h)) (configs_of (resolve ent h)).
  Proof. rewrite eafter_resolve. exact (reset_is_fresh R r_seed St Cf cls K key kcfg RW s0 (resolve ent h)). Qed.

  (* seed(s) on a rewound object gives the instance constructed with s *)
  Lemma seed_on_canonical s' s cs : fst (kdo (canonical s' cs) (KSeed s)) = canonical s cs.
  Proof.
    rewrite !(canonical_eq R r_seed St Cf cls). cbn [Seeded.kdo k_st k_gen k_seed].
    rewrite (rw_seeded_new _ _ _ _ _ _ _ RW), (rw_reset_new _ _ _ _ _ _ _ RW). reflexivity.
  Qed.

  Lemma canonical_then_reset s cs pre : plain Cf pre ->
    fst (kdo (kafter (canonical s cs) pre) KReset) = canonical s cs.
  Proof.
    intro Hp. rewrite <- (seeded_new_is_canonical R r_seed St Cf cls K key kcfg RW 0 s cs).
    exact (seeded_then_reset R r_seed St Cf cls K key kcfg RW 0 s cs pre Hp).
  Qed.

  (** the statement the oracle checks.  After ANY history h (seeds of either form anywhere), reset() and then seed()
      - argument-less, or with an argument - leave an object i such that after any further next() / reset() calls
      reset() leaves i again: every value drawn after that seed() is reproduced after reset() *)
  Theorem entropy_seed_on_rewound_reproduced ent s0 h sd pre : plain Cf pre ->
    let i := eafter (knew s0) ent (h ++ [EReset; ESeed sd]) in
    fst (kdo (kafter i pre) KReset) = i /\
    forall post, krun (fst (kdo (kafter i pre) KReset)) post = krun i post.
  Proof.
    intros Hp i.
    assert (E : exists s cs, i = canonical s cs).
    { unfold i. rewrite eafter_resolve, resolve_app.
      set (hk := resolve ent h). set (e1 := ent_after ent h).
      assert (F : forall s, kafter (knew s0) (hk ++ [KReset; KSeed s]) = canonical s (configs_of hk)).
      { intro s. rewrite (kafter_app R r_seed St Cf cls), !(kafter_cons R r_seed St Cf cls), (kafter_nil R r_seed St Cf cls).
        rewrite (reset_is_fresh R r_seed St Cf cls K key kcfg RW). apply seed_on_canonical. }
      destruct sd as [s|]; cbn [resolve]; eexists; eexists; apply F. }
    destruct E as [s [cs E]]. rewrite E.
    assert (G := canonical_then_reset s cs pre Hp). split; [exact G|]. intro post. rewrite G. reflexivity.
  Qed.

  (** the same for seed() in the set-up of a NEW object (configured or not) *)
  Theorem entropy_seed_on_new_reproduced ent s0 cs sd pre : plain Cf pre ->
    let i := eafter (knew s0) ent (map EConfig cs ++ [ESeed sd]) in
    fst (kdo (kafter i pre) KReset) = i /\
    forall post, krun (fst (kdo (kafter i pre) KReset)) post = krun i post.
  Proof.
    intros Hp i.
    assert (E : exists s, i = canonical s cs).
    { unfold i. rewrite eafter_resolve, resolve_app.
      assert (M : forall e, resolve e (map EConfig cs) = map KConfig cs /\ ent_after e (map EConfig cs) = e).
      { induction cs as [|c l IH]; intro e; [split; reflexivity|]. cbn [map resolve SeededEntropy.ent_after].
        destruct (IH e) as [A B]. rewrite A, B. split; reflexivity. }
      destruct (M ent) as [A B]. rewrite A, B.
      destruct sd as [s|]; cbn [resolve]; eexists; apply (seeded_new_is_canonical R r_seed St Cf cls K key kcfg RW). }
    destruct E as [s E]. rewrite E.
    assert (G := canonical_then_reset s cs pre Hp). split; [exact G|]. intro post. rewrite G. reflexivity.
  Qed.
End EntropyProofs.

(* Pat/RefTonalSrc.v — the pointwise closed form of the tonal classes over parameter streams (Pat/TonalStreamsProofs.v,
   property C10) restated for the __next__ bodies generated from the source text of isobar/pattern/tonal.py
   (Generated/TablesSteptonal.v) through the tie lemmas of Pat/StepTonalSrc.v.  Lemmas only; theorems in
   Props/C10StreamsSrc.v. *)
From Isobar Require Import Base.Prelude Pat.Val Pat.Syntax Pat.Step Pat.StepProofs Pat.Ref Pat.RefProofs Tonal.Key
  Pat.TonalStreams Pat.TonalStreamsProofs Pat.TonalSrcLib Generated.TablesSteptonal Pat.StepTonalSrc.
From Coq Require Import String QArith.
Open Scope Z_scope.

Section SrcTDen.
  Variable binop : op -> val -> val -> outcome val.
  Variable LMAX : nat.
  Notation src_tstep := (src_tstep binop LMAX).
  Notation tstep := (tstep binop LMAX).

  Fixpoint src_tafter (f j : nat) (o : tobj) : tobj :=
    match j with O => o | S j' => src_tafter f j' (snd (src_tstep f o)) end.
  (* the object denotes s, every call of next() executed as the source text of its class defines it *)
  Definition SrcTDen (f : nat) (o : tobj) (s : sem) : Prop := forall j, fst (src_tstep f (src_tafter f j o)) = at_ s j.

  Lemma tstep_cls f o : t_cls (snd (tstep f o)) = t_cls o.
  Proof.
    unfold TonalStreams.tstep. destruct (value binop LMAX f (t_in o)) as [ox a']. destruct ox; try reflexivity.
    destruct (value binop LMAX f (t_par o)) as [op_ b']. destruct op_; reflexivity.
  Qed.

  Lemma src_tafter_is f j : forall o, t_cls o <> TDegree -> src_tafter f j o = tafter binop LMAX f j o.
  Proof.
    induction j as [|j IH]; intros o H; [reflexivity|]. cbn [src_tafter tafter].
    rewrite src_tstep_is by (intro E; contradiction). apply IH. rewrite tstep_cls. exact H.
  Qed.
  Lemma tafter_cls f j : forall o, t_cls (tafter binop LMAX f j o) = t_cls o.
  Proof. induction j as [|j IH]; intro o; [reflexivity|]. cbn [tafter]. rewrite IH. apply tstep_cls. Qed.

  Theorem SrcTDen_iff f o s : t_cls o <> TDegree -> (SrcTDen f o s <-> TDen binop LMAX f o s).
  Proof.
    intro H. unfold SrcTDen, TDen, tout.
    split; intros HD j; specialize (HD j); rewrite src_tafter_is in * by exact H;
      rewrite src_tstep_is in * by (rewrite tafter_cls; intro E; contradiction); exact HD.
  Qed.

  (* PFilterByKey / PNearestNoteInKey over two streams, __next__ as written in tonal.py *)
  Theorem src_tonal_den f c a b ins pars : c <> TDegree ->
    ADen binop LMAX f a ins -> ADen binop LMAX f b pars ->
    (forall j x p, at_ ins j = Yield x -> at_ pars j = Yield p -> tonal_ok c x p = true) ->
    SrcTDen f (mkT c a b) (ref_tonal c ins pars).
  Proof. intros Hc Ha Hb Hok. apply SrcTDen_iff; [exact Hc|]. apply tonal_den; assumption. Qed.

  (* PDegree: one call as written, wherever Pattern.value(self.scale) gives an encoded scale of the documented domain *)
  Theorem src_degree_step f a b :
    (forall p b', value binop LMAX f b = (Yield p, b') -> scale_value p) ->
    src_PDegree_next Val.binop (value binop LMAX) (anext binop LMAX) f a b = tstep f (mkT TDegree a b).
  Proof. intro H. symmetry. apply PDegree_next_src. exact H. Qed.
End SrcTDen.

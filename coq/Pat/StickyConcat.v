(* Pat/StickyConcat.v — C09: PConcatenate over patterns of the sticky fragment is sticky.
   Once next() of PConcatenate([x1 .. xn]) (every xi a pattern or scalar of the fragment [fpat]) has raised
   StopIteration, no later next() returns a value: the position stays on the last input, which has stopped and
   is therefore quiet (Pat/StickyProofs.v).  Lemmas only; the model is Pat/Step.v. *)
From Isobar Require Import Base.Prelude Pat.Val Pat.Syntax Pat.Step Pat.StepProofs Pat.IterProofs Pat.ResetProofs Pat.StickyProofs.
From Coq Require Import String QArith.
Open Scope Z_scope.

Lemma update_nth_length {A} (l : list A) : forall i x, List.length (update_nth i x l) = List.length l.
Proof. induction l as [|y l IH]; intros [|i] x; cbn; try reflexivity. rewrite IH. reflexivity. Qed.

Lemma nth_error_update_same {A} (l : list A) : forall n a x, nth_error l n = Some a -> nth_error (update_nth n x l) n = Some x.
Proof. induction l as [|y l IH]; intros [|n] a x H; cbn in *; try discriminate; try reflexivity. eapply IH; eauto. Qed.

Lemma py_index_update_same {A} (l : list A) i a x :
  py_index l i = Some a -> py_index (update_nth (py_index_pos l i) x l) i = Some x.
Proof.
  unfold py_index, py_index_pos. rewrite update_nth_length. intro H.
  destruct ((0 <=? i) && (i <? Z.of_nat (List.length l))) eqn:E1.
  - apply andb_true_iff in E1 as [E _]. rewrite E. eapply nth_error_update_same; eauto.
  - destruct ((- Z.of_nat (List.length l) <=? i) && (i <? 0)) eqn:E2; [|discriminate].
    apply andb_true_iff in E2 as [_ E]. assert (E0 : (0 <=? i) = false) by lia. rewrite E0.
    eapply nth_error_update_same; eauto.
Qed.

Lemma Forall_update_nth {A} (P : A -> Prop) (l : list A) : forall i x, Forall P l -> P x -> Forall P (update_nth i x l).
Proof.
  induction l as [|y l IH]; intros [|i] x Hl Hx; cbn; try assumption; inversion Hl; subst; constructor; auto.
Qed.

Lemma py_index_Forall {A} (P : A -> Prop) (l : list A) i a : Forall P l -> py_index l i = Some a -> P a.
Proof.
  intros Hl Hi. rewrite Forall_forall in Hl. apply Hl.
  unfold py_index in Hi. destruct ((0 <=? i) && (i <? Z.of_nat (List.length l))).
  - eapply nth_error_In; eauto.
  - destruct ((- Z.of_nat (List.length l) <=? i) && (i <? 0)); [eapply nth_error_In; eauto|discriminate].
Qed.

Section Concat.
  Variable binop : op -> val -> val -> outcome val.
  Variable LMAX : nat.
  Notation step := (step binop LMAX).
  Notation anext := (anext binop LMAX).
  Notation quiet := (quiet binop LMAX).
  Notation nquiet := (nquiet binop LMAX).
  Notation fpat := (fpat).
  Hypothesis binop_no_stop : forall o x y, binop o x y <> Stop.

  Lemma step_concat_eq f l pos :
    step (S f) (PConcatenate (AL l) pos) =
      match py_index l pos with
      | None => (Raise IndexError, PConcatenate (AL l) pos)
      | Some a =>
          let '(o, a') := anext f a in
          let l' := update_nth (py_index_pos l pos) a' l in
          match o with
          | Stop => if pos <? zlen l - 1 then step f (PConcatenate (AL l') (pos + 1)) else (Stop, PConcatenate (AL l') pos)
          | _ => (o, PConcatenate (AL l') pos)
          end
      end.
  Proof. reflexivity. Qed.

  Lemma zlen_update (l : list arg) i x : zlen (update_nth i x l) = zlen l.
  Proof. unfold zlen. rewrite update_nth_length. reflexivity. Qed.

  (** the state in which PConcatenate raises StopIteration: on its last input, which has just stopped *)
  Lemma concat_stop : forall f l pos p', Forall farg l -> step f (PConcatenate (AL l) pos) = (Stop, p') ->
    exists l' pos' a0 a' f0, p' = PConcatenate (AL l') pos' /\ (pos' <? zlen l' - 1) = false /\
                             py_index l' pos' = Some a' /\ farg a0 /\ anext f0 a0 = (Stop, a').
  Proof.
    induction f as [|f IH]; intros l pos p' Hl H; [discriminate|].
    rewrite step_concat_eq in H. destruct (py_index l pos) as [a|] eqn:Ei; [|discriminate].
    pose proof (py_index_Forall _ _ _ _ Hl Ei) as Fa. pose proof (farg_anext_closed binop LMAX f a Fa) as Fa'.
    destruct (anext f a) as [o a'] eqn:Ea. cbn [snd] in Fa'. cbv zeta in H.
    destruct o; try discriminate.
    destruct (pos <? zlen l - 1) eqn:Epos.
    - apply IH in H; [exact H|]. apply Forall_update_nth; assumption.
    - inversion H; subst. exists (update_nth (py_index_pos l pos) a' l), pos, a, a', f.
      rewrite zlen_update. repeat split; try assumption. eapply py_index_update_same; eauto.
  Qed.

  Lemma concat_stopped_quiet f pos n : forall l a, zlen l = n -> (pos <? n - 1) = false -> py_index l pos = Some a -> nquiet f a ->
    quiet (S f) (PConcatenate (AL l) pos).
  Proof.
    intros l a Hn Hp Hi N.
    apply (quiet_coind binop LMAX (S f)
             (fun p => exists l a, p = PConcatenate (AL l) pos /\ zlen l = n /\ py_index l pos = Some a /\ nquiet f a)); [|eauto 8].
    clear l a Hn Hi N. intros p [l [a [-> [Hn [Hi N]]]]]. rewrite step_concat_eq, Hi.
    apply nquiet_unfold in N. destruct (anext f a) as [o a']. cbn [fst snd] in N. destruct N as [Y N]. cbv zeta.
    assert (K : exists l0 a0, PConcatenate (AL (update_nth (py_index_pos l pos) a' l)) pos = PConcatenate (AL l0) pos /\
                              zlen l0 = n /\ py_index l0 pos = Some a0 /\ nquiet f a0).
    { eexists _, a'. split; [reflexivity|]. rewrite zlen_update. split; [exact Hn|]. split; [|exact N].
      eapply py_index_update_same; eauto. }
    destruct o; try discriminate Y; rewrite ?Hn, ?Hp; cbn [fst snd]; (split; [reflexivity|exact K]).
  Qed.

  Theorem concat_quiet f l pos p' : Forall farg l -> step f (PConcatenate (AL l) pos) = (Stop, p') ->
    forall f2, quiet f2 p'.
  Proof.
    intros Hl H. destruct (concat_stop _ _ _ _ Hl H) as [l' [pos' [a0 [a' [f0 [-> [Hp [Hi [Fa0 Ea0]]]]]]]]].
    intros [|f2]; [apply quiet_0|].
    eapply concat_stopped_quiet; [reflexivity|exact Hp|exact Hi|].
    eapply (proj2 (proj2 (fpat_quiet binop LMAX binop_no_stop f0))); eauto.
  Qed.
End Concat.

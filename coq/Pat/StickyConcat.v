(* Pat/StickyConcat.v — C09: PConcatenate over patterns of the sticky fragment is sticky, in any state
   (instance of Pat/StickyProofs.v [fpat_quiet] at the constructor [FP_concat]; the lemmas [concat_stop],
   [concat_stopped_quiet] live there). *)
From Isobar Require Import Base.Prelude Pat.Val Pat.Syntax Pat.Step Pat.StepProofs Pat.IterProofs Pat.StickyProofs.
Open Scope Z_scope.

Section Concat.
  Variable binop : op -> val -> val -> outcome val.
  Variable LMAX : nat.
  Hypothesis binop_no_stop : forall o x y, binop o x y <> Stop.

  Theorem concat_quiet f l pos p' : Forall farg l -> step binop LMAX f (PConcatenate (AL l) pos) = (Stop, p') ->
    forall f2, quiet binop LMAX f2 p'.
  Proof. intros Hl H. eapply (proj1 (fpat_quiet binop LMAX binop_no_stop f)); [apply FP_concat; exact Hl|exact H]. Qed.
End Concat.

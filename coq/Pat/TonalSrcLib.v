(* Pat/TonalSrcLib.v — the method calls of isobar/pattern/tonal.py on Scale / Key objects, for the definitions generated
   from the source text of tonal.py (Generated/TablesSteptonal.v).  In the model of Pat/TonalStreams.v a Scale / Key object
   travels through the pattern streams ENCODED as a value (val_scale, val_key); the calls below decode the object and run
   the method body that harness/gen_tables_tonal.py translated from isobar/scale.py / isobar/key.py (Generated/TablesTonal.v:
   src_scale_get, src_key_contains, src_key_nearest_note - tied to Tonal/Key.v in Tonal/KeySrc.v).  Hand-written (trusted):
   the decoding, the dispatch of `x in key` to Key.__contains__, of `scale[d]` to Scale.__getitem__ = Scale.get, and the
   domain the model vouches for (a non-empty scale with a positive octave size; notes / degrees that are ints or rests):
   everything else is [Inexact], as in TonalStreams.tonal_ok.  No proofs here. *)
From Isobar Require Import Base.Prelude Pat.Val Pat.Syntax Pat.Step Pat.Ref Tonal.Key Pat.TonalStreams Generated.TablesTonal.
From Coq Require Import String.
Open Scope Z_scope.

(* note in key  ->  Key.__contains__(key, note) *)
Definition m_key_contains (x kv : val) : outcome bool :=
  match val_key kv with
  | Some k =>
      if scale_ok (kscale k) then
        match x with
        | VNone => Yield (src_key_contains k None)
        | VInt n => Yield (src_key_contains k (Some n))
        | _ => Inexact
        end
      else Inexact
  | None => Inexact
  end.

(* key.nearest_note(note); Key.nearest_note begins with `if note in self: return note`, which settles a rest *)
Definition m_key_nearest_note (kv x : val) : outcome val :=
  match val_key kv with
  | Some k =>
      if scale_ok (kscale k) then
        match x with
        | VNone => if src_key_contains k None then Yield VNone else Inexact
        | VInt n => Yield (VInt (src_key_nearest_note k n))
        | _ => Inexact
        end
      else Inexact
  | None => Inexact
  end.

(* scale[degree]  ->  Scale.__getitem__ = Scale.get *)
Definition m_scale_getitem (sv x : val) : outcome val :=
  match val_scale sv with
  | Some s =>
      if scale_ok s then
        match x with
        | VInt d => match src_scale_get s (Some d) with Some z => Yield (VInt z) | None => Inexact end
        | _ => Inexact
        end
      else Inexact
  | None => Inexact
  end.

(* isinstance(x, typing.Iterable) on the values of the model *)
Definition is_iterable (v : val) : bool :=
  match v with VTup _ | VList _ | VStr _ | VDict _ => true | _ => false end.

(* tuple(f(e) for e in xs): the model covers tuples *)
Definition m_tuple_of (f : val -> outcome val) (xs : val) : outcome val :=
  match xs with
  | VTup l => omap VTup (mapM f l)
  | _ => Inexact
  end.

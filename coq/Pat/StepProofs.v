(* Pat/StepProofs.v — unfolding equations of the engine (Pat/Step.v) and the vocabulary shared by the proofs of
   C04 / C08 / C09: operand streams ([vals]), output lists ([outputs]), "this operand is a value" etc.
   Lemmas only; the model is in Step.v. *)
From Isobar Require Import Base.Prelude Pat.Val Pat.Syntax Pat.Step.
From Coq Require Import String QArith.
Open Scope Z_scope.

Definition is_yield {A} (o : outcome A) : bool := match o with Yield _ => true | _ => false end.

Section Eqns.
  Variable binop : op -> val -> val -> outcome val.
  Variable LMAX : nat.
  Notation step := (step binop LMAX).
  Notation value := (value binop LMAX).
  Notation anext := (anext binop LMAX).
  Notation reset := (reset binop LMAX).
  Notation outputs := (outputs binop LMAX).

  (** Pattern.value / next() on the three kinds of operand *)
  Lemma value_scalar f v : value (S f) (AV v) = (Yield v, AV v).
  Proof. reflexivity. Qed.

  Lemma value_pattern f p : value (S f) (AP p) = (let '(o, p') := step f p in (o, AP p')).
  Proof. reflexivity. Qed.

  Lemma anext_pattern f p : anext (S f) (AP p) = (let '(o, p') := step f p in (o, AP p')).
  Proof. reflexivity. Qed.

  Lemma step_constant f c : step (S f) (PConstant c) = (Yield c, PConstant c).
  Proof. reflexivity. Qed.

  (** the three operator node classes, clause by clause *)
  Lemma step_binop_eq f o a b :
    step (S f) (PBinOp o a b) =
      (let '(oa, a') := value f a in
       match oa with
       | Yield va =>
           let '(ob, b') := value f b in
           match ob with
           | Yield vb => ((if is_none va || is_none vb then Yield VNone else binop o va vb), PBinOp o a' b')
           | _ => (ob, PBinOp o a' b')
           end
       | _ => (oa, PBinOp o a' b)
       end).
  Proof. reflexivity. Qed.

  Lemma step_and_eq f a b :
    step (S f) (PAnd a b) =
      (let '(oa, a') := value f a in
       match oa with
       | Yield va =>
           let '(ob, b') := value f b in
           match ob with
           | Yield vb => (Yield (VBool (truthy va && truthy vb)), PAnd a' b')
           | _ => (ob, PAnd a' b')
           end
       | _ => (oa, PAnd a' b)
       end).
  Proof. reflexivity. Qed.

  Lemma step_abs_eq f a :
    step (S f) (PAbs a) =
      (let '(o, a') := value f a in
       match o with
       | Yield v => ((if is_none v then Yield VNone else py_abs v), PAbs a')
       | _ => (o, PAbs a')
       end).
  Proof. reflexivity. Qed.

  (** [vals f n a]: the operand [a] answers the next [n] calls of Pattern.value with values [vs] and is then
      in state [a'] (None if one of the calls ended or raised). *)
  Fixpoint vals (f n : nat) (a : arg) : option (list val * arg) :=
    match n with
    | O => Some ([], a)
    | S n' =>
        match value f a with
        | (Yield v, a1) => match vals f n' a1 with Some (vs, a') => Some (v :: vs, a') | None => None end
        | _ => None
        end
    end.

  Lemma vals_length f n : forall a vs a', vals f n a = Some (vs, a') -> List.length vs = n.
  Proof.
    induction n as [|n IH]; intros a vs a' H; simpl in H.
    - inversion H; reflexivity.
    - destruct (value f a) as [[v| | | |] a1]; try discriminate.
      destruct (vals f n a1) as [[vs1 a2]|] eqn:E; try discriminate.
      inversion H; subst. simpl. f_equal. eapply IH; eauto.
  Qed.

  (** a scalar operand is the constant stream *)
  Lemma vals_scalar f n v : vals (S f) n (AV v) = Some (repeat v n, AV v).
  Proof. induction n as [|n IH]; [reflexivity|]. cbn [vals]. rewrite value_scalar, IH. reflexivity. Qed.

  (** and so is a PConstant *)
  Lemma vals_constant f n v : vals (S (S f)) n (AP (PConstant v)) = Some (repeat v n, AP (PConstant v)).
  Proof. induction n as [|n IH]; [reflexivity|]. cbn [vals]. rewrite value_pattern, step_constant, IH. reflexivity. Qed.

  (** the values a pattern operand gives are the outputs of the pattern *)
  Lemma vals_pattern_outputs f n : forall p vs p',
    outputs f n p = (map Yield vs, p') -> vals (S f) n (AP p) = Some (vs, AP p').
  Proof.
    induction n as [|n IH]; intros p vs p' H.
    - cbn in H. destruct vs; inversion H. reflexivity.
    - cbn [Step.outputs] in H. cbn [vals]. rewrite value_pattern.
      destruct (step f p) as [o p1]. destruct (outputs f n p1) as [os p2] eqn:E.
      destruct vs as [|v vs]; inversion H; subst. rewrite (IH _ _ _ E). reflexivity.
  Qed.

  Lemma outputs_S f n p :
    outputs f (S n) p = (let '(o, p') := step f p in let '(os, p'') := outputs f n p' in (o :: os, p'')).
  Proof. reflexivity. Qed.

  Lemma outputs_length f n : forall p, List.length (fst (outputs f n p)) = n.
  Proof.
    induction n as [|n IH]; intro p; [reflexivity|]. rewrite outputs_S.
    destruct (step f p) as [o p']. specialize (IH p'). destruct (outputs f n p'). simpl in *. lia.
  Qed.

  Lemma outputs_app f n m : forall p,
    outputs f (n + m) p =
      (let '(os1, p1) := outputs f n p in let '(os2, p2) := outputs f m p1 in (os1 ++ os2, p2)).
  Proof.
    induction n as [|n IH]; intro p.
    - cbn. destruct (outputs f m p). reflexivity.
    - cbn [Nat.add]. rewrite !outputs_S. destruct (step f p) as [o p']. rewrite IH.
      destruct (outputs f n p') as [os1 p1]. destruct (outputs f m p1). reflexivity.
  Qed.
End Eqns.

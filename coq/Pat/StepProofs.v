(* Pat/StepProofs.v — unfolding equations of the engine (Pat/Step.v) and the vocabulary shared by the proofs of
   C04 / C08 / C09: operand streams ([vals]), output lists ([outputs]), "this operand is a value" etc.
   Lemmas only; the model is in Step.v. *)
From Isobar Require Import Base.Prelude Pat.Val Pat.Syntax Pat.Step.
From Coq Require Import String QArith.
Open Scope Z_scope.

Definition is_yield {A} (o : outcome A) : bool := match o with Yield _ => true | _ => false end.

(** the body of PArrayIndex.__next__ inside its try block (Step.step, clause PArrayIndex, verbatim): outcome, new list, new index *)
Definition arrayindex_body (value : nat -> arg -> outcome val * arg) (f : nat) (list index : arg) : outcome val * arg * arg :=
          match list with
          | AL l =>
              let '(oi, index') := value f index in
              match oi with
              | Yield VNone => (Yield VNone, list, index')
              | Yield vi =>
                  match py_int vi with
                  | Yield (VInt i) =>
                      match py_index l i with
                      | None => (Raise IndexError, list, index')
                      | Some a =>
                          let '(o, a') := value f a in      (* return Pattern.value(list[index]) *)
                          (o, (AL (update_nth (py_index_pos l i) a' l)), index')
                      end
                  | Yield _ => (Inexact, list, index')
                  | o => (o, list, index')
                  end
              | _ => (oi, list, index')
              end
          | _ =>
              let '(ol, list') := value f list in
              match ol with
              | Yield vl =>
                  let '(oi, index') := value f index in
                  match oi with
                  | Yield VNone => (Yield VNone, list', index')
                  | Yield vi =>
                      match py_int vi with
                      | Yield (VInt i) =>
                          match vl with
                          | VList l | VTup l =>
                              match py_index l i with
                              | None => (Raise IndexError, list', index')
                              | Some v => (Yield v, list', index')
                              end
                          | VStr _ | VDict _ => (Inexact, list', index')
                          | _ => (Raise TypeError, list', index')
                          end
                      | Yield _ => (Inexact, list', index')
                      | o => (o, list', index')
                      end
                  | _ => (oi, list', index')
                  end
              | _ => (ol, list', index)
              end
          end.

Section Eqns.
  Variable binop : op -> val -> val -> outcome val.
  Variable LMAX : nat.
  Notation step := (step binop LMAX).
  Notation value := (value binop LMAX).
  Notation anext := (anext binop LMAX).
  Notation reset := (reset binop LMAX).
  Notation outputs := (outputs binop LMAX).

  (** Pattern.value / next() on the three kinds of operand *)
  Lemma value_scalar f v : value (S f) (AV v) = (Yield v, AV v).
  Proof. reflexivity. Qed.

  Lemma value_pattern f p : value (S f) (AP p) = (let '(o, p') := step f p in (o, AP p')).
  Proof. reflexivity. Qed.

  Lemma anext_pattern f p : anext (S f) (AP p) = (let '(o, p') := step f p in (o, AP p')).
  Proof. reflexivity. Qed.

  Lemma step_constant f c : step (S f) (PConstant c) = (Yield c, PConstant c).
  Proof. reflexivity. Qed.

  (** PArrayIndex (repaired, C09-parrayindex-revives): exhausted once its __next__ has raised StopIteration *)
  Lemma step_arrayindex_unfold f list index e :
    step (S f) (PArrayIndex list index e) =
      if e then (Stop, PArrayIndex list index e)
      else let '(o, l1, i1) := arrayindex_body value f list index in (o, PArrayIndex l1 i1 (is_stop o)).
  Proof. reflexivity. Qed.

  Lemma arrayindex_body_list_eq f l index :
    arrayindex_body value f (AL l) index =
      (let '(oi, index') := value f index in
       match oi with
       | Yield VNone => (Yield VNone, AL l, index')
       | Yield vi =>
           match py_int vi with
           | Yield (VInt i) =>
               match py_index l i with
               | None => (Raise IndexError, AL l, index')
               | Some a => let '(o, a') := value f a in (o, AL (update_nth (py_index_pos l i) a' l), index')
               end
           | Yield _ => (Inexact, AL l, index')
           | o => (o, AL l, index')
           end
       | _ => (oi, AL l, index')
       end).
  Proof. reflexivity. Qed.

  Definition arrayindex_pick (vl : val) (oi : outcome val) : outcome val :=
    match oi with
    | Yield VNone => Yield VNone
    | Yield vi =>
        match py_int vi with
        | Yield (VInt i) =>
            match vl with
            | VList l | VTup l => match py_index l i with None => Raise IndexError | Some v => Yield v end
            | VStr _ | VDict _ => Inexact
            | _ => Raise TypeError
            end
        | Yield _ => Inexact
        | o => o
        end
    | _ => oi
    end.

  Lemma arrayindex_body_gen f a b : (forall l, a <> AL l) ->
    arrayindex_body value f a b =
      (let '(oa, a') := value f a in
       match oa with
       | Yield va => let '(ob, b') := value f b in (arrayindex_pick va ob, a', b')
       | _ => (oa, a', b)
       end).
  Proof.
    intro Hn. destruct a; try (exfalso; eapply Hn; reflexivity);
      (unfold arrayindex_body; destruct (value f _) as [oa a']; destruct oa; try reflexivity;
       destruct (value f b) as [ob b']; destruct ob as [vb| | | |]; try reflexivity;
       destruct vb; try reflexivity; unfold arrayindex_pick;
       repeat match goal with |- context [match ?x with _ => _ end] => destruct x end; reflexivity).
  Qed.

  (* a StopIteration leaves it exhausted; exhausted, it raises StopIteration for ever and does not change *)
  Lemma arrayindex_stop f list index e p' : step f (PArrayIndex list index e) = (Stop, p') ->
    exists l' i', p' = PArrayIndex l' i' true.
  Proof.
    destruct f as [|f]; [discriminate|]. rewrite step_arrayindex_unfold. destruct e.
    - intro H. inversion H. eauto.
    - destruct (arrayindex_body value f list index) as [[o l1] i1]. intro H. inversion H; subst. cbn. eauto.
  Qed.
  Lemma arrayindex_exhausted_stable f list index : step (S f) (PArrayIndex list index true) = (Stop, PArrayIndex list index true).
  Proof. reflexivity. Qed.

  (** the three operator node classes, clause by clause *)
  Lemma step_binop_eq f o a b :
    step (S f) (PBinOp o a b) =
      (let '(oa, a') := value f a in
       match oa with
       | Yield va =>
           let '(ob, b') := value f b in
           match ob with
           | Yield vb => ((if is_none va || is_none vb then Yield VNone else binop o va vb), PBinOp o a' b')
           | _ => (ob, PBinOp o a' b')
           end
       | _ => (oa, PBinOp o a' b)
       end).
  Proof. reflexivity. Qed.

  Lemma step_and_eq f a b :
    step (S f) (PAnd a b) =
      (let '(oa, a') := value f a in
       match oa with
       | Yield va =>
           let '(ob, b') := value f b in
           match ob with
           | Yield vb => (Yield (VBool (truthy va && truthy vb)), PAnd a' b')
           | _ => (ob, PAnd a' b')
           end
       | _ => (oa, PAnd a' b)
       end).
  Proof. reflexivity. Qed.

  Lemma step_abs_eq f a :
    step (S f) (PAbs a) =
      (let '(o, a') := value f a in
       match o with
       | Yield v => ((if is_none v then Yield VNone else py_abs v), PAbs a')
       | _ => (o, PAbs a')
       end).
  Proof. reflexivity. Qed.

  (** [vals f n a]: the operand [a] answers the next [n] calls of Pattern.value with values [vs] and is then
      in state [a'] (None if one of the calls ended or raised). *)
  Fixpoint vals (f n : nat) (a : arg) : option (list val * arg) :=
    match n with
    | O => Some ([], a)
    | S n' =>
        match value f a with
        | (Yield v, a1) => match vals f n' a1 with Some (vs, a') => Some (v :: vs, a') | None => None end
        | _ => None
        end
    end.

  Lemma vals_length f n : forall a vs a', vals f n a = Some (vs, a') -> List.length vs = n.
  Proof.
    induction n as [|n IH]; intros a vs a' H; simpl in H.
    - inversion H; reflexivity.
    - destruct (value f a) as [[v| | | |] a1]; try discriminate.
      destruct (vals f n a1) as [[vs1 a2]|] eqn:E; try discriminate.
      inversion H; subst. simpl. f_equal. eapply IH; eauto.
  Qed.

  (** a scalar operand is the constant stream *)
  Lemma vals_scalar f n v : vals (S f) n (AV v) = Some (repeat v n, AV v).
  Proof. induction n as [|n IH]; [reflexivity|]. cbn [vals]. rewrite value_scalar, IH. reflexivity. Qed.

  (** and so is a PConstant *)
  Lemma vals_constant f n v : vals (S (S f)) n (AP (PConstant v)) = Some (repeat v n, AP (PConstant v)).
  Proof. induction n as [|n IH]; [reflexivity|]. cbn [vals]. rewrite value_pattern, step_constant, IH. reflexivity. Qed.

  (** the values a pattern operand gives are the outputs of the pattern *)
  Lemma vals_pattern_outputs f n : forall p vs p',
    outputs f n p = (map Yield vs, p') -> vals (S f) n (AP p) = Some (vs, AP p').
  Proof.
    induction n as [|n IH]; intros p vs p' H.
    - cbn in H. destruct vs; inversion H. reflexivity.
    - cbn [Step.outputs] in H. cbn [vals]. rewrite value_pattern.
      destruct (step f p) as [o p1]. destruct (outputs f n p1) as [os p2] eqn:E.
      destruct vs as [|v vs]; inversion H; subst. rewrite (IH _ _ _ E). reflexivity.
  Qed.

  Lemma outputs_S f n p :
    outputs f (S n) p = (let '(o, p') := step f p in let '(os, p'') := outputs f n p' in (o :: os, p'')).
  Proof. reflexivity. Qed.

  Lemma outputs_length f n : forall p, List.length (fst (outputs f n p)) = n.
  Proof.
    induction n as [|n IH]; intro p; [reflexivity|]. rewrite outputs_S.
    destruct (step f p) as [o p']. specialize (IH p'). destruct (outputs f n p'). simpl in *. lia.
  Qed.

  Lemma outputs_app f n m : forall p,
    outputs f (n + m) p =
      (let '(os1, p1) := outputs f n p in let '(os2, p2) := outputs f m p1 in (os1 ++ os2, p2)).
  Proof.
    induction n as [|n IH]; intro p.
    - cbn. destruct (outputs f m p). reflexivity.
    - cbn [Nat.add]. rewrite !outputs_S. destruct (step f p) as [o p']. rewrite IH.
      destruct (outputs f n p') as [os1 p1]. destruct (outputs f m p1). reflexivity.
  Qed.
End Eqns.

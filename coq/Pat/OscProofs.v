(* Pat/OscProofs.v — property C12 for the oscillator classes PTri / PSaw (model: Pat/Osc.v):
   a parameter given as the scalar x, PConstant(x), PRef(PConstant(x)) ... is indistinguishable; varying parameters are each
   advanced exactly once per output, in the order length, min, max, and the k-th output is computed from the k-th values. *)
From Isobar Require Import Base.Prelude Pat.Val Pat.Syntax Pat.Step Pat.StepProofs Pat.Param Pat.ParamProofs Pat.Osc.
From Coq Require Import QArith.
Open Scope Z_scope.

Section OscProofs.
  Variable binop : op -> val -> val -> outcome val.
  Variable LMAX : nat.
  Notation step := (step binop LMAX).
  Notation value := (value binop LMAX).
  Notation outputs := (outputs binop LMAX).
  Notation osc_step := (osc_step binop LMAX).
  Notation osc_outputs := (osc_outputs binop LMAX).
  Notation fixedv := (fixedv binop LMAX).

  (* the call once the three operands have answered *)
  Lemma osc_step_resolved f sh la ma xa ph l l' m m' x x' :
    value f la = (Yield l, l') -> value f ma = (Yield m, m') -> value f xa = (Yield x, x') ->
    osc_step f (mkOsc sh la ma xa ph) =
      match osc_body sh l m x ph with
      | Yield (out, ph') => (Yield out, mkOsc sh l' m' x' ph')
      | r => (ocast r, mkOsc sh l' m' x' ph)
      end.
  Proof. intros Hl Hm Hx. unfold Osc.osc_step. cbn [o_length o_min o_max o_shape o_phase]. rewrite Hl, Hm, Hx. reflexivity. Qed.

  (** * (1) constant-like parameters *)
  Lemma osc_step_fixed f o i x a b : (i < 3)%nat -> fixedv f x a -> fixedv f x b ->
    exists r o1, osc_step f (with_ofield o i a) = (r, with_ofield o1 i a) /\ osc_step f (with_ofield o i b) = (r, with_ofield o1 i b).
  Proof.
    intros Hi Ha Hb. unfold ParamProofs.fixedv in *. destruct o as [sh la ma xa ph].
    destruct i as [|[|[|i]]]; [| | |lia]; unfold Osc.osc_step; cbn [with_ofield o_length o_min o_max o_shape o_phase].
    - rewrite Ha, Hb. destruct (value f ma) as [[m| | | |] m'];
        try (eexists _, (mkOsc sh la m' xa ph); split; reflexivity).
      destruct (value f xa) as [[xv| | | |] x']; try (eexists _, (mkOsc sh la m' x' ph); split; reflexivity).
      destruct (osc_body sh x m xv ph) as [[out ph']| | | |];
        (eexists _, (mkOsc sh la m' x' _); split; reflexivity).
    - destruct (value f la) as [[l| | | |] l']; try (eexists _, (mkOsc sh l' ma xa ph); split; reflexivity).
      rewrite Ha, Hb.
      destruct (value f xa) as [[xv| | | |] x']; try (eexists _, (mkOsc sh l' ma x' ph); split; reflexivity).
      destruct (osc_body sh l x xv ph) as [[out ph']| | | |];
        (eexists _, (mkOsc sh l' ma x' _); split; reflexivity).
    - destruct (value f la) as [[l| | | |] l']; try (eexists _, (mkOsc sh l' ma xa ph); split; reflexivity).
      destruct (value f ma) as [[m| | | |] m']; try (eexists _, (mkOsc sh l' m' xa ph); split; reflexivity).
      rewrite Ha, Hb.
      destruct (osc_body sh l m x ph) as [[out ph']| | | |];
        (eexists _, (mkOsc sh l' m' xa _); split; reflexivity).
  Qed.

  Lemma with_ofield_twice o i a b : with_ofield (with_ofield o i a) i b = with_ofield o i b.
  Proof. destruct o, i as [|[|[|i]]]; reflexivity. Qed.

  (* for EVERY parameter (length, min, max), every object state, value x and number of steps: replacing one constant-like
     form of x by another changes no outcome, and the rest of the object evolves identically *)
  Theorem osc_const_outputs f i x a b : (i < 3)%nat -> fixedv f x a -> fixedv f x b ->
    forall n o, osc_outputs f n (with_ofield o i b) =
                (let '(rs, o') := osc_outputs f n (with_ofield o i a) in (rs, with_ofield o' i b)).
  Proof.
    intros Hi Ha Hb. induction n as [|n IH]; intros o; cbn [Osc.osc_outputs]; [rewrite with_ofield_twice; reflexivity|].
    destruct (osc_step_fixed f o i x a b Hi Ha Hb) as (r & o1 & E1 & E2). rewrite E1, E2, IH.
    destruct (osc_outputs f n (with_ofield o1 i a)) as [rs o']. reflexivity.
  Qed.

  Theorem osc_const_equiv i x da a db b f n o : (i < 3)%nat -> konst x da a -> konst x db b ->
    (2 * da + 1 <= f)%nat -> (2 * db + 1 <= f)%nat ->
    osc_outputs f n (with_ofield o i b) =
      (let '(rs, o') := osc_outputs f n (with_ofield o i a) in (rs, with_ofield o' i b)).
  Proof.
    intros Hi Ka Kb Fa Fb. apply (osc_const_outputs f i x a b Hi); eapply konst_fixed; eauto.
  Qed.

  (** * (2) varying parameters: one value per use, in order *)
  (* one output with all three parameters given as patterns: it is the output for the SCALARS l, m, x the patterns give next,
     and each pattern has advanced by exactly that one step *)
  Theorem osc_use_one_step f sh ql qm qx ph l ql' m qm' x qx' :
    step f ql = (Yield l, ql') -> step f qm = (Yield m, qm') -> step f qx = (Yield x, qx') ->
    osc_step (S f) (mkOsc sh (AP ql) (AP qm) (AP qx) ph) =
      (let '(r, o1) := osc_step (S f) (mkOsc sh (AV l) (AV m) (AV x) ph) in (r, mkOsc sh (AP ql') (AP qm') (AP qx') (o_phase o1))).
  Proof.
    intros Hl Hm Hx.
    rewrite (osc_step_resolved (S f) sh (AP ql) (AP qm) (AP qx) ph l (AP ql') m (AP qm') x (AP qx'));
      try (rewrite value_pattern; rewrite ?Hl, ?Hm, ?Hx; reflexivity).
    rewrite (osc_step_resolved (S f) sh (AV l) (AV m) (AV x) ph l (AV l) m (AV m) x (AV x)); try reflexivity.
    destruct (osc_body sh l m x ph) as [[out ph']| | | |]; reflexivity.
  Qed.

  Lemma osc_scalar_step f sh l m x ph :
    osc_step (S f) (mkOsc sh (AV l) (AV m) (AV x) ph) =
      match osc_body sh l m x ph with
      | Yield (out, ph') => (Yield out, mkOsc sh (AV l) (AV m) (AV x) ph')
      | r => (ocast r, mkOsc sh (AV l) (AV m) (AV x) ph)
      end.
  Proof. apply osc_step_resolved; reflexivity. Qed.

  (* n outputs: the k-th output is computed from the k-th value of each parameter stream, and afterwards every parameter
     pattern is in the state reached by exactly n steps of its own - nothing skipped, nothing read twice *)
  Theorem osc_use_schedule f sh : forall n ql qm qx ph ls ms xs qln qmn qxn,
    outputs f n ql = (map Yield ls, qln) -> outputs f n qm = (map Yield ms, qmn) -> outputs f n qx = (map Yield xs, qxn) ->
    osc_outputs (S f) n (mkOsc sh (AP ql) (AP qm) (AP qx) ph) =
      (fst (osc_scalar_outputs sh ls ms xs ph), mkOsc sh (AP qln) (AP qmn) (AP qxn) (snd (osc_scalar_outputs sh ls ms xs ph))).
  Proof.
    induction n as [|n IH]; intros ql qm qx ph ls ms xs qln qmn qxn Hl Hm Hx.
    - cbn in Hl, Hm, Hx. inversion Hl; inversion Hm; inversion Hx; subst.
      destruct ls, ms, xs; try discriminate. reflexivity.
    - rewrite outputs_S in Hl, Hm, Hx.
      destruct (step f ql) as [ol ql1] eqn:El. destruct (outputs f n ql1) as [rl qlN] eqn:Ol.
      destruct (step f qm) as [om qm1] eqn:Em. destruct (outputs f n qm1) as [rm qmN] eqn:Om.
      destruct (step f qx) as [ox qx1] eqn:Ex. destruct (outputs f n qx1) as [rx qxN] eqn:Ox.
      destruct ls as [|l lr]; [discriminate|]. destruct ms as [|m mr]; [discriminate|]. destruct xs as [|x xr]; [discriminate|].
      cbn [map] in Hl, Hm, Hx. inversion Hl; inversion Hm; inversion Hx; subst.
      cbn [Osc.osc_outputs]. rewrite (osc_use_one_step f sh ql qm qx ph l ql1 m qm1 x qx1 El Em Ex), osc_scalar_step.
      cbn [osc_scalar_outputs].
      destruct (osc_body sh l m x ph) as [[out ph']| | | |]; cbn [o_phase];
        rewrite (IH ql1 qm1 qx1 _ lr mr xr qln qmn qxn Ol Om Ox);
        destruct (osc_scalar_outputs sh lr mr xr _) as [rs phn]; reflexivity.
  Qed.
End OscProofs.

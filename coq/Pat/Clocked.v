(* Pat/Clocked.v — model of the timeline-clocked pattern PStaticPattern (isobar/pattern/static.py) over an ABSTRACT clock.

   The output of PStaticPattern is a function of the clock of the Timeline it is polled from, not of the number of
   next() calls: `PStaticPattern(pattern, element_duration)` holds every value of `pattern` for `element_duration` beats.
   The clock enters as data: a history is a list of steps "advance the clock by dt, then call next()".

   Units: times and durations are integers in a fixed sub-division of the beat (the correspondence uses 1/32 beat, on which
   `round(current_time, 5)` is the identity); values are integers.
   The inner pattern is any machine `istep : S -> option Z * S` (Python: Pattern.value(self.pattern): Some v = a value,
   None = StopIteration; the second component is the state the call leaves behind).  element_duration is a scalar or an
   endless pattern: `durf k` = the value its k-th read returns.

   No proofs here (Pat/ClockedProofs.v). *)
From Isobar Require Import Base.Prelude.
Open Scope Z_scope.

Inductive cout := CYield (v : Z) | CStop | COutOfFuel.

Definition cout_eqb (a b : cout) : bool :=
  match a, b with
  | CYield x, CYield y => x =? y
  | CStop, CStop => true
  | COutOfFuel, COutOfFuel => true
  | _, _ => false
  end.

Section Static.
  Variable S : Type.
  Variable istep : S -> option Z * S.
  Variable durf : nat -> Z.

  (* the attributes of a PStaticPattern object: self.pattern, self.value, self.current_element_start_time (None = not
     begun), self.current_element_duration, and how many times element_duration has been read *)
  Record sstate := { s_inner : S; s_value : Z; s_start : option Z; s_dur : Z; s_idx : nat }.

  Definition s_init (i : S) : sstate := {| s_inner := i; s_value := 0; s_start := None; s_dur := 0; s_idx := O |}.

  (* the loop condition of __next__:
       self.current_element_start_time is None or current_time - self.current_element_start_time >= self.current_element_duration *)
  Definition s_need (st : sstate) (now : Z) : bool :=
    match s_start st with
    | None => true
    | Some t0 => s_dur st <=? now - t0
    end.

  (* PStaticPattern.__next__ at clock reading `now`.  One unit of fuel per turn of the while loop (a run of elements of
     duration <= 0 is skipped within one call; an endless run of them never returns: COutOfFuel).
       while <s_need>:
           self.value = Pattern.value(self.pattern)                  # StopIteration leaves every attribute as it was
           self.current_element_start_time = round(timeline.current_time, 5)
           self.current_element_duration = Pattern.value(self.element_duration)
       return self.value *)
  Fixpoint s_next (fuel : nat) (now : Z) (st : sstate) : cout * sstate :=
    match fuel with
    | O => (COutOfFuel, st)
    | Datatypes.S f =>
        if s_need st now then
          match istep (s_inner st) with
          | (None, i') => (CStop, {| s_inner := i'; s_value := s_value st; s_start := s_start st; s_dur := s_dur st; s_idx := s_idx st |})
          | (Some v, i') =>
              s_next f now {| s_inner := i'; s_value := v; s_start := Some now; s_dur := durf (s_idx st); s_idx := Datatypes.S (s_idx st) |}
          end
        else (CYield (s_value st), st)
    end.

  (* a history: steps (dt, fuel) = "the clock advances by dt, then next()"; returns the outcomes and the final clock/state *)
  Fixpoint s_run (now : Z) (st : sstate) (h : list (Z * nat)) : list cout * (Z * sstate) :=
    match h with
    | [] => ([], (now, st))
    | (dt, fuel) :: h' =>
        let now' := now + dt in
        let '(o, st') := s_next fuel now' st in
        let '(os, fin) := s_run now' st' h' in
        (o :: os, fin)
    end.

  (* the SEEDED variant (seeded/C09-m): the element is begun and timed before its value has been obtained.  Only used as a
     negative control: it is not sticky. *)
  Fixpoint s_next_early (fuel : nat) (now : Z) (st : sstate) : cout * sstate :=
    match fuel with
    | O => (COutOfFuel, st)
    | Datatypes.S f =>
        if s_need st now then
          match istep (s_inner st) with
          | (None, i') => (CStop, {| s_inner := i'; s_value := s_value st; s_start := Some now; s_dur := durf (s_idx st); s_idx := Datatypes.S (s_idx st) |})
          | (Some v, i') =>
              s_next_early f now {| s_inner := i'; s_value := v; s_start := Some now; s_dur := durf (s_idx st); s_idx := Datatypes.S (s_idx st) |}
          end
        else (CYield (s_value st), st)
    end.
End Static.

Arguments s_inner {S}. Arguments s_value {S}. Arguments s_start {S}. Arguments s_dur {S}. Arguments s_idx {S}.

(* the inner pattern as the list of the values it still has to give (what a finite library pattern is to its consumer):
   sticky by construction *)
Definition list_step (l : list Z) : option Z * list Z :=
  match l with
  | [] => (None, [])
  | v :: l' => (Some v, l')
  end.

(* element_duration as a scalar (one-element list) or an endless PSequence(ds): the k-th read *)
Definition cyc_dur (ds : list Z) (k : nat) : Z := nth (Nat.modulo k (Datatypes.length ds)) ds 0.

(* the outcomes of a history of (dt, next) steps on PStaticPattern(<values>, <durations>) polled from clock reading t0 *)
Definition static_outcomes (values ds : list Z) (t0 : Z) (h : list Z) : list cout :=
  fst (s_run (list Z) list_step (cyc_dur ds) t0 (s_init (list Z) values) (map (fun dt => (dt, Datatypes.S (Datatypes.length values))) h)).

Definition couts_eqb (a b : list cout) : bool :=
  (Nat.eqb (Datatypes.length a) (Datatypes.length b)) && forallb (fun p => cout_eqb (fst p) (snd p)) (combine a b).

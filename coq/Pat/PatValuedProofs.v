(* Pat/PatValuedProofs.v — helper agreement for patterns whose outputs are pattern objects (Pat/PatValued.v). *)
From Isobar Require Import Base.Prelude Pat.Val Pat.Syntax Pat.Step Pat.StepProofs Pat.IterProofs Pat.PatValued.
Open Scope Z_scope.

Section PV.
  Variable binop : op -> val -> val -> outcome val.
  Variable LMAX fuel : nat.
  Notation pv_next := (pv_next binop LMAX fuel).
  Notation pv_nextn := (pv_nextn binop LMAX fuel).
  Notation pv_all := (pv_all binop LMAX fuel).
  Notation pv_outputs := (pv_outputs binop LMAX fuel).

  (* repeated next() on the selector never touches the objects it hands out *)
  Lemma pv_outputs_eq n : forall s h,
    pv_outputs n (s, h) = (fst (outputs binop LMAX fuel n s), (snd (outputs binop LMAX fuel n s), h)).
  Proof.
    induction n as [|n IH]; intros s h; [reflexivity|]. cbn [PatValued.pv_outputs outputs]. unfold PatValued.pv_next. cbn [fst snd].
    destruct (step binop LMAX fuel s) as [o s']. rewrite IH. destruct (outputs binop LMAX fuel n s') as [os s'']. reflexivity.
  Qed.

  (** nextn(n) when n objects are left: exactly the objects the next n calls of next() return - the SAME objects, none of
      them advanced (the heap is the heap) *)
  Theorem pv_nextn_values n s h vs s' :
    pv_outputs n (s, h) = (map Yield vs, (s', h)) -> pv_nextn n (s, h) = (Yield vs, (s', h)).
  Proof.
    rewrite pv_outputs_eq. intro H. inversion H as [[H1 H2]]. unfold PatValued.pv_nextn. cbn [fst snd].
    rewrite (nextn_values binop LMAX fuel n s vs (snd (outputs binop LMAX fuel n s))); [reflexivity|].
    rewrite <- H1. destruct (outputs binop LMAX fuel n s); reflexivity.
  Qed.

  (* whatever nextn / all return, the objects handed out are untouched *)
  Theorem pv_helpers_leave_objects n w : snd (snd (pv_nextn n w)) = snd w /\ snd (snd (pv_all n w)) = snd w /\ snd (snd (pv_next w)) = snd w.
  Proof.
    destruct w as [s h]. unfold PatValued.pv_nextn, PatValued.pv_all, PatValued.pv_next. cbn [fst snd].
    destruct (nextn binop LMAX fuel n s), (all_ binop LMAX fuel n s), (step binop LMAX fuel s). repeat split.
  Qed.
End PV.

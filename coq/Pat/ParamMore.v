(* Pat/ParamMore.v — lemmas of property C12, second part: the step-wise scalar reference over n outputs, the block
   law of PStutter.count, the looping classes, recursive resolution by Pattern.value, the two PDict forms,
   PRef.set_pattern.  Vocabulary in Pat/Param.v, first part in Pat/ParamProofs.v. *)
From Isobar Require Import Base.Prelude Pat.Val Pat.Syntax Pat.Step Pat.StepProofs Pat.Param Pat.ParamProofs.
From Coq Require Import String QArith Qround.
Open Scope Z_scope.

Section More.
  Variable binop : op -> val -> val -> outcome val.
  Variable LMAX : nat.
  Notation step := (step binop LMAX).
  Notation value := (value binop LMAX).
  Notation anext := (anext binop LMAX).
  Notation reset := (reset binop LMAX).
  Notation outputs := (outputs binop LMAX).
  Notation driven := (driven binop LMAX).
  Notation construct := (construct binop LMAX).
  Ltac unfold_step :=
    cbn [Step.step];
    fold (Step.value binop LMAX); fold (Step.anext binop LMAX); fold (Step.step binop LMAX);
    fold (Step.reset binop LMAX); fold (Step.areset_strict binop LMAX); fold (Step.aall binop LMAX).

  (** * 2. n outputs of a parent whose parameter is the pattern q = the step-wise scalar reference *)
  Lemma driven_outputs : forall n f p i q a vs ws pn qn,
    vfield p i = Some a ->
    driven f n p i q = Some (vs, ws, pn, qn) ->
    outputs (S (S f)) n (with_vfield p i (AP q)) = (map Yield vs, with_vfield pn i (AP qn)) /\
    outputs f n q = (map Yield ws, qn) /\
    (exists a', vfield pn i = Some a') /\ List.length vs = n /\ List.length ws = n.
  Proof.
    induction n; intros f p i q a vs ws pn qn H Hd.
    - cbn in Hd. inversion Hd; subst. cbn. repeat split; eauto.
    - cbn [Param.driven] in Hd.
      destruct (step f q) as [[w| | | |] q'] eqn:Hq; try discriminate.
      destruct (step (S (S f)) (with_vfield p i (AV w))) as [[v| | | |] p1] eqn:Hs; try discriminate.
      destruct (driven f n p1 i q') as [[[[vs' ws'] pn'] qn']|] eqn:Hr; try discriminate.
      inversion Hd; subst; clear Hd.
      assert (H0 : vfield (with_vfield p i (AP q)) i = Some (AP q)) by (eapply vfield_with; eauto).
      assert (Hs' : step (S (S f)) (with_vfield (with_vfield p i (AP q)) i (AV w)) = (Yield v, p1))
        by (erewrite with_with; eauto).
      destruct (varying_field_step binop LMAX _ _ _ _ _ _ _ _ H0 Hq Hs') as [E1 E2].
      destruct (IHn f p1 i q' _ _ _ _ _ E2 Hr) as (O1 & O2 & O3 & O4 & O5).
      cbn [Step.outputs]. rewrite E1, O1, Hq, O2. cbn. repeat split; auto.
  Qed.

  (** * the block law of PStutter.count *)
  Lemma cmp_ge_int a b : cmp OGe (VInt a) (VInt b) = Yield (b <=? a).
  Proof. unfold cmp, Val.binop. cbn [num_of orb]. rewrite !Qround.Qfloor_Z. reflexivity. Qed.

  (* inside a block the count parameter is not touched *)
  Lemma stutter_inside f pattern count w pos v :
    pos < w ->
    step (S f) (PStutter pattern count (VInt w) pos v) = (Yield v, PStutter pattern count (VInt w) (pos + 1) v).
  Proof.
    intros H. unfold_step. rewrite cmp_ge_int.
    destruct (w <=? pos) eqn:E; [lia | reflexivity].
  Qed.

  (* at a block boundary the count pattern is stepped exactly once, and its value is the length of the new block *)
  Lemma stutter_boundary f pt q w pos v c q' v' pt' :
    w <= pos ->
    step f q = (Yield c, q') -> step f pt = (Yield v', pt') ->
    step (S (S f)) (PStutter (AP pt) (AP q) (VInt w) pos v) = (Yield v', PStutter (AP pt') (AP q') c 1 v').
  Proof.
    intros H Hq Hp. unfold_step. rewrite cmp_ge_int.
    destruct (w <=? pos) eqn:E; [|lia]. rewrite Hq, Hp. reflexivity.
  Qed.

  (* the same boundary with a scalar count: the block length is that scalar *)
  Lemma stutter_boundary_scalar f pt c w pos v v' pt' :
    w <= pos ->
    step f pt = (Yield v', pt') ->
    step (S (S f)) (PStutter (AP pt) (AV c) (VInt w) pos v) = (Yield v', PStutter (AP pt') (AV c) c 1 v').
  Proof.
    intros H Hp. unfold_step. rewrite cmp_ge_int.
    destruct (w <=? pos) eqn:E; [|lia]. rewrite Hp. reflexivity.
  Qed.

  (* a block: the next k outputs inside a block repeat the value and leave both operands where they are *)
  Lemma stutter_block f pattern count w v : forall k pos,
    0 <= pos -> pos + Z.of_nat k <= w ->
    outputs (S f) k (PStutter pattern count (VInt w) pos v) =
      (repeat (Yield v) k, PStutter pattern count (VInt w) (pos + Z.of_nat k) v).
  Proof.
    induction k; intros pos H0 H.
    - cbn. replace (pos + 0) with pos by lia. reflexivity.
    - cbn [Step.outputs]. rewrite stutter_inside by lia.
      rewrite IHk by lia. cbn [repeat].
      replace (pos + 1 + Z.of_nat k) with (pos + Z.of_nat (S k)) by lia. reflexivity.
  Qed.

  (** * the looping classes PCollapse / PNoRepeats with a constant-like parameter *)
  Lemma collapse_const x d a f :
    konst x d a -> x <> VNone -> (2 * d + 1 <= f)%nat ->
    step (S f) (PCollapse a) = (Yield x, PCollapse a).
  Proof.
    intros K Hx Hf. pose proof (konst_fixed binop LMAX x d a K f Hf) as Hv. unfold fixedv in Hv.
    unfold_step. rewrite Hv. destruct x; try reflexivity. congruence.
  Qed.

  Lemma norepeats_const x d a v f :
    konst x d a -> py_eq x v = false -> py_eq x (VInt MAXSIZE) = false -> (2 * d + 1 <= f)%nat ->
    step (S f) (PNoRepeats a v) = (Yield x, PNoRepeats a x).
  Proof.
    intros K H1 H2 Hf. pose proof (konst_fixed binop LMAX x d a K f Hf) as Hv. unfold fixedv in Hv.
    unfold_step. rewrite Hv, H1, H2. reflexivity.
  Qed.

  (** * 3. Pattern.value resolves recursively *)

  (* k references around a pattern: each layer forwards the call, the innermost pattern is stepped once *)
  Lemma value_nest_ref q : forall k f,
    value (S f + 2 * k) (nest_ref k (AP q)) = (let '(o, q') := step f q in (o, nest_ref k (AP q'))).
  Proof.
    induction k; intros f.
    - replace (S f + 2 * 0)%nat with (S f) by lia. reflexivity.
    - replace (S f + 2 * S k)%nat with (S (S (S f + 2 * k))) by lia.
      cbn [nest_ref].
      change (value (S (S (S f + 2 * k))) (AP (PRef (nest_ref k (AP q)))))
        with (let '(o, p') := step (S (S f + 2 * k)) (PRef (nest_ref k (AP q))) in (o, AP p')).
      change (step (S (S f + 2 * k)) (PRef (nest_ref k (AP q))))
        with (let '(o, a') := anext (S f + 2 * k) (nest_ref k (AP q)) in (o, PRef a')).
      assert (E : anext (S f + 2 * k) (nest_ref k (AP q)) = value (S f + 2 * k) (nest_ref k (AP q))).
      { destruct k; reflexivity. }
      rewrite E, IHk. destruct (step f q). reflexivity.
  Qed.

  (* the items of a tuple are resolved left to right, each exactly once *)
  Lemma values_of_items (h : arg -> option (val * arg)) (g : arg -> outcome val * arg) :
    forall l vs l',
    (forall x v x', In x l -> h x = Some (v, x') -> g x = (Yield v, x')) ->
    opt_items h l = Some (vs, l') -> values_of g l = (Yield vs, l').
  Proof.
    induction l; intros vs l' Hg H.
    - cbn in H. inversion H; subst. reflexivity.
    - cbn [opt_items] in H.
      destruct (h a) as [[v x']|] eqn:Ha; try discriminate.
      destruct (opt_items h l) as [[vs0 r']|] eqn:Hl; try discriminate.
      inversion H; subst; clear H.
      cbn [values_of]. rewrite (Hg a v x' (or_introl eq_refl) Ha).
      rewrite (IHl vs0 r'); auto. intros; eapply Hg; eauto. right; auto.
  Qed.

  (* tuples nested n deep whose leaves are arbitrary patterns (each answering its next() with a plain value for
     every fuel >= f0): Pattern.value returns the fully resolved value, every nested pattern advanced exactly once *)
  Lemma value_resolves (g : pat -> option (val * pat)) (f0 : nat) :
    (forall p v p', g p = Some (v, p') -> forall F, (f0 <= F)%nat -> step F p = (Yield v, p')) ->
    forall n a v a', tres n g a = Some (v, a') ->
    forall F, (f0 + n + 1 <= F)%nat -> value F a = (Yield v, a').
  Proof.
    intros Hg. induction n; intros a v a' H F HF.
    - destruct a; cbn in H; try discriminate.
      + inversion H; subst. destruct F; [lia | reflexivity].
      + destruct (g p) as [[v0 p']|] eqn:E; try discriminate. inversion H; subst.
        destruct F; [lia|]. rewrite value_pattern, (Hg p v p' E) by lia. reflexivity.
    - destruct a; cbn [tres] in H; try discriminate.
      + inversion H; subst. destruct F; [lia | reflexivity].
      + destruct (g p) as [[v0 p']|] eqn:E; try discriminate. inversion H; subst.
        destruct F; [lia|]. rewrite value_pattern, (Hg p v p' E) by lia. reflexivity.
      + destruct (opt_items (tres n g) l) as [[vs l']|] eqn:E; try discriminate. inversion H; subst.
        destruct F; [lia|].
        change (value (S F) (AT l)) with
          (let '(os, l') := values_of (value F) l in
           (match os with Yield vs => Yield (VTup vs) | Stop => Raise RuntimeError | o => ocast o end, AT l')).
        rewrite (values_of_items (tres n g) (value F) l vs l'); auto.
        intros x v0 x' _ Hx. apply (IHn x v0 x' Hx). lia.
  Qed.

  (** * 4. PDict: a dict of one-shot sequences and the list of dicts *)
  Lemma mapM_all {A B} (g : A -> outcome B) (h : A -> B) : forall l,
    (forall x, In x l -> g x = Yield (h x)) -> mapM g l = Yield (map h l).
  Proof.
    induction l; intros H; cbn; [reflexivity|].
    rewrite (H a (or_introl eq_refl)). cbn. rewrite IHl; auto. intros; apply H; right; auto.
  Qed.

  Lemma mapM_map {A B C} (g : B -> outcome C) (m : A -> B) : forall l, mapM g (map m l) = mapM (fun x => g (m x)) l.
  Proof. induction l; cbn; [reflexivity|]. rewrite IHl. reflexivity. Qed.

  Lemma reset_one_shot f col : (forall a, In a col -> exists v, a = AV v) ->
    reset (S f) (one_shot col) = Yield (one_shot col).
  Proof.
    intros H. unfold one_shot.
    change (reset (S f) (PSequence (AL col) (AV (VInt 1)) 0 0)) with
      (obind (reset_field (reset f) (AL col)) (fun s' =>
       obind (reset_field (reset f) (AV (VInt 1))) (fun r' => Yield (PSequence s' r' 0 0)))).
    cbn [reset_field reset_value]. rewrite (mapM_all (reset_value (reset f)) (fun a => a)).
    - rewrite map_id. reflexivity.
    - intros a Ha. destruct (H a Ha) as [v ->]. reflexivity.
  Qed.

  Lemma assoc_row k row : assoc k (map (fun kv : string * val => (fst kv, AV (snd kv))) row) =
                          option_map AV (assoc k row).
  Proof. induction row as [|[k' v] r IH]; cbn; [reflexivity|]. destruct (String.eqb k k'); auto. Qed.

  (* the list-of-dicts form: PDict([row0, row1, ...]) with the keys of the first row *)
  Lemma pdict_from_rows f row0 rows :
    (forall k r, In k (map fst row0) -> In r (row0 :: rows) -> has_key k r) ->
    construct (S f) CDict [AL (map row_arg (row0 :: rows))] = Yield (pdict_of (map fst row0) (row0 :: rows)).
  Proof.
    intros Hk. set (all := row0 :: rows) in *.
    unfold Step.construct. fold (Step.reset binop LMAX).
    change (map row_arg all) with (row_arg row0 :: map row_arg rows).
    cbv beta iota. unfold row_arg at 1. fold row_arg.
    change (row_arg row0 :: map row_arg rows) with (map row_arg all).
    unfold omap at 1.
    rewrite (mapM_all _ (fun ka : string * arg => (fst ka, AP (one_shot (column (fst ka) all))))).
    - cbn [obind]. unfold pdict_of. rewrite !map_map. cbn [fst]. reflexivity.
    - intros [k a0] Hin. cbn [fst].
      assert (Hk0 : In k (map fst row0)).
      { apply in_map_iff in Hin. destruct Hin as [[k1 v1] [E I]]. cbn in E. inversion E.
        apply in_map_iff. exists (k1, v1). split; [exact H0 | exact I]. }
      rewrite mapM_map, (mapM_all _ (fun r => AV (lookup k r))).
      + cbn [obind]. fold (column k all).
        change (PSequence (AL (column k all)) (AV (VInt 1)) 0 0) with (one_shot (column k all)).
        rewrite reset_one_shot; [reflexivity|].
        intros a Ha. unfold column in Ha. apply in_map_iff in Ha. destruct Ha as [r [<- _]]. eauto.
      + intros r Hr.
        unfold row_arg. rewrite assoc_row.
        destruct (Hk k r Hk0 Hr) as [v Hv]. unfold lookup. rewrite Hv. reflexivity.
  Qed.

  (* the dict form over the same one-shot sequences *)
  Lemma pdict_from_columns f ks rows :
    construct f CDict [AD (map (fun k => (k, AP (one_shot (column k rows)))) ks)] = Yield (pdict_of ks rows).
  Proof.
    unfold Step.construct. unfold kwmapM, omap.
    rewrite (mapM_all _ (fun ka : string * arg => ka)).
    - rewrite map_id. reflexivity.
    - intros [k a] Hin. apply in_map_iff in Hin. destruct Hin as [k0 [E _]]. inversion E; subst. reflexivity.
  Qed.

  (* the event stream ends with the shortest column: the first key whose pattern stops ends the PDict *)
  Lemma pdict_ends_with_shortest f : forall kv1 k a a' kv2,
    (forall k1 a1, In (k1, a1) kv1 -> exists v a1', value f a1 = (Yield v, a1')) ->
    value f a = (Stop, a') ->
    fst (step (S f) (PDict (AD (kv1 ++ (k, a) :: kv2)))) = Stop.
  Proof.
    intros kv1 k a a' kv2 H1 Ha. unfold_step.
    assert (E : forall kv1, (forall k1 a1, In (k1, a1) kv1 -> exists v a1', value f a1 = (Yield v, a1')) ->
                fst (kwvalues_of (value f) (kv1 ++ (k, a) :: kv2)) = Stop).
    { clear H1 kv1. induction kv1 as [|[k1 a1] r IH]; intros H; cbn [app kwvalues_of].
      - rewrite Ha. reflexivity.
      - destruct (H k1 a1 (or_introl eq_refl)) as [v [a1' E1]]. rewrite E1.
        specialize (IH (fun k2 a2 Hin => H k2 a2 (or_intror Hin))).
        destruct (kwvalues_of (value f) (r ++ (k, a) :: kv2)) as [o r'] eqn:Er. cbn [fst] in IH. subst o. reflexivity. }
    specialize (E kv1 H1).
    destruct (kwvalues_of (value f) (kv1 ++ (k, a) :: kv2)) as [o r']. cbn [fst] in *. subst o. reflexivity.
  Qed.

  (** * 5. PRef.set_pattern takes effect from the very next step *)
  Lemma ref_retarget f a r :
    step (S (S f)) (set_pattern (PRef a) (AP r)) = (let '(o, r') := step f r in (o, PRef (AP r'))).
  Proof.
    cbn [set_pattern].
    change (step (S (S f)) (PRef (AP r))) with
      (let '(o, a') := (let '(o, p') := step f r in (o, AP p')) in (o, PRef a')).
    destruct (step f r). reflexivity.
  Qed.

  (* ... also when the reference is the parameter of another pattern: the parent's next output uses the next value of
     the new target, whatever the old target was and however far it had advanced *)
  Lemma param_retarget p i old r w r' f v p1 :
    vfield p i = Some (AP (PRef old)) ->
    step f r = (Yield w, r') ->
    step (S (S (S (S f)))) (with_vfield p i (AV w)) = (Yield v, p1) ->
    step (S (S (S (S f)))) (with_vfield p i (AP (set_pattern (PRef old) (AP r)))) =
      (Yield v, with_vfield p1 i (AP (PRef (AP r')))).
  Proof.
    intros H Hr Hs.
    assert (Hq : step (S (S f)) (PRef (AP r)) = (Yield w, PRef (AP r'))).
    { change (step (S (S f)) (PRef (AP r))) with
        (let '(o, a') := (let '(o, p') := step f r in (o, AP p')) in (o, PRef a')).
      rewrite Hr. reflexivity. }
    assert (H0 : vfield (with_vfield p i (AP (PRef (AP r)))) i = Some (AP (PRef (AP r)))) by (eapply vfield_with; eauto).
    assert (Hs' : step (S (S (S (S f)))) (with_vfield (with_vfield p i (AP (PRef (AP r)))) i (AV w)) = (Yield v, p1))
      by (erewrite with_with; eauto).
    destruct (varying_field_step binop LMAX _ _ _ _ _ _ _ _ H0 Hq Hs') as [E _]. exact E.
  Qed.
End More.

(* Pat/PatValued.v — patterns whose OUTPUT VALUES ARE PATTERN OBJECTS (property C09, helper agreement): PDictKey over a dict
   of patterns, PConstant(pattern) behind PSubsequence / PStutter / PLoop / PRef, PShuffle / PChoice over a list containing
   patterns, PFunc ...  next() returns the OBJECT; nextn / for / all / len are loops over next() and return the same objects,
   untouched - it is only a consumer that calls Pattern.value() (a Track, an enclosing pattern) which resolves and ADVANCES them.

   The yielded objects live in a heap (by address, as in Pat/Dag.v); the selecting pattern is any object of Pat/Syntax.v that
   yields addresses.  [pv_next] / [pv_nextn] / [pv_all] are the helpers (the heap is not touched); [pv_value] is what
   Pattern.value(selector) does: the selected object is advanced.  No proofs here. *)
From Isobar Require Import Base.Prelude Pat.Val Pat.Syntax Pat.Step.
Open Scope Z_scope.

Section Engine.
  Variable binop : op -> val -> val -> outcome val.
  Variable LENGTH_MAX : nat.
  Variable fuel : nat.

  Definition pv_world := (pat * list pat)%type.           (* the selector, the objects it hands out *)

  Definition pv_next (w : pv_world) : outcome val * pv_world :=
    let '(o, s') := step binop LENGTH_MAX fuel (fst w) in (o, (s', snd w)).
  Definition pv_nextn (n : nat) (w : pv_world) : outcome (list val) * pv_world :=
    let '(o, s') := nextn binop LENGTH_MAX fuel n (fst w) in (o, (s', snd w)).
  Definition pv_all (m : nat) (w : pv_world) : outcome (list val) * pv_world :=
    let '(o, s') := all_ binop LENGTH_MAX fuel m (fst w) in (o, (s', snd w)).
  Fixpoint pv_outputs (n : nat) (w : pv_world) : list (outcome val) * pv_world :=
    match n with
    | O => ([], w)
    | S n' => let '(o, w') := pv_next w in let '(os, w'') := pv_outputs n' w' in (o :: os, w'')
    end.

  (* Pattern.value(selector): next(selector), and if that is a pattern object (an address), its next value *)
  Definition pv_value (w : pv_world) : outcome val * pv_world :=
    let '(o, s') := step binop LENGTH_MAX fuel (fst w) in
    match o with
    | Yield (VInt a) =>
        match nth_error (snd w) (Z.to_nat a) with
        | Some c => let '(oc, c') := step binop LENGTH_MAX fuel c in (oc, (s', update_nth (Z.to_nat a) c' (snd w)))
        | None => (o, (s', snd w))
        end
    | _ => (o, (s', snd w))
    end.
End Engine.

(* Pat/StepSrc.v — the hand-written engine of Pat/Step.v agrees, class by class, with the definitions GENERATED FROM THE
   SOURCE TEXT of isobar/pattern/{core,sequence,scalar}.py (harness/gen_tables_step.py -> Generated/TablesStep.v on every
   run; translation rules: docs/TRANSLATOR.md).

   Shape of the tie lemmas, for a class C with model constructor C f1 .. fn:

     step  binop LMAX (S f) (C f1 .. fn)  =  src_C_next  <bop> (value binop LMAX) (anext binop LMAX) f [lfuel] f1 .. fn
     reset binop LMAX (S f) (C f1 .. fn)  =  src_C_reset (reset binop LMAX f) (value binop LMAX) f f1 .. fn
     construct binop LMAX F CC [args]     =  src_C_init  (reset binop LMAX f) (value binop LMAX) F' <parameters>

   <bop>, the meaning of Python's operators inside the method body, is the engine's operator semantics [binop] (an
   arbitrary Section variable, as in the theorems of C08) for the 15 operator node classes - their body IS the operator -
   and [Val.binop] for every other class (Step.v uses the concrete operators for class-internal arithmetic).
   lfuel, the iteration budget of a `while` in the body, is the one Step.v's clause uses (S f where the clause re-enters
   [step], f where it calls a fuelled helper).  Fuel is an artefact of the model: the source has none.

   A lemma closed by [reflexivity] says the translated body and the hand-written clause are THE SAME TERM up to
   conversion; the others differ in the arrangement of conditionals (`if c then (a, s) else (b, s)` against
   `((if c then a else b), s)`) and are closed by case analysis on the tests; the classes with loops need an induction
   on the budget.  A change of a method body in the source makes the corresponding lemma fail, i.e. breaks a proof
   obligation of every property whose cone contains this file (Props/C10Src.v).

   [src_step] / [src_reset] at the end dispatch on the class: one call of __next__ / reset() as the SOURCE defines it
   (children run by the engine); [src_step_is] / [src_reset_is] collect the tie lemmas. *)
From Isobar Require Import Base.Prelude Pat.Val Pat.Syntax Pat.Step Pat.SrcLib Generated.TablesStep.
From Coq Require Import String QArith.
Open Scope Z_scope.

(* Both sides of a tie lemma evaluate the same tests in the same order.  [tie] walks down the two terms: the scrutinee
   that is evaluated FIRST (the head of the nested matches of either side) is replaced by its possible values on both
   sides at once; when nothing is left to analyse the two sides are the same term. *)
Ltac head_scrut t :=
  lazymatch t with
  | match ?x with _ => _ end => head_scrut x
  | _ => t
  end.
Ltac case_on x :=
  lazymatch x with
  | negb ?c => case_on c
  | (?c || _)%bool => case_on c
  | (?c && _)%bool => case_on c
  | is_none ?v => destruct v
  | _ => destruct x eqn:?
  end.
Ltac split_match :=
  match goal with
  | |- context [match ?x with _ => _ end] =>
      lazymatch x with
      | context [match _ with _ => _ end] => fail
      | _ => case_on x
      end
  end.
Ltac tie_step :=
  cbv beta iota zeta; cbn [negb orb andb is_none];
  first [ reflexivity
        | lazymatch goal with
          | |- ?L = ?R =>
              first [ lazymatch L with match _ with _ => _ end => let x := head_scrut L in case_on x end
                    | lazymatch R with match _ with _ => _ end => let x := head_scrut R in case_on x end ]
          end
        | split_match ].
Ltac tie := unfold cmp, omap, obind; repeat tie_step.

Section Tie.
  Variable binop : op -> val -> val -> outcome val.
  Variable LMAX : nat.
  Notation step := (step binop LMAX).
  Notation value := (value binop LMAX).
  Notation anext := (anext binop LMAX).
  Notation reset := (reset binop LMAX).
  Notation construct := (construct binop LMAX).

  (* unfold one clause of [step], put the names of the mutually defined functions back, unfold the generated body *)
  Ltac open_ d :=
    cbn [Step.step]; fold (Step.step binop LMAX) (Step.anext binop LMAX) (Step.value binop LMAX); unfold d.

  (** * core.py *)
  Lemma PConstant_next_src f c : step (S f) (PConstant c) = src_PConstant_next Val.binop value anext f c.
  Proof. reflexivity. Qed.
  Lemma PConstant_reset_src f c : reset (S f) (PConstant c) = src_PConstant_reset (reset f) value f c.
  Proof. reflexivity. Qed.
  (* the model restricts the argument to plain values (tuples / lists / dicts without patterns inside) *)
  Lemma PConstant_init_src f c : construct f CConstant [AV c] = src_PConstant_init (reset f) value f c.
  Proof. reflexivity. Qed.

  Lemma PRef_next_src f a : step (S f) (PRef a) = src_PRef_next Val.binop value anext f a.
  Proof. open_ src_PRef_next. tie. Qed.
  Lemma PRef_reset_src f a : reset (S f) (PRef a) = src_PRef_reset (reset f) value f a.
  Proof. reflexivity. Qed.
  Lemma PRef_init_src f a : construct f CRef [a] = src_PRef_init (reset f) value f a.
  Proof. reflexivity. Qed.

  Lemma PAbs_next_src f a : step (S f) (PAbs a) = src_PAbs_next Val.binop value anext f a.
  Proof. open_ src_PAbs_next. tie. Qed.
  Lemma PAbs_reset_src f a : reset (S f) (PAbs a) = src_PAbs_reset (reset f) value f a.
  Proof. reflexivity. Qed.
  Lemma PAbs_init_src f a : construct f CAbs [a] = src_PAbs_init (reset f) value f a.
  Proof. reflexivity. Qed.

  Lemma PInt_next_src f a : step (S f) (PInt a) = src_PInt_next Val.binop value anext f a.
  Proof. open_ src_PInt_next. tie. Qed.
  Lemma PInt_reset_src f a : reset (S f) (PInt a) = src_PInt_reset (reset f) value f a.
  Proof. reflexivity. Qed.
  Lemma PInt_init_src f a : construct f CInt [a] = src_PInt_init (reset f) value f a.
  Proof. reflexivity. Qed.

  (** the 15 operator classes: the body of each is its operator, under ANY operator semantics *)
  Ltac binop_tie d := open_ d; tie.
  Lemma PAdd_next_src f a b : step (S f) (PBinOp OAdd a b) = src_PAdd_next binop value anext f a b.
  Proof. binop_tie src_PAdd_next. Qed.
  Lemma PSub_next_src f a b : step (S f) (PBinOp OSub a b) = src_PSub_next binop value anext f a b.
  Proof. binop_tie src_PSub_next. Qed.
  Lemma PMul_next_src f a b : step (S f) (PBinOp OMul a b) = src_PMul_next binop value anext f a b.
  Proof. binop_tie src_PMul_next. Qed.
  Lemma PDiv_next_src f a b : step (S f) (PBinOp ODiv a b) = src_PDiv_next binop value anext f a b.
  Proof. binop_tie src_PDiv_next. Qed.
  Lemma PFloorDiv_next_src f a b : step (S f) (PBinOp OFloorDiv a b) = src_PFloorDiv_next binop value anext f a b.
  Proof. binop_tie src_PFloorDiv_next. Qed.
  Lemma PMod_next_src f a b : step (S f) (PBinOp OMod a b) = src_PMod_next binop value anext f a b.
  Proof. binop_tie src_PMod_next. Qed.
  Lemma PPow_next_src f a b : step (S f) (PBinOp OPow a b) = src_PPow_next binop value anext f a b.
  Proof. binop_tie src_PPow_next. Qed.
  Lemma PLShift_next_src f a b : step (S f) (PBinOp OLShift a b) = src_PLShift_next binop value anext f a b.
  Proof. binop_tie src_PLShift_next. Qed.
  Lemma PRShift_next_src f a b : step (S f) (PBinOp ORShift a b) = src_PRShift_next binop value anext f a b.
  Proof. binop_tie src_PRShift_next. Qed.
  Lemma PEqual_next_src f a b : step (S f) (PBinOp OEq a b) = src_PEqual_next binop value anext f a b.
  Proof. binop_tie src_PEqual_next. Qed.
  Lemma PNotEqual_next_src f a b : step (S f) (PBinOp ONe a b) = src_PNotEqual_next binop value anext f a b.
  Proof. binop_tie src_PNotEqual_next. Qed.
  Lemma PGreaterThan_next_src f a b : step (S f) (PBinOp OGt a b) = src_PGreaterThan_next binop value anext f a b.
  Proof. binop_tie src_PGreaterThan_next. Qed.
  Lemma PGreaterThanOrEqual_next_src f a b : step (S f) (PBinOp OGe a b) = src_PGreaterThanOrEqual_next binop value anext f a b.
  Proof. binop_tie src_PGreaterThanOrEqual_next. Qed.
  Lemma PLessThan_next_src f a b : step (S f) (PBinOp OLt a b) = src_PLessThan_next binop value anext f a b.
  Proof. binop_tie src_PLessThan_next. Qed.
  Lemma PLessThanOrEqual_next_src f a b : step (S f) (PBinOp OLe a b) = src_PLessThanOrEqual_next binop value anext f a b.
  Proof. binop_tie src_PLessThanOrEqual_next. Qed.

  (* reset (inherited Pattern.reset) and __init__ (inherited PBinOp.__init__) are the same for the 15 classes *)
  Lemma PBinOp_reset_src f o a b :
    reset (S f) (PBinOp o a b) =
    match o with
    | OAdd => src_PAdd_reset | OSub => src_PSub_reset | OMul => src_PMul_reset | ODiv => src_PDiv_reset
    | OFloorDiv => src_PFloorDiv_reset | OMod => src_PMod_reset | OPow => src_PPow_reset | OLShift => src_PLShift_reset
    | ORShift => src_PRShift_reset | OEq => src_PEqual_reset | ONe => src_PNotEqual_reset | OGt => src_PGreaterThan_reset
    | OGe => src_PGreaterThanOrEqual_reset | OLt => src_PLessThan_reset | OLe => src_PLessThanOrEqual_reset
    end (reset f) value f a b.
  Proof. destruct o; reflexivity. Qed.
  Lemma PBinOp_init_src f o a b :
    construct f (CBinOp o) [a; b] =
    match o with
    | OAdd => src_PAdd_init | OSub => src_PSub_init | OMul => src_PMul_init | ODiv => src_PDiv_init
    | OFloorDiv => src_PFloorDiv_init | OMod => src_PMod_init | OPow => src_PPow_init | OLShift => src_PLShift_init
    | ORShift => src_PRShift_init | OEq => src_PEqual_init | ONe => src_PNotEqual_init | OGt => src_PGreaterThan_init
    | OGe => src_PGreaterThanOrEqual_init | OLt => src_PLessThan_init | OLe => src_PLessThanOrEqual_init
    end (reset f) value f a b.
  Proof. destruct o; reflexivity. Qed.

  Lemma PAnd_next_src f a b : step (S f) (PAnd a b) = src_PAnd_next Val.binop value anext f a b.
  Proof. open_ src_PAnd_next. tie. Qed.
  Lemma PAnd_reset_src f a b : reset (S f) (PAnd a b) = src_PAnd_reset (reset f) value f a b.
  Proof. reflexivity. Qed.
  Lemma PAnd_init_src f a b : construct f CAnd [a; b] = src_PAnd_init (reset f) value f a b.
  Proof. reflexivity. Qed.

  (** * sequence.py *)
  Lemma PSeries_next_src f start v stp length count :
    step (S f) (PSeries start v stp length count) = src_PSeries_next Val.binop value anext f start v stp length count.
  Proof. reflexivity. Qed.
  Lemma PSeries_reset_src f start v stp length count :
    reset (S f) (PSeries start v stp length count) = src_PSeries_reset (reset f) value f start v stp length count.
  Proof. reflexivity. Qed.
  Lemma PSeries_init_src f start stp length :
    construct f CSeries [AV start; stp; length] = src_PSeries_init (reset f) value f start stp length.
  Proof. reflexivity. Qed.

  Lemma PRange_next_src f start e stp v :
    step (S f) (PRange start e stp v) = src_PRange_next Val.binop value anext f start e stp v.
  Proof. open_ src_PRange_next. tie. Qed.
  Lemma PRange_reset_src f start e stp v :
    reset (S f) (PRange start e stp v) = src_PRange_reset (reset f) value f start e stp v.
  Proof. reflexivity. Qed.
  (* __init__ ends with self.reset() *)
  Lemma PRange_init_src f start e stp :
    construct (S f) CRange [AV start; e; stp] = src_PRange_init (reset f) value f start e stp.
  Proof. reflexivity. Qed.

  Lemma PGeom_next_src f start v m length count :
    step (S f) (PGeom start v m length count) = src_PGeom_next Val.binop value anext f start v m length count.
  Proof. open_ src_PGeom_next. tie. Qed.
  Lemma PGeom_reset_src f start v m length count :
    reset (S f) (PGeom start v m length count) = src_PGeom_reset (reset f) value f start v m length count.
  Proof. reflexivity. Qed.
  Lemma PGeom_init_src f start m length :
    construct f CGeom [AV start; m; AV length] = src_PGeom_init (reset f) value f start m length.
  Proof. reflexivity. Qed.

  Lemma PImpulse_next_src f period pos :
    step (S f) (PImpulse period pos) = src_PImpulse_next Val.binop value anext f period pos.
  Proof. open_ src_PImpulse_next. tie. Qed.
  Lemma PImpulse_reset_src f period pos :
    reset (S f) (PImpulse period pos) = src_PImpulse_reset (reset f) value f period pos.
  Proof. reflexivity. Qed.
  Lemma PImpulse_init_src f period : construct f CImpulse [period] = src_PImpulse_init (reset f) value f period.
  Proof. reflexivity. Qed.

  Lemma PCounter_next_src f trigger v count :
    step (S f) (PCounter trigger v count) = src_PCounter_next Val.binop value anext f trigger v count.
  Proof. open_ src_PCounter_next. tie. Qed.
  Lemma PCounter_reset_src f trigger v count :
    reset (S f) (PCounter trigger v count) = src_PCounter_reset (reset f) value f trigger v count.
  Proof. reflexivity. Qed.
  Lemma PCounter_init_src f trigger : construct f CCounter [trigger] = src_PCounter_init (reset f) value f trigger.
  Proof. reflexivity. Qed.

  Lemma PStutter_next_src f pattern count cc pos v :
    step (S f) (PStutter pattern count cc pos v) = src_PStutter_next Val.binop value anext f pattern count cc pos v.
  Proof. open_ src_PStutter_next. tie. Qed.
  Lemma PStutter_reset_src f pattern count cc pos v :
    reset (S f) (PStutter pattern count cc pos v) = src_PStutter_reset (reset f) value f pattern count cc pos v.
  Proof. reflexivity. Qed.
  (* self.pattern = Pattern.pattern(pattern) *)
  Lemma PStutter_init_src f pattern count :
    construct f CStutter [pattern; count] = src_PStutter_init (reset f) value f pattern count.
  Proof. reflexivity. Qed.

  Lemma PPad_next_src f pattern length count :
    step (S f) (PPad pattern length count) = src_PPad_next Val.binop value anext f pattern length count.
  Proof. open_ src_PPad_next. tie. Qed.
  Lemma PPad_reset_src f pattern length count :
    reset (S f) (PPad pattern length count) = src_PPad_reset (reset f) value f pattern length count.
  Proof. reflexivity. Qed.
  Lemma PPad_init_src f pattern length :
    construct (S f) CPad [pattern; AV length] = src_PPad_init (reset f) value f pattern length.
  Proof. reflexivity. Qed.

  Lemma PPadToMultiple_next_src f pattern multiple minimum_pad count padcount :
    step (S f) (PPadToMultiple pattern multiple minimum_pad count padcount) =
    src_PPadToMultiple_next Val.binop value anext f pattern multiple minimum_pad count padcount.
  Proof. open_ src_PPadToMultiple_next. tie. Qed.
  Lemma PPadToMultiple_reset_src f pattern multiple minimum_pad count padcount :
    reset (S f) (PPadToMultiple pattern multiple minimum_pad count padcount) =
    src_PPadToMultiple_reset (reset f) value f pattern multiple minimum_pad count padcount.
  Proof. reflexivity. Qed.
  Lemma PPadToMultiple_init_src f pattern multiple minimum_pad :
    construct f CPadToMultiple [pattern; AV multiple; AV minimum_pad] =
    src_PPadToMultiple_init (reset f) value f pattern multiple minimum_pad.
  Proof. reflexivity. Qed.

  Lemma PLoop_next_src f pattern count pos loop_index read_all values :
    step (S f) (PLoop pattern count pos loop_index read_all values) =
    src_PLoop_next Val.binop value anext f pattern count pos loop_index read_all values.
  Proof. open_ src_PLoop_next. tie. Qed.
  Lemma PLoop_reset_src f pattern count pos loop_index read_all values :
    reset (S f) (PLoop pattern count pos loop_index read_all values) =
    src_PLoop_reset (reset f) value f pattern count pos loop_index read_all values.
  Proof. reflexivity. Qed.
  Lemma PLoop_init_src f pattern count :
    construct f CLoop [pattern; AV count] = src_PLoop_init (reset f) value f pattern count.
  Proof. reflexivity. Qed.

  (* self.values is the iterator reversed(list(..)): the model keeps what is left of it *)
  Lemma PReverse_next_src f input values :
    step (S f) (PReverse input values) = src_PReverse_next Val.binop value anext f input values.
  Proof. reflexivity. Qed.

  (* `while rv is None: rv = Pattern.value(self.input)`: the clause of Step.v re-enters [step] for every further
     iteration, so iteration k runs the child at fuel f - k; the translated loop does the same when its budget is S f *)
  Lemma PCollapse_loop_src fuel lfuel n : forall input rv,
    src_PCollapse_next_loop1 Val.binop value anext fuel lfuel n input rv =
    if is_none rv then step n (PCollapse input) else (Yield rv, PCollapse input).
  Proof.
    induction n as [|n IH]; intros input rv; destruct rv; try reflexivity.
    cbn [src_PCollapse_next_loop1 is_none]. open_ src_PCollapse_next.
    destruct (Step.value binop LMAX n input) as [o input']. destruct o as [v| | | |]; try reflexivity.
    rewrite IH. destruct v; reflexivity.
  Qed.
  Lemma PCollapse_next_src f input : step (S f) (PCollapse input) = src_PCollapse_next Val.binop value anext f (S f) input.
  Proof. unfold src_PCollapse_next. rewrite PCollapse_loop_src. reflexivity. Qed.
  Lemma PCollapse_reset_src f input : reset (S f) (PCollapse input) = src_PCollapse_reset (reset f) value f input.
  Proof. reflexivity. Qed.
  Lemma PCollapse_init_src f input : construct f CCollapse [input] = src_PCollapse_init (reset f) value f input.
  Proof. reflexivity. Qed.

  (* `rv = sys.maxsize; while rv == self.value or rv == sys.maxsize: rv = Pattern.value(self.input)` *)
  Lemma PNoRepeats_loop_src fuel lfuel n : forall input v rv,
    src_PNoRepeats_next_loop1 Val.binop value anext fuel lfuel n input v rv =
    if py_eq rv v || py_eq rv (VInt MAXSIZE) then step n (PNoRepeats input v) else (Yield rv, PNoRepeats input rv).
  Proof.
    induction n as [|n IH]; intros input v rv.
    - cbn [src_PNoRepeats_next_loop1]. destruct (py_eq rv v || py_eq rv (VInt MAXSIZE)); reflexivity.
    - cbn [src_PNoRepeats_next_loop1]. destruct (py_eq rv v || py_eq rv (VInt MAXSIZE)); [|reflexivity].
      open_ src_PNoRepeats_next.
      destruct (Step.value binop LMAX n input) as [o input']. destruct o as [rv'| | | |]; try reflexivity.
      rewrite IH. reflexivity.
  Qed.
  Lemma PNoRepeats_next_src f input v :
    step (S f) (PNoRepeats input v) = src_PNoRepeats_next Val.binop value anext f (S f) input v.
  Proof.
    unfold src_PNoRepeats_next. rewrite PNoRepeats_loop_src.
    replace (py_eq (VInt MAXSIZE) (VInt MAXSIZE)) with true by (vm_compute; reflexivity).
    rewrite orb_true_r. reflexivity.
  Qed.
  Lemma PNoRepeats_reset_src f input v : reset (S f) (PNoRepeats input v) = src_PNoRepeats_reset (reset f) value f input v.
  Proof. reflexivity. Qed.
  Lemma PNoRepeats_init_src f input : construct f CNoRepeats [input] = src_PNoRepeats_init (reset f) value f input.
  Proof. reflexivity. Qed.

  (** * scalar.py *)
  Lemma PChanged_next_src f source current :
    step (S f) (PChanged source current) = src_PChanged_next Val.binop value anext f source current.
  Proof. open_ src_PChanged_next. tie. Qed.
  Lemma PChanged_reset_src f source current :
    reset (S f) (PChanged source current) = src_PChanged_reset (reset f) value f source current.
  Proof. reflexivity. Qed.
  (* self.current = Pattern.value(self.source) *)
  Lemma PChanged_init_src f source : construct f CChanged [source] = src_PChanged_init (reset f) value f source.
  Proof. reflexivity. Qed.

  Lemma PDiff_next_src f source current :
    step (S f) (PDiff source current) = src_PDiff_next Val.binop value anext f source current.
  Proof. open_ src_PDiff_next. tie. Qed.
  Lemma PDiff_reset_src f source current :
    reset (S f) (PDiff source current) = src_PDiff_reset (reset f) value f source current.
  Proof. reflexivity. Qed.
  Lemma PDiff_init_src f source : construct f CDiff [source] = src_PDiff_init (reset f) value f source.
  Proof. reflexivity. Qed.

  Lemma PSkipIf_next_src f pattern skip :
    step (S f) (PSkipIf pattern skip) = src_PSkipIf_next Val.binop value anext f pattern skip.
  Proof. open_ src_PSkipIf_next. tie. Qed.
  Lemma PSkipIf_reset_src f pattern skip :
    reset (S f) (PSkipIf pattern skip) = src_PSkipIf_reset (reset f) value f pattern skip.
  Proof. reflexivity. Qed.
  Lemma PSkipIf_init_src f pattern skip : construct f CSkipIf [pattern; skip] = src_PSkipIf_init (reset f) value f pattern skip.
  Proof. reflexivity. Qed.

  (* `while value < self.min: value += self.max - self.min` / `while value >= self.max: value -= self.max - self.min`:
     Step.v's helpers wrap_up / wrap_down, each with the budget f *)
  Lemma PWrap_loop2_src fuel lfuel n : forall pattern mn mx v,
    src_PWrap_next_loop2 Val.binop value anext fuel lfuel n pattern mn mx v = (wrap_down n v mn mx, PWrap pattern mn mx).
  Proof.
    induction n as [|n IH]; intros pattern mn mx v; cbn [src_PWrap_next_loop2 wrap_down]; tie; rewrite ?IH; tie.
  Qed.
  Lemma PWrap_loop1_src fuel lfuel n : forall pattern mn mx v,
    src_PWrap_next_loop1 Val.binop value anext fuel lfuel n pattern mn mx v =
    (obind (wrap_up n v mn mx) (fun v1 => wrap_down lfuel v1 mn mx), PWrap pattern mn mx).
  Proof.
    induction n as [|n IH]; intros pattern mn mx v; cbn [src_PWrap_next_loop1 wrap_up]; rewrite ?PWrap_loop2_src; tie;
      rewrite ?IH; tie; congruence.
  Qed.
  Lemma PWrap_next_src f pattern mn mx :
    step (S f) (PWrap pattern mn mx) = src_PWrap_next Val.binop value anext f f pattern mn mx.
  Proof.
    open_ src_PWrap_next. destruct (Step.anext binop LMAX f pattern) as [o pattern']. destruct o; try reflexivity.
    rewrite PWrap_loop1_src. reflexivity.
  Qed.
  Lemma PWrap_reset_src f pattern mn mx : reset (S f) (PWrap pattern mn mx) = src_PWrap_reset (reset f) value f pattern mn mx.
  Proof. reflexivity. Qed.
  Lemma PWrap_init_src f pattern mn mx :
    construct f CWrap [pattern; AV mn; AV mx] = src_PWrap_init (reset f) value f pattern mn mx.
  Proof. reflexivity. Qed.
  (** PSequence: `sequence = Pattern.value(self.sequence)` is the list held by the attribute (a list literal in the
      model); `Pattern.value(sequence[self.pos])` runs the element and puts its new state back *)
  Lemma zlen_update_nth {A} (n : nat) (x : A) : forall l, zlen (update_nth n x l) = zlen l.
  Proof.
    unfold zlen. intro l. f_equal. revert n. induction l as [|y l IH]; intros [|n]; cbn [update_nth List.length]; auto.
  Qed.
  Lemma PSequence_next_src f sequence repeats rcount pos :
    step (S f) (PSequence sequence repeats rcount pos) = src_PSequence_next Val.binop value anext f sequence repeats rcount pos.
  Proof. open_ src_PSequence_next. rewrite ?zlen_update_nth. tie; rewrite ?zlen_update_nth in *; congruence. Qed.
  Lemma PSequence_reset_src f sequence repeats rcount pos :
    reset (S f) (PSequence sequence repeats rcount pos) = src_PSequence_reset (reset f) value f sequence repeats rcount pos.
  Proof. reflexivity. Qed.

  (** PSubsequence: `while len(self.values) <= self.pos + offset: self.values.append(next(self.pattern))`, then
      `self.values[offset + self.pos]`.  Step.v's clause converts the offset to an int before the loop (helper
      [pull_until], the child at the constant fuel f), answers TypeError for a rest and declines ([Inexact]) for any
      other non-int offset; the source does arithmetic on the offset as it is.  The two agree whenever the offset is an
      int, a bool or a rest - stated as a hypothesis on what Pattern.value(self.offset) returns. *)
  Definition index_like (v : val) : Prop := match int_of v with Some _ => True | None => v = VNone end.

  Lemma add_int_of p v z : int_of v = Some z ->
    Val.binop OAdd (VInt p) v = Yield (VInt (p + z)) /\ Val.binop OAdd v (VInt p) = Yield (VInt (z + p)).
  Proof.
    destruct v; try discriminate; cbn [int_of]; intro H; injection H as <-;
      unfold Val.binop, num_of; cbn [orb]; rewrite !Qround.Qfloor_Z; split; reflexivity.
  Qed.
  Lemma cmpb_le_int a b : omap truthy (Val.binop OLe (VInt a) (VInt b)) = Yield (a <=? b).
  Proof. unfold Val.binop, num_of. cbn [orb]. rewrite !Qround.Qfloor_Z. reflexivity. Qed.

  Lemma PSubsequence_loop_src f fuel lfuel n : forall pattern offset length pos values voff vlen off,
    int_of voff = Some off ->
    src_PSubsequence_next_loop1 Val.binop value (fun _ => anext f) fuel lfuel n pattern offset length pos values voff vlen =
    (let '(ou, values', pattern') := pull_until (anext f) n pattern values (pos + off) in
     match ou with
     | Yield _ =>
         match py_index values' (off + pos) with
         | Some v => (Yield v, PSubsequence pattern' offset length (pos + 1) values')
         | None => (Raise IndexError, PSubsequence pattern' offset length pos values')
         end
     | _ => (ocast ou, PSubsequence pattern' offset length pos values')
     end).
  Proof.
    induction n as [|n IH]; intros pattern offset length pos values voff vlen off Hoff;
      destruct (add_int_of pos voff off Hoff) as [E1 E2];
      cbn [src_PSubsequence_next_loop1 pull_until]; rewrite E1, E2, cmpb_le_int; unfold zlen; cbn [int_of];
      destruct (Z.of_nat (List.length values) <=? pos + off); try reflexivity.
    destruct (Step.anext binop LMAX f pattern) as [o pattern']. destruct o; try reflexivity.
    rewrite (IH _ _ _ _ _ _ _ _ Hoff). reflexivity.
  Qed.

  Lemma PSubsequence_next_src f pattern offset length pos values :
    (forall v a, value f offset = (Yield v, a) -> index_like v) ->
    step (S f) (PSubsequence pattern offset length pos values) =
    src_PSubsequence_next Val.binop value (fun _ => anext f) f f pattern offset length pos values.
  Proof.
    intro H. open_ src_PSubsequence_next.
    destruct (Step.value binop LMAX f offset) as [oo offset'] eqn:E. destruct oo as [voff| | | |]; try reflexivity.
    specialize (H _ _ eq_refl). unfold index_like in H.
    destruct (Step.value binop LMAX f length) as [ol length']. destruct ol as [vlen| | | |]; try reflexivity.
    unfold cmp. destruct (omap truthy (Val.binop OGe (VInt pos) vlen)) as [[|]| | | |]; try reflexivity.
    destruct (int_of voff) as [off|] eqn:Eo.
    - rewrite (PSubsequence_loop_src _ _ _ _ _ _ _ _ _ _ _ _ Eo). reflexivity.
    - subst voff. destruct f; reflexivity.
  Qed.
  Lemma PSubsequence_reset_src f pattern offset length pos values :
    reset (S f) (PSubsequence pattern offset length pos values) =
    src_PSubsequence_reset (reset f) value f pattern offset length pos values.
  Proof. reflexivity. Qed.
  Lemma PSubsequence_init_src f pattern offset length :
    construct f CSubsequence [pattern; offset; length] = src_PSubsequence_init (reset f) value f pattern offset length.
  Proof. reflexivity. Qed.

  (** classes that call methods of their children or of themselves: x.reset() is [areset_strict], x.all() is [aall] with
      the default maximum LENGTH_MAX, next(self) is [step] *)
  Notation preset := (areset_strict binop LMAX).
  Notation pall := (fun n a => aall binop LMAX n LMAX a).

  Lemma PReset_next_src f pattern trigger :
    step (S f) (PReset pattern trigger) = src_PReset_next Val.binop value anext f preset pattern trigger.
  Proof.
    open_ src_PReset_next. fold (Step.areset_strict binop LMAX). tie.
  Qed.
  Lemma PReset_reset_src f pattern trigger : reset (S f) (PReset pattern trigger) = src_PReset_reset (reset f) value f pattern trigger.
  Proof. reflexivity. Qed.
  Lemma PReset_init_src f pattern trigger : construct f CReset [pattern; trigger] = src_PReset_init (reset f) value f pattern trigger.
  Proof. reflexivity. Qed.

  Lemma PPingPong_next_src f pattern count values pos dir rpos :
    step (S f) (PPingPong pattern count values pos dir rpos) =
    src_PPingPong_next Val.binop value anext f pattern count values pos dir rpos.
  Proof. open_ src_PPingPong_next. tie. Qed.
  (* super().reset(); self.pattern.reset(); self.values = self.pattern.all(); ... *)
  Lemma PPingPong_reset_src f pattern count values pos dir rpos :
    reset (S f) (PPingPong pattern count values pos dir rpos) =
    src_PPingPong_reset (reset f) value f preset pall pattern count values pos dir rpos.
  Proof. reflexivity. Qed.
  Lemma PPingPong_init_src f pattern count :
    construct (S f) CPingPong [pattern; AV count] = src_PPingPong_init (reset f) value f preset pall pattern count.
  Proof. reflexivity. Qed.

  (* try: return next(self.inputs[self.pos]) except StopIteration: .. self.pos += 1; return next(self) *)
  Lemma PConcatenate_next_src f inputs pos :
    step (S f) (PConcatenate inputs pos) = src_PConcatenate_next Val.binop value anext f step inputs pos.
  Proof. open_ src_PConcatenate_next. rewrite ?zlen_update_nth. tie; rewrite ?zlen_update_nth in *; congruence. Qed.
  Lemma PConcatenate_reset_src f inputs pos : reset (S f) (PConcatenate inputs pos) = src_PConcatenate_reset (reset f) value f inputs pos.
  Proof. reflexivity. Qed.
  Lemma PConcatenate_init_src f inputs : construct f CConcatenate [inputs] = src_PConcatenate_init (reset f) value f inputs.
  Proof. reflexivity. Qed.

  (* `list = Pattern.value(self.list)` then `item not in list` / `list.index(item)`: a list literal held by the attribute
     is the list value (cvalue).  Step.v's clause does not special-case a DICT literal there (it declines at once), the
     translation reads it as a value and declines at the `in`: the same outcome (Inexact) but after stepping `item` -
     hence the hypothesis. *)
  Lemma PIndexOf_next_src f l i :
    (forall kv, l <> AD kv) ->
    step (S f) (PIndexOf l i) = src_PIndexOf_next Val.binop value anext f l i.
  Proof.
    intro H. open_ src_PIndexOf_next. unfold cvalue, py_contains, py_list_index.
    destruct l; try (exfalso; eapply H; reflexivity); tie.
  Qed.
  Lemma PIndexOf_reset_src f l i : reset (S f) (PIndexOf l i) = src_PIndexOf_reset (reset f) value f l i.
  Proof. reflexivity. Qed.
  Lemma PIndexOf_init_src f l i : construct f CIndexOf [l; i] = src_PIndexOf_init (reset f) value f l i.
  Proof. reflexivity. Qed.

  (* `vdict = Pattern.value(self.dict)`, `return vdict[vkey]`: likewise with a dict literal; hypothesis: not a LIST literal *)
  Lemma PDictKey_next_src f d k :
    (forall l, d <> AL l) ->
    step (S f) (PDictKey d k) = src_PDictKey_next Val.binop value anext f d k.
  Proof.
    intro H. open_ src_PDictKey_next. unfold cvalue, py_getitem.
    destruct d; try (exfalso; eapply H; reflexivity); tie.
  Qed.
  Lemma PDictKey_reset_src f d k : reset (S f) (PDictKey d k) = src_PDictKey_reset (reset f) value f d k.
  Proof. reflexivity. Qed.
  Lemma PDictKey_init_src f d k : construct f CDictKey [d; k] = src_PDictKey_init (reset f) value f d k.
  Proof. reflexivity. Qed.

  (** PArrayIndex: `if self.exhausted: raise StopIteration`, then inside try / except StopIteration (which sets the flag and
      re-raises): `list = Pattern.value(self.list)` is a list literal whose selected item is stepped in place, or whatever
      value Pattern.value gives, subscripted as a value; `index = int(index)` *)
  Lemma py_int_int v x : py_int v = Yield x -> exists i, x = VInt i.
  Proof. destruct v; cbn; intro H; try discriminate; injection H as <-; eauto. Qed.
  Lemma PArrayIndex_next_src f l i e :
    step (S f) (PArrayIndex l i e) = src_PArrayIndex_next Val.binop value anext f l i e.
  Proof.
    open_ src_PArrayIndex_next. unfold py_seq_item, is_stop.
    destruct e; [reflexivity|].
    destruct l; tie;
      try (match goal with H : py_int _ = Yield _ |- _ => destruct (py_int_int _ _ H) as [? ->] end; cbn [int_of] in *; tie; try congruence).
    all: try (cbn [py_int int_of] in *; congruence).
  Qed.

  (** PDict: `vdict = Pattern.value(self.dict)` is the dict held by the attribute; dict([(k, Pattern.value(vdict[k])) for k in vdict]) *)
  Lemma PDict_next_src f d : step (S f) (PDict d) = src_PDict_next Val.binop value anext f d.
  Proof. open_ src_PDict_next. tie. Qed.

  (** PMap (PRound and the other subclasses inherit this __next__; the stored function is applied by Step.apply_fn) *)
  Lemma PMap_next_src f input operator args kwargs :
    step (S f) (PMap input operator args kwargs) = src_PMap_next Val.binop value anext f input operator args kwargs.
  Proof. open_ src_PMap_next. tie. Qed.

  (** reset() and __init__ of PArrayIndex, reset() of PDict *)
  Lemma PArrayIndex_reset_src f l i e : reset (S f) (PArrayIndex l i e) = src_PArrayIndex_reset (reset f) value f l i e.
  Proof. reflexivity. Qed.
  Lemma PArrayIndex_init_src f l i : construct f CArrayIndex [l; i] = src_PArrayIndex_init (reset f) value f l i.
  Proof. reflexivity. Qed.
  Lemma PDict_reset_src f d : reset (S f) (PDict d) = src_PDict_reset (reset f) value f d.
  Proof. reflexivity. Qed.

  (** * One call of __next__ / reset() as the source text defines it *)

  (* the translated body of the object's class applied to its fields; the children are run by the engine.  Classes the
     translator rejects (see the header of Generated/TablesStep.v) keep the hand-written clause. *)
  Definition src_step (fuel : nat) (p : pat) : outcome val * pat :=
    match fuel with
    | O => (OutOfFuel, p)
    | S f =>
        match p with
        | PConstant c => src_PConstant_next Val.binop value anext f c
        | PRef a => src_PRef_next Val.binop value anext f a
        | PAbs a => src_PAbs_next Val.binop value anext f a
        | PInt a => src_PInt_next Val.binop value anext f a
        | PBinOp o a b =>
            match o with
            | OAdd => src_PAdd_next
            | OSub => src_PSub_next
            | OMul => src_PMul_next
            | ODiv => src_PDiv_next
            | OFloorDiv => src_PFloorDiv_next
            | OMod => src_PMod_next
            | OPow => src_PPow_next
            | OLShift => src_PLShift_next
            | ORShift => src_PRShift_next
            | OEq => src_PEqual_next
            | ONe => src_PNotEqual_next
            | OGt => src_PGreaterThan_next
            | OGe => src_PGreaterThanOrEqual_next
            | OLt => src_PLessThan_next
            | OLe => src_PLessThanOrEqual_next
            end binop value anext f a b
        | PAnd a b => src_PAnd_next Val.binop value anext f a b
        | PSequence sequence repeats rcount pos => src_PSequence_next Val.binop value anext f sequence repeats rcount pos
        | PSeries start v stp length count => src_PSeries_next Val.binop value anext f start v stp length count
        | PRange start e stp v => src_PRange_next Val.binop value anext f start e stp v
        | PGeom start v m length count => src_PGeom_next Val.binop value anext f start v m length count
        | PImpulse period pos => src_PImpulse_next Val.binop value anext f period pos
        | PCounter trigger v count => src_PCounter_next Val.binop value anext f trigger v count
        | PStutter pattern count cc pos v => src_PStutter_next Val.binop value anext f pattern count cc pos v
        | PPad pattern length count => src_PPad_next Val.binop value anext f pattern length count
        | PPadToMultiple pattern multiple minimum_pad count padcount =>
            src_PPadToMultiple_next Val.binop value anext f pattern multiple minimum_pad count padcount
        | PLoop pattern count pos loop_index read_all values =>
            src_PLoop_next Val.binop value anext f pattern count pos loop_index read_all values
        | PReverse input values => src_PReverse_next Val.binop value anext f input values
        | PCollapse input => src_PCollapse_next Val.binop value anext f (S f) input
        | PNoRepeats input v => src_PNoRepeats_next Val.binop value anext f (S f) input v
        | PChanged source current => src_PChanged_next Val.binop value anext f source current
        | PDiff source current => src_PDiff_next Val.binop value anext f source current
        | PSkipIf pattern skip => src_PSkipIf_next Val.binop value anext f pattern skip
        | PWrap pattern mn mx => src_PWrap_next Val.binop value anext f f pattern mn mx
        | PReset pattern trigger => src_PReset_next Val.binop value anext f (areset_strict binop LMAX) pattern trigger
        | PPingPong pattern count values pos dir rpos => src_PPingPong_next Val.binop value anext f pattern count values pos dir rpos
        | PConcatenate inputs pos => src_PConcatenate_next Val.binop value anext f step inputs pos
        | PArrayIndex l i e => src_PArrayIndex_next Val.binop value anext f l i e
        | PDict d => src_PDict_next Val.binop value anext f d
        | PMap input operator args kwargs => src_PMap_next Val.binop value anext f input operator args kwargs
        | _ => step fuel p
        end
    end.

  Ltac head_of t := lazymatch t with ?g _ => head_of g | _ => t end.
  Theorem src_step_is fuel p : src_step fuel p = step fuel p.
  Proof.
    destruct fuel as [|f]; [reflexivity|].
    destruct p; try match goal with o : op |- _ => destruct o end; cbn [src_step]; symmetry;
      lazymatch goal with
      | |- _ = ?R =>
          let h := head_of R in
          lazymatch h with
      | src_PRef_next => apply PRef_next_src
      | src_PAbs_next => apply PAbs_next_src
      | src_PInt_next => apply PInt_next_src
      | src_PAnd_next => apply PAnd_next_src
      | src_PRange_next => apply PRange_next_src
      | src_PGeom_next => apply PGeom_next_src
      | src_PImpulse_next => apply PImpulse_next_src
      | src_PCounter_next => apply PCounter_next_src
      | src_PStutter_next => apply PStutter_next_src
      | src_PPad_next => apply PPad_next_src
      | src_PPadToMultiple_next => apply PPadToMultiple_next_src
      | src_PLoop_next => apply PLoop_next_src
      | src_PCollapse_next => apply PCollapse_next_src
      | src_PNoRepeats_next => apply PNoRepeats_next_src
      | src_PChanged_next => apply PChanged_next_src
      | src_PDiff_next => apply PDiff_next_src
      | src_PSkipIf_next => apply PSkipIf_next_src
      | src_PWrap_next => apply PWrap_next_src
      | src_PSequence_next => apply PSequence_next_src
      | src_PReset_next => apply PReset_next_src
      | src_PPingPong_next => apply PPingPong_next_src
      | src_PConcatenate_next => apply PConcatenate_next_src
      | src_PArrayIndex_next => apply PArrayIndex_next_src
      | src_PDict_next => apply PDict_next_src
      | src_PMap_next => apply PMap_next_src
      | src_PAdd_next => apply PAdd_next_src
      | src_PSub_next => apply PSub_next_src
      | src_PMul_next => apply PMul_next_src
      | src_PDiv_next => apply PDiv_next_src
      | src_PFloorDiv_next => apply PFloorDiv_next_src
      | src_PMod_next => apply PMod_next_src
      | src_PPow_next => apply PPow_next_src
      | src_PLShift_next => apply PLShift_next_src
      | src_PRShift_next => apply PRShift_next_src
      | src_PEqual_next => apply PEqual_next_src
      | src_PNotEqual_next => apply PNotEqual_next_src
      | src_PGreaterThan_next => apply PGreaterThan_next_src
      | src_PGreaterThanOrEqual_next => apply PGreaterThanOrEqual_next_src
      | src_PLessThan_next => apply PLessThan_next_src
      | src_PLessThanOrEqual_next => apply PLessThanOrEqual_next_src
          | _ => reflexivity
          end
      end.
  Qed.

  Definition src_reset (fuel : nat) (p : pat) : outcome pat :=
    match fuel with
    | O => OutOfFuel
    | S f =>
        match p with
        | PConstant c => src_PConstant_reset (reset f) value f c
        | PRef a => src_PRef_reset (reset f) value f a
        | PAbs a => src_PAbs_reset (reset f) value f a
        | PInt a => src_PInt_reset (reset f) value f a
        | PBinOp o a b =>
            match o with
            | OAdd => src_PAdd_reset
            | OSub => src_PSub_reset
            | OMul => src_PMul_reset
            | ODiv => src_PDiv_reset
            | OFloorDiv => src_PFloorDiv_reset
            | OMod => src_PMod_reset
            | OPow => src_PPow_reset
            | OLShift => src_PLShift_reset
            | ORShift => src_PRShift_reset
            | OEq => src_PEqual_reset
            | ONe => src_PNotEqual_reset
            | OGt => src_PGreaterThan_reset
            | OGe => src_PGreaterThanOrEqual_reset
            | OLt => src_PLessThan_reset
            | OLe => src_PLessThanOrEqual_reset
            end (reset f) value f a b
        | PAnd a b => src_PAnd_reset (reset f) value f a b
        | PSequence sequence repeats rcount pos => src_PSequence_reset (reset f) value f sequence repeats rcount pos
        | PSeries start v stp length count => src_PSeries_reset (reset f) value f start v stp length count
        | PRange start e stp v => src_PRange_reset (reset f) value f start e stp v
        | PGeom start v m length count => src_PGeom_reset (reset f) value f start v m length count
        | PImpulse period pos => src_PImpulse_reset (reset f) value f period pos
        | PCounter trigger v count => src_PCounter_reset (reset f) value f trigger v count
        | PStutter pattern count cc pos v => src_PStutter_reset (reset f) value f pattern count cc pos v
        | PPad pattern length count => src_PPad_reset (reset f) value f pattern length count
        | PPadToMultiple pattern multiple minimum_pad count padcount =>
            src_PPadToMultiple_reset (reset f) value f pattern multiple minimum_pad count padcount
        | PLoop pattern count pos loop_index read_all values =>
            src_PLoop_reset (reset f) value f pattern count pos loop_index read_all values
        | PSubsequence pattern offset length pos values =>
            src_PSubsequence_reset (reset f) value f pattern offset length pos values
        | PCollapse input => src_PCollapse_reset (reset f) value f input
        | PNoRepeats input v => src_PNoRepeats_reset (reset f) value f input v
        | PChanged source current => src_PChanged_reset (reset f) value f source current
        | PDiff source current => src_PDiff_reset (reset f) value f source current
        | PSkipIf pattern skip => src_PSkipIf_reset (reset f) value f pattern skip
        | PWrap pattern mn mx => src_PWrap_reset (reset f) value f pattern mn mx
        | PReset pattern trigger => src_PReset_reset (reset f) value f pattern trigger
        | PPingPong pattern count values pos dir rpos =>
            src_PPingPong_reset (reset f) value f (areset_strict binop LMAX) (fun n a => aall binop LMAX n LMAX a) pattern count values pos dir rpos
        | PIndexOf l i => src_PIndexOf_reset (reset f) value f l i
        | PConcatenate inputs pos => src_PConcatenate_reset (reset f) value f inputs pos
        | PArrayIndex l i e => src_PArrayIndex_reset (reset f) value f l i e
        | PDictKey d k => src_PDictKey_reset (reset f) value f d k
        | PDict d => src_PDict_reset (reset f) value f d
        | _ => reset fuel p
        end
    end.

  Theorem src_reset_is fuel p : src_reset fuel p = reset fuel p.
  Proof. destruct fuel as [|f]; [reflexivity|]. destruct p; try reflexivity. destruct o; reflexivity. Qed.

  (** the first n results of repeated next(), each call executed as the source defines it *)
  Fixpoint src_outputs (fuel n : nat) (p : pat) : list (outcome val) * pat :=
    match n with
    | O => ([], p)
    | S n' => let '(o, p') := src_step fuel p in let '(os, p'') := src_outputs fuel n' p' in (o :: os, p'')
    end.
  Theorem src_outputs_is fuel n : forall p, src_outputs fuel n p = outputs binop LMAX fuel n p.
  Proof.
    induction n as [|n IH]; intro p; [reflexivity|]. cbn [src_outputs outputs]. rewrite src_step_is.
    destruct (step fuel p) as [o p']. rewrite IH. reflexivity.
  Qed.
End Tie.

(* Pat/IeeeSpecialProofs.v — facts about the operator semantics with the special IEEE values (Pat/IeeeSpecial.v).

   1. Order: NaN is unordered.  x >= y is NOT `not (x < y)`: they agree exactly when neither operand is a NaN;
      exactly one of x < y, x == y, x > y holds iff neither is a NaN (none holds otherwise); every comparison
      with a NaN is False except != ; an ordering derived from the three-way value (a > b) - (a < b) is right
      for > and < and is right for >= and <= exactly on ordered operands.
   2. The reflected-form side condition of Props/C08.v holds for ALL operand values, special ones included:
      + and * commute (also when an int operand overflows the conversion), == and != are symmetric, < mirrors >.
   3. Arithmetic: a NaN operand gives NaN, inf - inf, 0 * inf, inf / inf are NaN, x / 0 raises whatever x is,
      a result beyond the largest finite float is an infinity.
   4. Composition with the pattern model: under the encoding [enc], [binop_sp] is [xbinop], so every theorem of
      Pat/OpProofs.v (proved for an arbitrary operator semantics) speaks about operand streams with special
      values: the i-th output of a PBinOp class is [xelem o x_i y_i].
   5. On finite operands nothing changed: where Pat/Ieee.v [binop_ieee] gives a value, [xbinop] gives the same. *)
From Isobar Require Import Base.Prelude Pat.Val Pat.Syntax Pat.Step Pat.StepProofs Pat.Dunder Pat.OpProofs
  Pat.Ieee Pat.IeeeProofs Pat.IeeeSpecial.
From Coq Require Import String QArith Qround Qabs.
Open Scope Z_scope.

(** * Rationals: exactly one of a < b, a == b, b < a *)
Lemma q_tri a b :
  (Qltb a b = true /\ Qeq_bool a b = false /\ Qeq_bool b a = false /\ Qltb b a = false) \/
  (Qltb a b = false /\ Qeq_bool a b = true /\ Qeq_bool b a = true /\ Qltb b a = false) \/
  (Qltb a b = false /\ Qeq_bool a b = false /\ Qeq_bool b a = false /\ Qltb b a = true).
Proof.
  unfold Qltb. rewrite (OpProofs.Qeq_bool_sym b a).
  destruct (Qle_bool b a) eqn:E1, (Qle_bool a b) eqn:E2, (Qeq_bool a b) eqn:E3; cbn;
    try (left; repeat split; reflexivity); try (right; left; repeat split; reflexivity);
    try (right; right; repeat split; reflexivity); exfalso.
  - apply Qle_bool_iff in E1. apply Qle_bool_iff in E2.
    assert (H : (a == b)%Q) by (apply Qle_antisym; assumption).
    apply Qeq_bool_iff in H. congruence.
  - apply Qeq_bool_iff in E3. assert (H : (a <= b)%Q) by (rewrite E3; apply Qle_refl).
    apply Qle_bool_iff in H. congruence.
  - apply Qeq_bool_iff in E3. assert (H : (b <= a)%Q) by (rewrite E3; apply Qle_refl).
    apply Qle_bool_iff in H. congruence.
  - destruct (Qlt_le_dec a b) as [H|H].
    + apply Qlt_le_weak, Qle_bool_iff in H. congruence.
    + apply Qle_bool_iff in H. congruence.
  - destruct (Qlt_le_dec a b) as [H|H].
    + apply Qlt_le_weak, Qle_bool_iff in H. congruence.
    + apply Qle_bool_iff in H. congruence.
Qed.

Ltac qtri a b :=
  let H := fresh in
  let H1 := fresh in let H2 := fresh in let H3 := fresh in let H4 := fresh in
  destruct (q_tri a b) as [H|[H|H]]; destruct H as (H1 & H2 & H3 & H4); rewrite ?H1, ?H2, ?H3, ?H4.

(** * 1. Order *)
(** >= is `not <` exactly on ordered operands; with a NaN both x >= y and x < y are False *)
Lemma xge_spec x y : xge x y = negb (xlt x y) && negb (unordered x y).
Proof.
  destruct x as [|[|]|a], y as [|[|]|b]; try reflexivity.
  unfold xge, xle, xlt, xeq, unordered, is_nan. qtri a b; reflexivity.
Qed.
Lemma xle_spec x y : xle x y = negb (xgt x y) && negb (unordered x y).
Proof.
  change (xle x y) with (xge y x). rewrite xge_spec. unfold xgt, unordered.
  rewrite (orb_comm (is_nan y)). reflexivity.
Qed.

Lemma xge_is_not_lt_iff_ordered x y : xge x y = negb (xlt x y) <-> unordered x y = false.
Proof.
  rewrite xge_spec. destruct (unordered x y) eqn:U; split; intro H; try reflexivity; try discriminate.
  - rewrite andb_false_r in H.
    assert (xlt x y = false).
    { unfold unordered in U. destruct x, y; cbn in U; try discriminate; reflexivity. }
    rewrite H0 in H. discriminate.
  - rewrite andb_true_r. reflexivity.
Qed.

Lemma xge_not_negb_xlt_witness : xge XNaN XNaN = false /\ negb (xlt XNaN XNaN) = true.
Proof. split; reflexivity. Qed.

(** trichotomy holds exactly on non-NaN operands *)
Lemma x_trichotomy x y :
  (Nat.b2n (xlt x y) + Nat.b2n (xeq x y) + Nat.b2n (xgt x y))%nat = if unordered x y then 0%nat else 1%nat.
Proof.
  destruct x as [|[|]|a], y as [|[|]|b]; try reflexivity.
  unfold xgt, xlt, xeq, unordered, is_nan. qtri a b; reflexivity.
Qed.

(** every comparison with a NaN is False, except != *)
Lemma xcmp_nan o y : is_cmp o = true ->
  xcmp o XNaN y = op_eqb o ONe /\ xcmp o y XNaN = op_eqb o ONe.
Proof.
  intro H. destruct o; try discriminate; destruct y as [|[|]|b]; split; reflexivity.
Qed.

(** orderings derived from the three-way value (a > b) - (a < b): > and < are right, >= and <= are right
    exactly on ordered operands — on unordered operands they answer True where Python answers False *)
Lemma xlt_ordered x y : xlt x y = true -> unordered x y = false.
Proof. destruct x as [|[|]|a], y as [|[|]|b]; cbn; intro H; try discriminate; reflexivity. Qed.

Lemma cmp3_cases x y :
  (xlt x y = true /\ xgt x y = false /\ cmp3 x y = -1 /\ unordered x y = false) \/
  (xlt x y = false /\ xgt x y = true /\ cmp3 x y = 1 /\ unordered x y = false) \/
  (xlt x y = false /\ xgt x y = false /\ cmp3 x y = 0).
Proof.
  unfold cmp3.
  assert (H := x_trichotomy x y).
  destruct (xlt x y) eqn:L, (xgt x y) eqn:G; cbn.
  - exfalso. destruct (xeq x y), (unordered x y); cbn in H; discriminate.
  - left. repeat split. apply xlt_ordered. exact L.
  - right; left. repeat split. unfold xgt in G. apply xlt_ordered in G.
    unfold unordered in *. rewrite orb_comm. exact G.
  - right; right. repeat split.
Qed.

Lemma gt3_spec x y : gt3 x y = xgt x y.
Proof. unfold gt3. destruct (cmp3_cases x y) as [(_&->&->&_)|[(_&->&->&_)|(_&->&->)]]; reflexivity. Qed.
Lemma lt3_spec x y : lt3 x y = xlt x y.
Proof. unfold lt3. destruct (cmp3_cases x y) as [(->&_&->&_)|[(->&_&->&_)|(->&_&->)]]; reflexivity. Qed.
Lemma ge3_spec x y : ge3 x y = xge x y || unordered x y.
Proof.
  rewrite xge_spec. unfold ge3.
  destruct (cmp3_cases x y) as [(->&_&->&->)|[(->&_&->&->)|(->&_&->)]]; cbn; try reflexivity.
  destruct (unordered x y); reflexivity.
Qed.
Lemma le3_spec x y : le3 x y = xle x y || unordered x y.
Proof.
  rewrite xle_spec. unfold le3.
  destruct (cmp3_cases x y) as [(_&->&->&->)|[(_&->&->&->)|(_&->&->)]]; cbn; try reflexivity.
  destruct (unordered x y); reflexivity.
Qed.
Lemma ge3_right_iff_ordered x y : ge3 x y = xge x y <-> unordered x y = false.
Proof.
  rewrite ge3_spec, xge_spec. destruct (unordered x y); cbn; split; intro H; try reflexivity; try discriminate.
  - rewrite andb_false_r in H. discriminate.
  - rewrite orb_false_r. reflexivity.
Qed.

(** * 2. Reflected forms *)
Lemma xeq_sym x y : xeq x y = xeq y x.
Proof.
  destruct x as [|[|]|a], y as [|[|]|b]; try reflexivity.
  apply OpProofs.Qeq_bool_sym.
Qed.
Lemma xcmp_mirror o x y : is_cmp o = true -> xcmp (mirror o) y x = xcmp o x y.
Proof.
  intro H. destruct o; try discriminate; cbn [mirror xcmp]; try reflexivity.
  - apply xeq_sym.
  - unfold xne. rewrite xeq_sym. reflexivity.
Qed.

Lemma xadd_comm x y : xadd x y = xadd y x.
Proof.
  destruct x as [|[|]|a], y as [|[|]|b]; try reflexivity.
  cbn. rewrite Qplus_comm_eq. reflexivity.
Qed.
Lemma xmul_comm x y : xmul x y = xmul y x.
Proof.
  destruct x as [|s|a], y as [|t|b]; cbn; try reflexivity;
    try (rewrite xorb_comm; reflexivity).
  rewrite Qmult_comm_eq. reflexivity.
Qed.

Lemma xto_f_cases v : xnone v = false -> (exists x, xto_f v = Yield x) \/ xto_f v = Raise OverflowError.
Proof.
  destruct v as [|b|z|x]; cbn; try discriminate; intros _; eauto.
  - destruct (round64_cases (inject_Z (if b then 1 else 0))) as [[r ->] | ->]; eauto.
  - destruct (round64_cases (inject_Z z)) as [[r ->] | ->]; eauto.
Qed.

Lemma float_branch_comm o a b : o = OAdd \/ o = OMul -> xnone a = false -> xnone b = false ->
  obind (xto_f a) (fun x => obind (xto_f b) (fun y => omap XF (xarith o x y)))
  = obind (xto_f b) (fun y => obind (xto_f a) (fun x => omap XF (xarith o y x))).
Proof.
  intros Ho Ha Hb.
  destruct (xto_f_cases a Ha) as [[x ->] | ->], (xto_f_cases b Hb) as [[y ->] | ->]; cbn [obind]; try reflexivity.
  destruct Ho as [-> | ->]; cbn [xarith omap obind]; [rewrite xadd_comm | rewrite xmul_comm]; reflexivity.
Qed.

Lemma xexact_some v : xnone v = false -> exists x, xexact v = Some x.
Proof. destruct v; cbn; try discriminate; eauto. Qed.

Lemma xbinop_comm o a b : o = OAdd \/ o = OMul -> xnone a = false -> xnone b = false ->
  xbinop o a b = xbinop o b a.
Proof.
  intros Ho Ha Hb. unfold xbinop.
  assert (C : is_cmp o = false) by (destruct Ho; subst; reflexivity).
  assert (A : is_arith4 o = true) by (destruct Ho; subst; reflexivity).
  destruct a; try discriminate; destruct b; try discriminate; rewrite C; cbn [xint];
    try (rewrite A; apply float_branch_comm; auto);
    destruct Ho as [-> | ->]; cbn [int_binop xlift obind xof_val]; f_equal; f_equal; lia.
Qed.

Lemma xbinop_cmp_mirror o a b : is_cmp o = true -> xbinop (mirror o) b a = xbinop o a b.
Proof.
  intro H.
  assert (M : is_cmp (mirror o) = true) by (destruct o; try discriminate; reflexivity).
  unfold xbinop.
  destruct a, b; rewrite ?H, ?M; cbn [xexact xnone andb];
    try (rewrite xcmp_mirror by exact H; reflexivity);
    destruct o; try discriminate; reflexivity.
Qed.

(** for every operator whose reflected method swaps the operands, the element computed is the one for the
    WRITTEN order — for all operand values, NaN and the infinities included *)
Lemma xelem_reflected o c y : swapped_when_reflected o = true ->
  xelem (mirror o) y c = xelem o c y.
Proof.
  intro Hs. unfold xelem. rewrite (orb_comm (xnone y)).
  destruct (xnone c || xnone y) eqn:N; [reflexivity|].
  apply orb_false_iff in N as [Nc Ny].
  destruct o; try discriminate; cbn [mirror];
    try (apply xbinop_comm; auto; fail);
    try (apply (xbinop_cmp_mirror OEq); reflexivity);
    try (apply (xbinop_cmp_mirror ONe); reflexivity).
  - apply (xbinop_cmp_mirror OGt); reflexivity.
  - apply (xbinop_cmp_mirror OGe); reflexivity.
  - apply (xbinop_cmp_mirror OLt); reflexivity.
  - apply (xbinop_cmp_mirror OLe); reflexivity.
Qed.

(** * 3. Arithmetic with the special values *)
Lemma nan_propagates y :
  xadd XNaN y = XNaN /\ xadd y XNaN = XNaN /\ xsub XNaN y = XNaN /\ xsub y XNaN = XNaN /\
  xmul XNaN y = XNaN /\ xmul y XNaN = XNaN /\ xabs XNaN = XNaN /\ xneg XNaN = XNaN /\
  (xtruthy y = true -> xdiv XNaN y = Yield XNaN) /\ xdiv y XNaN = Yield XNaN.
Proof.
  destruct y as [|t|b]; cbn; repeat split; try reflexivity; try (intros _; reflexivity).
  - intro H. destruct (qzero b); [discriminate | reflexivity].
Qed.

Lemma inf_arithmetic s :
  xsub (XInf s) (XInf s) = XNaN /\ xadd (XInf s) (XInf (negb s)) = XNaN /\
  xmul (XInf s) (XFin 0) = XNaN /\ xmul (XFin 0) (XInf s) = XNaN /\
  xdiv (XInf s) (XInf s) = Yield XNaN /\
  (forall q, xadd (XInf s) (XFin q) = XInf s /\ xsub (XFin q) (XInf s) = XInf (negb s) /\
             xdiv (XFin q) (XInf s) = Yield (XFin 0)) /\
  xabs (XInf s) = XInf false /\ xtruthy (XInf s) = true /\ xtruthy XNaN = true.
Proof. destruct s; cbn; repeat split; reflexivity. Qed.

(** a zero divisor raises, whatever the dividend (nan / 0.0, inf / 0.0 included) *)
Lemma xdiv_zero x : xdiv x (XFin 0) = Raise ZeroDivisionError.
Proof. reflexivity. Qed.

(** a finite result is the correctly rounded one; beyond the finite range it is an infinity of the right sign *)
Lemma fin_round_cases q :
  (exists r, round64 q = Yield r /\ fin_round q = XFin r) \/ (round64 q = Inexact /\ fin_round q = XInf (qneg q)).
Proof. unfold fin_round. destruct (round64_cases q) as [[r ->] | ->]; eauto. Qed.

(** * 4. Composition with the pattern model *)
Lemma dec_enc x : dec (enc x) = Some x.
Proof. destruct x as [| | |[|[|]|q]]; reflexivity. Qed.
Lemma is_none_enc x : is_none (enc x) = xnone x.
Proof. destruct x as [| | |[|[|]|q]]; reflexivity. Qed.
Lemma truthy_enc x : truthy (enc x) = xtruthy_v x.
Proof. destruct x as [| | |[|[|]|q]]; reflexivity. Qed.

Lemma binop_sp_enc o x y : binop_sp o (enc x) (enc y) = omap enc (xbinop o x y).
Proof. unfold binop_sp. rewrite !dec_enc. reflexivity. Qed.

Lemma elem_sp_enc o x y : elem binop_sp o (enc x) (enc y) = omap enc (xelem o x y).
Proof.
  unfold elem, xelem. rewrite !is_none_enc.
  destruct (xnone x || xnone y); [reflexivity | apply binop_sp_enc].
Qed.
Lemma elem_and_enc x y : elem_and (enc x) (enc y) = omap enc (xelem_and x y).
Proof. unfold elem_and, xelem_and. rewrite !truthy_enc. reflexivity. Qed.

Lemma zipw_elem_sp o xs ys :
  zipw (elem binop_sp o) (map enc xs) (map enc ys) = zipw (fun x y => omap enc (xelem o x y)) xs ys.
Proof.
  revert ys; induction xs as [|x xs IH]; intros [|y ys]; cbn; try reflexivity.
  rewrite elem_sp_enc, IH. reflexivity.
Qed.
Lemma zipw_and_sp xs ys :
  zipw elem_and (map enc xs) (map enc ys) = zipw (fun x y => omap enc (xelem_and x y)) xs ys.
Proof.
  revert ys; induction xs as [|x xs IH]; intros [|y ys]; cbn; try reflexivity.
  rewrite IH. f_equal. apply elem_and_enc.
Qed.

(** the element-wise law of Pat/OpProofs.v, read on operand streams with special values *)
Lemma special_lift LMAX o f n a b xs ys a' b' :
  vals binop_sp LMAX f n a = Some (map enc xs, a') -> vals binop_sp LMAX f n b = Some (map enc ys, b') ->
  outputs binop_sp LMAX (S f) n (PBinOp o a b)
    = (zipw (fun x y => omap enc (xelem o x y)) xs ys, PBinOp o a' b').
Proof. intros Ha Hb. rewrite (binop_lift binop_sp LMAX o f n a b _ _ a' b' Ha Hb), zipw_elem_sp. reflexivity. Qed.

Lemma special_and LMAX f n a b xs ys a' b' :
  vals binop_sp LMAX f n a = Some (map enc xs, a') -> vals binop_sp LMAX f n b = Some (map enc ys, b') ->
  outputs binop_sp LMAX (S f) n (PAnd a b)
    = (zipw (fun x y => omap enc (xelem_and x y)) xs ys, PAnd a' b').
Proof. intros Ha Hb. rewrite (and_lift binop_sp LMAX f n a b _ _ a' b' Ha Hb), zipw_and_sp. reflexivity. Qed.

(** the encoded semantics meets the side condition of the swapped reflected forms on every encoded value *)
Lemma elem_sp_reflected o c y : swapped_when_reflected o = true ->
  elem binop_sp (mirror o) (enc y) (enc c) = elem binop_sp o (enc c) (enc y).
Proof. intro H. rewrite !elem_sp_enc, xelem_reflected by exact H. reflexivity. Qed.

(** * 5. Conservative extension of Pat/Ieee.v *)
Lemma Qle_bool_inject a b : Qle_bool (inject_Z a) (inject_Z b) = (a <=? b).
Proof. unfold Qle_bool, inject_Z. cbn [Qnum Qden]. rewrite !Z.mul_1_r. reflexivity. Qed.
Lemma Qltb_inject a b : Qltb (inject_Z a) (inject_Z b) = (a <? b).
Proof. unfold Qltb. rewrite Qle_bool_inject. lia. Qed.
Lemma Qeq_bool_inject a b : Qeq_bool (inject_Z a) (inject_Z b) = (a =? b).
Proof.
  destruct (Qeq_bool (inject_Z a) (inject_Z b)) eqn:E, (a =? b) eqn:F; try reflexivity.
  - apply Qeq_bool_iff in E. unfold Qeq, inject_Z in E. cbn in E. lia.
  - assert (a = b) by lia. subst. assert (H : (inject_Z b == inject_Z b)%Q) by reflexivity.
    apply Qeq_bool_iff in H. congruence.
Qed.
Lemma Qle_bool_split x y : Qle_bool x y = Qltb x y || Qeq_bool x y.
Proof.
  destruct (q_tri x y) as [H|[H|H]]; destruct H as (H1 & H2 & H3 & H4); rewrite H1, H2; unfold Qltb in *.
  - destruct (Qle_bool x y) eqn:E; [reflexivity|].
    destruct (Qle_bool y x) eqn:F; cbn in *; try discriminate.
  - apply Qeq_bool_iff in H2. cbn. apply Qle_bool_iff. rewrite H2. apply Qle_refl.
  - cbn. destruct (Qle_bool x y); cbn in *; congruence.
Qed.

Section Conservative.
Local Arguments round64 : simpl never.
Local Arguments Qfloor : simpl never.
Local Arguments Z.pow : simpl never.
Local Arguments Qpower : simpl never.

Lemma omap_VFlt_yield q r : omap VFlt (round64 q) = Yield r -> exists r0, round64 q = Yield r0 /\ r = VFlt r0.
Proof. destruct (round64_cases q) as [[r0 E] | E]; rewrite E; cbn; intro H; inversion H; eauto. Qed.


Definition xnumv (v : val) : bool := match v with VBool _ | VInt _ | VFlt _ => true | _ => false end.

(* comparisons: outright equal on numbers *)
Lemma xbinop_cmp_val o a b xa xb : is_cmp o = true -> xnumv a = true -> xnumv b = true ->
  xof_val a = Some xa -> xof_val b = Some xb -> xbinop o xa xb = xlift (Val.binop o a b).
Proof.
  intros Ho Na Nb Ha Hb.
  destruct a; try discriminate; destruct b; try discriminate; inversion Ha; inversion Hb; subst; clear Ha Hb;
    destruct o; try discriminate; cbn -[Qltb Qle_bool Qeq_bool];
    unfold xge, xle, xgt, xlt, xeq, xne; rewrite ?Qfloor_Z, ?Qle_bool_split, ?Qltb_inject, ?Qeq_bool_inject;
    try reflexivity;
    unfold xeq; rewrite ?Qeq_bool_inject; f_equal; f_equal; lia.
Qed.

Lemma ieee_int o a b za zb : int_of a = Some za -> int_of b = Some zb -> is_cmp o = false -> o <> ODiv ->
  binop_ieee o a b = int_binop o za zb.
Proof.
  intros Ia Ib Hc Hd. rewrite (binop_ieee_ints o a b za zb Ia Ib Hd).
  destruct a; try discriminate; destruct b; try discriminate; inversion Ia; inversion Ib; subst;
    destruct o; try discriminate; try congruence; cbn; rewrite ?Qfloor_Z; reflexivity.
Qed.

Lemma xbinop_int o xa xb za zb : xint xa = Some za -> xint xb = Some zb -> is_cmp o = false -> o <> ODiv ->
  xbinop o xa xb = xlift (int_binop o za zb).
Proof.
  intros Ia Ib Hc Hd.
  destruct xa; try discriminate; destruct xb; try discriminate; inversion Ia; inversion Ib; subst;
    destruct o; try discriminate; try congruence; reflexivity.
Qed.

Ltac r64 H :=
  repeat match type of H with
  | context [round64 (inject_Z ?z)] =>
      let E := fresh "E" in
      destruct (round64_cases (inject_Z z)) as [[? E] | E]; rewrite E in H; cbn [obind to_flt] in H;
      [rewrite ?E | discriminate H]
  end.

Lemma xbinop_flt o a b xa xb r : is_arith4 o = true -> xnumv a = true -> xnumv b = true ->
  (int_of a = None \/ int_of b = None) ->
  xof_val a = Some xa -> xof_val b = Some xb -> binop_ieee o a b = Yield r -> xbinop o xa xb = xlift (Yield r).
Proof.
  intros Ho Na Nb Hf Ha Hb H.
  destruct a; try discriminate; destruct b; try discriminate; inversion Ha; inversion Hb; subst; clear Ha Hb;
    try (destruct Hf; discriminate);
    destruct o; try discriminate;
    unfold binop_ieee in H; cbn [ieee_arith int_of num_of to_flt obind] in H;
    unfold xbinop; cbn [xint is_cmp is_arith4 xto_f obind omap xarith];
    r64 H; cbn [obind omap xarith flt_ieee xadd xsub xneg xmul xdiv] in H |- *;
    try match type of H with context [qzero ?d] => destruct (qzero d); [discriminate H|] end;
    apply omap_VFlt_yield in H as [r0 [E2 ->]]; cbn [omap obind]; unfold fin_round;
    unfold Qminus in E2; rewrite E2; reflexivity.
Qed.

Lemma xbinop_intdiv a b xa xb za zb r : int_of a = Some za -> int_of b = Some zb ->
  xof_val a = Some xa -> xof_val b = Some xb -> binop_ieee ODiv a b = Yield r -> xbinop ODiv xa xb = xlift (Yield r).
Proof.
  intros Ia Ib Ha Hb H.
  assert (X : xint xa = Some za /\ xint xb = Some zb).
  { destruct a; try discriminate; destruct b; try discriminate; inversion Ha; inversion Hb; subst; split; assumption. }
  destruct X as [Xa Xb].
  unfold binop_ieee in H. cbn [ieee_arith] in H. rewrite Ia, Ib in H.
  assert (G : xbinop ODiv xa xb = if zb =? 0 then Raise ZeroDivisionError
              else match round64 (inject_Z za / inject_Z zb) with
                   | Yield r => Yield (XF (XFin r)) | _ => Raise OverflowError end).
  { destruct xa; try discriminate; destruct xb; try discriminate; inversion Xa; inversion Xb; subst; reflexivity. }
  rewrite G. destruct (zb =? 0); [discriminate H|].
  apply omap_VFlt_yield in H as [r0 [E2 ->]]. rewrite E2. reflexivity.
Qed.

Lemma xint_of a xa : xof_val a = Some xa -> xint xa = int_of a.
Proof. destruct a; try discriminate; intro H; inversion H; reflexivity. Qed.

(** where Pat/Ieee.v answers with a value, the extended semantics answers with the same value *)
Lemma xbinop_conservative o a b xa xb r :
  xof_val a = Some xa -> xof_val b = Some xb -> binop_ieee o a b = Yield r ->
  xbinop o xa xb = xlift (Yield r).
Proof.
  intros Ha Hb H.
  destruct (xnumv a && xnumv b) eqn:N.
  - apply andb_true_iff in N as [Na Nb].
    destruct (is_cmp o) eqn:C.
    { rewrite binop_ieee_cmp in H by exact C. rewrite (xbinop_cmp_val o a b xa xb C Na Nb Ha Hb), H. reflexivity. }
    destruct (int_of a) as [za|] eqn:Ia, (int_of b) as [zb|] eqn:Ib.
    + destruct (op_eqb o ODiv) eqn:D.
      * assert (o = ODiv) by (destruct o; try discriminate; reflexivity). subst o.
        exact (xbinop_intdiv a b xa xb za zb r Ia Ib Ha Hb H).
      * assert (Hd : o <> ODiv) by (intro; subst o; discriminate).
        rewrite (ieee_int o a b za zb Ia Ib C Hd) in H.
        rewrite (xbinop_int o xa xb za zb) by (rewrite ?(xint_of a xa Ha), ?(xint_of b xb Hb); assumption).
        rewrite H. reflexivity.
    + destruct (is_arith4 o) eqn:A.
      * apply (xbinop_flt o a b xa xb r A Na Nb); auto.
      * rewrite <- H.
        destruct a; try discriminate; destruct b; try discriminate; inversion Ha; inversion Hb; subst;
          destruct o; try discriminate; reflexivity.
    + destruct (is_arith4 o) eqn:A.
      * apply (xbinop_flt o a b xa xb r A Na Nb); auto.
      * rewrite <- H.
        destruct a; try discriminate; destruct b; try discriminate; inversion Ha; inversion Hb; subst;
          destruct o; try discriminate; reflexivity.
    + destruct (is_arith4 o) eqn:A.
      * apply (xbinop_flt o a b xa xb r A Na Nb); auto.
      * rewrite <- H.
        destruct a; try discriminate; destruct b; try discriminate; inversion Ha; inversion Hb; subst;
          destruct o; try discriminate; reflexivity.
  - (* a None operand: only == and != answer with a value *)
    destruct a; try discriminate; destruct b; try discriminate; inversion Ha; inversion Hb; subst; try discriminate N;
      destruct o;
      try (cbn in H; discriminate H);
      try (cbn in H; inversion H; subst; reflexivity);
      unfold binop_ieee in H; cbn [ieee_arith is_cmp] in H;
      (destruct (small_num _ && small_num _); [cbn in H|]; discriminate H).
Qed.
End Conservative.

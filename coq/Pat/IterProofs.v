(* Pat/IterProofs.v — C09: the iterator protocol.
   (1) the helpers nextn / all / len are the lists of repeated next();
   (2) StopIteration is sticky: [dead] (StopIteration for ever) for the classes that end by their own
       counters, [quiet] (never a value again) for expressions built over them, by induction on the nesting.
   Lemmas only; the model is Pat/Step.v. *)
From Isobar Require Import Base.Prelude Pat.Val Pat.Syntax Pat.Step Pat.StepProofs.
From Coq Require Import String QArith.
Open Scope Z_scope.

Section Iter.
  Variable binop : op -> val -> val -> outcome val.
  Variable LMAX : nat.
  Notation step := (step binop LMAX).
  Notation value := (value binop LMAX).
  Notation anext := (anext binop LMAX).
  Notation reset := (reset binop LMAX).
  Notation outputs := (outputs binop LMAX).
  Notation nextn := (nextn binop LMAX).
  Notation all_ := (all_ binop LMAX).
  Notation len := (len binop LMAX).

  (** * Helpers *)

  (** n values are available: nextn(n) returns them and leaves the object where n calls of next() leave it *)
  Lemma nextn_values f n : forall p vs p',
    outputs f n p = (map Yield vs, p') -> nextn f n p = (Yield vs, p').
  Proof.
    unfold Step.nextn. induction n as [|n IH]; intros p vs p' H.
    - cbn in H. destruct vs; inversion H. reflexivity.
    - rewrite outputs_S in H. cbn [take]. destruct (step f p) as [o p1].
      destruct (outputs f n p1) as [os p2] eqn:E. destruct vs as [|v vs]; inversion H; subst.
      rewrite (IH _ _ _ E). reflexivity.
  Qed.

  (** fewer than n are left: nextn(n) returns the j < n remaining values; the object has seen the StopIteration *)
  Lemma nextn_remaining f j n : forall p vs p1 p2,
    (j < n)%nat -> outputs f j p = (map Yield vs, p1) -> step f p1 = (Stop, p2) ->
    nextn f n p = (Yield vs, p2).
  Proof.
    unfold Step.nextn. revert n. induction j as [|j IH]; intros n p vs p1 p2 Hlt H Hs.
    - cbn in H. destruct vs; inversion H; subst. destruct n; [lia|]. cbn [take]. rewrite Hs. reflexivity.
    - destruct n; [lia|]. rewrite outputs_S in H. cbn [take]. destruct (step f p) as [o p'].
      destruct (outputs f j p') as [os p''] eqn:E. destruct vs as [|v vs]; inversion H; subst.
      rewrite (IH n _ _ _ _ ltac:(lia) E Hs). reflexivity.
  Qed.

  (** all(m) is nextn(m) followed by reset() *)
  Lemma all_is_nextn_then_reset f m p vs p' p'' :
    nextn f m p = (Yield vs, p') -> reset f p' = Yield p'' -> all_ f m p = (Yield vs, p'').
  Proof. unfold Step.all_, Step.nextn. intros -> ->. reflexivity. Qed.

  (** len() is the number of values all() returns, and leaves the object as all() does *)
  Lemma len_is_length_of_all f p vs p' :
    all_ f LMAX p = (Yield vs, p') -> len f p = (Yield (zlen vs), p').
  Proof. unfold Step.len. intros ->. reflexivity. Qed.

  (** copy() continues with exactly the outputs of the original (deepcopy of a tree is the tree) *)
  Lemma copy_outputs f n p : outputs f n (copy p) = outputs f n p.
  Proof. reflexivity. Qed.

  (** * Stickiness *)

  (** StopIteration on each of the next n calls / for ever *)
  Definition dead (f : nat) (p : pat) : Prop := forall n, fst (outputs f n p) = repeat Stop n.

  (** no value on any of the next n calls *)
  Fixpoint nyields (f n : nat) (p : pat) : Prop :=
    match n with
    | O => True
    | S n' => let '(o, p') := step f p in is_yield o = false /\ nyields f n' p'
    end.
  Definition quiet (f : nat) (p : pat) : Prop := forall n, nyields f n p.

  Fixpoint anyields (f n : nat) (a : arg) : Prop :=
    match n with
    | O => True
    | S n' => let '(o, a') := value f a in is_yield o = false /\ anyields f n' a'
    end.
  Definition aquiet (f : nat) (a : arg) : Prop := forall n, anyields f n a.

  Lemma quiet_unfold f p : quiet f p <-> (is_yield (fst (step f p)) = false /\ quiet f (snd (step f p))).
  Proof.
    split.
    - intro Q. split.
      + specialize (Q 1%nat). cbn in Q. destruct (step f p). apply Q.
      + intro n. specialize (Q (S n)). cbn in Q. destruct (step f p). apply Q.
    - intros [H Q] [|n]; [exact I|]. cbn. destruct (step f p). split; [exact H|apply Q].
  Qed.

  Lemma aquiet_unfold f a : aquiet f a <-> (is_yield (fst (value f a)) = false /\ aquiet f (snd (value f a))).
  Proof.
    split.
    - intro Q. split.
      + specialize (Q 1%nat). cbn in Q. destruct (value f a). apply Q.
      + intro n. specialize (Q (S n)). cbn in Q. destruct (value f a). apply Q.
    - intros [H Q] [|n]; [exact I|]. cbn. destruct (value f a). split; [exact H|apply Q].
  Qed.

  (** a state that answers StopIteration and does not change is dead *)
  Lemma stop_stable_dead f p : step f p = (Stop, p) -> dead f p.
  Proof.
    intros H n. induction n as [|n IH]; [reflexivity|].
    rewrite outputs_S, H. destruct (outputs f n p) as [os p'] eqn:E. cbn in *. rewrite IH. reflexivity.
  Qed.

  Lemma dead_quiet f p : dead f p -> quiet f p.
  Proof.
    intros D n. revert p D. induction n as [|n IH]; intros p D; [exact I|].
    cbn. destruct (step f p) as [o p'] eqn:E. pose proof (D 1%nat) as D1. rewrite outputs_S, E in D1. cbn in D1.
    inversion D1; subst. split; [reflexivity|]. apply IH. intro m. specialize (D (S m)).
    rewrite outputs_S, E in D. destruct (outputs f m p') as [os p'']. cbn in *. inversion D. reflexivity.
  Qed.

  (** a pattern operand is quiet when the pattern is *)
  Lemma aquiet_pattern f p : quiet f p -> aquiet (S f) (AP p).
  Proof.
    intros Q n. revert p Q. induction n as [|n IH]; intros p Q; [exact I|].
    cbn [anyields]. rewrite value_pattern. apply quiet_unfold in Q. destruct (step f p) as [o p']. cbn in Q.
    destruct Q as [H Q]. split; [exact H|]. apply IH. exact Q.
  Qed.

  (** ** Classes that end by their own counters: after StopIteration the state repeats it for ever.
      [ends_by_counter p]: the terminating parameters are scalars (a pattern there is re-read at every step
      and may revive the object by design, C12), list items are scalars. *)
  Fixpoint scalars (l : list arg) : bool :=
    match l with [] => true | AV _ :: r => scalars r | _ => false end.

  Lemma scalars_index l i a : scalars l = true -> py_index l i = Some a -> exists v, a = AV v.
  Proof.
    intros Hs Hi. assert (In a l).
    { unfold py_index in Hi. destruct ((0 <=? i) && (i <? Z.of_nat (List.length l))).
      - eapply nth_error_In; eauto.
      - destruct ((- Z.of_nat (List.length l) <=? i) && (i <? 0)); [eapply nth_error_In; eauto|discriminate]. }
    clear Hi. induction l as [|x l IH]; [contradiction|]. destruct x; try discriminate.
    destruct H as [<-|H]; [eexists; reflexivity|]. apply IH; assumption.
  Qed.

  Definition ends_by_counter (p : pat) : bool :=
    match p with
    | PSequence (AL l) (AV _) _ _ => scalars l
    | PSeries _ _ (AV _) (AV _) _ => true
    | PRange _ (AV _) (AV _) _ => true
    | PGeom _ _ (AV _) _ _ => true
    | PReverse _ _ => true
    | PPingPong _ _ _ _ _ _ => true
    | _ => false
    end.

  Local Opaque cmp Val.binop py_index update_nth Z.add Z.eqb Z.geb zlen.

  Ltac crunch H :=
    cbn in H;
    repeat (first [ discriminate H
                  | (inversion H; reflexivity)
                  | match type of H with context [match ?x with _ => _ end] => destruct x eqn:?; cbn in H end
                  | match type of H with context [if ?x then _ else _] => destruct x eqn:?; cbn in H end ]).

  Lemma counter_stop_stable f p p' :
    ends_by_counter p = true -> step f p = (Stop, p') -> p' = p.
  Proof.
    intros Hc H. destruct f as [|f]; [discriminate|].
    destruct p; try discriminate Hc.
    - (* PSequence *)
      destruct sequence as [| |l| |]; try discriminate Hc. destruct repeats as [vrep| | | |]; try discriminate Hc.
      cbn in Hc. destruct f as [|f]; [discriminate|]. cbn in H.
      destruct (if zlen l =? 0 then Yield true else cmp OGe (VInt rcount) vrep) as [[|]| | | |]; try discriminate;
        try (inversion H; reflexivity).
      destruct (py_index l pos) as [a|] eqn:Ei; [|discriminate].
      destruct (scalars_index _ _ _ Hc Ei) as [v ->]. cbn in H.
      destruct (pos + 1 >=? zlen l); discriminate.
    - (* PSeries *)
      match type of Hc with ends_by_counter (PSeries _ _ ?s ?l _) = _ =>
        destruct s; try discriminate Hc; destruct l; try discriminate Hc end.
      destruct f; crunch H.
    - (* PRange *)
      match type of Hc with ends_by_counter (PRange _ ?e ?s _) = _ =>
        destruct e; try discriminate Hc; destruct s; try discriminate Hc end.
      destruct f; crunch H.
    - (* PGeom *)
      match type of Hc with ends_by_counter (PGeom _ _ ?m _ _) = _ => destruct m; try discriminate Hc end.
      destruct f; crunch H.
    - (* PPingPong *) crunch H.
    - (* PReverse *) crunch H.
  Qed.

  Lemma counter_dead f p p' : ends_by_counter p = true -> step f p = (Stop, p') -> dead f p'.
  Proof.
    intros Hc H. pose proof (counter_stop_stable _ _ _ Hc H) as ->. apply stop_stable_dead. exact H.
  Qed.

  (** ** Expressions over such classes: once an operand is quiet the node is, whatever the other operand does *)
  Section Unary.
    Variable mk : arg -> pat.
    Variable g : val -> outcome val.
    Hypothesis mk_step : forall f a,
      step (S f) (mk a) =
        (let '(o, a') := value f a in
         match o with Yield v => (g v, mk a') | _ => (o, mk a') end).
    Hypothesis g_no_stop : forall v, g v <> Stop.

    Lemma unary_quiet f a : aquiet f a -> quiet (S f) (mk a).
    Proof.
      intros Q n. revert a Q. induction n as [|n IH]; intros a Q; [exact I|].
      cbn [nyields]. rewrite mk_step. apply aquiet_unfold in Q. destruct (value f a) as [o a']. cbn in Q.
      destruct Q as [H Q]. destruct o; try discriminate; (split; [reflexivity|apply IH; exact Q]).
    Qed.

    Lemma unary_stop f a p' :
      step (S f) (mk a) = (Stop, p') -> exists a', value f a = (Stop, a') /\ p' = mk a'.
    Proof.
      rewrite mk_step. destruct (value f a) as [o a']. destruct o; intro H; try discriminate.
      - inversion H. exfalso. eapply g_no_stop; eauto.
      - inversion H. eauto.
    Qed.
  End Unary.

  Section Binary.
    Variable mk : arg -> arg -> pat.
    Variable g : val -> val -> outcome val.
    Hypothesis mk_step : forall f a b,
      step (S f) (mk a b) =
        (let '(oa, a') := value f a in
         match oa with
         | Yield va =>
             let '(ob, b') := value f b in
             match ob with
             | Yield vb => (g va vb, mk a' b')
             | _ => (ob, mk a' b')
             end
         | _ => (oa, mk a' b)
         end).
    Hypothesis g_no_stop : forall x y, g x y <> Stop.

    Lemma binary_quiet_left f a b : aquiet f a -> quiet (S f) (mk a b).
    Proof.
      intros Q n. revert a b Q. induction n as [|n IH]; intros a b Q; [exact I|].
      cbn [nyields]. rewrite mk_step. apply aquiet_unfold in Q. destruct (value f a) as [o a']. cbn in Q.
      destruct Q as [H Q]. destruct o; try discriminate; (split; [reflexivity|apply IH; exact Q]).
    Qed.

    Lemma binary_quiet_right f a b : aquiet f b -> quiet (S f) (mk a b).
    Proof.
      intros Q n. revert a b Q. induction n as [|n IH]; intros a b Q; [exact I|].
      cbn [nyields]. rewrite mk_step. destruct (value f a) as [oa a'].
      destruct oa; try (split; [reflexivity|apply IH; exact Q]).
      apply aquiet_unfold in Q. destruct (value f b) as [ob b']. cbn in Q. destruct Q as [H Q].
      destruct ob; try discriminate; (split; [reflexivity|apply IH; exact Q]).
    Qed.

    Lemma binary_stop f a b p' :
      step (S f) (mk a b) = (Stop, p') ->
      (exists a', value f a = (Stop, a') /\ p' = mk a' b) \/
      (exists va a' b', value f a = (Yield va, a') /\ value f b = (Stop, b') /\ p' = mk a' b').
    Proof.
      rewrite mk_step. destruct (value f a) as [oa a']. destruct oa; intro H; try discriminate.
      - destruct (value f b) as [ob b']. destruct ob; try discriminate.
        + inversion H. exfalso. eapply g_no_stop; eauto.
        + inversion H. right. eauto 6.
      - inversion H. left. eauto.
    Qed.
  End Binary.

  Lemma py_abs_no_stop v : (if is_none v then Yield VNone else py_abs v) <> Stop.
  Proof. destruct v; discriminate. Qed.
  Lemma py_int_no_stop v : (if is_none v then Yield VNone else py_int v) <> Stop.
  Proof. destruct v; discriminate. Qed.

  Lemma step_int_eq f a :
    step (S f) (PInt a) =
      (let '(o, a') := value f a in
       match o with
       | Yield v => ((if is_none v then Yield VNone else py_int v), PInt a')
       | _ => (o, PInt a')
       end).
  Proof. reflexivity. Qed.

  Lemma step_skipif_eq f a b :
    step (S f) (PSkipIf a b) =
      (let '(oa, a') := value f a in
       match oa with
       | Yield va =>
           let '(ob, b') := value f b in
           match ob with
           | Yield vb => (Yield (if truthy vb then VNone else va), PSkipIf a' b')
           | _ => (ob, PSkipIf a' b')
           end
       | _ => (oa, PSkipIf a' b)
       end).
  Proof. reflexivity. Qed.

  Lemma step_ref_eq f p : step (S (S f)) (PRef (AP p)) = (let '(o, p') := step f p in (o, PRef (AP p'))).
  Proof.
    change (step (S (S f)) (PRef (AP p))) with (let '(o, pattern') := anext (S f) (AP p) in (o, PRef pattern')).
    rewrite anext_pattern. destruct (step f p). reflexivity.
  Qed.

  Lemma ref_quiet f p : quiet f p -> quiet (S (S f)) (PRef (AP p)).
  Proof.
    intros Q n. revert p Q. induction n as [|n IH]; intros p Q; [exact I|].
    cbn [nyields]. rewrite step_ref_eq. apply quiet_unfold in Q. destruct (step f p) as [o p']. cbn in Q.
    destruct Q as [H Q]. split; [exact H|apply IH; exact Q].
  Qed.

  (** ** The sticky fragment: expressions of any depth built from the counter-terminated classes, constants
      and scalars by the operators, &, abs, int, skip-if and references *)
  Inductive sticky_pat : pat -> Prop :=
  | SP_counter p : ends_by_counter p = true -> sticky_pat p
  | SP_constant c : sticky_pat (PConstant c)
  | SP_abs a : sticky_arg a -> sticky_pat (PAbs a)
  | SP_int a : sticky_arg a -> sticky_pat (PInt a)
  | SP_ref p : sticky_pat p -> sticky_pat (PRef (AP p))
  | SP_binop o a b : sticky_arg a -> sticky_arg b -> sticky_pat (PBinOp o a b)
  | SP_and a b : sticky_arg a -> sticky_arg b -> sticky_pat (PAnd a b)
  | SP_skipif a b : sticky_arg a -> sticky_arg b -> sticky_pat (PSkipIf a b)
  with sticky_arg : arg -> Prop :=
  | SA_val v : sticky_arg (AV v)
  | SA_pat p : sticky_pat p -> sticky_arg (AP p).

  Hypothesis binop_no_stop : forall o x y, binop o x y <> Stop.

  Lemma elem_no_stop o x y : (if is_none x || is_none y then Yield VNone else binop o x y) <> Stop.
  Proof. destruct (is_none x || is_none y); [discriminate|apply binop_no_stop]. Qed.

  Theorem sticky_quiet : forall f,
    (forall p p', sticky_pat p -> step f p = (Stop, p') -> quiet f p') /\
    (forall a a', sticky_arg a -> value f a = (Stop, a') -> aquiet f a').
  Proof.
    induction f as [|f [Q AQ]].
    - split; intros; discriminate.
    - split.
      + intros p p' Hs H. inversion Hs; subst.
        * apply dead_quiet. eapply counter_dead; eauto.
        * discriminate.
        * destruct (unary_stop PAbs _ (step_abs_eq binop LMAX) py_abs_no_stop _ _ _ H) as [a' [E ->]].
          apply (unary_quiet PAbs _ (step_abs_eq binop LMAX)). eapply AQ; [|exact E]; assumption.
        * destruct (unary_stop PInt _ step_int_eq py_int_no_stop _ _ _ H) as [a' [E ->]].
          apply (unary_quiet PInt _ step_int_eq). eapply AQ; [|exact E]; assumption.
        * destruct f as [|f']; [discriminate|]. rewrite step_ref_eq in H.
          destruct (step f' p0) as [o p1] eqn:E. inversion H; subst.
          apply ref_quiet.
          assert (A : aquiet (S f') (AP p1)).
          { eapply AQ; [apply SA_pat; eassumption|]. rewrite value_pattern, E. reflexivity. }
          intro n. specialize (A n). revert A. clear. revert p1. induction n as [|n IH]; intros p1 A; [exact I|].
          cbn [anyields] in A. rewrite value_pattern in A. cbn [nyields]. destruct (step f' p1) as [o p2].
          destruct A as [A1 A2]. split; [exact A1|apply IH; exact A2].
        * destruct (binary_stop (PBinOp o) _ (fun f a b => step_binop_eq binop LMAX f o a b) (elem_no_stop o) _ _ _ _ H)
            as [[a' [E ->]]|[va [a' [b' [Ea [Eb ->]]]]]].
          -- apply (binary_quiet_left (PBinOp o) _ (fun f a b => step_binop_eq binop LMAX f o a b)). eapply AQ; [|exact E]; assumption.
          -- apply (binary_quiet_right (PBinOp o) _ (fun f a b => step_binop_eq binop LMAX f o a b)). eapply AQ; [|exact Eb]; assumption.
        * assert (G : forall x y : val, Yield (VBool (truthy x && truthy y)) <> @Stop val) by (intros; discriminate).
          destruct (binary_stop PAnd _ (step_and_eq binop LMAX) G _ _ _ _ H)
            as [[a' [E ->]]|[va [a' [b' [Ea [Eb ->]]]]]].
          -- apply (binary_quiet_left PAnd _ (step_and_eq binop LMAX)). eapply AQ; [|exact E]; assumption.
          -- apply (binary_quiet_right PAnd _ (step_and_eq binop LMAX)). eapply AQ; [|exact Eb]; assumption.
        * assert (G : forall x y : val, Yield (if truthy y then VNone else x) <> @Stop val) by (intros; discriminate).
          destruct (binary_stop PSkipIf _ step_skipif_eq G _ _ _ _ H)
            as [[a' [E ->]]|[va [a' [b' [Ea [Eb ->]]]]]].
          -- apply (binary_quiet_left PSkipIf _ step_skipif_eq). eapply AQ; [|exact E]; assumption.
          -- apply (binary_quiet_right PSkipIf _ step_skipif_eq). eapply AQ; [|exact Eb]; assumption.
      + intros a a' Hs H. inversion Hs; subst.
        * discriminate.
        * rewrite value_pattern in H. destruct (step f p) as [o p1] eqn:E. inversion H; subst.
          apply aquiet_pattern. eapply Q; eauto.
  Qed.
End Iter.

(** Python's operators never raise StopIteration *)
Lemma mk_flt_no_stop q : mk_flt q <> Stop.
Proof. unfold mk_flt. destruct (dyadic_ok q); discriminate. Qed.

Lemma val_binop_no_stop o x y : Val.binop o x y <> Stop.
Proof.
  assert (I : forall a b, int_binop o a b <> Stop).
  { intros a b. destruct o; cbn [int_binop];
      repeat match goal with |- context [if ?c then _ else _] => destruct c end;
      try discriminate; apply mk_flt_no_stop. }
  assert (F : forall a b, flt_binop o a b <> Stop).
  { intros a b. destruct o; cbn [flt_binop];
      repeat match goal with |- context [if ?c then _ else _] => destruct c end;
      try discriminate; apply mk_flt_no_stop. }
  unfold Val.binop.
  destruct o; try discriminate;
    (destruct (num_of x) as [[qx fx]|]; destruct (num_of y) as [[qy fy]|];
     repeat match goal with |- context [if ?c then _ else _] => destruct c end;
     try discriminate; try apply I; try apply F;
     destruct x; destruct y; discriminate).
Qed.

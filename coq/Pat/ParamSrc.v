(* Pat/ParamSrc.v — PStutter reads its count once per block (Pat/ParamMore.v, property C12), restated for the __next__ body
   of PStutter generated from the source text (Generated/TablesStep.v), through the tie lemmas of Pat/StepSrc.v.
   Lemmas only; the property theorems are in Props/C12Src.v. *)
From Isobar Require Import Base.Prelude Pat.Val Pat.Syntax Pat.Step Pat.StepProofs Pat.Param Pat.ParamProofs Pat.ParamMore
  Generated.TablesStep Pat.StepSrc.
From Coq Require Import String QArith.
Open Scope Z_scope.

Section ParamSrc.
  Variable binop : op -> val -> val -> outcome val.
  Variable LMAX : nat.
  Notation V := (value binop LMAX).
  Notation A := (anext binop LMAX).

  Theorem src_stutter_boundary f pt q w pos v c q' v' pt' :
    w <= pos ->
    step binop LMAX f q = (Yield c, q') -> step binop LMAX f pt = (Yield v', pt') ->
    src_PStutter_next Val.binop V A (S f) (AP pt) (AP q) (VInt w) pos v = (Yield v', PStutter (AP pt') (AP q') c 1 v').
  Proof. intros. rewrite <- PStutter_next_src. eapply (stutter_boundary binop LMAX); eassumption. Qed.

  Theorem src_stutter_block f pattern count c v k :
    1 + Z.of_nat k <= c ->
    src_outputs binop LMAX (S f) k (PStutter pattern count (VInt c) 1 v) =
      (repeat (Yield v) k, PStutter pattern count (VInt c) (1 + Z.of_nat k) v).
  Proof. intros. rewrite src_outputs_is. apply (stutter_block binop LMAX); lia. Qed.
  (* PDict.__next__ as written ends with the shortest of its values *)
  Theorem src_pdict_ends_with_shortest f kv1 k a a' kv2 :
    (forall k1 a1, In (k1, a1) kv1 -> exists v a1', value binop LMAX f a1 = (Yield v, a1')) ->
    value binop LMAX f a = (Stop, a') ->
    fst (src_PDict_next Val.binop V A f (AD (kv1 ++ (k, a) :: kv2))) = Stop.
  Proof. intros. rewrite <- PDict_next_src. eapply (pdict_ends_with_shortest binop LMAX); eassumption. Qed.
End ParamSrc.

(* Pat/InstancesProofs.v — in a world of several instances and copies (Pat/Instances.v) every object produces what it
   produces alone on the operations applied to IT; a copy starts as the object it was taken from. *)
From Isobar Require Import Base.Prelude Pat.Val Pat.Instances.
Open Scope Z_scope.

Lemma ip_upd_eq {A} (x : A) : forall l i, (i < List.length l)%nat -> nth_error (update_nth i x l) i = Some x.
Proof. induction l as [|y l IH]; intros [|i] H; cbn in *; try lia; [reflexivity|]. apply IH. lia. Qed.
Lemma ip_upd_neq {A} (x : A) : forall l i j, i <> j -> nth_error (update_nth i x l) j = nth_error l j.
Proof. induction l as [|y l IH]; intros [|i] [|j] H; cbn; try reflexivity; try congruence. apply IH. congruence. Qed.

Section Iso.
  Variables Prog Obj : Type.
  Variable build : Prog -> option Obj.
  Variable onext : Obj -> outcome val * Obj.
  Variable oreset : Obj -> Obj.
  Variable ocopy : Obj -> Obj.
  Variable LMAX : nat.
  Notation wrun := (wrun Prog Obj build onext oreset ocopy LMAX).
  Notation wstep := (wstep Prog Obj build onext oreset ocopy LMAX).
  Notation wafter := (wafter Prog Obj build onext oreset ocopy LMAX).
  Notation alone := (alone Obj onext oreset LMAX).
  Notation oapply := (oapply Obj onext oreset LMAX).
  Notation wproj := (wproj Prog).

  (** an object that exists: whatever else is constructed, copied, advanced or rewound in the world, its observations are
      those of the object alone under the operations applied to it *)
  Theorem instance_isolation : forall ops w i x, nth_error w i = Some x ->
    outs_of i (wrun w ops) = alone x (wproj i ops).
  Proof.
    induction ops as [|op ops IH]; intros w i x Hi; [reflexivity|].
    destruct op as [p|j|j o]; cbn [Instances.wrun Instances.wstep Instances.wproj].
    - apply IH. destruct (build p); [rewrite nth_error_app1 by (apply nth_error_Some; congruence)|]; exact Hi.
    - apply IH. destruct (nth_error w j); [rewrite nth_error_app1 by (apply nth_error_Some; congruence)|]; exact Hi.
    - destruct (nth_error w j) as [y|] eqn:Ej.
      + destruct (oapply y o) as [r y'] eqn:Ea. cbn [outs_of]. destruct (Nat.eqb j i) eqn:Eji.
        * apply Nat.eqb_eq in Eji. subst j. rewrite Hi in Ej. inversion Ej; subst y. cbn [Instances.alone]. rewrite Ea. f_equal.
          apply IH. apply ip_upd_eq. apply nth_error_Some. congruence.
        * apply IH. rewrite ip_upd_neq by (apply Nat.eqb_neq; exact Eji). exact Hi.
      + destruct (Nat.eqb j i) eqn:Eji; [apply Nat.eqb_eq in Eji; subst j; congruence|]. apply IH. exact Hi.
  Qed.

  (** an operation on one object leaves every other object as it is *)
  Theorem instance_frame : forall w i o k, i <> k ->
    nth_error (fst (wstep w (WOp i o))) k = nth_error w k.
  Proof.
    intros w i o k Hne. cbn [Instances.wstep]. destruct (nth_error w i) as [x|]; [|reflexivity].
    destruct (oapply x o). cbn [fst]. apply ip_upd_neq. exact Hne.
  Qed.

  (** copy(): the new handle starts as the copy of the object it was taken from, and from then on - whatever happens to
      the original or anything else - observes what that copy observes alone *)
  Theorem instance_copy : forall ops w j x, nth_error w j = Some x ->
    outs_of (List.length w) (wrun w (WCopy j :: ops)) = alone (ocopy x) (wproj (List.length w) ops).
  Proof.
    intros ops w j x Hj. cbn [Instances.wrun Instances.wstep]. rewrite Hj.
    apply instance_isolation. rewrite nth_error_app2 by lia. rewrite Nat.sub_diag. reflexivity.
  Qed.

  (** two instances constructed from the same program text (equal arguments) behave alike when driven alike *)
  Theorem instance_new : forall ops w p x, build p = Some x ->
    outs_of (List.length w) (wrun w (WNew p :: ops)) = alone x (wproj (List.length w) ops).
  Proof.
    intros ops w p x Hb. cbn [Instances.wrun Instances.wstep]. rewrite Hb.
    apply instance_isolation. rewrite nth_error_app2 by lia. rewrite Nat.sub_diag. reflexivity.
  Qed.
End Iso.

(* Pat/SeededNest.v — stochastic patterns that directly CONTAIN other stochastic patterns (property C04), widening
   Pat/Seeded.v: there an object owns one generator; here a PARENT owns a generator and has CHILDREN (its inputs:
   PSkip(PWhite(..), p), PCoin(PWhite(..)), PShuffleInput(PBrown(..), 4) ...) each of which is a seedable object of
   Pat/Seeded.v with a generator, a stored seed and a class of its own.

     __next__ of the parent   a program ([prog]) over two kinds of requests: draw from the parent's OWN generator
                              (rng.random() / rng._randbelow(n)) and "next value of child i" (Pattern.value(self.<input>));
                              a child is advanced by its own __next__ only;
     reset() of the parent    Pattern.reset's walk resets every child - each to ITS OWN stored seed (kdo KReset) -, then
                              PStochasticPattern.reset re-seeds the parent's generator with the parent's stored seed, then the
                              class's own reset runs;
     seed(s) of the parent    touches the parent's stream only: _seed = s; rng.seed(s); the children keep their generators
                              and seeds;
     seed(s) of a child       (the caller kept a reference to it) touches that child only.

   Transcribed parents: PSkip(pattern, play) (regular = False) and PCoin(probability) over a child (chance.py).
   No proofs here (Pat/SeededNestProofs.v). *)
From Isobar Require Import Base.Prelude Pat.Chance Pat.Seeded.
From Coq Require Import QArith.
Local Notation length := List.length (only parsing).
Open Scope Z_scope.

Section RNG.
  Variable R : Type.
  Variable r_unit : R -> Z * R.
  Variable r_below : Z -> R -> Z * R.
  Variable r_seed : Z -> R.

  (** what one __next__ of a parent may do *)
  Inductive prog (A : Type) :=
  | Ret (a : A)
  | Pull (i : nat) (k : res -> prog A)            (* v = Pattern.value(<child i>): its outcome (value / StopIteration / exception) *)
  | DrawUnit (k : Z -> prog A)                    (* self.rng.random(): the numerator of k / 2^53 *)
  | DrawBelow (n : Z) (k : Z -> prog A).          (* self.rng._randbelow(n) *)
  Arguments Ret {A}. Arguments Pull {A}. Arguments DrawUnit {A}. Arguments DrawBelow {A}.

  Section Kids.
    Variables StC CfC : Type.
    (* a child: its class and its state (class state, generator, stored seed) *)
    Definition kid := (sclass R StC CfC * kinst R StC)%type.

    Fixpoint exec {A} (p : prog A) (g : R) (kids : list kid) : A * R * list kid :=
      match p with
      | Ret a => (a, g, kids)
      | Pull i k =>
          match nth_error kids i with
          | Some (cls, c) =>
              let (c', r) := kdo R r_seed cls c KNext in
              exec (k (match r with Some x => x | None => Fail end)) g (upd i (cls, c') kids)
          | None => exec (k Fail) g kids                       (* no such input: not a program *)
          end
      | DrawUnit k => let (u, g') := r_unit g in exec (k u) g' kids
      | DrawBelow n k => let (x, g') := r_below n g in exec (k x) g' kids
      end.

    Record pclass (St : Type) := mkP {
      pc_new : R -> St * R;                      (* the class's __init__ after PStochasticPattern.__init__ *)
      pc_step : St -> prog (res * St);           (* __next__ *)
      pc_reset : St -> R -> St * R;              (* the class's reset() after the children were reset and the generator re-seeded *)
      pc_seeded : St -> R -> St * R              (* the class's seed() after rng.seed(s) *)
    }.
    Arguments pc_new {St}. Arguments pc_step {St}. Arguments pc_reset {St}. Arguments pc_seeded {St}.

    Record nobj (St : Type) := mkN { n_st : St; n_gen : R; n_seed : Z; n_kids : list kid }.
    Arguments mkN {St}. Arguments n_st {St}. Arguments n_gen {St}. Arguments n_seed {St}. Arguments n_kids {St}.

    Inductive nop := NNext | NReset | NSeed (s : Z) | NKidSeed (i : nat) (s : Z).

    Definition reset_kid (k : kid) : kid := (fst k, fst (kdo R r_seed (fst k) (snd k) KReset)).
    Definition seed_kid (s : Z) (k : kid) : kid := (fst k, fst (kdo R r_seed (fst k) (snd k) (KSeed s))).

    Definition ndo {St} (pc : pclass St) (o : nobj St) (op : nop) : nobj St * option res :=
      match op with
      | NNext => let '((r, st'), g', kids') := exec (pc_step pc (n_st o)) (n_gen o) (n_kids o) in
                 (mkN st' g' (n_seed o) kids', Some r)
      | NReset => let (st', g') := pc_reset pc (n_st o) (r_seed (n_seed o)) in
                  (mkN st' g' (n_seed o) (map reset_kid (n_kids o)), None)
      | NSeed s => let (st', g') := pc_seeded pc (n_st o) (r_seed s) in (mkN st' g' s (n_kids o), None)
      | NKidSeed i s => (mkN (n_st o) (n_gen o) (n_seed o)
                             (match nth_error (n_kids o) i with Some k => upd i (seed_kid s k) (n_kids o) | None => n_kids o end), None)
      end.

    Fixpoint nrun_st {St} (pc : pclass St) (o : nobj St) (ops : list nop) : nobj St * list res :=
      match ops with
      | [] => (o, [])
      | op :: r => let (o', e) := ndo pc o op in
                   let (o'', es) := nrun_st pc o' r in
                   (o'', match e with Some x => x :: es | None => es end)
      end.
    Definition nrun {St} (pc : pclass St) (o : nobj St) (ops : list nop) : list res := snd (nrun_st pc o ops).
    Definition nafter {St} (pc : pclass St) (o : nobj St) (ops : list nop) : nobj St := fst (nrun_st pc o ops).

    (* Outer(Inner_0(..), Inner_1(..), ..): every constructor draws its own throw-away seed *)
    Definition nnew {St} (pc : pclass St) (s0 : Z) (kids0 : list (sclass R StC CfC * Z)) : nobj St :=
      let (st, g) := pc_new pc (r_seed s0) in
      mkN st g s0 (map (fun cs => (fst cs, knew R r_seed (fst cs) (snd cs))) kids0).

    (* the seeds in force after a history *)
    Fixpoint pseed_of (s : Z) (h : list nop) : Z :=
      match h with
      | [] => s
      | NSeed s' :: r => pseed_of s' r
      | _ :: r => pseed_of s r
      end.
    (* the children's classes and seeds in force: a history changes them through NKidSeed only *)
    Definition kshape_step (sh : list (sclass R StC CfC * Z)) (op : nop) : list (sclass R StC CfC * Z) :=
      match op with
      | NKidSeed i s => match nth_error sh i with Some cs => upd i (fst cs, s) sh | None => sh end
      | _ => sh
      end.
    Definition kshape_of (h : list nop) (sh : list (sclass R StC CfC * Z)) : list (sclass R StC CfC * Z) :=
      fold_left kshape_step h sh.
    Definition seeding (h : list nop) : Prop :=
      Forall (fun o => match o with NSeed _ | NKidSeed _ _ => True | _ => False end) h.
    Definition nplain (h : list nop) : Prop :=
      Forall (fun o => match o with NNext | NReset => True | _ => False end) h.
  End Kids.

  (** ** PSkip(pattern, play), regular = False, over a child:
         value = Pattern.value(self.pattern); play = ...; if self.rng.uniform(0, 1) < play: return value; return None *)
  Definition pskip_step (play : Q) (st : unit) : prog (res * unit) :=
    Pull 0 (fun v => match v with
                     | Out x => DrawUnit (fun k => Ret (Out (if Qltb (uq k) play then x else ONone), tt))
                     | o => Ret (o, tt)
                     end).
  Definition pskip (play : Q) : pclass unit :=
    mkP unit (fun g => (tt, g)) (pskip_step play) (fun _ g => (tt, g)) (fun st g => (st, g)).

  (** ** PCoin(probability), regular = False, over a child:
         probability = Pattern.value(self.probability); return 1 if self.rng.uniform(0, 1) < probability else 0 *)
  Definition pcoin_step (st : unit) : prog (res * unit) :=
    Pull 0 (fun v => match v with
                     | Out (OQ p) => DrawUnit (fun k => Ret (Out (OZ (if Qltb (uq k) p then 1 else 0)), tt))
                     | Out (OZ p) => DrawUnit (fun k => Ret (Out (OZ (if Qltb (uq k) (inject_Z p) then 1 else 0)), tt))
                     | Out _ => DrawUnit (fun k => Ret (Fail, tt))                     (* float < None: TypeError, after the draw *)
                     | o => Ret (o, tt)
                     end).
  Definition pcoin : pclass unit :=
    mkP unit (fun g => (tt, g)) pcoin_step (fun _ g => (tt, g)) (fun st g => (st, g)).
End RNG.

Arguments Ret {A}. Arguments Pull {A}. Arguments DrawUnit {A}. Arguments DrawBelow {A}.
Arguments pc_new {R St}. Arguments pc_step {R St}. Arguments pc_reset {R St}. Arguments pc_seeded {R St}.
Arguments mkN {R StC CfC St}. Arguments n_st {R StC CfC St}. Arguments n_gen {R StC CfC St}. Arguments n_seed {R StC CfC St}.
Arguments n_kids {R StC CfC St}.

(** * Script checker of the correspondence (replay generator of Pat/Chance.v).  Every rng.seed() of ANY object of the
      program opens an epoch with a program-wide number; in the model's script a seed is the number of the epoch it opens
      (a reset() of the parent is written: NKidSeed i e_i for every child, NSeed e, NReset).  Outputs are compared exactly;
      whenever an object is re-seeded and at the end, the requests it made in the epoch it leaves are compared with the
      recorded ones (constructor epochs - strict = false - are not). *)
Definition nep_ok (reqs : list (list Z)) (strict : list bool) (e : Z) (g : replay) : bool :=
  if nth (Z.to_nat e) strict false then epoch_ok g (nth (Z.to_nat e) reqs []) else true.
Fixpoint nscript_ok {StC CfC St} (pc : pclass replay St) (epochs reqs : list (list Z)) (strict : list bool)
         (o : nobj replay StC CfC St) (ops : list nop) (exp : list res) : bool :=
  match ops with
  | [] => nep_ok reqs strict (n_seed o) (n_gen o) &&
          forallb (fun k : kid replay StC CfC => nep_ok reqs strict (k_seed (snd k)) (k_gen (snd k))) (n_kids o) &&
          match exp with [] => true | _ => false end
  | op :: r =>
    let '(o', e) := ndo replay rp_unit rp_below (rp_seed epochs) StC CfC pc o op in
    match op, e with
    | NNext, Some x => match exp with
                       | y :: exp' => res_eqb x y && nscript_ok pc epochs reqs strict o' r exp'
                       | [] => false
                       end
    | NSeed _, _ => nep_ok reqs strict (n_seed o) (n_gen o) && nscript_ok pc epochs reqs strict o' r exp
    | NKidSeed i _, _ => match nth_error (n_kids o) i with
                         | Some k => nep_ok reqs strict (k_seed (snd k)) (k_gen (snd k))
                         | None => false
                         end && nscript_ok pc epochs reqs strict o' r exp
    | _, _ => nscript_ok pc epochs reqs strict o' r exp
    end
  end.
Definition check_nscript {StC CfC St} (pc : pclass replay St) (epochs reqs : list (list Z)) (strict : list bool)
           (s0 : Z) (kids0 : list (sclass replay StC CfC * Z)) (ops : list nop) (exp : list res) : bool :=
  nscript_ok pc epochs reqs strict (nnew replay (rp_seed epochs) StC CfC pc s0 kids0) ops exp.

(* Pat/ChanceProofs.v — lemmas about the model of the stochastic patterns (Pat/Chance.v). *)
From Isobar Require Import Base.Prelude Pat.Chance.
From Coq Require Import QArith Qround Qabs Permutation Lqa.
Local Notation length := List.length (only parsing).
Open Scope Z_scope.

(** * Generic facts about scripts: reset / re-seed rewind, isolation *)
Section Generic.
  Variable R : Type.
  Variable r_seed : Z -> R.
  Variable S : Type.
  Variable m : machine R S.

  Lemma run_cons i o r :
    run R r_seed m i (o :: r) =
    match snd (do_op R r_seed m i o) with
    | Some x => x :: run R r_seed m (fst (do_op R r_seed m i o)) r
    | None => run R r_seed m (fst (do_op R r_seed m i o)) r
    end.
  Proof.
    unfold run. cbn [run_st]. destruct (do_op R r_seed m i o) as [i' e]. cbn [fst snd].
    destruct (run_st R r_seed m i' r) as [i'' es]. destruct e; reflexivity.
  Qed.

  Lemma after_cons i o r :
    after R r_seed m i (o :: r) = after R r_seed m (fst (do_op R r_seed m i o)) r.
  Proof.
    unfold after. cbn [run_st]. destruct (do_op R r_seed m i o) as [i' e]. cbn [fst snd].
    destruct (run_st R r_seed m i' r) as [i'' es]. reflexivity.
  Qed.

  Lemma run_app i a b :
    run R r_seed m i (a ++ b) = run R r_seed m i a ++ run R r_seed m (after R r_seed m i a) b.
  Proof.
    revert i. induction a as [|o a IH]; intro i.
    - reflexivity.
    - cbn [app]. rewrite !run_cons, after_cons, IH. destruct (snd (do_op R r_seed m i o)); reflexivity.
  Qed.

  (* reset() puts the pattern into the state of a new instance seeded with the stored seed *)
  Lemma reset_rewinds i pre post :
    run R r_seed m i (pre ++ Reset :: post) =
    run R r_seed m i pre ++ run R r_seed m (fresh R r_seed m (i_seed (after R r_seed m i pre))) post.
  Proof. rewrite run_app, run_cons. reflexivity. Qed.

  (* seed(s) followed by reset() puts it into the state of a new instance seeded with s *)
  Lemma reseed_reset_rewinds i pre s post :
    run R r_seed m i (pre ++ Seed s :: Reset :: post) =
    run R r_seed m i pre ++ run R r_seed m (fresh R r_seed m s) post.
  Proof. rewrite run_app, !run_cons. reflexivity. Qed.

  Definition no_seed (ops : list op) : Prop := Forall (fun o => match o with Seed _ => False | _ => True end) ops.

  Lemma seed_kept i ops : no_seed ops -> i_seed (after R r_seed m i ops) = i_seed i.
  Proof.
    intro H. revert i. induction H as [|o r Ho Hr IH]; intro i.
    - reflexivity.
    - rewrite after_cons, IH. destruct o; cbn; try reflexivity; try contradiction.
      destruct (m_step m (i_st i) (i_gen i)) as [[? ?] ?]. reflexivity.
  Qed.

  Lemma reset_replays s pre post :
    no_seed pre ->
    run R r_seed m (fresh R r_seed m s) (pre ++ Reset :: post) =
    run R r_seed m (fresh R r_seed m s) pre ++ run R r_seed m (fresh R r_seed m s) post.
  Proof. intro H. rewrite reset_rewinds, (seed_kept _ _ H). reflexivity. Qed.

  (* an invariant of the state that every step preserves bounds every output of every script *)
  Lemma run_Forall (Inv : S -> Prop) (P : res -> Prop) :
    (forall st g r st' g', Inv st -> m_step m st g = (r, st', g') -> P r /\ Inv st') ->
    Inv (m_init m) ->
    forall ops i, Inv (i_st i) -> Forall P (run R r_seed m i ops).
  Proof.
    intros Hstep Hinit ops. induction ops as [|o r IH]; intros i Hi.
    - constructor.
    - rewrite run_cons. destruct o; cbn.
      + destruct (m_step m (i_st i) (i_gen i)) as [[x st'] g'] eqn:E. cbn.
        destruct (Hstep _ _ _ _ _ Hi E) as [Hp Hi']. constructor; [exact Hp|]. apply IH. exact Hi'.
      + apply IH. exact Hinit.
      + apply IH. exact Hi.
  Qed.
End Generic.

(** ** Isolation: in a world of patterns and the global generator, under any schedule, the outputs of
       pattern [a] are those of [a] alone on its own operations *)
Section Isolation.
  Variable R : Type.
  Variable r_unit : R -> Z * R.
  Variable r_below : Z -> R -> Z * R.
  Variable r_seed : Z -> R.
  Variable S : Type.
  Variable M : nat -> machine R S.

  Lemma isolation a : forall sched w,
    outputs_of a (wrun R r_unit r_below r_seed S M w sched) =
    run R r_seed (M a) (w_inst R S w a) (proj a sched).
  Proof.
    induction sched as [|o r IH]; intro w.
    - reflexivity.
    - destruct o as [id o| |n|s]; cbn [wrun wstep proj].
      + destruct (do_op R r_seed (M id) (w_inst R S w id) o) as [i' e] eqn:E.
        destruct (Nat.eqb id a) eqn:Eid.
        * apply Nat.eqb_eq in Eid. subst id. rewrite run_cons, E. cbn [fst snd].
          destruct e as [x|]; cbn [outputs_of]; [rewrite Nat.eqb_refl; f_equal|];
            rewrite IH; cbn [w_inst]; unfold set_inst; rewrite Nat.eqb_refl; reflexivity.
        * assert (Hk : w_inst R S (mkWorld R S (set_inst R S (w_inst R S w) id i') (w_glob R S w)) a = w_inst R S w a).
          { cbn [w_inst]. unfold set_inst. rewrite Nat.eqb_sym, Eid. reflexivity. }
          destruct e as [x|]; cbn [outputs_of]; [rewrite Eid|]; rewrite IH, Hk; reflexivity.
      + rewrite IH. reflexivity.
      + rewrite IH. reflexivity.
      + rewrite IH. reflexivity.
  Qed.
End Isolation.

(** * Weighted index: util.windex / normalize *)
Definition cum (ws : list Q) (k : nat) : Q := qsum (firstn k ws).
Definition nonneg (ws : list Q) : Prop := Forall (fun w => (0 <= w)%Q) ws.

Lemma Qltb_true a b : Qltb a b = true <-> (a < b)%Q.
Proof.
  unfold Qltb. rewrite negb_true_iff. split; intro H.
  - apply Qnot_le_lt. intro L. apply Qle_bool_iff in L. congruence.
  - destruct (Qle_bool b a) eqn:E; [|reflexivity]. apply Qle_bool_iff in E. exfalso. eapply Qlt_not_le; eauto.
Qed.
Lemma Qltb_false a b : Qltb a b = false <-> (b <= a)%Q.
Proof.
  unfold Qltb. rewrite negb_false_iff. apply Qle_bool_iff.
Qed.

Lemma cum_cons w r k : (cum (w :: r) (Datatypes.S k) == w + cum r k)%Q.
Proof. unfold cum. cbn [firstn qsum]. reflexivity. Qed.
Lemma cum_0 ws : (cum ws 0 == 0)%Q.
Proof. reflexivity. Qed.

Lemma cum_nonneg ws k : nonneg ws -> (0 <= cum ws k)%Q.
Proof.
  intro H. revert k. induction H as [|w r Hw Hr IH]; intros [|k]; try (unfold cum; cbn; lra).
  rewrite cum_cons. specialize (IH k). lra.
Qed.

Lemma windex_from_ge ws : forall n i j, windex_from ws n i = Some j -> i <= j.
Proof.
  induction ws as [|w r IH]; intros n i j H; cbn in H; [discriminate|].
  destruct (Qltb n w); [injection H; lia|]. apply IH in H. lia.
Qed.

Lemma windex_from_interval ws : nonneg ws -> forall n i k, (0 <= n)%Q -> (k < length ws)%nat ->
  (windex_from ws n i = Some (i + Z.of_nat k) <-> (cum ws k <= n /\ n < cum ws (Datatypes.S k))%Q).
Proof.
  intro H. induction H as [|w r Hw Hr IH]; intros n i k Hn Hk; [cbn in Hk; lia|].
  cbn [windex_from]. destruct k as [|k].
  - rewrite cum_cons, !cum_0. destruct (Qltb n w) eqn:E.
    + apply Qltb_true in E. split; intro; [lra|f_equal; lia].
    + apply Qltb_false in E. split; intro X.
      * apply windex_from_ge in X. lia.
      * lra.
  - assert (Hk' : (k < length r)%nat) by (cbn in Hk; lia).
    assert (C1 : (cum (w :: r) (Datatypes.S k) == w + cum r k)%Q) by apply cum_cons.
    assert (C2 : (cum (w :: r) (Datatypes.S (Datatypes.S k)) == w + cum r (Datatypes.S k))%Q) by apply cum_cons.
    pose proof (cum_nonneg r k Hr) as P1.
    destruct (Qltb n w) eqn:E.
    + apply Qltb_true in E. split; intro X; [injection X; lia|lra].
    + apply Qltb_false in E.
      replace (i + Z.of_nat (Datatypes.S k)) with ((i + 1) + Z.of_nat k) by lia.
      rewrite (IH (n - w)%Q (i + 1) k ltac:(lra) Hk'). rewrite C1, C2. split; intro; lra.
Qed.

Lemma cum_step ws k : (k < length ws)%nat -> (cum ws (Datatypes.S k) - cum ws k == nth k ws 0)%Q.
Proof.
  revert k. induction ws as [|w r IH]; intros k Hk; [cbn in Hk; lia|].
  destruct k as [|k].
  - rewrite cum_cons, !cum_0. cbn [nth]. lra.
  - cbn in Hk. specialize (IH k ltac:(lia)). rewrite !cum_cons. cbn [nth]. lra.
Qed.

Lemma qsum_map_div l s : (~ s == 0)%Q -> (qsum (map (fun w => w / s) l) == qsum l / s)%Q.
Proof.
  intro Hs. induction l as [|x r IH]; cbn.
  - field. exact Hs.
  - rewrite IH. field. exact Hs.
Qed.

Lemma cum_normalize ws k : (~ qsum ws == 0)%Q -> (cum (normalize ws) k == cum ws k / qsum ws)%Q.
Proof.
  intro Hs. unfold normalize. destruct (Qeq_bool (qsum ws) 0) eqn:E.
  - apply Qeq_bool_iff in E. contradiction.
  - unfold cum. rewrite firstn_map. apply qsum_map_div. exact Hs.
Qed.

Lemma nonneg_normalize ws : nonneg ws -> (0 < qsum ws)%Q -> nonneg (normalize ws).
Proof.
  intros H Hs. unfold normalize. destruct (Qeq_bool (qsum ws) 0); [exact H|].
  unfold nonneg in *. rewrite Forall_map. eapply Forall_impl; [|exact H].
  intros a Ha. cbv beta in *. apply Qle_shift_div_l; [exact Hs|lra].
Qed.

Lemma length_normalize ws : length (normalize ws) = length ws.
Proof. unfold normalize. destruct (Qeq_bool _ _); [reflexivity|apply map_length]. Qed.

(* the weighted index is k exactly when the uniform draw falls into [cum k / W, cum (k+1) / W) *)
Lemma wnindex_interval ws u k : nonneg ws -> (0 < qsum ws)%Q -> (0 <= u)%Q -> (k < length ws)%nat ->
  (wnindex ws u = Some (Z.of_nat k) <->
   (cum ws k / qsum ws <= u /\ u < cum ws (Datatypes.S k) / qsum ws)%Q).
Proof.
  intros H Hs Hu Hk. unfold wnindex, windex.
  assert (Hn : (~ qsum ws == 0)%Q) by lra.
  pose proof (windex_from_interval (normalize ws) (nonneg_normalize ws H Hs) u 0 k Hu
                ltac:(rewrite length_normalize; exact Hk)) as X.
  change (0 + Z.of_nat k) with (Z.of_nat k) in X. rewrite X. rewrite !cum_normalize by exact Hn. reflexivity.
Qed.

(* that interval has length w_k / W: under a uniform draw, index k has probability mass w_k / sum(w) *)
Lemma wnindex_mass ws k : (0 < qsum ws)%Q -> (k < length ws)%nat ->
  (cum ws (Datatypes.S k) / qsum ws - cum ws k / qsum ws == nth k ws 0 / qsum ws)%Q.
Proof.
  intros Hs Hk. pose proof (cum_step ws k Hk). 
  assert (E : (cum ws (Datatypes.S k) / qsum ws - cum ws k / qsum ws == (cum ws (Datatypes.S k) - cum ws k) / qsum ws)%Q) by (field; lra).
  rewrite E, H. reflexivity.
Qed.

Lemma cum_all ws : (cum ws (length ws) == qsum ws)%Q.
Proof. unfold cum. rewrite firstn_all. reflexivity. Qed.

(** * Ranges and supports, for every generator that respects the contract of random.Random *)
Lemma Qtrunc_range a b x : (inject_Z a <= x <= inject_Z b)%Q -> a <= Qtrunc x <= b.
Proof.
  intros [H1 H2]. unfold Qtrunc. destruct (Qle_bool 0 x).
  - split.
    + rewrite <- (Qfloor_Z a). apply Qfloor_resp_le. exact H1.
    + rewrite Zle_Qle. eapply Qle_trans; [apply Qfloor_le|exact H2].
  - split.
    + rewrite Zle_Qle. eapply Qle_trans; [exact H1|apply Qle_ceiling].
    + rewrite <- (Qceiling_Z b). apply Qceiling_resp_le. exact H2.
Qed.

Lemma affine_range mn mx u : (mn <= mx)%Q -> (0 <= u < 1)%Q -> (mn <= mn + (mx - mn) * u <= mx)%Q.
Proof. intros H [H0 H1]. split; nra. Qed.

Section Ranges.
  Variable R : Type.
  Variable r_unit : R -> Z * R.
  Variable r_below : Z -> R -> Z * R.
  Variable r_seed : Z -> R.
  (* the contract of random.Random: random() = k / 2^53 with 0 <= k < 2^53; 0 <= _randbelow(n) < n *)
  Hypothesis unit_range : forall g, 0 <= fst (r_unit g) < two53.
  Hypothesis below_range : forall n g, 0 < n -> 0 <= fst (r_below n g) < n.

  Lemma d_unit_range g : (0 <= fst (d_unit R r_unit g) < 1)%Q.
  Proof.
    unfold d_unit. pose proof (unit_range g) as H. destruct (r_unit g) as [k g']. cbn [fst] in *.
    unfold uq, two53 in *. unfold Qle, Qlt. cbn. lia.
  Qed.

  (** ** PWhite *)
  Definition white_ok (is_f : bool) (mn mx : Q) (r : res) : Prop :=
    match r with
    | Out (OQ x) => is_f = true /\ (mn <= x <= mx)%Q
    | Out (OZ z) => is_f = false /\ exists x, (mn <= x <= mx)%Q /\ z = Qtrunc x
    | Stop => True
    | _ => False
    end.

  Lemma white_step_ok is_f mn mx len idx g r idx' g' :
    (mn <= mx)%Q -> white_step R r_unit is_f mn mx len idx g = (r, idx', g') ->
    white_ok is_f mn mx r /\ idx' = idx + 1 /\ (r = Stop <-> 0 < len /\ len < idx + 1).
  Proof.
    intros Hm. unfold white_step. destruct ((0 <? len) && (len <? idx + 1)) eqn:E.
    - intro X. inversion X; subst. cbn. split; [exact I|]. split; [reflexivity|]. split; [lia|reflexivity].
    - pose proof (d_unit_range g) as Hu. destruct (d_unit R r_unit g) as [u g1]. cbn [fst] in Hu.
      intro X. inversion X; subst. pose proof (affine_range mn mx u Hm Hu) as Hx.
      split; [|split; [reflexivity|]].
      + destruct is_f; cbn; split; try reflexivity; [exact Hx|]. eexists; split; [exact Hx|reflexivity].
      + split; [destruct is_f; discriminate|lia].
  Qed.

  Lemma white_range is_f mn mx len : (mn <= mx)%Q -> forall ops i,
    Forall (white_ok is_f mn mx) (run R r_seed (white R r_unit is_f mn mx len) i ops).
  Proof.
    intros Hm ops i. apply (run_Forall R r_seed Z _ (fun _ => True)); try exact I.
    intros st g r st' g' _ E. cbn in E. split; [|exact I]. eapply white_step_ok; eauto.
  Qed.

  (* a finite length yields exactly that many values: output j (from 0) of a new or reset instance is
     StopIteration iff length > 0 and j >= length *)
  Lemma white_length_from is_f mn mx len : (mn <= mx)%Q -> forall n idx g s j r,
    nth_error (run R r_seed (white R r_unit is_f mn mx len) (mkInst idx g s) (repeat Next n)) j = Some r ->
    (r = Stop <-> 0 < len /\ len < idx + Z.of_nat j + 1).
  Proof.
    intros Hm. induction n as [|n IH]; intros idx g s j r H.
    - destruct j; discriminate.
    - cbn [repeat] in H. rewrite run_cons in H. cbn [do_op i_st i_gen i_seed m_step white] in H.
      destruct (white_step R r_unit is_f mn mx len idx g) as [[x idx'] g'] eqn:E. cbn [fst snd] in H.
      destruct (white_step_ok _ _ _ _ _ _ _ _ _ Hm E) as [_ [Hi Hs]]. subst idx'.
      destruct j as [|j].
      + cbn in H. inversion H; subst. rewrite Hs. lia.
      + cbn [nth_error] in H. apply IH in H. rewrite H. lia.
  Qed.
End Ranges.


Lemma pyidx_In {A} (l : list A) i v : pyidx l i = Some v -> In v l.
Proof.
  unfold pyidx. destruct ((0 <=? i) && (i <? zlen l)); [apply nth_error_In|].
  destruct ((- zlen l <=? i) && (i <? 0)); [apply nth_error_In|discriminate].
Qed.

Section Supports.
  Variable R : Type.
  Variable r_unit : R -> Z * R.
  Variable r_below : Z -> R -> Z * R.
  Variable r_seed : Z -> R.

  (** ** PCoin, PFlipFlop: outputs are 0 or 1 *)
  Definition binary (r : res) : Prop := r = Out (OZ 0) \/ r = Out (OZ 1).

  Lemma coin_binary p ops i : Forall binary (run R r_seed (coin R r_unit p) i ops).
  Proof.
    apply (run_Forall R r_seed unit _ (fun _ => True)); try exact I.
    intros st g r st' g' _ E. cbn in E. unfold coin_step in E. destruct (d_unit R r_unit g) as [u g1].
    inversion E; subst. split; [|exact I]. unfold binary. destruct (Qltb u p); auto.
  Qed.

  Lemma flipflop_binary init p_on p_off ops i :
    (init = 0 \/ init = 1) -> (i_st i = 0 \/ i_st i = 1) ->
    Forall binary (run R r_seed (flipflop R r_unit init p_on p_off) i ops).
  Proof.
    intros H0 Hi. apply (run_Forall R r_seed Z _ (fun v => v = 0 \/ v = 1)); [|exact H0|exact Hi].
    intros st g r st' g' Hst E. cbn in E. unfold flipflop_step in E. destruct (d_unit R r_unit g) as [u g1].
    inversion E; subst. unfold binary.
    destruct (st =? 0) eqn:E0; [destruct (Qltb u p_on)|destruct (Qltb u p_off)]; intuition (subst; auto); lia.
  Qed.

  (** ** PSkip only replaces values by rests: output j is input j or a rest; the pattern ends with its input *)
  Lemma skip_only_rests play : forall n rem g s j r,
    nth_error (run R r_seed (skip R r_unit rem play) (mkInst rem g s) (repeat Next n)) j = Some r ->
    match nth_error rem j with
    | Some x => r = Out (oopt x) \/ r = Out ONone
    | None => r = Stop
    end.
  Proof.
    (* the machine's initial state plays no role without Reset: generalise it *)
    assert (G : forall input n rem g s j r,
      nth_error (run R r_seed (skip R r_unit input play) (mkInst rem g s) (repeat Next n)) j = Some r ->
      match nth_error rem j with Some x => r = Out (oopt x) \/ r = Out ONone | None => r = Stop end).
    { intros input. induction n as [|n IH]; intros rem g s j r H.
      - destruct j; discriminate.
      - cbn [repeat] in H. rewrite run_cons in H. cbn [do_op i_st i_gen i_seed m_step skip] in H.
        unfold skip_step in H. destruct rem as [|x rem].
        + cbn [fst snd] in H. destruct j as [|j]; cbn [nth_error] in *.
          * inversion H; reflexivity.
          * apply IH in H. destruct j; exact H.
        + destruct (d_unit R r_unit g) as [u g1]. cbn [fst snd] in H. destruct j as [|j]; cbn [nth_error] in *.
          * inversion H. destruct (Qltb u play); auto.
          * apply IH in H. exact H. }
    intros. eapply G; eauto.
  Qed.

  (** ** PChoice: every value comes from the list, for every generator whatsoever *)
  Definition from_values (values : list Z) (r : res) : Prop :=
    match r with Out (OZ v) => In v values | Fail => True | _ => False end.

  Lemma choice_support values ws ops i :
    Forall (from_values values) (run R r_seed (pchoice R r_unit r_below values ws) i ops).
  Proof.
    apply (run_Forall R r_seed unit _ (fun _ => True)); try exact I.
    intros st g r st' g' _ E. cbn in E. unfold choice_step in E. split; [|exact I].
    destruct ws as [w|].
    - unfold wnchoice in E. destruct (d_unit R r_unit g) as [u g1]. destruct (wnindex w u) as [k|].
      + inversion E; subst. destruct (nth_error values (Z.to_nat k)) eqn:N; cbn; [eapply nth_error_In; eauto|exact I].
      + inversion E; subst. exact I.
    - unfold choice in E. destruct (zlen values =? 0).
      + inversion E; subst. exact I.
      + destruct (r_below (zlen values) g) as [k g1]. inversion E; subst.
        destruct (nth_error values (Z.to_nat k)) eqn:N; cbn; [eapply nth_error_In; eauto|exact I].
  Qed.

  (** ** PRandomWalk: every value comes from the list *)
  Lemma walk_support values mn mx wrap ops i :
    Forall (from_values values) (run R r_seed (walk R r_unit r_below values mn mx wrap) i ops).
  Proof.
    apply (run_Forall R r_seed Z _ (fun _ => True)); try exact I.
    intros st g r st' g' _ E. cbn in E. unfold walk_step in E. split; [|exact I].
    destruct (walk_move R r_unit r_below mn mx g) as [[mv g2]|]; [|inversion E; exact I].
    destruct (wrap && (zlen values =? 0)); [inversion E; exact I|].
    destruct (pyidx values _) eqn:P; inversion E; subst; [|exact I]. cbn. eapply pyidx_In; eauto.
  Qed.
End Supports.


(** * Lists: upd, swap, remove_nth *)
Lemma upd_length {A} (x : A) : forall l i, length (upd i x l) = length l.
Proof. induction l as [|y r IH]; intros [|i]; cbn; auto. Qed.

Lemma nth_upd_eq (x : Z) : forall l i, (i < length l)%nat -> nth i (upd i x l) 0 = x.
Proof. induction l as [|y r IH]; intros [|i] H; cbn in *; try lia; auto. apply IH. lia. Qed.

Lemma nth_upd_neq (x : Z) : forall l i j, i <> j -> nth i (upd j x l) 0 = nth i l 0.
Proof. induction l as [|y r IH]; intros [|i] [|j] H; cbn; auto; try lia. Qed.

(* replacing element j by x: multiset(x :: l) = multiset(l[j] :: upd j x l) *)
Lemma upd_perm (x : Z) : forall l j, (j < length l)%nat -> Permutation (x :: l) (nth j l 0 :: upd j x l).
Proof.
  induction l as [|y r IH]; intros [|j] H; cbn in *; try lia.
  - apply perm_swap.
  - eapply perm_trans; [apply perm_swap|]. eapply perm_trans; [apply perm_skip, (IH j); lia|]. apply perm_swap.
Qed.

Lemma swap_length i j l : length (swap i j l) = length l.
Proof. unfold swap. rewrite !upd_length. reflexivity. Qed.

Lemma swap_perm i j l : (i < length l)%nat -> (j < length l)%nat -> Permutation (swap i j l) l.
Proof.
  intros Hi Hj. unfold swap. set (a := nth i l 0). set (b := nth j l 0). set (l1 := upd j a l).
  assert (P1 : Permutation (a :: l) (b :: l1)) by (apply upd_perm; exact Hj).
  assert (Hl1 : length l1 = length l) by apply upd_length.
  assert (P2 : Permutation (b :: l1) (nth i l1 0 :: upd i b l1)) by (apply upd_perm; lia).
  assert (E : nth i l1 0 = a).
  { unfold l1. destruct (Nat.eq_dec i j) as [->|N]; [apply nth_upd_eq; exact Hj|apply nth_upd_neq; exact N]. }
  rewrite E in P2. symmetry. eapply Permutation_cons_inv. eapply perm_trans; eauto.
Qed.

Lemma remove_nth_perm : forall (l : list Z) i, (i < length l)%nat -> Permutation l (nth i l 0 :: remove_nth i l).
Proof.
  induction l as [|y r IH]; intros [|i] H; cbn in *; try lia.
  - reflexivity.
  - eapply perm_trans; [apply perm_skip, (IH i); lia|]. apply perm_swap.
Qed.
Lemma remove_nth_length {A} : forall (l : list A) i, (i < length l)%nat -> Datatypes.S (length (remove_nth i l)) = length l.
Proof. induction l as [|y r IH]; intros [|i] H; cbn in *; try lia. rewrite IH; lia. Qed.

Section Contract.
  Variable R : Type.
  Variable r_unit : R -> Z * R.
  Variable r_below : Z -> R -> Z * R.
  Variable r_seed : Z -> R.
  Hypothesis unit_range : forall g, 0 <= fst (r_unit g) < two53.
  Hypothesis below_range : forall n g, 0 < n -> 0 <= fst (r_below n g) < n.

  (** ** rng.shuffle produces a permutation *)
  Lemma shuffle_loop_perm : forall i l g, (i < length l)%nat \/ (i = 0)%nat ->
    Permutation (fst (shuffle_loop R r_below i l g)) l.
  Proof.
    induction i as [|i IH]; intros l g H; cbn [shuffle_loop].
    - reflexivity.
    - destruct H as [H|H]; [|lia].
      pose proof (below_range (Z.of_nat (Datatypes.S i) + 1) g ltac:(lia)) as B.
      destruct (r_below (Z.of_nat (Datatypes.S i) + 1) g) as [j g']. cbn [fst] in B.
      eapply perm_trans.
      + apply IH. left. rewrite swap_length. lia.
      + apply swap_perm; lia.
  Qed.
  Lemma shuffle_perm l g : Permutation (fst (shuffle R r_below l g)) l.
  Proof. unfold shuffle. apply shuffle_loop_perm. destruct l; cbn; [right|left]; lia. Qed.

  (** ** PShuffle: the state always holds a permutation of the values, every output is one of them *)
  Definition from_values' (values : list Z) (r : res) : Prop :=
    match r with Out (OZ v) => In v values | Out _ => False | _ => True end.

  Lemma pshuffle_support values repeats ops i :
    Permutation (sh_vals (i_st i)) values ->
    Forall (from_values' values) (run R r_seed (pshuffle R r_below values repeats) i ops).
  Proof.
    intro Hi. apply (run_Forall R r_seed shuf_state _ (fun s => Permutation (sh_vals s) values)); [|reflexivity|exact Hi].
    intros st g r st' g' Hst E. cbn in E. unfold pshuffle_step in E.
    assert (Hv : exists vals g1, (if sh_pos st =? 0 then shuffle R r_below (sh_vals st) g else (sh_vals st, g)) = (vals, g1)
                                 /\ Permutation vals values).
    { destruct (sh_pos st =? 0).
      - pose proof (shuffle_perm (sh_vals st) g) as P. destruct (shuffle R r_below (sh_vals st) g) as [v g1].
        exists v, g1. split; [reflexivity|]. eapply perm_trans; eauto.
      - exists (sh_vals st), g. split; [reflexivity|exact Hst]. }
    destruct Hv as [vals [g1 [Ev Pv]]]. rewrite Ev in E.
    assert (In_v : forall k v, pyidx vals k = Some v -> In v values).
    { intros k v Hk. eapply Permutation_in; [exact Pv|]. eapply pyidx_In; eauto. }
    destruct (zlen vals <=? sh_pos st) eqn:E1.
    - destruct (repeats <=? sh_rcount st + 1).
      + inversion E; subst. cbn. auto.
      + destruct (pyidx vals 0) eqn:P0; inversion E; subst; cbn; split; eauto.
    - destruct (pyidx vals (sh_pos st)) eqn:P0; inversion E; subst; cbn; split; eauto.
  Qed.

  (* the first block of a new (or reset) PShuffle is a permutation of the values: the first len(values)
     outputs are exactly the shuffled list, in order *)
  Lemma pshuffle_block_from repeats values0 : forall k vals pos rc g s,
    0 < pos -> pos + Z.of_nat k <= zlen vals ->
    run R r_seed (pshuffle R r_below values0 repeats) (mkInst (mkShuf vals pos rc) g s) (repeat Next k) =
    map (fun v => Out (OZ v)) (firstn k (skipn (Z.to_nat pos) vals)).
  Proof.
    induction k as [|k IH]; intros vals pos rc g s Hp Hl.
    - reflexivity.
    - cbn [repeat]. rewrite run_cons. cbn [do_op i_st i_gen i_seed m_step pshuffle]. unfold pshuffle_step.
      cbn [sh_vals sh_pos sh_rcount].
      replace (pos =? 0) with false by lia. replace (zlen vals <=? pos) with false by lia.
      assert (Hn : (Z.to_nat pos < length vals)%nat) by (unfold zlen in Hl; lia).
      unfold pyidx. replace ((0 <=? pos) && (pos <? zlen vals)) with true by lia.
      destruct (nth_error vals (Z.to_nat pos)) as [v|] eqn:N; [|apply nth_error_None in N; lia].
      cbn [fst snd]. rewrite IH by lia.
      replace (Z.to_nat (pos + 1)) with (Datatypes.S (Z.to_nat pos)) by lia.
      assert (Sk : skipn (Z.to_nat pos) vals = v :: skipn (Datatypes.S (Z.to_nat pos)) vals).
      { clear -N. revert vals N. induction (Z.to_nat pos) as [|n IHn]; intros [|a t] N; cbn in *; try discriminate.
        - inversion N; reflexivity.
        - apply IHn. exact N. }
      rewrite Sk. reflexivity.
  Qed.
End Contract.


Section Contract2.
  Variable R : Type.
  Variable r_unit : R -> Z * R.
  Variable r_below : Z -> R -> Z * R.
  Variable r_seed : Z -> R.
  Hypothesis unit_range : forall g, 0 <= fst (r_unit g) < two53.
  Hypothesis below_range : forall n g, 0 < n -> 0 <= fst (r_below n g) < n.

  (** ** PBrown (int mode): every step moves by at most [step] before clamping; from inside [min,max]
         the value stays inside and moves by at most [step] *)
  Lemma brown_step_ok step mn mx v g r v' g' :
    0 <= step -> brown_step R r_below step mn mx v g = (r, v', g') ->
    r = Out (OZ v) /\ (exists d, - step <= d <= step /\ v' = Z.min (Z.max (v + d) mn) mx)
    /\ (mn <= mx -> mn <= v' <= mx) /\ (mn <= v <= mx -> Z.abs (v' - v) <= step).
  Proof.
    intros Hs E. unfold brown_step in E. replace (step <? 0) with false in E by lia.
    pose proof (below_range (2 * step + 1) g ltac:(lia)) as B.
    destruct (r_below (2 * step + 1) g) as [k g1]. cbn [fst] in B. inversion E; subst.
    split; [reflexivity|]. split; [exists (k - step); split; [lia|reflexivity]|]. split; lia.
  Qed.

  Definition brown_ok (mn mx : Z) (first : Z) (r : res) : Prop :=
    match r with Out (OZ v) => mn <= v <= mx | _ => False end.

  Lemma brown_range init step mn mx ops i :
    0 <= step -> mn <= init <= mx -> mn <= i_st i <= mx ->
    Forall (brown_ok mn mx init) (run R r_seed (brown R r_below init step mn mx) i ops).
  Proof.
    intros Hs H0 Hi. apply (run_Forall R r_seed Z _ (fun v => mn <= v <= mx)); [|exact H0|exact Hi].
    intros st g r st' g' Hst E. cbn in E. destruct (brown_step_ok _ _ _ _ _ _ _ _ Hs E) as [-> [_ [Hb _]]].
    split; [exact Hst|apply Hb; lia].
  Qed.

  (** ** PRandomWalk: the position moves by m steps up or down with min <= m <= max *)
  Lemma walk_move_ok mn mx g mv g' :
    0 <= mn -> walk_move R r_unit r_below mn mx g = Some (mv, g') -> mn <= Z.abs mv <= mx.
  Proof.
    intro Hm. unfold walk_move. destruct (mx - mn + 1 <=? 0) eqn:E; [discriminate|].
    pose proof (below_range (mx - mn + 1) g ltac:(lia)) as B.
    destruct (r_below (mx - mn + 1) g) as [k g1]. cbn [fst] in B.
    destruct (d_unit R r_unit g1) as [u g2]. intro X. inversion X; subst.
    destruct (Qltb u (1 # 2)); lia.
  Qed.

  Lemma walk_step_ok values mn mx pos g r pos' g' :
    0 <= mn -> walk_step R r_unit r_below values mn mx true pos g = (r, pos', g') ->
    r = Fail \/ exists m v, mn <= m <= mx /\ (pos' = (pos + m) mod zlen values \/ pos' = (pos - m) mod zlen values)
                       /\ r = Out (OZ v) /\ nth_error values (Z.to_nat pos') = Some v.
  Proof.
    intros Hm E. unfold walk_step in E.
    destruct (walk_move R r_unit r_below mn mx g) as [[mv g2]|] eqn:W; [|inversion E; auto].
    apply walk_move_ok in W; [|exact Hm]. cbn [andb] in E. destruct (zlen values =? 0) eqn:Z0; [inversion E; auto|].
    assert (Hn : 0 < zlen values) by (unfold zlen in *; lia).
    pose proof (Z.mod_pos_bound (pos + mv) (zlen values) Hn) as Hb.
    unfold pyidx in E. replace ((0 <=? (pos + mv) mod zlen values) && ((pos + mv) mod zlen values <? zlen values)) with true in E by lia.
    destruct (nth_error values _) as [v|] eqn:N; inversion E; subst; [|auto]. right.
    exists (Z.abs mv), v. split; [lia|]. split; [|split; [reflexivity|exact N]].
    destruct (Z_lt_le_dec mv 0); [right; f_equal; lia|left; f_equal; lia].
  Qed.

  (** ** PMarkov: every output is a learned successor of the previous one (of some key, for the first) *)
  Lemma choice_In {A} (l : list A) g x g' : choice R r_below l g = (Some x, g') -> In x l.
  Proof.
    unfold choice. destruct (zlen l =? 0); [discriminate|]. destruct (r_below (zlen l) g) as [k g1].
    intro X. inversion X. eapply nth_error_In; eauto.
  Qed.
  Lemma lookup_key k nodes l : lookup k nodes = Some l -> In k (map fst nodes).
  Proof.
    induction nodes as [|[k' l'] r IH]; cbn; [discriminate|]. destruct (k =? k') eqn:E; [left; lia|right; auto].
  Qed.

  Definition learned (nodes : nodes_t) (prev : option Z) (y : Z) : Prop :=
    exists k succs, lookup k nodes = Some succs /\ In y succs /\ (prev = Some k \/ prev = None).

  Lemma markov_step_ok nodes node g r node' g' :
    markov_step R r_below nodes node g = (r, node', g') ->
    match r with
    | Out (OZ y) => learned nodes node y /\ node' = Some y
    | Out _ => False
    | Stop => node' = node \/ node = None
    | Fail => False
    end.
  Proof.
    unfold markov_step. intro E.
    assert (H1 : exists node1 g1,
      (match node with None => if zlen nodes =? 0 then (None, g) else choice R r_below (map fst nodes) g | Some _ => (node, g) end) = (node1, g1)
      /\ (node = None \/ node1 = node)).
    { destruct node; [eexists _, _; split; [reflexivity|auto]|].
      destruct (zlen nodes =? 0); [eexists _, _; split; [reflexivity|auto]|].
      destruct (choice R r_below (map fst nodes) g) as [n1 g1]. eexists _, _; split; [reflexivity|auto]. }
    destruct H1 as [node1 [g1 [E1 Hn]]]. rewrite E1 in E.
    assert (HS : Some node1 = Some node1 -> node1 = node \/ node = None) by (intros _; destruct Hn; auto).
    destruct node1 as [k|]; [|inversion E; subst; apply HS; reflexivity].
    destruct (lookup k nodes) as [succs|] eqn:L; [|inversion E; subst; apply HS; reflexivity].
    destruct succs as [|a t]; [inversion E; subst; apply HS; reflexivity|].
    assert (Hz : zlen (a :: t) =? 0 = false) by (unfold zlen; cbn [length]; lia).
    destruct (choice R r_below (a :: t) g1) as [o g2] eqn:C.
    destruct o as [y|].
    - inversion E; subst. split; [|reflexivity]. exists k, (a :: t). split; [exact L|]. split; [eapply choice_In; eauto|].
      destruct Hn as [Hn|Hn]; [right; exact Hn|left; symmetry; exact Hn].
    - exfalso. unfold choice in C. rewrite Hz in C.
      pose proof (below_range (zlen (a :: t)) g1 ltac:(unfold zlen; cbn [length]; lia)) as B.
      destruct (r_below (zlen (a :: t)) g1) as [j g3]. cbn [fst] in B. inversion C as [[N G]].
      apply nth_error_None in N. unfold zlen in B. lia.
  Qed.

  (* chains: consecutive outputs are learned transitions *)
  Fixpoint chain (nodes : nodes_t) (prev : option Z) (rs : list res) : Prop :=
    match rs with
    | [] => True
    | Out (OZ y) :: t => learned nodes prev y /\ chain nodes (Some y) t
    | Stop :: t => chain nodes prev t
    | _ => False
    end.
  Lemma chain_weaken nodes : forall rs p, chain nodes p rs -> chain nodes None rs.
  Proof.
    induction rs as [|r t IH]; intros p H; [exact I|].
    destruct r as [[y| | |]| |]; cbn [chain] in *; try contradiction.
    - destruct H as [[k [succs [L [Hy _]]]] Ht]. split; [|exact Ht]. exists k, succs. auto.
    - eapply IH; eauto.
  Qed.

  Lemma markov_chain nodes : forall n node g s,
    chain nodes node (run R r_seed (markov R r_below nodes) (mkInst node g s) (repeat Next n)).
  Proof.
    induction n as [|n IH]; intros node g s; [exact I|].
    cbn [repeat]. rewrite run_cons. cbn [do_op i_st i_gen i_seed m_step markov].
    destruct (markov_step R r_below nodes node g) as [[r node'] g'] eqn:E. cbn [fst snd].
    pose proof (markov_step_ok _ _ _ _ _ _ E) as H. destruct r as [[y| | |]| |]; try contradiction.
    - destruct H as [H ->]. cbn [chain]. split; [exact H|apply IH].
    - cbn [chain]. destruct H as [->| ->]; [apply IH|]. eapply chain_weaken. apply IH.
  Qed.
End Contract2.


Section Contract3.
  Variable R : Type.
  Variable r_unit : R -> Z * R.
  Variable r_below : Z -> R -> Z * R.
  Variable r_seed : Z -> R.
  Hypothesis unit_range : forall g, 0 <= fst (r_unit g) < two53.
  Hypothesis below_range : forall n g, 0 < n -> 0 <= fst (r_below n g) < n.

  (** ** PSample: a selection without replacement *)
  Lemma wnchoice_seq n ws g i g' :
    wnchoice R r_unit (map Z.of_nat (seq 0 n)) ws g = (Some i, g') -> 0 <= i < Z.of_nat n.
  Proof.
    unfold wnchoice. destruct (d_unit R r_unit g) as [u g1]. destruct (wnindex ws u) as [k|]; [|discriminate].
    intro X. inversion X as [[N G]]. apply nth_error_In in N. apply in_map_iff in N. destruct N as [j [<- Hj]].
    apply in_seq in Hj. lia.
  Qed.

  Lemma sample_loop_ok : forall n vals ws acc g l g',
    sample_loop R r_unit r_below n vals ws acc g = (Some l, g') ->
    exists rest, Permutation (l ++ rest) (rev acc ++ vals) /\ length l = (length acc + n)%nat.
  Proof.
    induction n as [|n IH]; intros vals ws acc g l g' E; cbn [sample_loop] in E.
    - inversion E; subst. exists vals. split; [reflexivity|rewrite rev_length; lia].
    - assert (K : forall k g1 ws', (k < length vals)%nat ->
                sample_loop R r_unit r_below n (remove_nth k vals) ws' (nth k vals 0 :: acc) g1 = (Some l, g') ->
                exists rest, Permutation (l ++ rest) (rev acc ++ vals) /\ length l = (length acc + Datatypes.S n)%nat).
      { intros k g1 ws' Hk E1. apply IH in E1. destruct E1 as [rest [P L]]. exists rest. split; [|cbn [length] in L; lia].
        eapply perm_trans; [exact P|]. cbn [rev]. rewrite <- app_assoc. apply Permutation_app_head. cbn [app].
        symmetry. apply remove_nth_perm. exact Hk. }
      destruct ws as [|w ws].
      + destruct (zlen vals =? 0) eqn:Z0; [discriminate|].
        pose proof (below_range (zlen vals) g ltac:(unfold zlen in *; lia)) as B.
        destruct (r_below (zlen vals) g) as [i g1]. cbn [fst] in B. eapply K; [|exact E]. unfold zlen in B. lia.
      + destruct (wnchoice R r_unit (map Z.of_nat (seq 0 (length vals))) (w :: ws) g) as [oi g1] eqn:W.
        destruct oi as [i|]; [|discriminate]. apply wnchoice_seq in W.
        destruct (i <? zlen (w :: ws)); [|discriminate]. eapply K; [|exact E]. lia.
  Qed.

  Lemma sample_step_ok values count ws s g l s' g' :
    sample_step R r_unit r_below values count ws s g = (Out (OL l), s', g') ->
    (exists rest, Permutation (l ++ rest) values) /\ length l = Z.to_nat count.
  Proof.
    unfold sample_step. destruct (zlen values <? count); [discriminate|].
    destruct (sample_loop R r_unit r_below (Z.to_nat count) values ws [] g) as [o g1] eqn:E.
    destruct o as [l'|]; [|discriminate]. intro X. inversion X; subst.
    apply sample_loop_ok in E. destruct E as [rest [P L]]. split; [exists rest; exact P|exact L].
  Qed.
End Contract3.

Section Contract4.
  Variable R : Type.
  Variable r_unit : R -> Z * R.
  Variable r_below : Z -> R -> Z * R.
  Variable r_seed : Z -> R.
  Hypothesis unit_range : forall g, 0 <= fst (r_unit g) < two53.
  Hypothesis below_range : forall n g, 0 < n -> 0 <= fst (r_below n g) < n.

  (* the first len(values) outputs of a new or reset PShuffle are a permutation of the values *)
  Lemma pshuffle_first_block values repeats s : values <> [] ->
    exists vals', Permutation vals' values /\
      run R r_seed (pshuffle R r_below values repeats) (fresh R r_seed (pshuffle R r_below values repeats) s)
          (repeat Next (length values)) = map (fun v => Out (OZ v)) vals'.
  Proof.
    intro Hne. destruct values as [|a t]; [contradiction|].
    pose proof (shuffle_perm R r_unit r_below r_seed unit_range below_range (a :: t) (r_seed s)) as P.
    destruct (shuffle R r_below (a :: t) (r_seed s)) as [vals' g1] eqn:Sh. cbn [fst] in P.
    exists vals'. split; [exact P|].
    pose proof (Permutation_length P) as L. cbn [length] in L.
    cbn [length repeat]. rewrite run_cons. unfold fresh. cbn [do_op i_st i_gen i_seed m_step m_init pshuffle].
    unfold pshuffle_step. cbn [sh_vals sh_pos sh_rcount]. change (0 =? 0) with true. cbv iota. rewrite Sh.
    destruct vals' as [|v0 rest]; [discriminate|]. cbn [length] in L.
    replace (zlen (v0 :: rest) <=? 0) with false by (unfold zlen; cbn [length]; lia).
    change (pyidx (v0 :: rest) 0) with (if (0 <=? 0) && (0 <? zlen (v0 :: rest)) then Some v0 else
       if (- zlen (v0 :: rest) <=? 0) && (0 <? 0) then nth_error (v0 :: rest) (Z.to_nat (0 + zlen (v0 :: rest))) else None).
    replace ((0 <=? 0) && (0 <? zlen (v0 :: rest))) with true by (unfold zlen; cbn [length]; lia).
    cbn [fst snd]. rewrite (pshuffle_block_from R r_unit r_below r_seed unit_range below_range) by (unfold zlen; cbn [length]; lia).
    change (Z.to_nat (0 + 1)) with 1%nat. cbn [skipn map]. f_equal.
    rewrite firstn_all2 by lia. reflexivity.
  Qed.

End Contract4.

(** ** Stateless machines (PCoin, PChoice, PSample): seed(s) alone rewinds *)
Lemma reseed_rewinds_stateless R (r_seed : Z -> R) (m : machine R unit) i pre s post :
  run R r_seed m i (pre ++ Seed s :: post) = run R r_seed m i pre ++ run R r_seed m (fresh R r_seed m s) post.
Proof.
  rewrite run_app, run_cons. cbn [do_op fst snd]. unfold fresh.
  destruct (i_st (after R r_seed m i pre)). destruct (m_init m). reflexivity.
Qed.

(** ** The replay generator of the correspondence check respects the contract (so the contract is satisfiable) *)
Lemma replay_contract :
  (forall g, 0 <= fst (rp_unit g) < two53) /\ (forall n g, 0 < n -> 0 <= fst (rp_below n g) < n).
Proof.
  split.
  - intro g. unfold rp_unit. destruct (rp_rest g); cbn [fst]; [unfold two53; lia|].
    apply Z.mod_pos_bound. unfold two53. lia.
  - intros n g Hn. unfold rp_below. destruct (rp_rest g); cbn [fst]; [lia|]. apply Z.mod_pos_bound. exact Hn.
Qed.

(* Pat/ChanceProofs.v — lemmas about the model of the stochastic patterns (Pat/Chance.v). *)
From Isobar Require Import Base.Prelude Pat.Chance.
From Coq Require Import QArith Qround Qabs Permutation.
Local Notation length := List.length (only parsing).
Open Scope Z_scope.

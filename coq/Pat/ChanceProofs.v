(* Pat/ChanceProofs.v — lemmas about the model of the stochastic patterns (Pat/Chance.v). *)
From Isobar Require Import Base.Prelude Pat.Chance.
From Coq Require Import QArith Qround Qabs Permutation Lqa.
Local Notation length := List.length (only parsing).
Open Scope Z_scope.

(** * Generic facts about scripts: reset / re-seed rewind, isolation *)
Section Generic.
  Variable R : Type.
  Variable r_seed : Z -> R.
  Variable S : Type.
  Variable m : machine R S.

  Lemma run_cons i o r :
    run R r_seed m i (o :: r) =
    match snd (do_op R r_seed m i o) with
    | Some x => x :: run R r_seed m (fst (do_op R r_seed m i o)) r
    | None => run R r_seed m (fst (do_op R r_seed m i o)) r
    end.
  Proof.
    unfold run. cbn [run_st]. destruct (do_op R r_seed m i o) as [i' e]. cbn [fst snd].
    destruct (run_st R r_seed m i' r) as [i'' es]. destruct e; reflexivity.
  Qed.

  Lemma after_cons i o r :
    after R r_seed m i (o :: r) = after R r_seed m (fst (do_op R r_seed m i o)) r.
  Proof.
    unfold after. cbn [run_st]. destruct (do_op R r_seed m i o) as [i' e]. cbn [fst snd].
    destruct (run_st R r_seed m i' r) as [i'' es]. reflexivity.
  Qed.

  Lemma run_app i a b :
    run R r_seed m i (a ++ b) = run R r_seed m i a ++ run R r_seed m (after R r_seed m i a) b.
  Proof.
    revert i. induction a as [|o a IH]; intro i.
    - reflexivity.
    - cbn [app]. rewrite !run_cons, after_cons, IH. destruct (snd (do_op R r_seed m i o)); reflexivity.
  Qed.

  (* reset() puts the pattern into the state of a new instance seeded with the stored seed *)
  Lemma reset_rewinds i pre post :
    run R r_seed m i (pre ++ Reset :: post) =
    run R r_seed m i pre ++ run R r_seed m (fresh R r_seed m (i_seed (after R r_seed m i pre))) post.
  Proof. rewrite run_app, run_cons. reflexivity. Qed.

  (* seed(s) followed by reset() puts it into the state of a new instance seeded with s *)
  Lemma reseed_reset_rewinds i pre s post :
    run R r_seed m i (pre ++ Seed s :: Reset :: post) =
    run R r_seed m i pre ++ run R r_seed m (fresh R r_seed m s) post.
  Proof. rewrite run_app, !run_cons. reflexivity. Qed.

  Definition no_seed (ops : list op) : Prop := Forall (fun o => match o with Seed _ => False | _ => True end) ops.

  Lemma seed_kept i ops : no_seed ops -> i_seed (after R r_seed m i ops) = i_seed i.
  Proof.
    intro H. revert i. induction H as [|o r Ho Hr IH]; intro i.
    - reflexivity.
    - rewrite after_cons, IH. destruct o; cbn; try reflexivity; try contradiction.
      destruct (m_step m (i_st i) (i_gen i)) as [[? ?] ?]. reflexivity.
  Qed.

  Lemma reset_replays s pre post :
    no_seed pre ->
    run R r_seed m (fresh R r_seed m s) (pre ++ Reset :: post) =
    run R r_seed m (fresh R r_seed m s) pre ++ run R r_seed m (fresh R r_seed m s) post.
  Proof. intro H. rewrite reset_rewinds, (seed_kept _ _ H). reflexivity. Qed.

  (* an invariant of the state that every step preserves bounds every output of every script *)
  Lemma run_Forall (Inv : S -> Prop) (P : res -> Prop) :
    (forall st g r st' g', Inv st -> m_step m st g = (r, st', g') -> P r /\ Inv st') ->
    Inv (m_init m) ->
    forall ops i, Inv (i_st i) -> Forall P (run R r_seed m i ops).
  Proof.
    intros Hstep Hinit ops. induction ops as [|o r IH]; intros i Hi.
    - constructor.
    - rewrite run_cons. destruct o; cbn.
      + destruct (m_step m (i_st i) (i_gen i)) as [[x st'] g'] eqn:E. cbn.
        destruct (Hstep _ _ _ _ _ Hi E) as [Hp Hi']. constructor; [exact Hp|]. apply IH. exact Hi'.
      + apply IH. exact Hinit.
      + apply IH. exact Hi.
  Qed.
End Generic.

(** ** Isolation: in a world of patterns and the global generator, under any schedule, the outputs of
       pattern [a] are those of [a] alone on its own operations *)
Section Isolation.
  Variable R : Type.
  Variable r_unit : R -> Z * R.
  Variable r_below : Z -> R -> Z * R.
  Variable r_seed : Z -> R.
  Variable S : Type.
  Variable M : nat -> machine R S.

  Lemma isolation a : forall sched w,
    outputs_of a (wrun R r_unit r_below r_seed S M w sched) =
    run R r_seed (M a) (w_inst R S w a) (proj a sched).
  Proof.
    induction sched as [|o r IH]; intro w.
    - reflexivity.
    - destruct o as [id o| |n|s]; cbn [wrun wstep proj].
      + destruct (do_op R r_seed (M id) (w_inst R S w id) o) as [i' e] eqn:E.
        destruct (Nat.eqb id a) eqn:Eid.
        * apply Nat.eqb_eq in Eid. subst id. rewrite run_cons, E. cbn [fst snd].
          destruct e as [x|]; cbn [outputs_of]; [rewrite Nat.eqb_refl; f_equal|];
            rewrite IH; cbn [w_inst]; unfold set_inst; rewrite Nat.eqb_refl; reflexivity.
        * assert (Hk : w_inst R S (mkWorld R S (set_inst R S (w_inst R S w) id i') (w_glob R S w)) a = w_inst R S w a).
          { cbn [w_inst]. unfold set_inst. rewrite Nat.eqb_sym, Eid. reflexivity. }
          destruct e as [x|]; cbn [outputs_of]; [rewrite Eid|]; rewrite IH, Hk; reflexivity.
      + rewrite IH. reflexivity.
      + rewrite IH. reflexivity.
      + rewrite IH. reflexivity.
  Qed.
End Isolation.

(** * Weighted index: util.windex / normalize *)
Definition cum (ws : list Q) (k : nat) : Q := qsum (firstn k ws).
Definition nonneg (ws : list Q) : Prop := Forall (fun w => (0 <= w)%Q) ws.

Lemma Qltb_true a b : Qltb a b = true <-> (a < b)%Q.
Proof.
  unfold Qltb. rewrite negb_true_iff. split; intro H.
  - apply Qnot_le_lt. intro L. apply Qle_bool_iff in L. congruence.
  - destruct (Qle_bool b a) eqn:E; [|reflexivity]. apply Qle_bool_iff in E. exfalso. eapply Qlt_not_le; eauto.
Qed.
Lemma Qltb_false a b : Qltb a b = false <-> (b <= a)%Q.
Proof.
  unfold Qltb. rewrite negb_false_iff. apply Qle_bool_iff.
Qed.

Lemma cum_cons w r k : (cum (w :: r) (Datatypes.S k) == w + cum r k)%Q.
Proof. unfold cum. cbn [firstn qsum]. reflexivity. Qed.
Lemma cum_0 ws : (cum ws 0 == 0)%Q.
Proof. reflexivity. Qed.

Lemma cum_nonneg ws k : nonneg ws -> (0 <= cum ws k)%Q.
Proof.
  intro H. revert k. induction H as [|w r Hw Hr IH]; intros [|k]; try (unfold cum; cbn; lra).
  rewrite cum_cons. specialize (IH k). lra.
Qed.

Lemma windex_from_ge ws : forall n i j, windex_from ws n i = Some j -> i <= j.
Proof.
  induction ws as [|w r IH]; intros n i j H; cbn in H; [discriminate|].
  destruct (Qltb n w); [injection H; lia|]. apply IH in H. lia.
Qed.

Lemma windex_from_interval ws : nonneg ws -> forall n i k, (0 <= n)%Q -> (k < length ws)%nat ->
  (windex_from ws n i = Some (i + Z.of_nat k) <-> (cum ws k <= n /\ n < cum ws (Datatypes.S k))%Q).
Proof.
  intro H. induction H as [|w r Hw Hr IH]; intros n i k Hn Hk; [cbn in Hk; lia|].
  cbn [windex_from]. destruct k as [|k].
  - rewrite cum_cons, !cum_0. destruct (Qltb n w) eqn:E.
    + apply Qltb_true in E. split; intro; [lra|f_equal; lia].
    + apply Qltb_false in E. split; intro X.
      * apply windex_from_ge in X. lia.
      * lra.
  - assert (Hk' : (k < length r)%nat) by (cbn in Hk; lia).
    assert (C1 : (cum (w :: r) (Datatypes.S k) == w + cum r k)%Q) by apply cum_cons.
    assert (C2 : (cum (w :: r) (Datatypes.S (Datatypes.S k)) == w + cum r (Datatypes.S k))%Q) by apply cum_cons.
    pose proof (cum_nonneg r k Hr) as P1.
    destruct (Qltb n w) eqn:E.
    + apply Qltb_true in E. split; intro X; [injection X; lia|lra].
    + apply Qltb_false in E.
      replace (i + Z.of_nat (Datatypes.S k)) with ((i + 1) + Z.of_nat k) by lia.
      rewrite (IH (n - w)%Q (i + 1) k ltac:(lra) Hk'). rewrite C1, C2. split; intro; lra.
Qed.

Lemma cum_step ws k : (k < length ws)%nat -> (cum ws (Datatypes.S k) - cum ws k == nth k ws 0)%Q.
Proof.
  revert k. induction ws as [|w r IH]; intros k Hk; [cbn in Hk; lia|].
  destruct k as [|k].
  - rewrite cum_cons, !cum_0. cbn [nth]. lra.
  - cbn in Hk. specialize (IH k ltac:(lia)). rewrite !cum_cons. cbn [nth]. lra.
Qed.

Lemma qsum_map_div l s : (~ s == 0)%Q -> (qsum (map (fun w => w / s) l) == qsum l / s)%Q.
Proof.
  intro Hs. induction l as [|x r IH]; cbn.
  - field. exact Hs.
  - rewrite IH. field. exact Hs.
Qed.

Lemma cum_normalize ws k : (~ qsum ws == 0)%Q -> (cum (normalize ws) k == cum ws k / qsum ws)%Q.
Proof.
  intro Hs. unfold normalize. destruct (Qeq_bool (qsum ws) 0) eqn:E.
  - apply Qeq_bool_iff in E. contradiction.
  - unfold cum. rewrite firstn_map. apply qsum_map_div. exact Hs.
Qed.

Lemma nonneg_normalize ws : nonneg ws -> (0 < qsum ws)%Q -> nonneg (normalize ws).
Proof.
  intros H Hs. unfold normalize. destruct (Qeq_bool (qsum ws) 0); [exact H|].
  unfold nonneg in *. rewrite Forall_map. eapply Forall_impl; [|exact H].
  intros a Ha. cbv beta in *. apply Qle_shift_div_l; [exact Hs|lra].
Qed.

Lemma length_normalize ws : length (normalize ws) = length ws.
Proof. unfold normalize. destruct (Qeq_bool _ _); [reflexivity|apply map_length]. Qed.

(* the weighted index is k exactly when the uniform draw falls into [cum k / W, cum (k+1) / W) *)
Lemma wnindex_interval ws u k : nonneg ws -> (0 < qsum ws)%Q -> (0 <= u)%Q -> (k < length ws)%nat ->
  (wnindex ws u = Some (Z.of_nat k) <->
   (cum ws k / qsum ws <= u /\ u < cum ws (Datatypes.S k) / qsum ws)%Q).
Proof.
  intros H Hs Hu Hk. unfold wnindex, windex.
  assert (Hn : (~ qsum ws == 0)%Q) by lra.
  pose proof (windex_from_interval (normalize ws) (nonneg_normalize ws H Hs) u 0 k Hu
                ltac:(rewrite length_normalize; exact Hk)) as X.
  change (0 + Z.of_nat k) with (Z.of_nat k) in X. rewrite X. rewrite !cum_normalize by exact Hn. reflexivity.
Qed.

(* that interval has length w_k / W: under a uniform draw, index k has probability mass w_k / sum(w) *)
Lemma wnindex_mass ws k : (0 < qsum ws)%Q -> (k < length ws)%nat ->
  (cum ws (Datatypes.S k) / qsum ws - cum ws k / qsum ws == nth k ws 0 / qsum ws)%Q.
Proof.
  intros Hs Hk. pose proof (cum_step ws k Hk). 
  assert (E : (cum ws (Datatypes.S k) / qsum ws - cum ws k / qsum ws == (cum ws (Datatypes.S k) - cum ws k) / qsum ws)%Q) by (field; lra).
  rewrite E, H. reflexivity.
Qed.

Lemma cum_all ws : (cum ws (length ws) == qsum ws)%Q.
Proof. unfold cum. rewrite firstn_all. reflexivity. Qed.

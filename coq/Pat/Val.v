(* Pat/Val.v — Python values and operators as seen by the pattern engine ("engine P").

   [val] is the fragment of Python's value universe that isobar patterns carry around: None, bool,
   unbounded int, float, str, tuple, list, dict (string keys).  A float [VFlt q] is a Python float whose
   value is EXACTLY the rational q; every operation checks that its exact result is again a "small
   dyadic" (|numerator| < 2^53, denominator a power of two <= 2^256), in which case IEEE-754 arithmetic
   returns exactly that value, and answers [Inexact] otherwise: the harness discards such a case
   instead of comparing a rounded value.  -0.0 is not distinguished from 0.0.

   Type tags are observable: [val_eqb] is the typed equality used by the correspondence check
   (1, 1.0 and True are three different observations), [py_eq] is Python's ==.

   No proofs here. *)
From Isobar Require Import Base.Prelude.
From Coq Require Import QArith Qround Qabs String.
Open Scope Z_scope.

(** * Outcomes *)
Inductive exn := TypeError | ZeroDivisionError | IndexError | KeyError | ValueError | OverflowError
               | AttributeError | RuntimeError | OtherError.

Definition exn_eqb (a b : exn) : bool :=
  match a, b with
  | TypeError, TypeError | ZeroDivisionError, ZeroDivisionError | IndexError, IndexError
  | KeyError, KeyError | ValueError, ValueError | OverflowError, OverflowError
  | AttributeError, AttributeError | RuntimeError, RuntimeError | OtherError, OtherError => true
  | _, _ => false
  end.

(** [Yield v]: a value; [Stop]: StopIteration; [Raise e]: any other exception (by class);
    [OutOfFuel]: the model ran out of fuel (image of a hang, or of too little fuel);
    [Inexact]: the exact result lies outside the domain the model vouches for (non-dyadic float,
    huge exponent, an operand type the model does not cover) — the case is discarded. *)
Inductive outcome (A : Type) : Type :=
| Yield (a : A) | Stop | Raise (e : exn) | OutOfFuel | Inexact.
Arguments Yield {A} a.
Arguments Stop {A}.
Arguments Raise {A} e.
Arguments OutOfFuel {A}.
Arguments Inexact {A}.

Definition obind {A B} (o : outcome A) (k : A -> outcome B) : outcome B :=
  match o with
  | Yield a => k a | Stop => Stop | Raise e => Raise e | OutOfFuel => OutOfFuel | Inexact => Inexact
  end.
Definition omap {A B} (f : A -> B) (o : outcome A) : outcome B := obind o (fun a => Yield (f a)).
(** change of result type for the non-[Yield] outcomes *)
Definition ocast {A B} (o : outcome A) : outcome B := obind o (fun _ => Inexact).

(** * Values *)
Inductive val :=
| VNone
| VBool (b : bool)
| VInt (z : Z)
| VFlt (q : Q)
| VStr (s : string)
| VTup (l : list val)
| VList (l : list val)
| VDict (kv : list (string * val)).

(** typed, structural equality (floats by value) *)
Fixpoint val_eqb (a b : val) {struct a} : bool :=
  let fix leq (l1 l2 : list val) {struct l1} : bool :=
    match l1, l2 with
    | [], [] => true
    | x :: xs, y :: ys => val_eqb x y && leq xs ys
    | _, _ => false
    end in
  let fix deq (l1 l2 : list (string * val)) {struct l1} : bool :=
    match l1, l2 with
    | [], [] => true
    | (k, x) :: xs, (k', y) :: ys => String.eqb k k' && val_eqb x y && deq xs ys
    | _, _ => false
    end in
  match a, b with
  | VNone, VNone => true
  | VBool x, VBool y => Bool.eqb x y
  | VInt x, VInt y => x =? y
  | VFlt x, VFlt y => Qeq_bool x y
  | VStr x, VStr y => String.eqb x y
  | VTup x, VTup y => leq x y
  | VList x, VList y => leq x y
  | VDict x, VDict y => deq x y
  | _, _ => false
  end.

(** sys.maxsize on the 64-bit CPython the harness runs *)
Definition MAXSIZE : Z := 9223372036854775807.

(** * Numbers *)
Fixpoint pos_is_pow2 (p : positive) : bool :=
  match p with xH => true | xO p' => pos_is_pow2 p' | xI _ => false end.

(** exactly representable as a binary64 with room to spare *)
Definition dyadic_ok (q : Q) : bool :=
  let r := Qred q in
  pos_is_pow2 (Qden r) && (Z.abs (Qnum r) <? 2 ^ 53) && (Z.pos (Qden r) <=? 2 ^ 256).

Definition mk_flt (q : Q) : outcome val := if dyadic_ok q then Yield (VFlt (Qred q)) else Inexact.

(** numeric view: (value, is_float) *)
Definition num_of (v : val) : option (Q * bool) :=
  match v with
  | VBool b => Some (inject_Z (if b then 1 else 0), false)
  | VInt z => Some (inject_Z z, false)
  | VFlt q => Some (q, true)
  | _ => None
  end.
Definition int_of (v : val) : option Z :=
  match v with VBool b => Some (if b then 1 else 0) | VInt z => Some z | _ => None end.

Definition q_is_int (q : Q) : bool := Qeq_bool q (inject_Z (Qfloor q)).
Definition qzero (q : Q) : bool := Qeq_bool q 0.
Definition Qltb (a b : Q) : bool := negb (Qle_bool b a).

(** round half to even, Q -> Z *)
Definition round_half_even (q : Q) : Z :=
  let f := Qfloor q in
  let r := (q - inject_Z f)%Q in
  if Qltb r (1 # 2) then f
  else if Qltb (1 # 2) r then f + 1
  else if Z.even f then f else f + 1.

(** * Operators *)
Inductive op := OAdd | OSub | OMul | ODiv | OFloorDiv | OMod | OPow | OLShift | ORShift
              | OEq | ONe | OGt | OGe | OLt | OLe.

Definition op_eqb (a b : op) : bool :=
  match a, b with
  | OAdd, OAdd | OSub, OSub | OMul, OMul | ODiv, ODiv | OFloorDiv, OFloorDiv | OMod, OMod | OPow, OPow
  | OLShift, OLShift | ORShift, ORShift | OEq, OEq | ONe, ONe | OGt, OGt | OGe, OGe | OLt, OLt | OLe, OLe => true
  | _, _ => false
  end.

(** caps beyond which the model declines to compute (discard) *)
Definition POW_CAP : Z := 512.
Definition SHIFT_CAP : Z := 1024.

(** Python == (numbers by value across int/float/bool; containers element-wise; dicts in order) *)
Fixpoint py_eq (a b : val) {struct a} : bool :=
  let fix leq (l1 l2 : list val) {struct l1} : bool :=
    match l1, l2 with
    | [], [] => true
    | x :: xs, y :: ys => py_eq x y && leq xs ys
    | _, _ => false
    end in
  let fix deq (l1 l2 : list (string * val)) {struct l1} : bool :=
    match l1, l2 with
    | [], [] => true
    | (k, x) :: xs, (k', y) :: ys => String.eqb k k' && py_eq x y && deq xs ys
    | _, _ => false
    end in
  match a, b with
  | VNone, VNone => true
  | VStr x, VStr y => String.eqb x y
  | VTup x, VTup y => leq x y
  | VList x, VList y => leq x y
  | VDict x, VDict y => deq x y
  | _, _ =>
      match num_of a, num_of b with
      | Some (x, _), Some (y, _) => Qeq_bool x y
      | _, _ => false
      end
  end.

Definition truthy (v : val) : bool :=
  match v with
  | VNone => false
  | VBool b => b
  | VInt z => negb (z =? 0)
  | VFlt q => negb (qzero q)
  | VStr s => negb (String.eqb s EmptyString)
  | VTup l | VList l => match l with [] => false | _ => true end
  | VDict l => match l with [] => false | _ => true end
  end.

Definition int_to_float_ok (q : Q) (is_f : bool) : bool :=
  is_f || (Z.abs (Qfloor q) <? 2 ^ 53).

(** integer arithmetic (bool is an int) *)
Definition int_binop (o : op) (a b : Z) : outcome val :=
  match o with
  | OAdd => Yield (VInt (a + b))
  | OSub => Yield (VInt (a - b))
  | OMul => Yield (VInt (a * b))
  | ODiv => if b =? 0 then Raise ZeroDivisionError else mk_flt (inject_Z a / inject_Z b)%Q
  | OFloorDiv => if b =? 0 then Raise ZeroDivisionError else Yield (VInt (a / b))
  | OMod => if b =? 0 then Raise ZeroDivisionError else Yield (VInt (a mod b))
  | OPow =>
      if 0 <=? b then
        if (b <=? POW_CAP) || (Z.abs a <=? 1) then Yield (VInt (if Z.abs a <=? 1 then (if a =? -1 then (if Z.even b then 1 else -1) else if a =? 0 then (if b =? 0 then 1 else 0) else 1) else a ^ b)) else Inexact
      else if a =? 0 then Raise ZeroDivisionError
      else if - b <=? POW_CAP then mk_flt (Qpower (inject_Z a) b) else Inexact
  | OLShift => if b <? 0 then Raise ValueError else if b <=? SHIFT_CAP then Yield (VInt (Z.shiftl a b)) else
                 if a =? 0 then Yield (VInt 0) else Inexact
  | ORShift => if b <? 0 then Raise ValueError else Yield (VInt (Z.shiftr a b))
  | OEq => Yield (VBool (a =? b))
  | ONe => Yield (VBool (negb (a =? b)))
  | OGt => Yield (VBool (b <? a))
  | OGe => Yield (VBool (b <=? a))
  | OLt => Yield (VBool (a <? b))
  | OLe => Yield (VBool (a <=? b))
  end.

(** float arithmetic, exact on the rationals; at least one operand is a float *)
Definition flt_binop (o : op) (a b : Q) : outcome val :=
  match o with
  | OAdd => mk_flt (a + b)
  | OSub => mk_flt (a - b)
  | OMul => mk_flt (a * b)
  | ODiv => if qzero b then Raise ZeroDivisionError else mk_flt (a / b)
  | OFloorDiv => if qzero b then Raise ZeroDivisionError else mk_flt (inject_Z (Qfloor (a / b)))
  | OMod => if qzero b then Raise ZeroDivisionError else mk_flt (a - b * inject_Z (Qfloor (a / b)))
  | OPow =>
      if q_is_int b then
        let n := Qfloor b in
        if (n <? 0) && qzero a then Raise ZeroDivisionError
        else if Z.abs n <=? POW_CAP then mk_flt (Qpower a n) else Inexact
      else Inexact
  | OLShift | ORShift => Raise TypeError
  | OEq => Yield (VBool (Qeq_bool a b))
  | ONe => Yield (VBool (negb (Qeq_bool a b)))
  | OGt => Yield (VBool (Qltb b a))
  | OGe => Yield (VBool (Qle_bool b a))
  | OLt => Yield (VBool (Qltb a b))
  | OLe => Yield (VBool (Qle_bool a b))
  end.

Definition is_cmp (o : op) : bool :=
  match o with OEq | ONe | OGt | OGe | OLt | OLe => true | _ => false end.

(** The Python binary operators on values.  Numbers are covered completely; == and != on everything;
    None with an arithmetic or ordering operator is a TypeError; other operand types (str * int,
    tuple + tuple, ...) are outside the modelled domain ([Inexact]). *)
Definition binop (o : op) (a b : val) : outcome val :=
  match o with
  | OEq => Yield (VBool (py_eq a b))
  | ONe => Yield (VBool (negb (py_eq a b)))
  | _ =>
      match num_of a, num_of b with
      | Some (x, fx), Some (y, fy) =>
          if fx || fy then
            (* ordering comparisons between int and float are exact in Python *)
            if is_cmp o then flt_binop o x y
            else if int_to_float_ok x fx && int_to_float_ok y fy then flt_binop o x y else Inexact
          else int_binop o (Qfloor x) (Qfloor y)
      | _, _ =>
          match a, b with
          | VNone, _ | _, VNone => Raise TypeError
          | _, _ => match num_of a, num_of b with
                    | Some _, None | None, Some _ =>
                        (* number against str/tuple/list/dict: only * (repetition) and % (format) can succeed *)
                        match o with OMul | OMod => Inexact | _ => Raise TypeError end
                    | _, _ => Inexact
                    end
          end
      end
  end.

(** comparisons used inside class bodies: the truth value of [a o b], or the exception *)
Definition cmp (o : op) (a b : val) : outcome bool := omap truthy (binop o a b).

(** abs(), int() *)
Definition py_abs (v : val) : outcome val :=
  match v with
  | VBool b => Yield (VInt (if b then 1 else 0))
  | VInt z => Yield (VInt (Z.abs z))
  | VFlt q => Yield (VFlt (Qabs q))
  | _ => Raise TypeError
  end.

Definition Qtrunc (q : Q) : Z := if Qle_bool 0 q then Qfloor q else Qceiling q.

Definition py_int (v : val) : outcome val :=
  match v with
  | VBool b => Yield (VInt (if b then 1 else 0))
  | VInt z => Yield (VInt z)
  | VFlt q => Yield (VInt (Qtrunc q))
  | VStr _ => Inexact
  | _ => Raise TypeError
  end.

(** round(v) / round(v, n) *)
Definition round_to (q : Q) (n : Z) : Q :=
  (* n <= 0: nearest multiple of 10^-n, ties to even *)
  let m := inject_Z (10 ^ (- n)) in (inject_Z (round_half_even (q / m)) * m)%Q.

Definition py_round (v : val) (args : list val) : outcome val :=
  match num_of v with
  | None => Raise TypeError
  | Some (q, is_f) =>
      match args with
      | [] | [VNone] => Yield (VInt (round_half_even q))
      | [nv] =>
          match int_of nv with
          | None => Raise TypeError
          | Some n =>
              if is_f then
                if n <=? 0 then (if - n <=? 30 then mk_flt (round_to q n) else Inexact)
                else if (n <=? 30) && q_is_int (q * inject_Z (10 ^ n)) then Yield (VFlt q) else Inexact
              else
                if 0 <=? n then Yield (VInt (Qfloor q))
                else if - n <=? 30 then Yield (VInt (Qfloor (round_to q n))) else Inexact
          end
      | _ => Raise TypeError
      end
  end.

(** Python list indexing with negative indices *)
Definition py_index {A} (l : list A) (i : Z) : option A :=
  let n := Z.of_nat (List.length l) in
  if (0 <=? i) && (i <? n) then nth_error l (Z.to_nat i)
  else if (- n <=? i) && (i <? 0) then nth_error l (Z.to_nat (n + i))
  else None.

Fixpoint update_nth {A} (n : nat) (x : A) (l : list A) : list A :=
  match l, n with
  | [], _ => []
  | _ :: r, O => x :: r
  | y :: r, S n' => y :: update_nth n' x r
  end.

(** position of an in-range Python index *)
Definition py_index_pos {A} (l : list A) (i : Z) : nat :=
  let n := Z.of_nat (List.length l) in
  if 0 <=? i then Z.to_nat i else Z.to_nat (n + i).

Fixpoint assoc {A} (k : string) (l : list (string * A)) : option A :=
  match l with
  | [] => None
  | (k', v) :: r => if String.eqb k k' then Some v else assoc k r
  end.

(** list.index / in, with Python == *)
Fixpoint index_of (x : val) (l : list val) (i : Z) : option Z :=
  match l with
  | [] => None
  | y :: r => if py_eq y x then Some i else index_of x r (i + 1)
  end.

(* Pat/StickyProofs2.v — C09, the classes Pat/StickyProofs.v left open: PDict, PArrayIndex over a literal list, PSequence with
   pattern items, PRound with pattern arguments (and keyword arguments).
   [gpat] = the fragment fpat of Pat/StickyProofs.v (every constructor, children now in gpat) plus
     GP_seq         PSequence(list, repeats) with items scalars or patterns of the fragment, repeats a scalar
     GP_map         PRound(input, *args, **kwargs): input, args and kwargs scalars or patterns of the fragment
     GP_dict        PDict({k: v}) with values scalars or patterns of the fragment
     GP_arrayindex_list     PArrayIndex([items], index): items and index scalars or patterns of the fragment (since the repair
                            C09-parrayindex-revives the object carries an `exhausted` flag: every PArrayIndex is sticky)
   Main theorem [gpat_quiet]: once next() of a pattern of gpat has raised StopIteration (at any fuel) no later next() returns a
   value (at ANY fuel); [gpat_closed]: closed under next(); [fpat_gpat]: contains fpat.
   The per-class invariants are new ([map_quiet], [dict_quiet], [seq_item_quiet]; PArrayIndex: [arrayindex_stop], [arrayindex_exhausted_quiet]); the cases of the old classes repeat the proof of fpat_quiet with the new induction hypothesis. *)
From Isobar Require Import Base.Prelude Pat.Val Pat.Syntax Pat.Step Pat.StepProofs Pat.IterProofs Pat.ResetProofs Pat.StickyProofs Pat.ResetProofs2.
From Coq Require Import String QArith Wf_nat.
Open Scope Z_scope.

Lemma is_yield_ocast {A B} (o : outcome A) : is_yield o = false -> is_yield (@ocast A B o) = false.
Proof. destruct o; try reflexivity; discriminate. Qed.
Lemma is_yield_omap {A B} (g : A -> B) (o : outcome A) : is_yield (omap g o) = is_yield o.
Proof. destruct o; reflexivity. Qed.
Lemma ocast_stop {A B} (o : outcome A) : @ocast A B o = Stop -> o = Stop.
Proof. destruct o; cbn; try discriminate; reflexivity. Qed.
Lemma omap_stop {A B} (g : A -> B) (o : outcome A) : omap g o = Stop -> o = Stop.
Proof. destruct o; cbn; try discriminate; reflexivity. Qed.

(* where a StopIteration inside an argument list comes from *)
Lemma values_of_stop g l : forall l', values_of g l = (Stop, l') -> exists a a', In a l /\ g a = (Stop, a') /\ In a' l'.
Proof.
  induction l as [|a r IH]; intros l' H; [discriminate|]. cbn [values_of] in H. destruct (g a) as [o a'] eqn:E.
  destruct o.
  - destruct (values_of g r) as [os r'] eqn:Er. inversion H; subst. apply omap_stop in H1. subst os.
    destruct (IH _ eq_refl) as [x [x' [I1 [I2 I3]]]]. exists x, x'. repeat split; [right; exact I1|exact I2|right; exact I3].
  - inversion H; subst. exists a, a'. repeat split; [left; reflexivity|exact E|left; reflexivity].
  - discriminate.
  - discriminate.
  - discriminate.
Qed.

Lemma kwvalues_of_stop g l : forall l', kwvalues_of g l = (Stop, l') ->
  exists k a a', In (k, a) l /\ g a = (Stop, a') /\ In (k, a') l'.
Proof.
  induction l as [|[k a] r IH]; intros l' H; [discriminate|]. cbn [kwvalues_of] in H. destruct (g a) as [o a'] eqn:E.
  destruct o.
  - destruct (kwvalues_of g r) as [os r'] eqn:Er. inversion H; subst. apply omap_stop in H1. subst os.
    destruct (IH _ eq_refl) as [k0 [x [x' [I1 [I2 I3]]]]]. exists k0, x, x'. repeat split; [right; exact I1|exact I2|right; exact I3].
  - inversion H; subst. exists k, a, a'. repeat split; [left; reflexivity|exact E|left; reflexivity].
  - discriminate.
  - discriminate.
  - discriminate.
Qed.

Section Sticky2.
  Variable binop : op -> val -> val -> outcome val.
  Variable LMAX : nat.
  Notation step := (step binop LMAX).
  Notation value := (value binop LMAX).
  Notation anext := (anext binop LMAX).
  Notation outputs := (outputs binop LMAX).
  Notation quiet := (quiet binop LMAX).
  Notation aquiet := (aquiet binop LMAX).
  Notation nquiet := (nquiet binop LMAX).
  Notation dead := (dead binop LMAX).

  Local Opaque cmp Val.binop py_index update_nth Z.add Z.eqb Z.geb zlen wrap_up wrap_down apply_fn.

  Ltac qclose := cbn [fst snd]; split; [first [reflexivity|assumption]|eauto 8].
  Ltac poll_n N f a :=
    let Y := fresh "Y" in
    apply nquiet_unfold in N; destruct (anext f a) as [? ?]; cbn [fst snd] in N; destruct N as [Y N].
  Ltac poll_v N f a :=
    let Y := fresh "Y" in
    apply aquiet_unfold in N; destruct (value f a) as [? ?]; cbn [fst snd] in N; destruct N as [Y N].

  (** * Argument lists: one quiet argument silences the whole list *)
  Lemma values_of_quiet f l : Exists (aquiet f) l ->
    is_yield (fst (values_of (value f) l)) = false /\ Exists (aquiet f) (snd (values_of (value f) l)).
  Proof.
    induction 1 as [a r Ha|a r Hr IH]; cbn [values_of].
    - apply aquiet_unfold in Ha. destruct (value f a) as [o a']. cbn [fst snd] in Ha. destruct Ha as [Y Ha].
      destruct o; try discriminate Y; cbn [fst snd]; (split; [reflexivity|apply Exists_cons_hd; exact Ha]).
    - destruct (value f a) as [o a']. destruct o; try (cbn [fst snd]; split; [reflexivity|apply Exists_cons_tl; exact Hr]).
      destruct (values_of (value f) r) as [os r']. cbn [fst snd] in *. destruct IH as [Y E]. split; [rewrite is_yield_omap; exact Y|apply Exists_cons_tl; exact E].
  Qed.

  Lemma kwvalues_of_quiet f l : Exists (fun ka => aquiet f (snd ka)) l ->
    is_yield (fst (kwvalues_of (value f) l)) = false /\ Exists (fun ka => aquiet f (snd ka)) (snd (kwvalues_of (value f) l)).
  Proof.
    induction 1 as [[k a] r Ha|[k a] r Hr IH]; cbn [kwvalues_of].
    - cbn [snd] in Ha. apply aquiet_unfold in Ha. destruct (value f a) as [o a']. cbn [fst snd] in Ha. destruct Ha as [Y Ha].
      destruct o; try discriminate Y; cbn [fst snd]; (split; [reflexivity|apply Exists_cons_hd; exact Ha]).
    - destruct (value f a) as [o a']. destruct o; try (cbn [fst snd]; split; [reflexivity|apply Exists_cons_tl; exact Hr]).
      destruct (kwvalues_of (value f) r) as [os r']. cbn [fst snd] in *. destruct IH as [Y E]. split; [rewrite is_yield_omap; exact Y|apply Exists_cons_tl; exact E].
  Qed.

  (** * PRound / PMap: a quiet argument, keyword argument or input silences it *)
  Lemma map_quiet f op : forall input args kwargs,
    Exists (aquiet f) args \/ Exists (fun ka => aquiet f (snd ka)) kwargs \/ nquiet f input ->
    quiet (S f) (PMap input op args kwargs).
  Proof.
    intros input args kwargs N.
    apply (quiet_coind binop LMAX (S f) (fun p => exists input args kwargs, p = PMap input op args kwargs /\
             (Exists (aquiet f) args \/ Exists (fun ka => aquiet f (snd ka)) kwargs \/ nquiet f input))); [|eauto 8].
    clear input args kwargs N. intros p [input [args [kwargs [-> N]]]]. rewrite step_map_eq.
    destruct N as [N|N].
    - destruct (values_of_quiet f args N) as [Y E]. destruct (values_of (value f) args) as [oa args']. cbn [fst snd] in Y, E.
      destruct oa; try discriminate Y; cbn [fst snd]; (split; [reflexivity|eauto 8]).
    - destruct (values_of (value f) args) as [oa args']. destruct oa; try (cbn [fst snd]; split; [reflexivity|eauto 8]).
      destruct N as [N|N].
      + destruct (kwvalues_of_quiet f kwargs N) as [Y E]. destruct (kwvalues_of (value f) kwargs) as [ok kwargs']. cbn [fst snd] in Y, E.
        destruct ok; try discriminate Y; cbn [fst snd]; (split; [reflexivity|eauto 8]).
      + destruct (kwvalues_of (value f) kwargs) as [ok kwargs']. destruct ok; try (cbn [fst snd]; split; [reflexivity|eauto 10]).
        poll_n N f input. destruct o; try discriminate Y; cbn [fst snd]; (split; [reflexivity|eauto 10]).
  Qed.

  (** * PDict: a quiet value silences it *)
  Lemma dict_quiet f : forall kv, Exists (fun ka => aquiet f (snd ka)) kv -> quiet (S f) (PDict (AD kv)).
  Proof.
    intros kv N.
    apply (quiet_coind binop LMAX (S f) (fun p => exists kv, p = PDict (AD kv) /\ Exists (fun ka => aquiet f (snd ka)) kv)); [|eauto].
    clear kv N. intros p [kv [-> N]]. rewrite step_dict_eq.
    destruct (kwvalues_of_quiet f kv N) as [Y E]. destruct (kwvalues_of (value f) kv) as [o kv']. cbn [fst snd] in *.
    split; [rewrite is_yield_omap; exact Y|eauto].
  Qed.

  (** * PSequence over a list with pattern items, scalar repeats *)
  Lemma seq_counter_quiet l vrep rc pos :
    (if zlen l =? 0 then Yield true else cmp OGe (VInt rc) vrep) = Yield true ->
    forall f2, quiet f2 (PSequence (AL l) (AV vrep) rc pos).
  Proof.
    intros Ht [|[|f2]]; [apply quiet_0|apply (stable_quiet binop LMAX) with (o := OutOfFuel); reflexivity|].
    apply (stable_quiet binop LMAX) with (o := Stop); [|reflexivity]. rewrite step_seq_eq, value_scalar. cbv beta iota zeta. rewrite Ht. reflexivity.
  Qed.

  Lemma seq_item_quiet f vrep rc pos n :
    (if n =? 0 then Yield true else cmp OGe (VInt rc) vrep) = Yield false ->
    forall l a, zlen l = n -> py_index l pos = Some a -> aquiet f a -> quiet (S f) (PSequence (AL l) (AV vrep) rc pos).
  Proof.
    intros Ht l a Hn Hi N.
    apply (quiet_coind binop LMAX (S f) (fun p => exists l a, p = PSequence (AL l) (AV vrep) rc pos /\ zlen l = n /\
                                            py_index l pos = Some a /\ aquiet f a)); [|eauto 8].
    clear l a Hn Hi N. intros p [l [a [-> [Hn [Hi N]]]]]. rewrite step_seq_eq.
    destruct f as [|f']; [cbn [Step.value]; cbn [fst snd]; split; [reflexivity|eauto 8]|].
    rewrite value_scalar. cbv beta iota zeta. rewrite Hn, Ht, Hi.
    poll_v N (S f') a.
    assert (K : exists l0 a1, PSequence (AL (update_nth (py_index_pos l pos) a0 l)) (AV vrep) rc pos = PSequence (AL l0) (AV vrep) rc pos /\
                              zlen l0 = n /\ py_index l0 pos = Some a1 /\ aquiet (S f') a1).
    { eexists _, a0. split; [reflexivity|]. rewrite zlen_update. split; [exact Hn|]. split; [|exact N]. eapply py_index_update_same; eauto. }
    destruct o; try discriminate Y; cbn [fst snd]; (split; [reflexivity|exact K]).
  Qed.

  (** * The fragment *)
  Inductive gpat : pat -> Prop :=
  | GP_counter p : ends_by_counter p = true -> gpat p
  | GP_constant c : gpat (PConstant c)
  | GP_abs a : garg a -> gpat (PAbs a)
  | GP_int a : garg a -> gpat (PInt a)
  | GP_ref a : garg a -> gpat (PRef a)
  | GP_binop o a b : garg a -> garg b -> gpat (PBinOp o a b)
  | GP_and a b : garg a -> garg b -> gpat (PAnd a b)
  | GP_skipif a b : garg a -> garg b -> gpat (PSkipIf a b)
  | GP_pad p l c : garg p -> gpat (PPad p l c)
  | GP_padm p m mp c pc : garg p -> gpat (PPadToMultiple p m mp c pc)
  | GP_collapse a : garg a -> gpat (PCollapse a)
  | GP_norepeats a v : garg a -> gpat (PNoRepeats a v)
  | GP_changed a c : garg a -> gpat (PChanged a c)
  | GP_diff a c : garg a -> gpat (PDiff a c)
  | GP_wrap p mn mx : garg p -> gpat (PWrap p mn mx)
  | GP_trigcounter t v c : garg t -> gpat (PCounter t v c)
  | GP_stutter p c cc pos v : garg p -> garg c -> gpat (PStutter p c cc pos v)
  | GP_loop p count pos li ra values : gpat (PLoop p count pos li ra values)
  | GP_subsequence p off len pos values : garg p -> gpat (PSubsequence p (AV off) (AV len) pos values)
  | GP_indexof a b : garg a -> garg b -> gpat (PIndexOf a b)
  | GP_indexof_list l b : garg b -> gpat (PIndexOf (AL l) b)
  | GP_dictkey a b : garg a -> garg b -> gpat (PDictKey a b)
  | GP_dictkey_dict kv b : garg b -> gpat (PDictKey (AD kv) b)
  | GP_arrayindex a b e : garg a -> garg b -> gpat (PArrayIndex a b e)
  | GP_concat l pos : Forall garg l -> gpat (PConcatenate (AL l) pos)
  (* the classes Pat/StickyProofs.v left open *)
  | GP_seq l vrep rc pos : Forall garg l -> gpat (PSequence (AL l) (AV vrep) rc pos)
  | GP_map a op args kwargs : garg a -> Forall garg args -> Forall (fun ka => garg (snd ka)) kwargs -> gpat (PMap a op args kwargs)
  | GP_dict kv : Forall (fun ka => garg (snd ka)) kv -> gpat (PDict (AD kv))
  | GP_arrayindex_list l b e : Forall garg l -> garg b -> gpat (PArrayIndex (AL l) b e)
  with garg : arg -> Prop :=
  | GA_val v : garg (AV v)
  | GA_pat p : gpat p -> garg (AP p).

  Lemma garg_simple a : garg a -> simple a.
  Proof. destruct 1; exact I. Qed.

  Lemma scalars_garg l : scalars l = true -> Forall garg l.
  Proof. induction l as [|a r IH]; intro H; [constructor|]. destruct a; try discriminate H. constructor; [apply GA_val|apply IH; exact H]. Qed.

  Lemma Forall_garg_of_farg : forall l, (forall a, In a l -> farg a -> garg a) -> Forall farg l -> Forall garg l.
  Proof. intros l H Hl. rewrite Forall_forall in *. intros a Ha. apply H; [exact Ha|apply Hl; exact Ha]. Qed.

  (** the fragment of Pat/StickyProofs.v is part of it *)
  Fixpoint fpat_gpat p (H : fpat p) {struct H} : gpat p
  with farg_garg a (H : farg a) {struct H} : garg a.
  Proof.
    - destruct H.
      + apply GP_counter; assumption.
      + apply GP_constant.
      + apply GP_abs, farg_garg; assumption.
      + apply GP_int, farg_garg; assumption.
      + apply GP_ref, farg_garg; assumption.
      + apply GP_binop; apply farg_garg; assumption.
      + apply GP_and; apply farg_garg; assumption.
      + apply GP_skipif; apply farg_garg; assumption.
      + apply GP_pad, farg_garg; assumption.
      + apply GP_padm, farg_garg; assumption.
      + apply GP_collapse, farg_garg; assumption.
      + apply GP_norepeats, farg_garg; assumption.
      + apply GP_changed, farg_garg; assumption.
      + apply GP_diff, farg_garg; assumption.
      + apply GP_map; [apply farg_garg; assumption|apply scalars_garg; assumption|constructor].
      + apply GP_wrap, farg_garg; assumption.
      + apply GP_trigcounter, farg_garg; assumption.
      + apply GP_stutter; apply farg_garg; assumption.
      + apply GP_loop.
      + apply GP_subsequence, farg_garg; assumption.
      + apply GP_indexof; apply farg_garg; assumption.
      + apply GP_indexof_list, farg_garg; assumption.
      + apply GP_dictkey; apply farg_garg; assumption.
      + apply GP_dictkey_dict, farg_garg; assumption.
      + apply GP_arrayindex; apply farg_garg; assumption.
      + apply GP_concat.
        match goal with Hl : Forall farg ?l |- _ => revert Hl; generalize l end.
        fix go 2. intros l0 Hl. destruct Hl as [|x r Hx Hr]; [constructor|]. constructor; [apply farg_garg; exact Hx|apply go; exact Hr].
    - destruct H; [apply GA_val|apply GA_pat, fpat_gpat; assumption].
  Qed.

  (** * Closure under next() *)
  Ltac gclosed_case IHs IHv IHn :=
    cbv zeta;
    repeat match goal with
           | PU : forall values target, garg (snd (pull_until ?g ?n ?p values target)) |- context [pull_until ?g ?n ?p ?v ?t] =>
               let K := fresh "K" in pose proof (PU v t) as K; destruct (pull_until g n p v t) as [[? ?] ?]; cbn [snd] in K
           | H : garg ?a |- context [value ?f ?a] =>
               let K := fresh "K" in pose proof (IHv a H) as K; destruct (value f a) as [? ?]; cbn [snd] in K
           | H : garg ?a |- context [anext ?f ?a] =>
               let K := fresh "K" in pose proof (IHn a H) as K; destruct (anext f a) as [? ?]; cbn [snd] in K
           | |- context [if ?x then _ else _] => is_var x; destruct x
           | |- context [match ?x with _ => _ end] => is_var x; destruct x
           | |- context [if ?x then _ else _] => destruct x
           | |- context [match ?x with _ => _ end] => destruct x
           | _ => progress (cbv beta iota zeta)
           end;
    cbv beta iota zeta delta [snd]; first [constructor; assumption | apply IHs; constructor; assumption].

  Theorem gpat_closed : forall f,
    (forall p, gpat p -> gpat (snd (step f p))) /\
    (forall a, garg a -> garg (snd (value f a))) /\
    (forall a, garg a -> garg (snd (anext f a))).
  Proof.
    induction f as [|f [IHs [IHv IHn]]].
    - repeat split; intros; assumption.
    - split; [|split].
      + intros p Hp. inversion Hp; subst.
        * apply GP_counter. apply (counter_closed binop LMAX). assumption.
        * apply GP_constant.
        * rewrite step_abs_eq. gclosed_case IHs IHv IHn.
        * rewrite step_int_eq. gclosed_case IHs IHv IHn.
        * rewrite step_anyref_eq. gclosed_case IHs IHv IHn.
        * rewrite step_binop_eq. gclosed_case IHs IHv IHn.
        * rewrite step_and_eq. gclosed_case IHs IHv IHn.
        * rewrite step_skipif_eq. gclosed_case IHs IHv IHn.
        * rewrite step_pad_eq. gclosed_case IHs IHv IHn.
        * rewrite step_padm_eq. gclosed_case IHs IHv IHn.
        * rewrite step_collapse_eq. gclosed_case IHs IHv IHn.
        * rewrite step_norepeats_eq. gclosed_case IHs IHv IHn.
        * rewrite step_changed_eq. gclosed_case IHs IHv IHn.
        * rewrite step_diff_eq. gclosed_case IHs IHv IHn.
        * rewrite step_wrap_eq. gclosed_case IHs IHv IHn.
        * rewrite step_counter_eq. gclosed_case IHs IHv IHn.
        * rewrite step_stutter_eq. gclosed_case IHs IHv IHn.
        * rewrite step_loop_eq. gclosed_case IHs IHv IHn.
        * destruct f as [|f']; [apply GP_subsequence; assumption|]. rewrite step_subsequence_eq, !value_scalar.
          pose proof (fun values target => pull_until_inv garg (anext (S f')) IHn (S f') p0 values target H) as PU.
          gclosed_case IHs IHv IHn.
        * rewrite step_indexof_eq by (apply garg_simple; assumption). gclosed_case IHs IHv IHn.
        * destruct (plain_items l) eqn:Pl; [rewrite (step_indexof_list_eq _ _ _ _ _ _ Pl)|rewrite step_indexof_list_none by exact Pl];
            gclosed_case IHs IHv IHn.
        * rewrite step_dictkey_eq by (apply garg_simple; assumption). gclosed_case IHs IHv IHn.
        * rewrite step_dictkey_dict_eq. gclosed_case IHs IHv IHn.
        * rewrite step_arrayindex_unfold. destruct e; [exact Hp|].
          rewrite arrayindex_body_gen by (intros l0 E0; subst; match goal with Ha : garg (AL _) |- _ => inversion Ha end).
          gclosed_case IHs IHv IHn.
        * rewrite step_concat_eq. destruct (py_index l pos) as [a|] eqn:Ei; [|exact Hp].
          pose proof (IHn a (py_index_Forall _ _ _ _ H Ei)) as Fa'. destruct (anext f a) as [o a']. cbn [snd] in Fa'. cbv zeta.
          pose proof (Forall_update_nth garg l (py_index_pos l pos) a' H Fa') as Hl'.
          destruct o; try (cbn [snd]; apply GP_concat; exact Hl').
          destruct (pos <? zlen l - 1); [apply IHs|cbn [snd]]; apply GP_concat; exact Hl'.
        * (* PSequence with pattern items *)
          rewrite step_seq_eq. destruct (value f (AV vrep)) as [orep rep'] eqn:Er.
          assert (rep' = AV vrep) by (destruct f; cbn in Er; inversion Er; reflexivity). subst rep'.
          destruct orep; try (cbn [snd]; apply GP_seq; assumption).
          cbv zeta. destruct (if zlen l =? 0 then Yield true else cmp OGe (VInt rc) a) as [[|]| | | |]; try (cbn [snd]; apply GP_seq; assumption).
          destruct (py_index l pos) as [x|] eqn:Ei; [|cbn [snd]; apply GP_seq; assumption].
          pose proof (IHv x (py_index_Forall _ _ _ _ H Ei)) as Kx. destruct (value f x) as [o x']. cbn [snd] in Kx.
          pose proof (Forall_update_nth garg l (py_index_pos l pos) x' H Kx) as Hl'.
          destruct o; try (cbn [snd]; apply GP_seq; assumption).
          destruct (pos + 1 >=? zlen l); cbn [snd]; apply GP_seq; assumption.
        * (* PMap *)
          rewrite step_map_eq.
          pose proof (values_of_Forall garg (value f) args IHv H0) as Ka.
          destruct (values_of (value f) args) as [oa args']. cbn [snd] in Ka.
          destruct oa; try (cbn [snd]; apply GP_map; assumption).
          pose proof (kwvalues_of_Forall garg (value f) kwargs IHv H1) as Kk.
          destruct (kwvalues_of (value f) kwargs) as [ok kwargs']. cbn [snd] in Kk.
          destruct ok; try (cbn [snd]; apply GP_map; assumption).
          pose proof (IHn a H) as Ki. destruct (anext f a) as [o input']. cbn [snd] in Ki.
          destruct o; cbn [snd]; apply GP_map; assumption.
        * (* PDict *)
          rewrite step_dict_eq. pose proof (kwvalues_of_Forall garg (value f) kv IHv H) as Kk.
          destruct (kwvalues_of (value f) kv) as [o kv']. cbn [snd] in *. apply GP_dict. exact Kk.
        * (* PArrayIndex over a literal list *)
          rewrite step_arrayindex_unfold. destruct e; [exact Hp|]. rewrite arrayindex_body_list_eq.
          pose proof (IHv b H0) as Kb. destruct (value f b) as [oi b']. cbn [snd] in Kb.
          destruct oi as [v0| | | |]; try (cbn [snd]; apply GP_arrayindex_list; assumption).
          destruct v0; try (cbn [snd]; apply GP_arrayindex_list; assumption).
          all: match goal with |- context [py_int ?v] => destruct (py_int v) as [[| |i| | | | |]| | | |] end;
            try (cbn [snd]; apply GP_arrayindex_list; assumption).
          all: destruct (py_index l i) as [x|] eqn:Ei; [|cbn [snd]; apply GP_arrayindex_list; assumption].
          all: pose proof (IHv x (py_index_Forall _ _ _ _ H Ei)) as Kx; destruct (value f x) as [o x']; cbn [snd] in Kx |- *.
          all: apply GP_arrayindex_list; [apply Forall_update_nth; assumption|assumption].
      + intros a [v|p Hp]; [exact (GA_val v)|]. rewrite value_pattern. pose proof (IHs p Hp) as K.
        destruct (step f p). apply GA_pat. exact K.
      + intros a [v|p Hp]; [exact (GA_val v)|]. rewrite anext_pattern. pose proof (IHs p Hp) as K.
        destruct (step f p). apply GA_pat. exact K.
  Qed.


  Lemma gpat_step_closed f p : gpat p -> gpat (snd (step f p)).
  Proof. apply gpat_closed. Qed.
  Lemma garg_value_closed f a : garg a -> garg (snd (value f a)).
  Proof. apply gpat_closed. Qed.
  Lemma garg_anext_closed f a : garg a -> garg (snd (anext f a)).
  Proof. apply gpat_closed. Qed.

  (** * Main theorem: StopIteration is sticky on the fragment *)
  Hypothesis binop_no_stop : forall o x y, binop o x y <> Stop.

  Lemma py_int_ns v : py_int v <> Stop.
  Proof. pose proof (py_int_no_stop v) as H. destruct v; cbn in *; try exact H; discriminate. Qed.

  Ltac stop_inv H :=
    cbv zeta in H;
    repeat (first
      [ discriminate H
      | match type of H with context [value ?f ?a] => let E := fresh "E" in destruct (value f a) as [? ?] eqn:E end
      | match type of H with context [anext ?f ?a] => let E := fresh "E" in destruct (anext f a) as [? ?] eqn:E end
      | match type of H with context [match ?x with _ => _ end] => is_var x; destruct x end
      | match type of H with context [if ?x then _ else _] => is_var x; destruct x end
      | match type of H with context [match ?x with _ => _ end] => let C := fresh "C" in destruct x eqn:C end
      | match type of H with context [if ?x then _ else _] => let C := fresh "C" in destruct x eqn:C end
      | progress (cbv beta iota zeta in H) ]);
    try match goal with
        | C : ?t = Stop |- _ => exfalso; revert C; clear; nostop; fail
        end.

  Theorem gpat_quiet : forall f,
    (forall p p', gpat p -> step f p = (Stop, p') -> forall f2, quiet f2 p') /\
    (forall a a', garg a -> value f a = (Stop, a') -> forall f2, aquiet f2 a') /\
    (forall a a', garg a -> anext f a = (Stop, a') -> forall f2, nquiet f2 a').
  Proof.
    intro f. induction f as [f IHf] using lt_wf_ind. destruct f as [|f].
    - repeat split; intros; discriminate.
    - destruct (IHf f (Nat.lt_succ_diag_r f)) as [Q [AQ NQ]]. split; [|split].
      + intros p p' Hs H. inversion Hs; subst.
        * eapply counter_any_fuel; eauto.
        * discriminate.
        * destruct (unary_stop binop LMAX PAbs _ (step_abs_eq binop LMAX) (py_abs_no_stop) _ _ _ H) as [a' [E ->]].
          intros [|f2]; [apply quiet_0|]. apply (unary_quiet binop LMAX PAbs _ (step_abs_eq binop LMAX)). eapply AQ; [|eassumption]; assumption.
        * destruct (unary_stop binop LMAX PInt _ (step_int_eq binop LMAX) (py_int_no_stop) _ _ _ H) as [a' [E ->]].
          intros [|f2]; [apply quiet_0|]. apply (unary_quiet binop LMAX PInt _ (step_int_eq binop LMAX)). eapply AQ; [|eassumption]; assumption.
        * rewrite step_anyref_eq in H. stop_inv H. inversion H; subst.
          intros [|f2]; [apply quiet_0|]. apply anyref_quiet. eapply NQ; [|eassumption]; assumption.
        * destruct (binary_stop binop LMAX (PBinOp o) _ (fun f a b => step_binop_eq binop LMAX f o a b) (elem_no_stop binop binop_no_stop o) _ _ _ _ H)
            as [[a' [E ->]]|[va [a' [b' [Ea [Eb ->]]]]]]; (intros [|f2]; [apply quiet_0|]).
          -- apply (binary_quiet_left binop LMAX (PBinOp o) _ (fun f a b => step_binop_eq binop LMAX f o a b)). eapply AQ; [|eassumption]; assumption.
          -- apply (binary_quiet_right binop LMAX (PBinOp o) _ (fun f a b => step_binop_eq binop LMAX f o a b)). eapply AQ; [|eassumption]; assumption.
        * assert (G : forall x y : val, Yield (VBool (truthy x && truthy y)) <> @Stop val) by (intros; discriminate).
          destruct (binary_stop binop LMAX PAnd _ (step_and_eq binop LMAX) G _ _ _ _ H)
            as [[a' [E ->]]|[va [a' [b' [Ea [Eb ->]]]]]]; (intros [|f2]; [apply quiet_0|]).
          -- apply (binary_quiet_left binop LMAX PAnd _ (step_and_eq binop LMAX)). eapply AQ; [|eassumption]; assumption.
          -- apply (binary_quiet_right binop LMAX PAnd _ (step_and_eq binop LMAX)). eapply AQ; [|eassumption]; assumption.
        * assert (G : forall x y : val, Yield (if truthy y then VNone else x) <> @Stop val) by (intros; discriminate).
          destruct (binary_stop binop LMAX PSkipIf _ (step_skipif_eq binop LMAX) G _ _ _ _ H)
            as [[a' [E ->]]|[va [a' [b' [Ea [Eb ->]]]]]]; (intros [|f2]; [apply quiet_0|]).
          -- apply (binary_quiet_left binop LMAX PSkipIf _ (step_skipif_eq binop LMAX)). eapply AQ; [|eassumption]; assumption.
          -- apply (binary_quiet_right binop LMAX PSkipIf _ (step_skipif_eq binop LMAX)). eapply AQ; [|eassumption]; assumption.
        * (* PPad *)
          rewrite step_pad_eq in H. stop_inv H. inversion H; subst.
          intros [|f2]; [apply quiet_0|]. apply pad_quiet; [assumption|]. eapply NQ; [|eassumption]; assumption.
        * (* PPadToMultiple *)
          rewrite step_padm_eq in H. stop_inv H. inversion H; subst.
          intros [|f2]; [apply quiet_0|]. apply padm_quiet; [assumption|]. eapply NQ; [|eassumption]; assumption.
        * (* PCollapse *)
          rewrite step_collapse_eq in H. pose proof (garg_value_closed f a H0) as Cl. stop_inv H.
          -- eapply Q; [|exact H]. apply GP_collapse. exact Cl.
          -- inversion H; subst. intros [|f2]; [apply quiet_0|]. apply collapse_quiet. eapply AQ; [|eassumption]; assumption.
        * (* PNoRepeats *)
          rewrite step_norepeats_eq in H. pose proof (garg_value_closed f a H0) as Cl. stop_inv H.
          -- eapply Q; [|exact H]. apply GP_norepeats. exact Cl.
          -- inversion H; subst. intros [|f2]; [apply quiet_0|]. apply norepeats_quiet. eapply AQ; [|eassumption]; assumption.
        * (* PChanged *)
          rewrite step_changed_eq in H. stop_inv H. inversion H; subst.
          intros [|f2]; [apply quiet_0|]. apply changed_quiet. eapply AQ; [|eassumption]; assumption.
        * (* PDiff *)
          rewrite step_diff_eq in H. stop_inv H. inversion H; subst.
          intros [|f2]; [apply quiet_0|]. apply diff_quiet. eapply AQ; [|eassumption]; assumption.
        * (* PWrap *)
          rewrite step_wrap_eq in H. stop_inv H.
          -- exfalso. match type of H with (?x, _) = _ => assert (W : x = Stop) by congruence; revert W end. apply obind_no_stop; [apply wrap_up_no_stop|intro; apply wrap_down_no_stop].
          -- inversion H; subst. intros [|f2]; [apply quiet_0|]. apply wrap_quiet. eapply NQ; [|eassumption]; assumption.
        * (* PCounter *)
          rewrite step_counter_eq in H. stop_inv H. inversion H; subst.
          intros [|f2]; [apply quiet_0|]. apply counter_quiet. eapply NQ; [|eassumption]; assumption.
        * (* PStutter *)
          rewrite step_stutter_eq in H. stop_inv H.
          -- inversion H; subst. intros [|f2]; [apply quiet_0|]. apply stutter_quiet; [assumption|]. right. eapply NQ; [|eassumption]; assumption.
          -- inversion H; subst. intros [|f2]; [apply quiet_0|]. apply stutter_quiet; [assumption|]. left. eapply AQ; [|eassumption]; assumption.
        * (* PLoop *)
          rewrite step_loop_eq in H. stop_inv H.
          all: inversion H; subst; cbn [andb] in *; try discriminate.
          all: apply loop_stopped_quiet; [assumption | first [left; assumption | right; split; assumption]].
        * (* PSubsequence *)
          destruct f as [|f']; [discriminate|]. rewrite step_subsequence_eq, !value_scalar in H. stop_inv H.
          -- inversion H; subst. apply subsequence_stopped_quiet. assumption.
          -- inversion H; subst.
             match goal with C1 : pull_until _ _ _ _ _ = _ |- _ =>
               destruct (pull_until_stop garg (anext (S f')) (garg_anext_closed (S f')) _ _ _ _ _ _ H0 C1) as [T [a0 [Fa0 Ea0]]] end.
             intros [|[|f2]]; [apply quiet_0|apply stable_quiet with (o := OutOfFuel); reflexivity|].
             eapply subsequence_input_quiet; eauto.
        * (* PIndexOf *)
          pose proof (garg_simple _ H0) as Sa. pose proof (simple_value binop LMAX f a Sa) as Sa'.
          destruct (bs_stop binop LMAX PIndexOf indexof_g (step_indexof_eq binop LMAX) indexof_g_no_stop f a b p' Sa H) as [[a' [E ->]]|[va [a' [b' [Ea [Eb ->]]]]]];
            (intros [|f2]; [apply quiet_0|]); apply (bs_quiet binop LMAX PIndexOf indexof_g (step_indexof_eq binop LMAX)).
          -- rewrite E in Sa'. exact Sa'.
          -- left. eapply AQ; [|eassumption]; assumption.
          -- rewrite Ea in Sa'. exact Sa'.
          -- right. eapply AQ; [|eassumption]; assumption.
        * (* PIndexOf over a literal list *)
          destruct (plain_items l) as [vs|] eqn:Pl; [|rewrite step_indexof_list_none in H by exact Pl; discriminate].
          destruct (unary_stop binop LMAX (fun b => PIndexOf (AL l) b) (indexof_g (VList vs)) (fun f a => step_indexof_list_eq binop LMAX f l vs a Pl)
                      (indexof_g_no_stop (VList vs)) _ _ _ H) as [a' [E ->]].
          intros [|f2]; [apply quiet_0|].
          apply (unary_quiet binop LMAX (fun b => PIndexOf (AL l) b) (indexof_g (VList vs)) (fun f a => step_indexof_list_eq binop LMAX f l vs a Pl)).
          eapply AQ; [|eassumption]; assumption.
        * (* PDictKey *)
          pose proof (garg_simple _ H0) as Sa. pose proof (simple_value binop LMAX f a Sa) as Sa'.
          destruct (bs_stop binop LMAX PDictKey dictkey_g (step_dictkey_eq binop LMAX) dictkey_g_no_stop f a b p' Sa H) as [[a' [E ->]]|[va [a' [b' [Ea [Eb ->]]]]]];
            (intros [|f2]; [apply quiet_0|]); apply (bs_quiet binop LMAX PDictKey dictkey_g (step_dictkey_eq binop LMAX)).
          -- rewrite E in Sa'. exact Sa'.
          -- left. eapply AQ; [|eassumption]; assumption.
          -- rewrite Ea in Sa'. exact Sa'.
          -- right. eapply AQ; [|eassumption]; assumption.
        * (* PDictKey over a literal dict *)
          destruct (plain_kw kv) as [d|] eqn:Pk; [|rewrite step_dictkey_dict_eq, Pk in H; discriminate].
          assert (MS : forall f a, step (S f) (PDictKey (AD kv) a) =
                    (let '(o, a') := value f a in
                     match o with Yield v => (dictkey_g (VDict d) v, PDictKey (AD kv) a') | _ => (o, PDictKey (AD kv) a') end))
            by (intros; rewrite step_dictkey_dict_eq, Pk; reflexivity).
          destruct (unary_stop binop LMAX (fun b => PDictKey (AD kv) b) (dictkey_g (VDict d)) MS (dictkey_g_no_stop (VDict d)) _ _ _ H) as [a' [E ->]].
          intros [|f2]; [apply quiet_0|].
          apply (unary_quiet binop LMAX (fun b => PDictKey (AD kv) b) (dictkey_g (VDict d)) MS).
          eapply AQ; [|eassumption]; assumption.
        * (* PArrayIndex *)
          destruct (arrayindex_stop binop LMAX _ _ _ _ _ H) as [l' [i' ->]]. apply arrayindex_exhausted_quiet.
        * (* PConcatenate *)
          destruct (concat_stop binop LMAX garg garg_anext_closed _ _ _ _ H0 H) as [l' [pos' [a0 [a' [f0 [-> [Hp [Hi [Fa0 [Ea0 Lt]]]]]]]]]].
          intros [|f2]; [apply quiet_0|].
          eapply concat_stopped_quiet; [reflexivity|exact Hp|exact Hi|].
          eapply (proj2 (proj2 (IHf f0 Lt))); eauto.
        * (* PSequence with pattern items *)
          rewrite step_seq_eq in H. destruct f as [|f']; [discriminate|]. rewrite value_scalar in H. cbv beta iota zeta in H.
          destruct (if zlen l =? 0 then Yield true else cmp OGe (VInt rc) vrep) as [[|]| | | |] eqn:Et; cbn [ocast obind] in H; try discriminate H.
          -- inversion H; subst. apply seq_counter_quiet. exact Et.
          -- destruct (py_index l pos) as [x|] eqn:Ei; [|discriminate].
             destruct (value (S f') x) as [o x'] eqn:Ex. destruct o; try discriminate.
             ++ destruct (pos + 1 >=? zlen l); discriminate.
             ++ inversion H; subst. intros [|f2]; [apply quiet_0|].
                eapply seq_item_quiet with (n := zlen l); [exact Et|apply zlen_update|eapply py_index_update_same; eauto|].
                eapply AQ; [|exact Ex]. eapply py_index_Forall; eauto.
          -- exfalso. destruct (zlen l =? 0); [discriminate Et|exact (cmp_no_stop _ _ _ Et)].
        * (* PMap *)
          rewrite step_map_eq in H.
          destruct (values_of (value f) args) as [oa args'] eqn:Ea. destruct oa; cbn [ocast obind] in H; try discriminate H.
          -- destruct (kwvalues_of (value f) kwargs) as [ok kwargs'] eqn:Ek. destruct ok; cbn [ocast obind] in H; try discriminate H.
             ++ destruct (anext f a) as [o input'] eqn:Ei. destruct o; try discriminate H.
                ** exfalso. inversion H as [[E1 E2]]. eapply apply_fn_no_stop; eauto.
                ** inversion H; subst. intros [|f2]; [apply quiet_0|]. apply map_quiet. right; right. eapply NQ; [|exact Ei]; assumption.
             ++ inversion H; subst. destruct (kwvalues_of_stop _ _ _ Ek) as [k [x [x' [I1 [I2 I3]]]]].
                intros [|f2]; [apply quiet_0|]. apply map_quiet. right; left. apply Exists_exists. exists (k, x'). split; [exact I3|]. cbn [snd].
                eapply AQ; [|exact I2]. rewrite Forall_forall in H2. exact (H2 _ I1).
          -- inversion H; subst. destruct (values_of_stop _ _ _ Ea) as [x [x' [I1 [I2 I3]]]].
             intros [|f2]; [apply quiet_0|]. apply map_quiet. left. apply Exists_exists. exists x'. split; [exact I3|].
             eapply AQ; [|exact I2]. rewrite Forall_forall in H1. exact (H1 _ I1).
        * (* PDict *)
          rewrite step_dict_eq in H. destruct (kwvalues_of (value f) kv) as [o kv'] eqn:Ek.
          assert (o = Stop) by (inversion H as [[E1 E2]]; apply omap_stop in E1; exact E1). subst o. inversion H; subst.
          destruct (kwvalues_of_stop _ _ _ Ek) as [k [x [x' [I1 [I2 I3]]]]].
          intros [|f2]; [apply quiet_0|]. apply dict_quiet. apply Exists_exists. exists (k, x'). split; [exact I3|]. cbn [snd].
          eapply AQ; [|exact I2]. rewrite Forall_forall in H0. exact (H0 _ I1).
        * (* PArrayIndex over a literal list: items and index may all be patterns *)
          destruct (arrayindex_stop binop LMAX _ _ _ _ _ H) as [l' [i' ->]]. apply arrayindex_exhausted_quiet.
      + intros a a' Hs H. destruct Hs as [v|p Hp]; [discriminate|].
        rewrite value_pattern in H. destruct (step f p) as [o p1] eqn:E. inversion H; subst.
        intros [|f2]; [apply aquiet_0|]. apply aquiet_pattern. eapply Q; eauto.
      + intros a a' Hs H. destruct Hs as [v|p Hp]; [discriminate|].
        rewrite anext_pattern in H. destruct (step f p) as [o p1] eqn:E. inversion H; subst.
        intros [|f2]; [apply nquiet_0|]. apply nquiet_pattern. eapply Q; eauto.
  Qed.
End Sticky2.

(* Pat/ChanceCopy.v — copies of stochastic patterns used side by side (property C11).

   Pattern.copy() is copy.deepcopy: the copy of a stochastic pattern owns a COPY of the private random.Random
   (its state at the time of the copy), of the stored seed and of the pattern's own state.  A family is an
   original and its copies (and copies of copies): all have the same class and arguments, i.e. the same
   [machine] of Pat/Chance.v.  [cworld] holds the family keyed by identity plus Python's global generator;
   [cstep] executes one operation of a schedule:

     CP id o        next / reset() / seed(s) on member id           (Pat/Chance.v [do_op])
     CCopy src dst  p_dst = p_src.copy()
     CGUnit, CGBelow n, CGSeed s     random.random(), random.randrange(n), random.seed(s)

   Deterministic wrappers around a stochastic pattern (PStutter(p, n), p + k ...) are again machines over the same
   generator ([stutterm], [mapm]): everything proved for an arbitrary machine covers a stochastic pattern
   nested inside such a wrapper, whose copy() copies the nested pattern with its generator.

   [sh_run] is the design the property forbids — original and copy drawing from ONE generator — kept only to
   show by example that the isolation theorem is not vacuous.  No proofs here. *)
From Isobar Require Import Base.Prelude Pat.Chance.
From Coq Require Import QArith.
Local Notation length := List.length (only parsing).
Open Scope Z_scope.

Section Copies.
  Variable R : Type.
  Variable r_unit : R -> Z * R.
  Variable r_below : Z -> R -> Z * R.
  Variable r_seed : Z -> R.
  Variable S : Type.
  Variable m : machine R S.

  Record cworld := mkCW { c_inst : nat -> inst R S; c_glob : R }.
  Inductive cop :=
  | CP (id : nat) (o : op)
  | CCopy (src dst : nat)
  | CGUnit | CGBelow (n : Z) | CGSeed (s : Z).

  Definition cset (f : nat -> inst R S) (id : nat) (i : inst R S) : nat -> inst R S :=
    fun k => if Nat.eqb k id then i else f k.

  Definition cstep (w : cworld) (o : cop) : cworld * option (nat * res) :=
    match o with
    | CP id o => let (i', e) := do_op R r_seed m (c_inst w id) o in
                 (mkCW (cset (c_inst w) id i') (c_glob w),
                  match e with Some r => Some (id, r) | None => None end)
    | CCopy src dst => (mkCW (cset (c_inst w) dst (c_inst w src)) (c_glob w), None)   (* deepcopy: a value copy *)
    | CGUnit => (mkCW (c_inst w) (snd (r_unit (c_glob w))), None)
    | CGBelow n => (mkCW (c_inst w) (snd (r_below n (c_glob w))), None)
    | CGSeed s => (mkCW (c_inst w) (r_seed s), None)
    end.

  Fixpoint crun_st (w : cworld) (ops : list cop) : cworld * list (nat * res) :=
    match ops with
    | [] => (w, [])
    | o :: r => let (w', e) := cstep w o in
                let (w'', es) := crun_st w' r in
                (w'', match e with Some x => x :: es | None => es end)
    end.
  Definition crun (w : cworld) (ops : list cop) : list (nat * res) := snd (crun_st w ops).
  Definition cafter (w : cworld) (ops : list cop) : cworld := fst (crun_st w ops).

  (** the operations a schedule applies to member id itself *)
  Fixpoint cproj (id : nat) (ops : list cop) : list op :=
    match ops with
    | [] => []
    | CP k o :: r => if Nat.eqb k id then o :: cproj id r else cproj id r
    | _ :: r => cproj id r
    end.
  (** member id is never overwritten by a copy() in the schedule (it may be copied FROM any number of times) *)
  Definition is_dst (id : nat) (o : cop) : bool :=
    match o with CCopy _ d => Nat.eqb d id | _ => false end.
  Definition never_dst (id : nat) (ops : list cop) : bool := forallb (fun o => negb (is_dst id o)) ops.
End Copies.

Arguments c_inst {R S}. Arguments c_glob {R S}. Arguments mkCW {R S}.

(** * Deterministic wrappers as machines *)
Section Wrappers.
  Variable R : Type.
  Variable S : Type.

  (** a pointwise wrapper (p + k, p * k, abs(p), PInt(p) ... with a scalar): outputs mapped, draws unchanged *)
  Definition mapm (f : res -> res) (m : machine R S) : machine R S :=
    mkMachine R S (m_init m) (fun st g => let '(r, st', g') := m_step m st g in (f r, st', g')).
  (** core.py PAdd.__next__ with a scalar k: a rest stays a rest *)
  Definition add_k (k : Z) (r : res) : res :=
    match r with
    | Out (OZ z) => Out (OZ (z + k)) | Out (OQ q) => Out (OQ (q + inject_Z k)) | Out ONone => Out ONone
    | Out (OL _) => Fail | r => r
    end.

  (** sequence.py PStutter(pattern, count), count a positive int: state = (inner, pos, count_current, value) *)
  Definition stutter_step (n : Z) (m : machine R S) (st : S * Z * Z * oval) (g : R) : res * (S * Z * Z * oval) * R :=
    let '(s, pos, cc, v) := st in
    if cc <=? pos then
      match m_step m s g with
      | (Out x, s', g') => (Out x, (s', 1, n, x), g')
      | (r, s', g') => (r, (s', pos, cc, v), g')          (* StopIteration / exception from next(self.pattern) *)
      end
    else (Out v, (s, pos + 1, cc, v), g).
  Definition stutterm (n : Z) (m : machine R S) : machine R (S * Z * Z * oval) :=
    mkMachine R _ (m_init m, 0, 0, OZ 0) (stutter_step n m).
End Wrappers.

(** * The forbidden design: original and copy share one generator (for the non-vacuity example only) *)
Section Shared.
  Variable R : Type.
  Variable S : Type.
  Variable m : machine R S.
  (* two members (false = original, true = copy) with their own pattern state, ONE generator *)
  Fixpoint sh_run (sa sb : S) (g : R) (who : list bool) : list (bool * res) :=
    match who with
    | [] => []
    | false :: r => let '(x, sa', g') := m_step m sa g in (false, x) :: sh_run sa' sb g' r
    | true :: r => let '(x, sb', g') := m_step m sb g in (true, x) :: sh_run sa sb' g' r
    end.
End Shared.

(** * Correspondence: a family replayed over the recorded draws
   Epochs are numbered over the whole family: every seed()/reset() of any member starts a new one ([Seed e] selects
   the draws recorded for epoch e, as in Pat/Chance.v [check_script]); a copy inherits the replay state of its
   source: the rest of the source's epoch AND the request log so far.  [reqs] maps (member, epoch) to the requests
   the implementation's generator of that member logged during that epoch (for a copy: including the inherited
   prefix).  At every re-seed and at the end, the member's model log must equal it and no draw may be missing. *)
Definition req_lookup (reqs : list (nat * Z * list Z)) (id : nat) (e : Z) : list Z :=
  match find (fun x => Nat.eqb (fst (fst x)) id && (snd (fst x) =? e)) reqs with
  | Some (_, l) => l
  | None => []
  end.
Definition member_ok {St} (reqs : list (nat * Z * list Z)) (id : nat) (i : inst replay St) : bool :=
  negb (rp_under (i_gen i)) && list_eqb Z.eqb (rp_log (i_gen i)) (req_lookup reqs id (i_seed i)).

Fixpoint fam_ok {St} (cmp : res -> res -> bool) (m : machine replay St) (epochs : list (list Z))
         (reqs : list (nat * Z * list Z)) (ids : list nat) (w : cworld replay St)
         (ops : list (cop)) (exp : list res) : bool :=
  match ops with
  | [] => forallb (fun id => member_ok reqs id (c_inst w id)) ids && match exp with [] => true | _ => false end
  | o :: r =>
    let '(w', e) := cstep replay rp_unit rp_below (rp_seed epochs) St m w o in
    match o, e with
    | CP _ Next, Some (_, x) => match exp with
                                | y :: exp' => cmp x y && fam_ok cmp m epochs reqs ids w' r exp'
                                | [] => false
                                end
    | CP id (Seed _), _ => member_ok reqs id (c_inst w id) && fam_ok cmp m epochs reqs ids w' r exp
    | _, _ => fam_ok cmp m epochs reqs ids w' r exp
    end
  end.
Definition fam_world {St} (m : machine replay St) (epochs : list (list Z)) : cworld replay St :=
  mkCW (fun _ => fresh replay (rp_seed epochs) m 0) (mkReplay [] [] false).
Definition check_family {St} (m : machine replay St) (epochs : list (list Z)) (reqs : list (nat * Z * list Z))
           (ids : list nat) (ops : list cop) (exp : list res) : bool :=
  fam_ok res_eqb m epochs reqs ids (fam_world m epochs) ops exp.
Definition check_family_eps {St} (eps : Q) (m : machine replay St) (epochs : list (list Z))
           (reqs : list (nat * Z * list Z)) (ids : list nat) (ops : list cop) (exp : list res) : bool :=
  fam_ok (res_close eps) m epochs reqs ids (fam_world m epochs) ops exp.

(* Pat/ConstHolder.v — PATTERNS AND TUPLES-WITH-PATTERNS HELD BY A PConstant (property C04).  Pattern.pattern(v) wraps
   anything that is not a pattern in PConstant(v) - the library does so for the values of a PDict / an event dict, for
   scalars-as-operands, ... -, and PConstant.__next__ returns its constant AS IT IS; the consumer's Pattern.value() then
   resolves the returned value: a pattern inside it (a chord with one moving voice: ("note": (PSeries(60, 1), 48))) is
   ADVANCED.  Pat/Syntax.v's PConstant holds a plain value; the holder of an [arg] (a pattern, a tuple with patterns inside
   to any depth, a value) is modelled here:
     hvalue   Pattern.value(holder) = Pattern.value(next(holder)) = Pattern.value(constant): Step.value on the held argument;
     hreset   Pattern.reset() on the holder: the walk over vars(self) hands `constant` to Step.reset_value (a Pattern is
              reset, the Patterns inside tuples are reset, to any depth: isobar 261787b).
   No proofs here (Pat/ConstHolderProofs.v). *)
From Isobar Require Import Base.Prelude Pat.Val Pat.Syntax Pat.Step.
Open Scope Z_scope.

Section Engine.
  Variable binop : op -> val -> val -> outcome val.
  Variable LENGTH_MAX : nat.

  Inductive holder := Held (constant : arg).

  Definition hvalue (f : nat) (h : holder) : outcome val * holder :=
    match h with Held a => let '(o, a') := value binop LENGTH_MAX f a in (o, Held a') end.
  Definition hreset (f : nat) (h : holder) : outcome holder :=
    match h with Held a => omap Held (reset_value (reset binop LENGTH_MAX f) a) end.

  Fixpoint hrun (f k : nat) (h : holder) : holder :=
    match k with O => h | S k' => hrun f k' (snd (hvalue f h)) end.
  Fixpoint houtputs (f n : nat) (h : holder) : list (outcome val) :=
    match n with O => [] | S n' => let '(o, h') := hvalue f h in o :: houtputs f n' h' end.
End Engine.

(** correspondence: the holder built from an argument expression, a script of reads (true) and resets (false), against the
    resolved values the implementation's consumer saw (0 agree, 1 disagree, 2 the model does not vouch) *)
Fixpoint hcompare (binop : op -> val -> val -> outcome val) (LMAX f : nat) (h : holder) (ops : list bool) (expected : list (outcome val)) : nat :=
  match ops, expected with
  | [], [] => 0%nat
  | true :: r, x :: xs =>
      let '(o, h') := hvalue binop LMAX f h in
      match o, x with
      | (OutOfFuel | Inexact), _ => 2%nat
      | Yield u, Yield v => if val_eqb u v then hcompare binop LMAX f h' r xs else 1%nat
      | Stop, Stop => hcompare binop LMAX f h' r xs
      | Raise e, Raise e' => if exn_eqb e e' then hcompare binop LMAX f h' r xs else 1%nat
      | _, _ => 1%nat
      end
  | false :: r, x :: xs =>
      match hreset binop LMAX f h, x with
      | Yield h', Yield VNone => hcompare binop LMAX f h' r xs
      | (OutOfFuel | Inexact), _ => 2%nat
      | _, _ => 1%nat
      end
  | _, _ => 1%nat
  end.
Definition hcheck (binop : op -> val -> val -> outcome val) (LMAX f : nat) (e : earg) (ops : list bool) (expected : list (outcome val)) : nat :=
  match init_arg binop LMAX f e with
  | Yield a => hcompare binop LMAX f (Held a) ops expected
  | _ => 2%nat
  end.

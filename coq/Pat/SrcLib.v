(* Pat/SrcLib.v — Python operations on container VALUES that the generated definitions (Generated/TablesStep.v) refer to and
   that Pat/Step.v writes inline in its clauses.  Hand-written (trusted) readings of Python, like py_eq / py_index in Val.v:

     cvalue pvalue fuel a   Pattern.value(self.f) where the result is used as a container value: a list / dict LITERAL held by
                            the attribute is returned as it is (a value if no pattern is inside, otherwise outside the model),
                            anything else goes through Pattern.value
     py_contains x c        x in c          (lists and tuples, with ==; str / dict: outside the model; other types: TypeError)
     py_list_index c x      c.index(x)      (ValueError if absent)
     py_seq_item c i        Pattern.value(c[i]) on a list / tuple value (IndexError / TypeError as Python)
     py_getitem c k         c[k]            (dict with str keys: KeyError if absent, TypeError for an unhashable key;
                                             None: TypeError; other containers / keys: outside the model)
   No proofs here. *)
From Isobar Require Import Base.Prelude Pat.Val Pat.Syntax Pat.Step.
From Coq Require Import String.
Open Scope Z_scope.

Definition cvalue (pvalue : nat -> arg -> outcome val * arg) (fuel : nat) (a : arg) : outcome val * arg :=
  match a with
  | AL l => (match plain_items l with Some vs => Yield (VList vs) | None => Inexact end, a)
  | AD kv => (match plain_kw kv with Some d => Yield (VDict d) | None => Inexact end, a)
  | _ => pvalue fuel a
  end.

Definition py_contains (x c : val) : outcome bool :=
  match c with
  | VList l | VTup l => Yield (match index_of x l 0 with Some _ => true | None => false end)
  | VStr _ | VDict _ => Inexact
  | _ => Raise TypeError
  end.

Definition py_list_index (c x : val) : outcome val :=
  match c with
  | VList l | VTup l => match index_of x l 0 with Some i => Yield (VInt i) | None => Raise ValueError end
  | VStr _ | VDict _ => Inexact
  | _ => Raise AttributeError
  end.

Definition py_getitem (c k : val) : outcome val :=
  match c, k with
  | VDict d, VStr k => match assoc k d with Some v => Yield v | None => Raise KeyError end
  | VDict d, (VList _ | VDict _) => Raise TypeError
  | VDict d, _ => Raise KeyError
  | VNone, _ => Raise TypeError
  | _, _ => Inexact
  end.

(* Pattern.value(c[i]) on a list / tuple VALUE c (its items are plain values); the index must be an int *)
Definition py_seq_item (c i : val) : outcome val :=
  match int_of i with
  | Some z =>
      match c with
      | VList l | VTup l => match py_index l z with Some v => Yield v | None => Raise IndexError end
      | VStr _ | VDict _ => Inexact
      | _ => Raise TypeError
      end
  | None => Raise TypeError
  end.

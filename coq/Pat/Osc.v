(* Pat/Osc.v — executable model of isobar/pattern/oscillator.py: PTri and PSaw (property C12).

   The two classes are not constructors of the deep embedding (Pat/Syntax.v); their three parameters are, however, ordinary
   operands - `arg`s resolved with Pattern.value - so this file models an oscillator OBJECT as a record of three [arg]s and the
   phase, and its __next__ with the engine's own [value] (Pat/Step.v), clause by clause:

       length = Pattern.value(self.length)
       min = Pattern.value(self.min)
       max = Pattern.value(self.max)
       norm_phase = float(self.phase) / length
       PTri:  rv = norm_phase * 2.0  if norm_phase < 0.5  else  1.0 - (norm_phase - 0.5) * 2.0
       PSaw:  rv = norm_phase
       rv = min + (max - min) * rv
       self.phase += 1
       if self.phase > length: self.phase -= length
       return rv

   Each parameter is resolved exactly once per call, in the order length, min, max.  The arithmetic is Python's own
   ([Val.binop]: exact on the floats it can represent exactly, [Inexact] otherwise - the correspondence check uses periods
   that are powers of two and dyadic bounds, for which every operation of the body is exact).
   Definitions only; lemmas in Pat/OscProofs.v. *)
From Isobar Require Import Base.Prelude Pat.Val Pat.Syntax Pat.Step.
From Coq Require Import QArith.
Open Scope Z_scope.

Inductive shape := Tri | Saw.

Record osc := mkOsc { o_shape : shape; o_length : arg; o_min : arg; o_max : arg; o_phase : val }.

(* PTri(length, min, max) / PSaw(...): reset() sets phase = 0.0 *)
Definition osc_init (sh : shape) (length min max : arg) : osc := mkOsc sh length min max (VFlt 0).

Definition f2 : val := VFlt 2.
Definition f1 : val := VFlt 1.
Definition fhalf : val := VFlt (1 # 2).

Definition waveform (sh : shape) (np : val) : outcome val :=
  match sh with
  | Saw => Yield np
  | Tri => obind (cmp OLt np fhalf) (fun b =>
             if b then Val.binop OMul np f2
             else obind (Val.binop OSub np fhalf) (fun d => obind (Val.binop OMul d f2) (fun e => Val.binop OSub f1 e)))
  end.

(* the body after the three parameters have been resolved to l, m, x: (value returned, new phase) *)
Definition osc_body (sh : shape) (l m x phase : val) : outcome (val * val) :=
  obind (Val.binop ODiv phase l) (fun np =>
  obind (waveform sh np) (fun rv =>
  obind (Val.binop OSub x m) (fun depth =>
  obind (Val.binop OMul depth rv) (fun scaled =>
  obind (Val.binop OAdd m scaled) (fun out =>
  obind (Val.binop OAdd phase (VInt 1)) (fun ph1 =>
  obind (cmp OGt ph1 l) (fun over =>
  if over then omap (fun ph2 => (out, ph2)) (Val.binop OSub ph1 l) else Yield (out, ph1)))))))).

Section Osc.
  Variable binop : op -> val -> val -> outcome val.     (* the operator semantics of the operands' own patterns *)
  Variable LMAX : nat.

  (* one __next__: an operand that does not yield a value ends the call there (the operands resolved before it have advanced) *)
  Definition osc_step (f : nat) (o : osc) : outcome val * osc :=
    let '(ol, l') := value binop LMAX f (o_length o) in
    match ol with
    | Yield l =>
        let '(om, m') := value binop LMAX f (o_min o) in
        match om with
        | Yield m =>
            let '(ox, x') := value binop LMAX f (o_max o) in
            match ox with
            | Yield x =>
                match osc_body (o_shape o) l m x (o_phase o) with
                | Yield (out, ph) => (Yield out, mkOsc (o_shape o) l' m' x' ph)
                | r => (ocast r, mkOsc (o_shape o) l' m' x' (o_phase o))
                end
            | r => (r, mkOsc (o_shape o) l' m' x' (o_phase o))
            end
        | r => (r, mkOsc (o_shape o) l' m' (o_max o) (o_phase o))
        end
    | r => (r, mkOsc (o_shape o) l' (o_min o) (o_max o) (o_phase o))
    end.

  Fixpoint osc_outputs (f n : nat) (o : osc) : list (outcome val) * osc :=
    match n with
    | O => ([], o)
    | S n' => let '(r, o') := osc_step f o in let '(rs, o'') := osc_outputs f n' o' in (r :: rs, o'')
    end.

  (* the parameters by position, as Param.vfield does for the classes of the embedding *)
  Definition ofield (o : osc) (i : nat) : option arg :=
    match i with 0%nat => Some (o_length o) | 1%nat => Some (o_min o) | 2%nat => Some (o_max o) | _ => None end.
  Definition with_ofield (o : osc) (i : nat) (a : arg) : osc :=
    match i with
    | 0%nat => mkOsc (o_shape o) a (o_min o) (o_max o) (o_phase o)
    | 1%nat => mkOsc (o_shape o) (o_length o) a (o_max o) (o_phase o)
    | 2%nat => mkOsc (o_shape o) (o_length o) (o_min o) a (o_phase o)
    | _ => o
    end.

  (* the step-wise scalar reference: the k-th output computed from the k-th values of the three parameter streams *)
  Fixpoint osc_scalar_outputs (sh : shape) (ls ms xs : list val) (phase : val) : list (outcome val) * val :=
    match ls, ms, xs with
    | l :: lr, m :: mr, x :: xr =>
        match osc_body sh l m x phase with
        | Yield (out, ph) => let '(rs, phn) := osc_scalar_outputs sh lr mr xr ph in (Yield out :: rs, phn)
        | r => let '(rs, phn) := osc_scalar_outputs sh lr mr xr phase in (ocast r :: rs, phn)
        end
    | _, _, _ => ([], phase)
    end.
End Osc.

(** for the correspondence check *)
Definition osc_trace (sh : shape) (length min max : arg) (n : nat) : list (outcome val) :=
  fst (osc_outputs Val.binop 10 400 n (osc_init sh length min max)).

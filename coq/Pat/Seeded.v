(* Pat/Seeded.v — seedable, CONFIGURABLE pattern classes for property C04 (reset() rewinds to "a newly constructed,
   identically seeded instance"), widening Pat/Chance.v in two directions:

   * the constructor may DRAW (PArpeggiator of type RANDOM shuffles its ordering in __init__, with the throw-away
     seed PStochasticPattern.__init__ installed), the class may override seed() (PArpeggiator.seed redraws the
     ordering from the new seed) and __next__ may call reset() itself (a looping arpeggiator; every(n, "reset"));
   * the object may be CONFIGURED after construction through a public method that draws nothing
     (PRandomImpulseSequence.every(n, action)); the configuration is part of the object's state and survives reset().

   A class is five functions of the state and the generator (an oracle, as in Pat/Chance.v: R, r_unit, r_below,
   r_seed).  Histories are lists over next() / reset() / seed(s) / configuration calls.
     sc_new      __init__ after PStochasticPattern.__init__ ran (rng seeded with the throw-away seed)
     sc_step     __next__ (the stored _seed is passed in: reset() called from inside __next__ re-seeds with it)
     sc_reset    the class's reset() after PStochasticPattern.reset() re-seeded the generator with _seed
     sc_seeded   the class's seed(s) after PStochasticPattern.seed() installed rng.seed(s)
     sc_config   the configuration method
   Transcribed: isobar/pattern/sequence.py PArpeggiator (type RANDOM: restart, reset, seed, __next__),
   isobar/pattern/chance.py PRandomImpulseSequence (generate, every, explore, reset, __next__; probability and length
   scalars, length >= 0).  Every machine of Pat/Chance.v embeds (of_machine).  No proofs here. *)
From Isobar Require Import Base.Prelude Pat.Chance.
From Coq Require Import QArith.
Local Notation length := List.length (only parsing).
Open Scope Z_scope.

Section RNG.
  Variable R : Type.
  Variable r_unit : R -> Z * R.
  Variable r_below : Z -> R -> Z * R.
  Variable r_seed : Z -> R.

  Record sclass (St Cf : Type) := mkSClass {
    sc_new : R -> St * R;
    sc_step : Z -> St -> R -> res * St * R;
    sc_reset : St -> R -> St * R;
    sc_seeded : St -> R -> St * R;
    sc_config : Cf -> St -> St
  }.
  Arguments sc_new {St Cf}. Arguments sc_step {St Cf}. Arguments sc_reset {St Cf}.
  Arguments sc_seeded {St Cf}. Arguments sc_config {St Cf}.

  (** an object: class state, generator state, the stored seed (_seed) *)
  Record kinst (St : Type) := mkK { k_st : St; k_gen : R; k_seed : Z }.
  Arguments mkK {St}. Arguments k_st {St}. Arguments k_gen {St}. Arguments k_seed {St}.

  Inductive kop (Cf : Type) := KNext | KReset | KSeed (s : Z) | KConfig (c : Cf).
  Arguments KNext {Cf}. Arguments KReset {Cf}. Arguments KSeed {Cf}. Arguments KConfig {Cf}.

  (* P(args): PStochasticPattern.__init__ draws the throw-away seed s0 from the global generator (any value) and
     seeds rng with it; then the class's __init__ runs *)
  Definition knew {St Cf} (cls : sclass St Cf) (s0 : Z) : kinst St :=
    let (st, g) := sc_new cls (r_seed s0) in mkK st g s0.

  Definition kdo {St Cf} (cls : sclass St Cf) (i : kinst St) (o : kop Cf) : kinst St * option res :=
    match o with
    | KNext => let '(r, st', g') := sc_step cls (k_seed i) (k_st i) (k_gen i) in (mkK st' g' (k_seed i), Some r)
    | KReset => let (st', g') := sc_reset cls (k_st i) (r_seed (k_seed i)) in (mkK st' g' (k_seed i), None)
    | KSeed s => let (st', g') := sc_seeded cls (k_st i) (r_seed s) in (mkK st' g' s, None)
    | KConfig c => (mkK (sc_config cls c (k_st i)) (k_gen i) (k_seed i), None)
    end.

  Fixpoint krun_st {St Cf} (cls : sclass St Cf) (i : kinst St) (ops : list (kop Cf)) : kinst St * list res :=
    match ops with
    | [] => (i, [])
    | o :: r => let (i', e) := kdo cls i o in
                let (i'', es) := krun_st cls i' r in
                (i'', match e with Some x => x :: es | None => es end)
    end.
  Definition krun {St Cf} (cls : sclass St Cf) (i : kinst St) (ops : list (kop Cf)) : list res := snd (krun_st cls i ops).
  Definition kafter {St Cf} (cls : sclass St Cf) (i : kinst St) (ops : list (kop Cf)) : kinst St := fst (krun_st cls i ops).

  (** what a history leaves behind apart from the class state: the seed in force and the configuration calls made *)
  Fixpoint seed_of {Cf} (s : Z) (h : list (kop Cf)) : Z :=
    match h with
    | [] => s
    | KSeed s' :: r => seed_of s' r
    | _ :: r => seed_of s r
    end.
  Fixpoint configs_of {Cf} (h : list (kop Cf)) : list Cf :=
    match h with
    | [] => []
    | KConfig c :: r => c :: configs_of r
    | _ :: r => configs_of r
    end.
  Definition configs {St Cf} (cls : sclass St Cf) (cs : list Cf) (st : St) : St :=
    fold_left (fun s c => sc_config cls c s) cs st.

  (** "a newly constructed, identically seeded [and configured] instance": P(args).seed(s) followed by the
      configuration calls cs — the throw-away seed s0 of its constructor is arbitrary *)
  Definition kfresh {St Cf} (cls : sclass St Cf) (s0 s : Z) (cs : list Cf) : kinst St :=
    kafter cls (knew cls s0) (KSeed s :: map KConfig cs).

  (** ** every machine of Pat/Chance.v: the constructor draws nothing, seed() is the base method, no configuration *)
  Definition of_machine {St} (m : machine R St) : sclass St unit :=
    mkSClass St unit (fun g => (m_init m, g)) (fun _ => m_step m) (fun _ g => (m_init m, g)) (fun st g => (st, g))
             (fun _ st => st).

  (** ** PArpeggiator(notes, PArpeggiator.RANDOM, loop); [notes] is the sorted chord (self._notes) *)
  Record arp_state := mkArp { ar_offsets : list Z; ar_pos : Z }.
  (* restart(): self.offsets = list(range(len(self._notes))); self.rng.shuffle(self.offsets) *)
  Definition arp_restart (notes : list Z) (g : R) : list Z * R :=
    shuffle R r_below (map Z.of_nat (seq 0 (length notes))) g.
  (* __init__: self.pos = 0; self.offsets = []; ...; self.restart() *)
  Definition arp_new (notes : list Z) (g : R) : arp_state * R :=
    let (o, g') := arp_restart notes g in (mkArp o 0, g').
  (* reset(): super().reset() [rng.seed(_seed)]; self.pos = 0; self.restart() *)
  Definition arp_reset (notes : list Z) (st : arp_state) (g : R) : arp_state * R :=
    let (o, g') := arp_restart notes g in (mkArp o 0, g').
  (* seed(s): super().seed(s) [rng.seed(s)]; self.restart()      (pos is not touched) *)
  Definition arp_seeded (notes : list Z) (st : arp_state) (g : R) : arp_state * R :=
    let (o, g') := arp_restart notes g in (mkArp o (ar_pos st), g').
  (* __next__ for type RANDOM (4 <= __LONGPATTERNS):
       if len(self._notes) == 0: self.pos = 0; return None
       if pos < len(self.offsets) and pos < len(self._notes): rv = self._notes[self.offsets[pos]]; self.pos = pos + 1
       elif self.loop: self.pos = 0; self.reset(); return next(self)
       else: raise StopIteration *)
  Definition arp_yield (notes : list Z) (st : arp_state) (g : R) : res * arp_state * R :=
    match pyidx (ar_offsets st) (ar_pos st) with
    | Some o => match pyidx notes o with
                | Some v => (Out (OZ v), mkArp (ar_offsets st) (ar_pos st + 1), g)
                | None => (Fail, st, g)
                end
    | None => (Fail, st, g)
    end.
  Definition arp_step (notes : list Z) (loop : bool) (seed : Z) (st : arp_state) (g : R) : res * arp_state * R :=
    if zlen notes =? 0 then (Out ONone, mkArp (ar_offsets st) 0, g)
    else if (ar_pos st <? zlen (ar_offsets st)) && (ar_pos st <? zlen notes) then arp_yield notes st g
    else if loop then let (st', g') := arp_reset notes st (r_seed seed) in arp_yield notes st' g'
    else (Stop, st, g).
  Definition arp_random (notes : list Z) (loop : bool) : sclass arp_state unit :=
    mkSClass _ unit (arp_new notes) (arp_step notes loop) (arp_reset notes) (arp_seeded notes) (fun _ st => st).

  (** ** PRandomImpulseSequence(probability, length).every(n, action) *)
  (* self.every_action: None | lambda: self.generate() | lambda: self.explore() | lambda: self.reset() |
     a callable of the caller's (modelled: one that does nothing; it is truthy, so the schedule counter runs) *)
  Inductive eaction := ANone | AGenerate | AExplore | AReset | ANoop.
  Record imp_state := mkImp { im_values : list Z; im_pos : Z; im_cur : Z;
                              im_eidx : Z; im_ecount : Z; im_eact : eaction }.

  (* [int(self.rng.uniform(0, 1) < probability) for _ in range(n)]      uniform(0, 1) = 0 + (1 - 0) * random() *)
  Fixpoint draw_bits (p : Q) (n : nat) (g : R) : list Z * R :=
    match n with
    | O => ([], g)
    | Datatypes.S n' => let (u, g1) := d_unit R r_unit g in
                        let (r, g2) := draw_bits p n' g1 in
                        ((if Qltb u p then 1 else 0) :: r, g2)
    end.

  Definition imp_new (g : R) : imp_state * R := (mkImp [] 0 0 0 0 ANone, g).       (* ...; self.every(0) *)
  (* reset(): super().reset(); current_length = 0; values = []; pos = 0; every_index = 0 *)
  Definition imp_reset (st : imp_state) (g : R) : imp_state * R :=
    (mkImp [] 0 0 0 (im_ecount st) (im_eact st), g).
  (* every(n, action): every_action = ...; every_count = n; every_index = 0 *)
  Definition imp_config (c : Z * eaction) (st : imp_state) : imp_state :=
    mkImp (im_values st) (im_pos st) (im_cur st) 0 (fst c) (snd c).
  (* generate(): current_length = length; values = [draws]; pos = 0 *)
  Definition imp_generate (prob : Q) (len : Z) (st : imp_state) (g : R) : imp_state * R :=
    let (v, g') := draw_bits prob (Z.to_nat len) g in
    (mkImp v 0 len (im_eidx st) (im_ecount st) (im_eact st), g').
  (* explore(): op = rng.choice([0, 1, 2]); switch two values / flip one / rotate.  None = an exception
     (IndexError / ValueError on lists that are too short); nothing of the object but the generator has changed then *)
  Definition imp_explore (values : list Z) (g : R) : option (list Z) * R :=
    let (op, g1) := r_below 3 g in
    if op =? 0 then
      let (idx, g2) := shuffle R r_below (map Z.of_nat (seq 0 (length values))) g1 in
      match pyidx idx 0, pyidx idx 1 with
      | Some i, Some j => (Some (swap (Z.to_nat i) (Z.to_nat j) values), g2)
      | _, _ => (None, g2)
      end
    else if op =? 1 then
      if zlen values <=? 0 then (None, g1)                               (* randrange(0): ValueError, nothing drawn *)
      else let (i, g2) := r_below (zlen values) g1 in
           (Some (upd (Z.to_nat i) (1 - nth (Z.to_nat i) values 0) values), g2)
    else
      let (u, g2) := d_unit R r_unit g1 in
      match values with
      | [] => (None, g2)
      | x :: r => if Qltb u (1 # 2) then (Some (last values 0 :: removelast values), g2)
                  else (Some (r ++ [x]), g2)
      end.

  Definition imp_set_values (st : imp_state) (v : list Z) : imp_state :=
    mkImp v (im_pos st) (im_cur st) (im_eidx st) (im_ecount st) (im_eact st).
  Definition imp_set_eidx (st : imp_state) (k : Z) : imp_state :=
    mkImp (im_values st) (im_pos st) (im_cur st) k (im_ecount st) (im_eact st).

  (* the schedule part of __next__:
       if self.every_action:
           if self.every_index == self.every_count: self.every_action(); self.every_index = 0
           self.every_index += 1
     returns None when the action raised *)
  Definition imp_every (prob : Q) (len : Z) (seed : Z) (st : imp_state) (g : R) : option imp_state * R :=
    match im_eact st with
    | ANone => (Some st, g)
    | act =>
        if im_eidx st =? im_ecount st then
          match act with
          | AGenerate => let (st', g') := imp_generate prob len st g in (Some (imp_set_eidx st' 1), g')
          | AExplore => match imp_explore (im_values st) g with
                        | (Some v, g') => (Some (imp_set_eidx (imp_set_values st v) 1), g')
                        | (None, g') => (None, g')
                        end
          | AReset => let (st', g') := imp_reset st (r_seed seed) in (Some (imp_set_eidx st' 1), g')
          | _ => (Some (imp_set_eidx st 1), g)
          end
        else (Some (imp_set_eidx st (im_eidx st + 1)), g)
    end.

  (* the rest of __next__:
       if self.pos >= len(self.values):
           self.pos = 0; self.current_length = length
           if current_length > len(values): values += [draws for the difference]
           if current_length < len(values): values = values[:current_length]
       rv = self.values[self.pos]; self.pos += 1 *)
  Definition imp_read (prob : Q) (len : Z) (st : imp_state) (g : R) : res * imp_state * R :=
    let '(st1, g1) :=
      if zlen (im_values st) <=? im_pos st then
        let n := zlen (im_values st) in
        let '(v1, g') := if n <? len then let (d, g') := draw_bits prob (Z.to_nat (len - n)) g in (im_values st ++ d, g')
                         else (im_values st, g) in
        let v2 := if len <? zlen v1 then firstn (Z.to_nat len) v1 else v1 in
        (mkImp v2 0 len (im_eidx st) (im_ecount st) (im_eact st), g')
      else (st, g) in
    match pyidx (im_values st1) (im_pos st1) with
    | Some v => (Out (OZ v), mkImp (im_values st1) (im_pos st1 + 1) (im_cur st1) (im_eidx st1) (im_ecount st1) (im_eact st1), g1)
    | None => (Fail, st1, g1)
    end.

  Definition imp_step (prob : Q) (len : Z) (seed : Z) (st : imp_state) (g : R) : res * imp_state * R :=
    match imp_every prob len seed st g with
    | (Some st1, g1) => imp_read prob len st1 g1
    | (None, g1) => (Fail, st, g1)
    end.

  Definition impulse_seq (prob : Q) (len : Z) : sclass imp_state (Z * eaction) :=
    mkSClass _ _ imp_new (imp_step prob len) imp_reset (fun st g => (st, g)) imp_config.
End RNG.

Arguments sc_new {R St Cf}. Arguments sc_step {R St Cf}. Arguments sc_reset {R St Cf}.
Arguments sc_seeded {R St Cf}. Arguments sc_config {R St Cf}.
Arguments mkK {R St}. Arguments k_st {R St}. Arguments k_gen {R St}. Arguments k_seed {R St}.
Arguments KNext {Cf}. Arguments KReset {Cf}. Arguments KSeed {Cf}. Arguments KConfig {Cf}.

(** * Script checker of the correspondence (over the replay generator of Pat/Chance.v): the implementation's draws are
      recorded per epoch (an epoch starts at every rng.seed() the script causes from outside: seed(s) and reset());
      in the model's script every reset() is written  KSeed e; KReset  and every seed(s)  KSeed e  with e the number
      of the epoch it opens, so r_seed = "the recorded draws of epoch e".  Outputs are compared exactly and, at the end
      of every epoch from 1 on and at the end of the script, the model's requests with the recorded ones.  (Epoch 0 is
      the constructor's throw-away seed: its draws happen before a recorder can be installed and are not compared.
      reset() called from inside __next__ re-reads the draws of the current epoch from their beginning: the
      implementation's generator, re-seeded with the same seed, returns the same results for the same requests.) *)
Definition kepoch_ok (strict : bool) (ep : nat) (g : replay) (req : list Z) : bool :=
  match ep with
  | O => true
  | _ => if strict then epoch_ok g req else negb (rp_under g)
  end.
(* strict: one flag per epoch; false for an epoch during which __next__ re-seeded the generator itself (then only
   "every request was served from the recorded draws" is checked for it) *)
Fixpoint kscript_ok {St Cf} (cls : sclass replay St Cf) (epochs reqs : list (list Z)) (strict : list bool) (i : kinst replay St)
         (ep : nat) (ops : list (kop Cf)) (exp : list res) : bool :=
  match ops with
  | [] => kepoch_ok (nth ep strict true) ep (k_gen i) (nth ep reqs []) && match exp with [] => true | _ => false end
  | o :: r =>
    let '(i', e) := kdo replay (rp_seed epochs) cls i o in
    match o, e with
    | KNext, Some x => match exp with
                       | y :: exp' => res_eqb x y && kscript_ok cls epochs reqs strict i' ep r exp'
                       | [] => false
                       end
    | KSeed _, _ => kepoch_ok (nth ep strict true) ep (k_gen i) (nth ep reqs []) && kscript_ok cls epochs reqs strict i' (S ep) r exp
    | _, _ => kscript_ok cls epochs reqs strict i' ep r exp
    end
  end.
Definition check_kscript {St Cf} (cls : sclass replay St Cf) (epochs reqs : list (list Z)) (strict : list bool)
           (ops : list (kop Cf)) (exp : list res) : bool :=
  kscript_ok cls epochs reqs strict (knew replay (rp_seed epochs) cls 0) 0 ops exp.
(* the model's outputs alone (diagnostics) *)
Definition kscript_trace {St Cf} (cls : sclass replay St Cf) (epochs : list (list Z)) (ops : list (kop Cf)) : list res :=
  krun replay (rp_seed epochs) cls (knew replay (rp_seed epochs) cls 0) ops.

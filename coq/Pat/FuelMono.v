(* Pat/FuelMono.v — more fuel never changes a result: if a call of the engine (Pat/Step.v) with fuel f does not run
   out of fuel, the same call with fuel f + k returns the same outcome and the same new state.  Needed by the
   closed-form theorems of C10 for the classes whose __next__ loops (PCollapse, PNoRepeats, PConcatenate step their
   operands with the fuel that is left).  Lemmas only. *)
From Isobar Require Import Base.Prelude Pat.Val Pat.Syntax Pat.Step Pat.ArgInd.
From Coq Require Import String QArith.
Open Scope Z_scope.

Definition oof {A} (o : outcome A) : Prop := o = OutOfFuel.

(** * the fuel-free combinators: a refinement of the function argument refines the result *)
Section Comb.
  Variables g g' : arg -> outcome val * arg.
  Hypothesis Hg : forall a r, g a = r -> fst r <> OutOfFuel -> g' a = r.

  Lemma values_of_mono : forall l r, values_of g l = r -> fst r <> OutOfFuel -> values_of g' l = r.
  Proof.
    induction l as [|a l IH]; intros r E H; [exact E|]. cbn [values_of] in *.
    destruct (g a) as [o a'] eqn:Ea. destruct o.
    - rewrite (Hg a _ Ea) by (cbn; discriminate).
      destruct (values_of g l) as [os r'] eqn:El. rewrite (IH _ eq_refl).
      + exact E.
      + subst r. cbn [fst] in *. destruct os; cbn in *; congruence.
    - rewrite (Hg a _ Ea) by (cbn; discriminate). exact E.
    - rewrite (Hg a _ Ea) by (cbn; discriminate). exact E.
    - subst r. cbn in H. congruence.
    - rewrite (Hg a _ Ea) by (cbn; discriminate). exact E.
  Qed.

  Lemma kwvalues_of_mono : forall l r, kwvalues_of g l = r -> fst r <> OutOfFuel -> kwvalues_of g' l = r.
  Proof.
    induction l as [|[k a] l IH]; intros r E H; [exact E|]. cbn [kwvalues_of] in *.
    destruct (g a) as [o a'] eqn:Ea. destruct o.
    - rewrite (Hg a _ Ea) by (cbn; discriminate).
      destruct (kwvalues_of g l) as [os r'] eqn:El. rewrite (IH _ eq_refl).
      + exact E.
      + subst r. cbn [fst] in *. destruct os; cbn in *; congruence.
    - rewrite (Hg a _ Ea) by (cbn; discriminate). exact E.
    - rewrite (Hg a _ Ea) by (cbn; discriminate). exact E.
    - subst r. cbn in H. congruence.
    - rewrite (Hg a _ Ea) by (cbn; discriminate). exact E.
  Qed.

  (* PSubsequence's loop: also the loop bound may grow *)
  Lemma pull_until_mono : forall n pattern values target r,
    pull_until g n pattern values target = r -> fst (fst r) <> OutOfFuel ->
    pull_until g' (S n) pattern values target = r.
  Proof.
    induction n as [|n IH]; intros pattern values target r E H.
    - cbn [pull_until] in *. destruct (Z.of_nat (List.length values) <=? target); [subst r; cbn in H; congruence | exact E].
    - remember (S n) as m. cbn [pull_until]. subst m. cbn [pull_until] in E.
      destruct (Z.of_nat (List.length values) <=? target); [|exact E].
      destruct (g pattern) as [o p'] eqn:Ep. destruct o.
      + rewrite (Hg _ _ Ep) by (cbn; discriminate). apply IH; assumption.
      + rewrite (Hg _ _ Ep) by (cbn; discriminate). exact E.
      + rewrite (Hg _ _ Ep) by (cbn; discriminate). exact E.
      + subst r. cbn in H. congruence.
      + rewrite (Hg _ _ Ep) by (cbn; discriminate). exact E.
  Qed.
End Comb.

Section CombPat.
  Variables g g' : pat -> outcome val * pat.
  Hypothesis Hg : forall p r, g p = r -> fst r <> OutOfFuel -> g' p = r.

  Lemma take_mono ex : forall m p r, take ex g m p = r -> fst r <> OutOfFuel -> take ex g' m p = r.
  Proof.
    induction m as [|m IH]; intros p r E H; [exact E|]. cbn [take] in *.
    destruct (g p) as [o p'] eqn:Ep. destruct o.
    - rewrite (Hg _ _ Ep) by (cbn; discriminate).
      destruct (take ex g m p') as [os p''] eqn:Et. rewrite (IH _ _ Et).
      + exact E.
      + subst r. cbn [fst] in *. destruct os; cbn in *; congruence.
    - rewrite (Hg _ _ Ep) by (cbn; discriminate). exact E.
    - rewrite (Hg _ _ Ep) by (cbn; discriminate). exact E.
    - subst r. cbn in H. congruence.
    - rewrite (Hg _ _ Ep) by (cbn; discriminate). exact E.
  Qed.

  (* the unbounded drain of PReverse.reset: the bound is the fuel, it grows too *)
  Lemma take_oof_mono : forall m p r, take OutOfFuel g m p = r -> fst r <> OutOfFuel -> take OutOfFuel g' (S m) p = r.
  Proof.
    induction m as [|m IH]; intros p r E H.
    - cbn [take] in E. subst r. cbn in H. congruence.
    - remember (S m) as k. cbn [take]. subst k. cbn [take] in E.
      destruct (g p) as [o p'] eqn:Ep. destruct o.
      + rewrite (Hg _ _ Ep) by (cbn; discriminate).
        destruct (take OutOfFuel g m p') as [os p''] eqn:Et. rewrite (IH _ _ Et).
        * exact E.
        * subst r. cbn [fst] in *. destruct os; cbn in *; congruence.
      + rewrite (Hg _ _ Ep) by (cbn; discriminate). exact E.
      + rewrite (Hg _ _ Ep) by (cbn; discriminate). exact E.
      + subst r. cbn in H. congruence.
      + rewrite (Hg _ _ Ep) by (cbn; discriminate). exact E.
  Qed.
End CombPat.

Section CombReset.
  Variables rp rp' : pat -> outcome pat.
  Hypothesis Hr : forall p r, rp p = r -> r <> OutOfFuel -> rp' p = r.

  Lemma reset_item_mono a r : reset_item rp a = r -> r <> OutOfFuel -> reset_item rp' a = r.
  Proof.
    destruct a; cbn [reset_item]; intros E H; try exact E.
    destruct (rp p) eqn:Ep; rewrite (Hr _ _ Ep); try exact E; try discriminate.
    subst r. cbn in H. congruence.
  Qed.

  Lemma mapM_reset_item_mono : forall l r, mapM (reset_item rp) l = r -> r <> OutOfFuel -> mapM (reset_item rp') l = r.
  Proof.
    induction l as [|a l IH]; intros r E H; [exact E|]. cbn [mapM] in *.
    destruct (reset_item rp a) eqn:Ea.
    - rewrite (reset_item_mono _ _ Ea) by discriminate. cbn [obind] in *.
      destruct (mapM (reset_item rp) l) eqn:El.
      + rewrite (IH _ eq_refl) by discriminate. exact E.
      + rewrite (IH _ eq_refl) by discriminate. exact E.
      + rewrite (IH _ eq_refl) by discriminate. exact E.
      + subst r. cbn in H. congruence.
      + rewrite (IH _ eq_refl) by discriminate. exact E.
    - rewrite (reset_item_mono _ _ Ea) by discriminate. exact E.
    - rewrite (reset_item_mono _ _ Ea) by discriminate. exact E.
    - subst r. cbn in H. congruence.
    - rewrite (reset_item_mono _ _ Ea) by discriminate. exact E.
  Qed.

  Lemma kwmapM_reset_item_mono : forall l r, kwmapM (reset_item rp) l = r -> r <> OutOfFuel -> kwmapM (reset_item rp') l = r.
  Proof.
    unfold kwmapM. induction l as [|[k a] l IH]; intros r E H; [exact E|]. cbn [mapM fst snd] in *.
    destruct (reset_item rp a) eqn:Ea.
    - rewrite (reset_item_mono _ _ Ea) by discriminate. cbn [obind omap] in *.
      destruct (mapM _ l) eqn:El.
      + rewrite (IH _ eq_refl) by discriminate. exact E.
      + rewrite (IH _ eq_refl) by discriminate. exact E.
      + rewrite (IH _ eq_refl) by discriminate. exact E.
      + subst r. cbn in H. congruence.
      + rewrite (IH _ eq_refl) by discriminate. exact E.
    - rewrite (reset_item_mono _ _ Ea) by discriminate. exact E.
    - rewrite (reset_item_mono _ _ Ea) by discriminate. exact E.
    - subst r. cbn in H. congruence.
    - rewrite (reset_item_mono _ _ Ea) by discriminate. exact E.
  Qed.

  (* the same for reset_value (tuples walked to any depth) *)
  Lemma mapM_mono_gen (g g' : arg -> outcome arg) : forall l,
    Forall (fun a => forall r, g a = r -> r <> OutOfFuel -> g' a = r) l ->
    forall r, mapM g l = r -> r <> OutOfFuel -> mapM g' l = r.
  Proof.
    induction 1 as [|a l Ha Hl IH]; intros r E H; [exact E|]. cbn [mapM] in *.
    specialize (Ha (g a) eq_refl).
    destruct (g a) eqn:Ea.
    - rewrite Ha by discriminate. cbn [obind] in *.
      destruct (mapM g l) eqn:El.
      + rewrite (IH _ eq_refl) by discriminate. exact E.
      + rewrite (IH _ eq_refl) by discriminate. exact E.
      + rewrite (IH _ eq_refl) by discriminate. exact E.
      + subst r. cbn in H. congruence.
      + rewrite (IH _ eq_refl) by discriminate. exact E.
    - rewrite Ha by discriminate. exact E.
    - rewrite Ha by discriminate. exact E.
    - subst r. cbn in H. congruence.
    - rewrite Ha by discriminate. exact E.
  Qed.

  Lemma reset_value_mono : forall a r, reset_value rp a = r -> r <> OutOfFuel -> reset_value rp' a = r.
  Proof.
    apply (arg_tuple_ind (fun a => forall r, reset_value rp a = r -> r <> OutOfFuel -> reset_value rp' a = r)).
    - intros v r E _. exact E.
    - intros p r E H. cbn [reset_value] in *. destruct (rp p) eqn:Ep; rewrite (Hr _ _ Ep); try exact E; try discriminate.
      subst r. cbn in H. congruence.
    - intros l r E _. exact E.
    - intros kv r E _. exact E.
    - intros l Hl r E H. rewrite reset_value_AT in *.
      destruct (mapM (reset_value rp) l) eqn:El; try (rewrite (mapM_mono_gen _ _ l Hl _ El) by discriminate; exact E).
      subst r. cbn in H. congruence.
  Qed.

  Lemma mapM_reset_value_mono : forall l r, mapM (reset_value rp) l = r -> r <> OutOfFuel -> mapM (reset_value rp') l = r.
  Proof. intro l. apply mapM_mono_gen. apply Forall_forall. intros a _. apply reset_value_mono. Qed.

  Lemma kwmapM_reset_value_mono : forall l r, kwmapM (reset_value rp) l = r -> r <> OutOfFuel -> kwmapM (reset_value rp') l = r.
  Proof.
    unfold kwmapM. induction l as [|[k a] l IH]; intros r E H; [exact E|]. cbn [mapM fst snd] in *.
    destruct (reset_value rp a) eqn:Ea.
    - rewrite (reset_value_mono _ _ Ea) by discriminate. cbn [obind omap] in *.
      destruct (mapM _ l) eqn:El.
      + rewrite (IH _ eq_refl) by discriminate. exact E.
      + rewrite (IH _ eq_refl) by discriminate. exact E.
      + rewrite (IH _ eq_refl) by discriminate. exact E.
      + subst r. cbn in H. congruence.
      + rewrite (IH _ eq_refl) by discriminate. exact E.
    - rewrite (reset_value_mono _ _ Ea) by discriminate. exact E.
    - rewrite (reset_value_mono _ _ Ea) by discriminate. exact E.
    - subst r. cbn in H. congruence.
    - rewrite (reset_value_mono _ _ Ea) by discriminate. exact E.
  Qed.

  Lemma reset_field_mono a r : reset_field rp a = r -> r <> OutOfFuel -> reset_field rp' a = r.
  Proof.
    destruct a; unfold reset_field; intros E H; try (apply reset_value_mono; assumption).
    - destruct (mapM (reset_value rp) l) eqn:El; try (rewrite (mapM_reset_value_mono _ _ El) by discriminate; exact E).
      subst r. cbn in H. congruence.
    - destruct (kwmapM (reset_value rp) kv) eqn:El; try (rewrite (kwmapM_reset_value_mono _ _ El) by discriminate; exact E).
      subst r. cbn in H. congruence.
  Qed.
End CombReset.

(* PWrap's loops: the bound grows *)
Lemma wrap_up_mono : forall n v mn mx r, wrap_up n v mn mx = r -> r <> OutOfFuel -> wrap_up (S n) v mn mx = r.
Proof.
  induction n as [|n IH]; intros v mn mx r E H.
  - cbn [wrap_up] in *. destruct (cmp OLt v mn) as [[|]| | | |]; try exact E. subst r. congruence.
  - remember (S n) as k. cbn [wrap_up]. subst k. cbn [wrap_up] in E.
    destruct (cmp OLt v mn) as [[|]| | | |]; try exact E.
    destruct (Val.binop OSub mx mn); cbn [obind] in *; try exact E.
    destruct (Val.binop OAdd v a); cbn [obind] in *; try exact E. apply IH; assumption.
Qed.
Lemma wrap_down_mono : forall n v mn mx r, wrap_down n v mn mx = r -> r <> OutOfFuel -> wrap_down (S n) v mn mx = r.
Proof.
  induction n as [|n IH]; intros v mn mx r E H.
  - cbn [wrap_down] in *. destruct (cmp OGe v mx) as [[|]| | | |]; try exact E. subst r. congruence.
  - remember (S n) as k. cbn [wrap_down]. subst k. cbn [wrap_down] in E.
    destruct (cmp OGe v mx) as [[|]| | | |]; try exact E.
    destruct (Val.binop OSub mx mn); cbn [obind] in *; try exact E.
    destruct (Val.binop OSub v a); cbn [obind] in *; try exact E. apply IH; assumption.
Qed.

(** * unfolding equations of the engine, one per function (the bodies are those of Pat/Step.v) *)
Section Unfold.
  Variable binop : op -> val -> val -> outcome val.
  Variable LMAX : nat.
  Notation step := (step binop LMAX).
  Notation value := (value binop LMAX).
  Notation anext := (anext binop LMAX).
  Notation reset := (reset binop LMAX).
  Notation areset_strict := (areset_strict binop LMAX).
  Notation aall := (aall binop LMAX).

  Lemma step_unfold f p : step (S f) p =
(
      match p with
      (* ---- core.py ------------------------------------------------------------------------- *)
      | PConstant c => (Yield c, p)
      | PRef pattern =>                                     (* return next(self.pattern) *)
          let '(o, pattern') := anext f pattern in (o, PRef pattern')
      | PConcatenate inputs pos =>
          match inputs with
          | AL l =>
              match py_index l pos with
              | None => (Raise IndexError, p)
              | Some a =>
                  let '(o, a') := anext f a in              (* try: return next(self.inputs[self.pos]) *)
                  let l' := update_nth (py_index_pos l pos) a' l in
                  match o with
                  | Stop =>                                 (* except StopIteration: *)
                      if pos <? zlen l - 1
                      then step f (PConcatenate (AL l') (pos + 1))       (* self.pos += 1; return next(self) *)
                      else (Stop, PConcatenate (AL l') pos)
                  | _ => (o, PConcatenate (AL l') pos)
                  end
              end
          | _ => (Inexact, p)
          end
      | PAbs input =>
          let '(o, input') := value f input in
          match o with
          | Yield v => ((if is_none v then Yield VNone else py_abs v), PAbs input')
          | _ => (o, PAbs input')
          end
      | PInt input =>
          let '(o, input') := value f input in
          match o with
          | Yield v => ((if is_none v then Yield VNone else py_int v), PInt input')
          | _ => (o, PInt input')
          end
      | PBinOp o a b =>
          let '(oa, a') := value f a in                     (* a = Pattern.value(self.a) *)
          match oa with
          | Yield va =>
              let '(ob, b') := value f b in                 (* b = Pattern.value(self.b) *)
              match ob with
              | Yield vb => ((if is_none va || is_none vb then Yield VNone else binop o va vb), PBinOp o a' b')
              | _ => (ob, PBinOp o a' b')
              end
          | _ => (oa, PBinOp o a' b)
          end
      | PAnd a b =>
          let '(oa, a') := value f a in
          match oa with
          | Yield va =>
              let '(ob, b') := value f b in
              match ob with
              | Yield vb => (Yield (VBool (truthy va && truthy vb)), PAnd a' b')
              | _ => (ob, PAnd a' b')
              end
          | _ => (oa, PAnd a' b)
          end
      | PArrayIndex list index exhausted =>
          (* list = Pattern.value(self.list); index = Pattern.value(self.index) *)
          if exhausted then (Stop, p) else                       (* if self.exhausted: raise StopIteration *)
          let '(o, list1, index1) :=
          match list with
          | AL l =>
              let '(oi, index') := value f index in
              match oi with
              | Yield VNone => (Yield VNone, list, index')
              | Yield vi =>
                  match py_int vi with
                  | Yield (VInt i) =>
                      match py_index l i with
                      | None => (Raise IndexError, list, index')
                      | Some a =>
                          let '(o, a') := value f a in      (* return Pattern.value(list[index]) *)
                          (o, (AL (update_nth (py_index_pos l i) a' l)), index')
                      end
                  | Yield _ => (Inexact, list, index')
                  | o => (o, list, index')
                  end
              | _ => (oi, list, index')
              end
          | _ =>
              let '(ol, list') := value f list in
              match ol with
              | Yield vl =>
                  let '(oi, index') := value f index in
                  match oi with
                  | Yield VNone => (Yield VNone, list', index')
                  | Yield vi =>
                      match py_int vi with
                      | Yield (VInt i) =>
                          match vl with
                          | VList l | VTup l =>
                              match py_index l i with
                              | None => (Raise IndexError, list', index')
                              | Some v => (Yield v, list', index')
                              end
                          | VStr _ | VDict _ => (Inexact, list', index')
                          | _ => (Raise TypeError, list', index')
                          end
                      | Yield _ => (Inexact, list', index')
                      | o => (o, list', index')
                      end
                  | _ => (oi, list', index')
                  end
              | _ => (ol, list', index)
              end
          end in
          (o, PArrayIndex list1 index1 (is_stop o))             (* except StopIteration: self.exhausted = True; raise *)
      | PDict dict =>
          (* rv = dict([(k, Pattern.value(vdict[k])) for k in vdict]) *)
          match dict with
          | AD kv =>
              let '(o, kv') := kwvalues_of (value f) kv in
              (omap VDict o, PDict (AD kv'))
          | _ => (Inexact, p)
          end
      | PDictKey dict key =>
          let '(od, dict') :=
            match dict with
            | AD kv => (match plain_kw kv with Some d => Yield (VDict d) | None => Inexact end, dict)
            | _ => value f dict
            end in
          match od with
          | Yield vd =>
              let '(ok, key') := value f key in
              match ok with
              | Yield vk =>
                  (match vd, vk with
                   | VDict d, VStr k => match assoc k d with Some v => Yield v | None => Raise KeyError end
                   | VDict d, (VList _ | VDict _) => Raise TypeError
                   | VDict d, _ => Raise KeyError
                   | VNone, _ => Raise TypeError
                   | _, _ => Inexact
                   end, PDictKey dict' key')
              | _ => (ok, PDictKey dict' key')
              end
          | _ => (od, PDictKey dict' key)
          end
      (* ---- sequence.py --------------------------------------------------------------------- *)
      | PSequence sequence repeats rcount pos =>
          match sequence with
          | AL l =>
              let '(orep, repeats') := value f repeats in   (* repeats = Pattern.value(self.repeats) *)
              match orep with
              | Yield vrep =>
                  let stop_test := if zlen l =? 0 then Yield true else cmp OGe (VInt rcount) vrep in
                  match stop_test with
                  | Yield true => (Stop, PSequence sequence repeats' rcount pos)
                  | Yield false =>
                      match py_index l pos with
                      | None => (Raise IndexError, PSequence sequence repeats' rcount pos)
                      | Some a =>
                          let '(o, a') := value f a in      (* rv = Pattern.value(sequence[self.pos]) *)
                          let l' := update_nth (py_index_pos l pos) a' l in
                          match o with
                          | Yield v =>
                              if pos + 1 >=? zlen l
                              then (Yield v, PSequence (AL l') repeats' (rcount + 1) 0)
                              else (Yield v, PSequence (AL l') repeats' rcount (pos + 1))
                          | _ => (o, PSequence (AL l') repeats' rcount pos)
                          end
                      end
                  | oc => (ocast oc, PSequence sequence repeats' rcount pos)
                  end
              | _ => (orep, PSequence sequence repeats' rcount pos)
              end
          | _ => (Inexact, p)
          end
      | PSeries start v stp length count =>
          let '(ol, length') := value f length in           (* length = Pattern.value(self.length) *)
          match ol with
          | Yield vlen =>
              match cmp OGe (VInt count) vlen with
              | Yield true => (Stop, PSeries start v stp length' count)
              | Yield false =>
                  let '(os, stp') := value f stp in         (* step = Pattern.value(self.step) *)
                  match os with
                  | Yield vstep =>
                      match Val.binop OAdd v vstep with     (* self.value += step *)
                      | Yield v' => (Yield v, PSeries start v' stp' length' (count + 1))
                      | o => (o, PSeries start v stp' length' count)
                      end
                  | _ => (os, PSeries start v stp' length' count)
                  end
              | oc => (ocast oc, PSeries start v stp length' count)
              end
          | _ => (ol, PSeries start v stp length' count)
          end
      | PRange start end_ stp v =>
          let '(oe, end') := value f end_ in
          match oe with
          | Yield vend =>
              let '(os, stp') := value f stp in
              match os with
              | Yield vstep =>
                  let st := PRange start end' stp' v in
                  (* if step > 0 and self.value >= end: raise StopIteration *)
                  let t1 := obind (cmp OGt vstep (VInt 0)) (fun b => if b then cmp OGe v vend else Yield false) in
                  match t1 with
                  | Yield true => (Stop, st)
                  | Yield false =>
                      (* elif step < 0 and self.value <= end: raise StopIteration *)
                      let t2 := obind (cmp OLt vstep (VInt 0)) (fun b => if b then cmp OLe v vend else Yield false) in
                      match t2 with
                      | Yield true => (Stop, st)
                      | Yield false =>
                          match Val.binop OAdd v vstep with
                          | Yield v' => (Yield v, PRange start end' stp' v')
                          | o => (o, st)
                          end
                      | oc => (ocast oc, st)
                      end
                  | oc => (ocast oc, st)
                  end
              | _ => (os, PRange start end' stp' v)
              end
          | _ => (oe, PRange start end' stp v)
          end
      | PGeom start v multiply length count =>
          match cmp OGe (VInt count) length with            (* if self.count >= self.length *)
          | Yield true => (Stop, p)
          | Yield false =>
              let '(om, multiply') := value f multiply in
              match om with
              | Yield vm =>
                  match Val.binop OMul v vm with            (* self.value *= multiply *)
                  | Yield v' => (Yield v, PGeom start v' multiply' length (count + 1))
                  | o => (o, PGeom start v multiply' length count)
                  end
              | _ => (om, PGeom start v multiply' length count)
              end
          | oc => (ocast oc, p)
          end
      | PImpulse period pos =>
          let '(op_, period') := value f period in
          match op_ with
          | Yield vp =>
              match cmp OGe (VInt pos) vp with              (* if self.pos >= period: self.pos = 0 *)
              | Yield b =>
                  let pos1 := if b then 0 else pos in
                  (Yield (VInt (if pos1 =? 0 then 1 else 0)), PImpulse period' (pos1 + 1))
              | oc => (ocast oc, PImpulse period' pos)
              end
          | _ => (op_, PImpulse period' pos)
          end
      | PLoop pattern count pos loop_index read_all values =>
          (* if not self.read_all: try: values.append(next(pattern)) except StopIteration: read_all = True *)
          let '(err, pattern1, read_all1, values1) :=
            if read_all then (None, pattern, true, values)
            else
              let '(o, pattern') := anext f pattern in
              match o with
              | Yield v => (None, pattern', false, values ++ [v])
              | Stop => (None, pattern', true, values)
              | _ => (Some o, pattern', false, values)
              end in
          match err with
          | Some o => (o, PLoop pattern1 count pos loop_index read_all1 values1)
          | None =>
              (* if self.read_all and self.pos >= len(self.values): *)
              let wrap := read_all1 && (pos >=? zlen values1) in
              let st0 := PLoop pattern1 count pos loop_index read_all1 values1 in
              let go (pos2 loop_index2 : Z) :=
                match py_index values1 pos2 with            (* rv = self.values[self.pos]; self.pos += 1 *)
                | Some v => (Yield v, PLoop pattern1 count (pos2 + 1) loop_index2 read_all1 values1)
                | None => (Raise IndexError, PLoop pattern1 count pos2 loop_index2 read_all1 values1)
                end in
              if wrap then
                (* if self.loop_index >= self.count - 1: raise StopIteration *)
                match obind (Val.binop OSub count (VInt 1)) (fun c1 => cmp OGe (VInt loop_index) c1) with
                | Yield true => (Stop, st0)
                | Yield false => if zlen values1 =? 0 then (Stop, st0) else go 0 (loop_index + 1)   (* repaired (C10): an empty input ends *)
                | oc => (ocast oc, st0)
                end
              else go pos loop_index
          end
      | PPingPong pattern count values pos dir rpos =>
          (* if (self.pos == 1 and self.rpos >= self.count) or self.pos >= len(self.values): raise StopIteration
             (repaired, C10: an input of fewer than two values ends instead of raising IndexError) *)
          match obind (if pos =? 1 then cmp OGe (VInt rpos) count else Yield false) (fun b => Yield (b || (pos >=? zlen values))) with
          | Yield true => (Stop, p)
          | Yield false =>
              match py_index values pos with                (* rv = self.values[self.pos] *)
              | None => (Raise IndexError, p)
              | Some v =>
                  let pos1 := pos + dir in
                  if pos1 =? zlen values - 1 then (Yield v, PPingPong pattern count values pos1 (-1) rpos)
                  else if pos1 =? 0 then (Yield v, PPingPong pattern count values pos1 1 (rpos + 1))
                  else (Yield v, PPingPong pattern count values pos1 dir rpos)
              end
          | oc => (ocast oc, p)
          end
      | PStutter pattern count count_current pos v =>
          match cmp OGe (VInt pos) count_current with       (* if self.pos >= self.count_current: *)
          | Yield true =>
              let '(oc, count') := value f count in         (* count = Pattern.value(self.count) *)
              match oc with
              | Yield cc =>
                  let '(o, pattern') := anext f pattern in  (* self.value = next(self.pattern) *)
                  match o with
                  | Yield v' => (Yield v', PStutter pattern' count' cc 1 v')     (* self.pos = 0; self.pos += 1 *)
                  | _ => (o, PStutter pattern' count' count_current pos v)      (* repaired (C09): the count is committed only with a new value *)
                  end
              | _ => (oc, PStutter pattern count' count_current pos v)
              end
          | Yield false => (Yield v, PStutter pattern count count_current (pos + 1) v)
          | oc => (ocast oc, p)
          end
      | PSubsequence pattern offset length pos values =>
          let '(oo, offset') := value f offset in
          match oo with
          | Yield voff =>
              let '(ol, length') := value f length in
              match ol with
              | Yield vlen =>
                  let st := PSubsequence pattern offset' length' pos values in
                  match cmp OGe (VInt pos) vlen with        (* if self.pos >= length: raise StopIteration *)
                  | Yield true => (Stop, st)
                  | Yield false =>
                      match int_of voff with
                      | Some off =>
                          let '(ou, values', pattern') := pull_until (anext f) f pattern values (pos + off) in
                          match ou with
                          | Yield _ =>
                              match py_index values' (off + pos) with
                              | Some v => (Yield v, PSubsequence pattern' offset' length' (pos + 1) values')
                              | None => (Raise IndexError, PSubsequence pattern' offset' length' pos values')
                              end
                          | _ => (ocast ou, PSubsequence pattern' offset' length' pos values')
                          end
                      | None => ((if is_none voff then Raise TypeError else Inexact), st)
                      end
                  | oc => (ocast oc, st)
                  end
              | _ => (ol, PSubsequence pattern offset' length' pos values)
              end
          | _ => (oo, PSubsequence pattern offset' length pos values)
          end
      | PReverse input values =>                            (* return next(self.values) *)
          match values with
          | v :: r => (Yield v, PReverse input r)
          | [] => (Stop, p)
          end
      | PReset pattern trigger =>
          let '(ot, trigger') := anext f trigger in         (* trigger_input = next(self.trigger) *)
          match ot with
          | Yield vt =>
              (* if trigger_input is not None and trigger_input > 0: self.pattern.reset() *)
              match (if is_none vt then Yield false else cmp OGt vt (VInt 0)) with
              | Yield fire =>
                  let opat := if fire then areset_strict f pattern else Yield pattern in
                  match opat with
                  | Yield pattern1 =>
                      let '(o, pattern2) := anext f pattern1 in       (* return next(self.pattern) *)
                      (o, PReset pattern2 trigger')
                  | o => (ocast o, PReset pattern trigger')
                  end
              | oc => (ocast oc, PReset pattern trigger')
              end
          | _ => (ot, PReset pattern trigger')
          end
      | PCounter trigger v count =>
          let '(ot, trigger') := anext f trigger in         (* value = next(self.trigger) *)
          match ot with
          | Yield vt =>
              let st := PCounter trigger' v count in
              (* if value > 0 and self.value <= 0: *)
              match obind (cmp OGt vt (VInt 0)) (fun b => if b then cmp OLe v (VInt 0) else Yield false) with
              | Yield true => (Yield (VInt (count + 1)), PCounter trigger' vt (count + 1))
              | Yield false =>
                  (* elif value <= 0 and self.value > 0: *)
                  match obind (cmp OLe vt (VInt 0)) (fun b => if b then cmp OGt v (VInt 0) else Yield false) with
                  | Yield true => (Yield (VInt count), PCounter trigger' vt count)
                  | Yield false => (Yield (VInt count), st)
                  | oc => (ocast oc, st)
                  end
              | oc => (ocast oc, st)
              end
          | _ => (ot, PCounter trigger' v count)
          end
      | PCollapse input =>                                  (* while rv is None: rv = Pattern.value(self.input) *)
          let '(o, input') := value f input in
          match o with
          | Yield VNone => step f (PCollapse input')
          | _ => (o, PCollapse input')
          end
      | PNoRepeats input v =>
          (* while rv == self.value or rv == sys.maxsize: rv = Pattern.value(self.input) *)
          let '(o, input') := value f input in
          match o with
          | Yield rv =>
              if py_eq rv v || py_eq rv (VInt MAXSIZE) then step f (PNoRepeats input' v)
              else (Yield rv, PNoRepeats input' rv)
          | _ => (o, PNoRepeats input' v)
          end
      | PPad pattern length count =>
          let '(o, pattern') := anext f pattern in
          match o with
          | Stop =>
              match cmp OGe (VInt count) length with
              | Yield true => (Stop, PPad pattern' length count)
              | Yield false => (Yield VNone, PPad pattern' length (count + 1))
              | oc => (ocast oc, PPad pattern' length count)
              end
          | Yield v => (Yield v, PPad pattern' length (count + 1))
          | _ => (o, PPad pattern' length count)
          end
      | PPadToMultiple pattern multiple minimum_pad count padcount =>
          let '(o, pattern') := anext f pattern in
          match o with
          | Stop =>
              let st := PPadToMultiple pattern' multiple minimum_pad count padcount in
              (* if self.padcount >= self.minimum_pad and (self.count % self.multiple == 0): *)
              match obind (cmp OGe (VInt padcount) minimum_pad)
                      (fun b => if b then omap (fun r => py_eq r (VInt 0)) (Val.binop OMod (VInt count) multiple) else Yield false) with
              | Yield true => (Stop, st)
              | Yield false => (Yield VNone, PPadToMultiple pattern' multiple minimum_pad (count + 1) (padcount + 1))
              | oc => (ocast oc, st)
              end
          | Yield v => (Yield v, PPadToMultiple pattern' multiple minimum_pad (count + 1) padcount)
          | _ => (o, PPadToMultiple pattern' multiple minimum_pad count padcount)
          end
      (* ---- scalar.py ----------------------------------------------------------------------- *)
      | PChanged source current =>
          let '(o, source') := value f source in
          match o with
          | Yield nxt => (Yield (VInt (if py_eq nxt current then 0 else 1)), PChanged source' nxt)
          | _ => (o, PChanged source' current)
          end
      | PDiff source current =>
          let '(o, source') := value f source in
          match o with
          | Yield nxt =>
              if is_none current || is_none nxt then (Yield VNone, PDiff source' nxt)
              else match Val.binop OSub nxt current with
                   | Yield d => (Yield d, PDiff source' nxt)
                   | oe => (oe, PDiff source' current)
                   end
          | _ => (o, PDiff source' current)
          end
      | PSkipIf pattern skip =>
          let '(o, pattern') := value f pattern in
          match o with
          | Yield rv =>
              let '(os, skip') := value f skip in
              match os with
              | Yield rskip => (Yield (if truthy rskip then VNone else rv), PSkipIf pattern' skip')
              | _ => (os, PSkipIf pattern' skip')
              end
          | _ => (o, PSkipIf pattern' skip)
          end
      | PMap input operator args kwargs =>
          (* args = [Pattern.value(v) for v in self.args]; kwargs likewise; value = next(self.input) *)
          let '(oa, args') := values_of (value f) args in
          match oa with
          | Yield vargs =>
              let '(ok, kwargs') := kwvalues_of (value f) kwargs in
              match ok with
              | Yield vkw =>
                  let '(o, input') := anext f input in
                  match o with
                  | Yield v => (apply_fn operator v vargs vkw, PMap input' operator args' kwargs')
                  | _ => (o, PMap input' operator args' kwargs')
                  end
              | _ => (ocast ok, PMap input operator args' kwargs')
              end
          | _ => (ocast oa, PMap input operator args' kwargs)
          end
      | PWrap pattern mn mx =>
          let '(o, pattern') := anext f pattern in
          match o with
          | Yield v => (obind (wrap_up f v mn mx) (fun v1 => wrap_down f v1 mn mx), PWrap pattern' mn mx)
          | _ => (o, PWrap pattern' mn mx)
          end
      | PIndexOf list item =>
          let '(ol, list') :=
            match list with
            | AL l => (match plain_items l with Some vs => Yield (VList vs) | None => Inexact end, list)
            | _ => value f list
            end in
          match ol with
          | Yield vl =>
              let '(oi, item') := value f item in
              match oi with
              | Yield vi =>
                  (* if list is None or item is None or item not in list: return None *)
                  (if is_none vl || is_none vi then Yield VNone
                   else match vl with
                        | VList l | VTup l =>
                            match index_of vi l 0 with Some i => Yield (VInt i) | None => Yield VNone end
                        | VStr _ | VDict _ => Inexact
                        | _ => Raise TypeError
                        end, PIndexOf list' item')
              | _ => (oi, PIndexOf list' item')
              end
          | _ => (ol, PIndexOf list' item)
          end
      end
).
  Proof. reflexivity. Qed.

  Lemma reset_unfold f p : reset (S f) p =
(
      let fld (a : arg) (k : arg -> outcome pat) : outcome pat := obind (reset_field (reset f) a) k in
      match p with
      | PConstant _ => Yield p
      | PRef pattern => fld pattern (fun x => Yield (PRef x))
      | PConcatenate inputs _ => fld inputs (fun x => Yield (PConcatenate x 0))            (* super().reset(); self.pos = 0 *)
      | PAbs input => fld input (fun x => Yield (PAbs x))
      | PInt input => fld input (fun x => Yield (PInt x))
      | PBinOp o a b => fld a (fun a' => fld b (fun b' => Yield (PBinOp o a' b')))
      | PAnd a b => fld a (fun a' => fld b (fun b' => Yield (PAnd a' b')))
      | PArrayIndex list index _ => fld list (fun l' => fld index (fun i' => Yield (PArrayIndex l' i' false)))   (* super().reset(); self.exhausted = False *)
      | PDict dict => fld dict (fun d' => Yield (PDict d'))
      | PDictKey dict key => fld dict (fun d' => fld key (fun k' => Yield (PDictKey d' k')))
      | PSequence sequence repeats _ _ =>                                                  (* super().reset(); rcount = 0; pos = 0 *)
          fld sequence (fun s' => fld repeats (fun r' => Yield (PSequence s' r' 0 0)))
      | PSeries start _ stp length _ =>                                                    (* value = start; count = 0 *)
          fld stp (fun s' => fld length (fun l' => Yield (PSeries start start s' l' 0)))
      | PRange start end_ stp _ =>
          fld end_ (fun e' => fld stp (fun s' => Yield (PRange start e' s' start)))
      | PGeom start _ multiply length _ =>
          fld multiply (fun m' => Yield (PGeom start start m' length 0))
      | PImpulse period _ => fld period (fun x => Yield (PImpulse x 0))
      | PLoop pattern count _ _ _ _ => fld pattern (fun x => Yield (PLoop x count 0 0 false []))
      | PPingPong pattern count _ _ _ _ =>
          (* super().reset(); self.pattern.reset(); self.values = self.pattern.all(); pos = 0; dir = 1; rpos = 0 *)
          fld pattern (fun p1 =>
          obind (areset_strict f p1) (fun p2 =>
          let '(ovs, p3) := aall f LMAX p2 in
          obind ovs (fun vs => Yield (PPingPong p3 count vs 0 1 0))))
      | PStutter pattern count _ _ _ =>                                                    (* repaired: restores __init__'s fields *)
          fld pattern (fun p' => fld count (fun c' => Yield (PStutter p' c' (VInt 0) 0 (VInt 0))))
      | PSubsequence pattern offset length _ _ =>                                          (* repaired: also clears self.values *)
          fld pattern (fun p' => fld offset (fun o' => fld length (fun l' => Yield (PSubsequence p' o' l' 0 []))))
      | PReverse input _ =>
          (* super().reset(); self.values = reversed(list(self.input)):
             list(x) first calls x.__len__() = len(x.all()) (which consumes and resets x), then drains x *)
          fld input (fun i1 =>
          match i1 with
          | AP _ =>
              let '(olen, i2) := aall f LMAX i1 in
              (* a TypeError raised by __len__ is swallowed by list() (PyObject_LengthHint); the input
                 then stays where all() left it, un-reset *)
              let olen' := match olen with Raise TypeError => Yield [] | _ => olen end in
              obind olen' (fun _ =>
              match i2 with
              | AP p2 =>
                  let '(ovs, p3) := take OutOfFuel (step f) f p2 in
                  obind ovs (fun vs => Yield (PReverse (AP p3) (rev vs)))
              | _ => Inexact
              end)
          | AV (VList vs) | AV (VTup vs) => Yield (PReverse i1 (rev vs))
          | AV (VStr _) | AV (VDict _) | AL _ | AT _ | AD _ => Inexact
          | AV _ => Raise TypeError
          end)
      | PReset pattern trigger => fld pattern (fun p' => fld trigger (fun t' => Yield (PReset p' t')))
      | PCounter trigger _ _ => fld trigger (fun t' => Yield (PCounter t' (VInt 0) 0))     (* repaired *)
      | PCollapse input => fld input (fun x => Yield (PCollapse x))
      | PNoRepeats input _ => fld input (fun x => Yield (PNoRepeats x (VInt MAXSIZE)))     (* repaired *)
      | PPad pattern length _ => fld pattern (fun x => Yield (PPad x length 0))
      | PPadToMultiple pattern multiple minimum_pad _ _ =>                                 (* repaired *)
          fld pattern (fun x => Yield (PPadToMultiple x multiple minimum_pad 0 0))
      | PChanged source _ =>
          (* super().reset(); self.current = Pattern.value(self.source) *)
          fld source (fun s1 => let '(o, s2) := value f s1 in obind o (fun v => Yield (PChanged s2 v)))
      | PDiff source _ =>
          fld source (fun s1 => let '(o, s2) := value f s1 in obind o (fun v => Yield (PDiff s2 v)))
      | PSkipIf pattern skip => fld pattern (fun p' => fld skip (fun s' => Yield (PSkipIf p' s')))
      | PMap input operator args kwargs =>
          (* Pattern.reset walks vars(self) in creation order: input (a Pattern), args (a TUPLE: its Patterns, also inside
             nested tuples), kwargs (a dict).  PMap.reset then resets the Pattern items of args and of kwargs once more. *)
          fld input (fun i' =>
          obind (mapM (reset_value (reset f)) args) (fun args1 =>
          obind (kwmapM (reset_value (reset f)) kwargs) (fun kw1 =>
          obind (mapM (reset_item (reset f)) args1) (fun args2 =>
          obind (kwmapM (reset_item (reset f)) kw1) (fun kw2 =>
          Yield (PMap i' operator args2 kw2))))))
      | PWrap pattern mn mx => fld pattern (fun x => Yield (PWrap x mn mx))
      | PIndexOf list item => fld list (fun l' => fld item (fun i' => Yield (PIndexOf l' i')))
      end
).
  Proof. reflexivity. Qed.

  Lemma anext_unfold f a : anext (S f) a =
    match a with
    | AP p => let '(o, p') := step f p in (o, AP p')
    | _ => (Raise TypeError, a)
    end.
  Proof. reflexivity. Qed.

  Lemma value_unfold f a : value (S f) a =
    match a with
    | AV v => (Yield v, a)
    | AP p => let '(o, p') := step f p in (o, AP p')
    | AT l =>
        let '(os, l') := values_of (value f) l in
        (match os with
         | Yield vs => Yield (VTup vs)
         | Stop => Raise RuntimeError
         | o => ocast o
         end, AT l')
    | AL _ | AD _ => (Inexact, a)
    end.
  Proof. reflexivity. Qed.

  Lemma areset_strict_unfold f a : areset_strict (S f) a =
    match a with
    | AP p => omap AP (reset f p)
    | _ => Raise AttributeError
    end.
  Proof. reflexivity. Qed.

  Lemma aall_unfold f m a : aall (S f) m a =
    match a with
    | AP p =>
        let '(ovs, p') := take (Yield []) (step f) m p in
        match ovs with
        | Yield vs =>
            match reset f p' with
            | Yield p'' => (Yield vs, AP p'')
            | o => (ocast o, AP p')
            end
        | _ => (ovs, AP p')
        end
    | _ => (Raise AttributeError, a)
    end.
  Proof. reflexivity. Qed.
End Unfold.
Section Mono.
  Variable binop : op -> val -> val -> outcome val.
  Variable LMAX : nat.
  Notation step := (step binop LMAX).
  Notation value := (value binop LMAX).
  Notation anext := (anext binop LMAX).
  Notation reset := (reset binop LMAX).
  Notation areset_strict := (areset_strict binop LMAX).
  Notation aall := (aall binop LMAX).

  Definition MonoAt (f : nat) : Prop :=
    (forall p r, step f p = r -> fst r <> OutOfFuel -> step (S f) p = r) /\
    (forall a r, anext f a = r -> fst r <> OutOfFuel -> anext (S f) a = r) /\
    (forall a r, value f a = r -> fst r <> OutOfFuel -> value (S f) a = r) /\
    (forall a r, areset_strict f a = r -> r <> OutOfFuel -> areset_strict (S f) a = r) /\
    (forall m a r, aall f m a = r -> fst r <> OutOfFuel -> aall (S f) m a = r) /\
    (forall p r, reset f p = r -> r <> OutOfFuel -> reset (S f) p = r).

  (* the scrutinee at the head of a term *)
  Ltac head_scrut t :=
    lazymatch t with
    | match ?x with _ => _ end => head_scrut x
    | (?x, _) => head_scrut x
    | _ => t
    end.

  Ltac kill := let Hc := fresh in intros Hc; exfalso; apply Hc; reflexivity.
  Ltac nf := cbv beta iota zeta delta [obind omap ocast fst snd].

  Ltac mono_one f IHs IHn IHv IHa IHl IHr :=
    match goal with
    | |- _ -> ?L = ?R =>
        let s := head_scrut R in
        let E := fresh "E" in
        lazymatch s with
        | Step.step binop LMAX f ?p =>
            destruct (step f p) as [[?v| |?e| |] ?p'] eqn:E; try rewrite (IHs _ _ E) by (cbn; discriminate)
        | Step.anext binop LMAX f ?a =>
            destruct (anext f a) as [[?v| |?e| |] ?a'] eqn:E; try rewrite (IHn _ _ E) by (cbn; discriminate)
        | Step.value binop LMAX f ?a =>
            destruct (value f a) as [[?v| |?e| |] ?a'] eqn:E; try rewrite (IHv _ _ E) by (cbn; discriminate)
        | Step.areset_strict binop LMAX f ?a =>
            destruct (areset_strict f a) as [?x| |?e| |] eqn:E; try rewrite (IHa _ _ E) by discriminate
        | Step.reset binop LMAX f ?p =>
            destruct (reset f p) as [?x| |?e| |] eqn:E; try rewrite (IHr _ _ E) by discriminate
        | Step.aall binop LMAX f ?m ?a =>
            destruct (aall f m a) as [[?v| |?e| |] ?a'] eqn:E; try rewrite (IHl _ _ _ E) by (cbn; discriminate)
        | take (Yield []) (Step.step binop LMAX f) ?m ?p =>
            destruct (take (Yield []) (step f) m p) as [[?v| |?e| |] ?p'] eqn:E;
            try rewrite (take_mono (step f) (step (S f)) IHs (Yield []) _ _ _ E) by (cbn; discriminate)
        | take OutOfFuel (Step.step binop LMAX f) f ?p =>
            destruct (take OutOfFuel (step f) f p) as [[?v| |?e| |] ?p'] eqn:E;
            try rewrite (take_oof_mono (step f) (step (S f)) IHs _ _ _ E) by (cbn; discriminate)
        | pull_until (Step.anext binop LMAX f) f ?pt ?vs ?t =>
            destruct (pull_until (anext f) f pt vs t) as [[[?u| |?e| |] ?vs'] ?p'] eqn:E;
            try rewrite (pull_until_mono (anext f) (anext (S f)) IHn _ _ _ _ _ E) by (cbn; discriminate)
        | values_of (Step.value binop LMAX f) ?l =>
            destruct (values_of (value f) l) as [[?v| |?e| |] ?l'] eqn:E;
            try rewrite (values_of_mono (value f) (value (S f)) IHv _ _ E) by (cbn; discriminate)
        | kwvalues_of (Step.value binop LMAX f) ?l =>
            destruct (kwvalues_of (value f) l) as [[?v| |?e| |] ?l'] eqn:E;
            try rewrite (kwvalues_of_mono (value f) (value (S f)) IHv _ _ E) by (cbn; discriminate)
        | wrap_up f ?v ?mn ?mx =>
            destruct (wrap_up f v mn mx) as [?x| |?e| |] eqn:E; try rewrite (wrap_up_mono _ _ _ _ _ E) by discriminate
        | wrap_down f ?v ?mn ?mx =>
            destruct (wrap_down f v mn mx) as [?x| |?e| |] eqn:E; try rewrite (wrap_down_mono _ _ _ _ _ E) by discriminate
        | reset_field (Step.reset binop LMAX f) ?a =>
            destruct (reset_field (reset f) a) as [?x| |?e| |] eqn:E;
            try rewrite (reset_field_mono (reset f) (reset (S f)) IHr _ _ E) by discriminate
        | mapM (reset_value (Step.reset binop LMAX f)) ?l =>
            destruct (mapM (reset_value (reset f)) l) as [?x| |?e| |] eqn:E;
            try rewrite (mapM_reset_value_mono (reset f) (reset (S f)) IHr _ _ E) by discriminate
        | kwmapM (reset_value (Step.reset binop LMAX f)) ?l =>
            destruct (kwmapM (reset_value (reset f)) l) as [?x| |?e| |] eqn:E;
            try rewrite (kwmapM_reset_value_mono (reset f) (reset (S f)) IHr _ _ E) by discriminate
        | mapM (reset_item (Step.reset binop LMAX f)) ?l =>
            destruct (mapM (reset_item (reset f)) l) as [?x| |?e| |] eqn:E;
            try rewrite (mapM_reset_item_mono (reset f) (reset (S f)) IHr _ _ E) by discriminate
        | kwmapM (reset_item (Step.reset binop LMAX f)) ?l =>
            destruct (kwmapM (reset_item (reset f)) l) as [?x| |?e| |] eqn:E;
            try rewrite (kwmapM_reset_item_mono (reset f) (reset (S f)) IHr _ _ E) by discriminate
        | _ => destruct s eqn:E
        end
    end.

  Ltac mono_tac f IHs IHn IHv IHa IHl IHr :=
    repeat (nf; first [ intros _; reflexivity | kill | mono_one f IHs IHn IHv IHa IHl IHr ]).

  Lemma mono_step_S f : MonoAt f -> forall p r, step (S f) p = r -> fst r <> OutOfFuel -> step (S (S f)) p = r.
  Proof.
    intros (IHs & IHn & IHv & IHa & IHl & IHr) p r E H. subst r. revert H.
    rewrite (step_unfold binop LMAX (S f)), (step_unfold binop LMAX f).
    destruct p; mono_tac f IHs IHn IHv IHa IHl IHr.
  Qed.

  Lemma mono_reset_S f : MonoAt f -> forall p r, reset (S f) p = r -> r <> OutOfFuel -> reset (S (S f)) p = r.
  Proof.
    intros (IHs & IHn & IHv & IHa & IHl & IHr) p r E H. subst r. revert H.
    rewrite (reset_unfold binop LMAX (S f)), (reset_unfold binop LMAX f).
    destruct p; mono_tac f IHs IHn IHv IHa IHl IHr.
  Qed.

  Lemma mono_S f : MonoAt f -> MonoAt (S f).
  Proof.
    intros M. pose proof (mono_step_S f M) as Hs. pose proof (mono_reset_S f M) as Hr.
    destruct M as (IHs & IHn & IHv & IHa & IHl & IHr).
    split; [exact Hs|]. split; [|split; [|split; [|split; [|exact Hr]]]].
    - intros a r E H. subst r. revert H. rewrite (anext_unfold binop LMAX (S f)), (anext_unfold binop LMAX f).
      destruct a; mono_tac f IHs IHn IHv IHa IHl IHr.
    - intros a r E H. subst r. revert H. rewrite (value_unfold binop LMAX (S f)), (value_unfold binop LMAX f).
      destruct a; mono_tac f IHs IHn IHv IHa IHl IHr.
    - intros a r E H. subst r. revert H. rewrite (areset_strict_unfold binop LMAX (S f)), (areset_strict_unfold binop LMAX f).
      destruct a; mono_tac f IHs IHn IHv IHa IHl IHr.
    - intros m a r E H. subst r. revert H. rewrite (aall_unfold binop LMAX (S f)), (aall_unfold binop LMAX f).
      destruct a; mono_tac f IHs IHn IHv IHa IHl IHr.
  Qed.

  Lemma mono_0 : MonoAt 0.
  Proof.
    repeat split; intros; subst; cbn in *; congruence.
  Qed.

  Theorem mono_all f : MonoAt f.
  Proof. induction f as [|f IH]; [exact mono_0 | exact (mono_S f IH)]. Qed.

  (** more fuel, same result *)
  Theorem step_fuel_mono f F p : (f <= F)%nat -> fst (step f p) <> OutOfFuel -> step F p = step f p.
  Proof.
    intros HF H. induction HF as [|F HF IH]; [reflexivity|].
    destruct (mono_all F) as (Ms & _). apply Ms; [exact IH | exact H].
  Qed.
  Theorem anext_fuel_mono f F a : (f <= F)%nat -> fst (anext f a) <> OutOfFuel -> anext F a = anext f a.
  Proof.
    intros HF H. induction HF as [|F HF IH]; [reflexivity|].
    destruct (mono_all F) as (_ & Mn & _). apply Mn; [exact IH | exact H].
  Qed.
  Theorem value_fuel_mono f F a : (f <= F)%nat -> fst (value f a) <> OutOfFuel -> value F a = value f a.
  Proof.
    intros HF H. induction HF as [|F HF IH]; [reflexivity|].
    destruct (mono_all F) as (_ & _ & Mv & _). apply Mv; [exact IH | exact H].
  Qed.
  Theorem reset_fuel_mono f F p : (f <= F)%nat -> reset f p <> OutOfFuel -> reset F p = reset f p.
  Proof.
    intros HF H. induction HF as [|F HF IH]; [reflexivity|].
    destruct (mono_all F) as (_ & _ & _ & _ & _ & Mr). apply Mr; [exact IH | exact H].
  Qed.
  Theorem areset_strict_fuel_mono f F a : (f <= F)%nat -> areset_strict f a <> OutOfFuel -> areset_strict F a = areset_strict f a.
  Proof.
    intros HF H. induction HF as [|F HF IH]; [reflexivity|].
    destruct (mono_all F) as (_ & _ & _ & Ma & _). apply Ma; [exact IH | exact H].
  Qed.
  Theorem aall_fuel_mono f F m a : (f <= F)%nat -> fst (aall f m a) <> OutOfFuel -> aall F m a = aall f m a.
  Proof.
    intros HF H. induction HF as [|F HF IH]; [reflexivity|].
    destruct (mono_all F) as (_ & _ & _ & _ & Ml & _). apply Ml; [exact IH | exact H].
  Qed.
End Mono.

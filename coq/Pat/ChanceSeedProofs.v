(* Pat/ChanceSeedProofs.v — what the model says about seed values of every kind (Pat/ChanceSeed.v).

   The output sequence is a function of (machine = class and arguments, seed value, operations) only:
     * [reseed_replays_v], [reset_replays_v]: re-seeding / reset() replay the sequence of a new instance with that
       seed value, for every kind of seed;
     * [same_key_same_sequence] and its instances: seed values with the same key give the same sequence
       (-z and z, True and 1, a str and its UTF-8 bytes, bytes and bytearray);
     * [seed_process_independent]: in ANY two worlds (other patterns, global generator state, schedules) — the
       model's image of two interpreter processes — a pattern seeded with the same value and driven by the same
       operations gives the same outputs;
     * [hashed_seed_differs]: a reduction through a salted hash does not have this property.
   What the model cannot prove is that the real random.Random.seed IS [seed_key]-then-Mersenne-Twister: that is
   tied by the correspondence (key identities in one process, recorded draws of one interpreter replayed against
   the outputs of others with different PYTHONHASHSEED). *)
From Isobar Require Import Base.Prelude Pat.Chance Pat.ChanceProofs Pat.ChanceSeed.
From Coq Require Import QArith.
Local Notation length := List.length (only parsing).
Open Scope Z_scope.

Section SeedValues.
  Variable sha : list Z -> list Z.
  Variable R : Type.
  Variable r_unit : R -> Z * R.
  Variable r_below : Z -> R -> Z * R.
  Variable r_seed : Z -> R.
  Variable S : Type.
  Variable m : machine R S.
  Notation runv := (runv sha R r_seed S m).
  Notation freshv := (freshv sha R r_seed S m).
  Notation afterv := (afterv sha R r_seed S m).
  Notation key := (seed_key sha).

  Lemma reseed_replays_v i pre s post :
    runv i (pre ++ SeedV s :: ResetV :: post) = runv i pre ++ runv (freshv s) post.
  Proof.
    unfold ChanceSeed.runv, ChanceSeed.freshv. rewrite map_app. cbn [map lower].
    apply reseed_reset_rewinds.
  Qed.

  Definition no_seedv (ops : list opv) : Prop :=
    Forall (fun o => match o with SeedV _ => False | _ => True end) ops.
  Lemma no_seedv_lower ops : no_seedv ops -> no_seed (map (lower sha) ops).
  Proof.
    intro H. induction H as [|o r Ho Hr IH]; [constructor|]. cbn [map]. constructor; [|exact IH].
    destruct o; cbn; auto.
  Qed.

  Lemma reset_replays_v s pre post : no_seedv pre ->
    runv (freshv s) (pre ++ ResetV :: post) = runv (freshv s) pre ++ runv (freshv s) post.
  Proof.
    intro H. unfold ChanceSeed.runv, ChanceSeed.freshv. rewrite map_app. cbn [map lower].
    apply reset_replays. apply no_seedv_lower. exact H.
  Qed.

  (** the sequence depends on the seed value only through its key *)
  Lemma same_key_same_sequence s1 s2 ops : key s1 = key s2 -> runv (freshv s1) ops = runv (freshv s2) ops.
  Proof. intro H. unfold ChanceSeed.freshv. rewrite H. reflexivity. Qed.

  Lemma key_neg z : key (SInt (- z)) = key (SInt z).
  Proof. cbn. apply Z.abs_opp. Qed.
  Lemma key_bool b : key (SBool b) = key (SInt (if b then 1 else 0)).
  Proof. destruct b; reflexivity. Qed.
  Lemma key_str_bytes l : key (SStr l) = key (SBytes l) /\ key (SBytes l) = key (SBytearray l).
  Proof. split; reflexivity. Qed.
  (** a seed value and its key (an int) are interchangeable *)
  Lemma key_idempotent s : 0 <= key s -> key (SInt (key s)) = key s.
  Proof. intro H. cbn. apply Z.abs_eq. exact H. Qed.
End SeedValues.

Lemma key_numeric_nonneg sha s :
  match s with SInt _ | SBool _ | SFloat _ _ => 0 <= seed_key sha s | _ => True end.
  Proof.
    destruct s as [z|b|n k|l|l|l]; cbn [seed_key]; try exact I.
    - apply Z.abs_nonneg.
    - destruct b; lia.
    - assert (B : -2 ^ 61 < pyhash_dyadic n k < 2 ^ 61).
      { unfold pyhash_dyadic.
        set (h := (Z.abs n mod P61 * 2 ^ ((61 - k mod 61) mod 61)) mod P61).
        assert (0 <= h < P61) by (apply Z.mod_pos_bound; reflexivity).
        assert (P61 = 2 ^ 61 - 1) by reflexivity.
        destruct (n <? 0); destruct (_ =? -1) eqn:E; lia. }
      revert B. generalize (pyhash_dyadic n k). intros p B.
      assert (2 ^ 61 < 2 ^ 64) by reflexivity.
      destruct (p <? 0) eqn:F; lia.
  Qed.


(** * Process independence: two interpreter runs = two arbitrary worlds *)
Section Processes.
  Variable sha : list Z -> list Z.
  Variable R : Type.
  Variable r_unit : R -> Z * R.
  Variable r_below : Z -> R -> Z * R.
  Variable r_seed : Z -> R.
  Variable S : Type.
  Variable M M' : nat -> machine R S.
  (* process 1: world w (patterns M), schedule sched; process 2: world w' (patterns M'), schedule sched' *)
  Lemma seed_process_independent a a' s sched sched' w w' :
    M a = M' a' ->
    w_inst R S w a = freshv sha R r_seed S (M a) s -> w_inst R S w' a' = freshv sha R r_seed S (M' a') s ->
    proj a sched = proj a' sched' ->
    outputs_of a (wrun R r_unit r_below r_seed S M w sched) =
    outputs_of a' (wrun R r_unit r_below r_seed S M' w' sched').
  Proof. intros HM Hw Hw' Hp. rewrite !isolation, Hw, Hw', Hp, HM. reflexivity. Qed.
End Processes.

(** * Non-vacuity: a reduction through a salted hash is not a function of the seed value *)
Definition toy_seed (s : Z) : Z := s.
Definition toy_unit (g : Z) : Z * Z := ((g * 6364136223846793005 + 1442695040888963407) mod two53, g + 1).
Definition toy_hash (salt : Z) (l : list Z) : Z := from_bytes l + salt.

Lemma hashed_seed_differs :
  let m := white Z toy_unit false 0 1000 0 in
  let verse := SStr [118; 101; 114; 115; 101] in
  (* the reduction of random.seed: the same in every process (no salt occurs in it) *)
  (forall sha, run Z toy_seed m (fresh Z toy_seed m (seed_key sha verse)) [Next; Next]
             = run Z toy_seed m (fresh Z toy_seed m (seed_key sha (SBytes [118; 101; 114; 115; 101]))) [Next; Next]) /\
  (* through hash(): two processes (salts 1 and 2) disagree *)
  run Z toy_seed m (fresh Z toy_seed m (seed_key_hashed toy_hash 1 verse)) [Next; Next]
  <> run Z toy_seed m (fresh Z toy_seed m (seed_key_hashed toy_hash 2 verse)) [Next; Next].
Proof. split; [intro; reflexivity | vm_compute; discriminate]. Qed.

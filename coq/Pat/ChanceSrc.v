(* Pat/ChanceSrc.v — the machines of Pat/Chance.v (property C11) agree with the step functions GENERATED FROM THE SOURCE TEXT
   of isobar/pattern/chance.py (harness/gen_tables_stepchance.py -> Generated/TablesStepchance.v on every run; the
   specialisation of each body to the domain of its machine - scalar parameters, the non-`regular` mode, a finite input -
   is declared in the generator's SPEC; docs/TRANSLATOR.md).

     white_step R r_unit is_f mn mx len idx g  =  src_PWhite_step R r_unit is_f mn mx len idx g        ... and so on

   The draws of the body (`self.rng.uniform(a, b)`, `self.rng.shuffle(x)`) are the model's generator-oracle calls
   (d_unit: one rng.random(); shuffle: the Fisher-Yates loop over r_below).  PCoin / PFlipFlop / PSkip write
   `self.rng.uniform(0, 1) < p`; their machines compare the unit draw itself: uniform(0, 1) = 0 + (1 - 0) * u is u as a
   rational (unit_draw), so the comparison is the same.  A change of a body breaks the lemma of its class, i.e. a proof
   obligation of C11. *)
From Isobar Require Import Base.Prelude Pat.Chance Generated.TablesStepchance.
From Coq Require Import QArith Qround Qabs.
Open Scope Z_scope.

Lemma Qle_bool_compat_r a b p : (a == b)%Q -> Qle_bool p a = Qle_bool p b.
Proof.
  intro H. destruct (Qle_bool p a) eqn:E1, (Qle_bool p b) eqn:E2; try reflexivity.
  - apply Qle_bool_iff in E1. rewrite H in E1. apply Qle_bool_iff in E1. congruence.
  - apply Qle_bool_iff in E2. rewrite <- H in E2. apply Qle_bool_iff in E2. congruence.
Qed.
(* rng.uniform(0, 1) < p  is  rng.random() < p *)
Lemma unit_draw u p : Qltb (inject_Z 0 + (inject_Z 1 - inject_Z 0) * u) p = Qltb u p.
Proof. unfold Qltb. f_equal. apply Qle_bool_compat_r. unfold inject_Z. ring. Qed.

Section TieChance.
  Variable R : Type.
  Variable r_unit : R -> Z * R.
  Variable r_below : Z -> R -> Z * R.

  Lemma PWhite_step_src is_f mn mx len idx g :
    white_step R r_unit is_f mn mx len idx g = src_PWhite_step R r_unit is_f mn mx len idx g.
  Proof.
    unfold white_step, src_PWhite_step. destruct ((0 <? len) && (len <? idx + 1)); [reflexivity|].
    destruct (d_unit R r_unit g) as [u g']. destruct is_f; reflexivity.
  Qed.

  Lemma PCoin_step_src p s g : coin_step R r_unit p s g = src_PCoin_step R r_unit p s g.
  Proof.
    unfold coin_step, src_PCoin_step. destruct (d_unit R r_unit g) as [u g']. rewrite unit_draw.
    destruct (Qltb u p); reflexivity.
  Qed.

  Lemma PFlipFlop_step_src p_on p_off v g :
    flipflop_step R r_unit p_on p_off v g = src_PFlipFlop_step R r_unit p_on p_off v g.
  Proof.
    unfold flipflop_step, src_PFlipFlop_step. destruct (d_unit R r_unit g) as [u g']. rewrite !unit_draw.
    destruct (v =? 0); [destruct (Qltb u p_on) | destruct (Qltb u p_off)]; reflexivity.
  Qed.

  Lemma PSkip_step_src play rem g : skip_step R r_unit play rem g = src_PSkip_step R r_unit play rem g.
  Proof.
    unfold skip_step, src_PSkip_step. destruct rem as [|x r]; [reflexivity|].
    destruct (d_unit R r_unit g) as [u g']. rewrite unit_draw. destruct (Qltb u play); reflexivity.
  Qed.

  Lemma PShuffle_step_src repeats s g : pshuffle_step R r_below repeats s g = src_PShuffle_step R r_below repeats s g.
  Proof.
    unfold pshuffle_step, src_PShuffle_step. destruct s as [vals pos rc]. cbn [sh_vals sh_pos sh_rcount].
    destruct (pos =? 0); [destruct (shuffle R r_below vals g) as [l g']|];
      repeat match goal with |- context [if ?c then _ else _] => destruct c end;
      repeat match goal with |- context [match pyidx ?l ?i with _ => _ end] => destruct (pyidx l i) end; reflexivity.
  Qed.

  (* `if vweights is not None: return wnchoice(vvalues, vweights, rng=self.rng) else: return self.rng.choice(vvalues)`;
     util.wnchoice and random.Random.choice themselves are the hand-written Chance.wnchoice / Chance.choice *)
  Lemma PChoice_step_src values ws s g :
    choice_step R r_unit r_below values ws s g = src_PChoice_step R r_unit r_below values ws s g.
  Proof.
    unfold choice_step, src_PChoice_step.
    destruct ws as [w|]; [destruct (wnchoice R r_unit values w g) as [[v|] g'] | destruct (choice R r_below values g) as [[v|] g']]; reflexivity.
  Qed.

  (** the machines with the source-generated step *)
  Definition src_pchoice (values : list Z) (ws : option (list Q)) : machine R unit :=
    mkMachine R unit tt (src_PChoice_step R r_unit r_below values ws).
  Definition src_white (is_f : bool) (mn mx : Q) (len : Z) : machine R Z := mkMachine R Z 0 (src_PWhite_step R r_unit is_f mn mx len).
  Definition src_coin (p : Q) : machine R unit := mkMachine R unit tt (src_PCoin_step R r_unit p).
  Definition src_flipflop (init : Z) (p_on p_off : Q) : machine R Z := mkMachine R Z init (src_PFlipFlop_step R r_unit p_on p_off).
  Definition src_skip (input : list (option Z)) (play : Q) : machine R (list (option Z)) := mkMachine R _ input (src_PSkip_step R r_unit play).
  Definition src_pshuffle (values : list Z) (repeats : Z) : machine R shuf_state :=
    mkMachine R _ (mkShuf values 0 0) (src_PShuffle_step R r_below repeats).
End TieChance.

(** machines with pointwise equal steps and the same initial state run alike *)
Section RunExt.
  Variable R : Type.
  Variable r_seed : Z -> R.
  Lemma run_st_ext {S} (m m' : machine R S) :
    m_init m = m_init m' -> (forall s g, m_step m s g = m_step m' s g) ->
    forall ops i, run_st R r_seed m i ops = run_st R r_seed m' i ops.
  Proof.
    intros Hi Hs. induction ops as [|o ops IH]; intro i; [reflexivity|].
    cbn [run_st]. assert (E : do_op R r_seed m i o = do_op R r_seed m' i o).
    { destruct o; cbn [do_op]; rewrite ?Hs, ?Hi; reflexivity. }
    rewrite E. destruct (do_op R r_seed m' i o) as [i' e]. rewrite IH. reflexivity.
  Qed.
  Lemma run_ext {S} (m m' : machine R S) :
    m_init m = m_init m' -> (forall s g, m_step m s g = m_step m' s g) ->
    forall i ops, run R r_seed m i ops = run R r_seed m' i ops.
  Proof. intros Hi Hs i ops. unfold run. rewrite (run_st_ext m m' Hi Hs). reflexivity. Qed.
End RunExt.

Section SrcRuns.
  Variable R : Type.
  Variable r_unit : R -> Z * R.
  Variable r_below : Z -> R -> Z * R.
  Variable r_seed : Z -> R.

  Lemma src_white_run is_f mn mx len i ops :
    run R r_seed (src_white R r_unit is_f mn mx len) i ops = run R r_seed (white R r_unit is_f mn mx len) i ops.
  Proof. apply run_ext; [reflexivity|]. intros. symmetry. apply PWhite_step_src. Qed.
  Lemma src_coin_run p i ops : run R r_seed (src_coin R r_unit p) i ops = run R r_seed (coin R r_unit p) i ops.
  Proof. apply run_ext; [reflexivity|]. intros. symmetry. apply PCoin_step_src. Qed.
  Lemma src_flipflop_run init p_on p_off i ops :
    run R r_seed (src_flipflop R r_unit init p_on p_off) i ops = run R r_seed (flipflop R r_unit init p_on p_off) i ops.
  Proof. apply run_ext; [reflexivity|]. intros. symmetry. apply PFlipFlop_step_src. Qed.
  Lemma src_skip_run input play i ops :
    run R r_seed (src_skip R r_unit input play) i ops = run R r_seed (skip R r_unit input play) i ops.
  Proof. apply run_ext; [reflexivity|]. intros. symmetry. apply PSkip_step_src. Qed.
  Lemma src_pchoice_run values ws i ops :
    run R r_seed (src_pchoice R r_unit r_below values ws) i ops = run R r_seed (pchoice R r_unit r_below values ws) i ops.
  Proof. apply run_ext; [reflexivity|]. intros. symmetry. apply PChoice_step_src. Qed.
  Lemma src_pshuffle_run values repeats i ops :
    run R r_seed (src_pshuffle R r_below values repeats) i ops = run R r_seed (pshuffle R r_below values repeats) i ops.
  Proof. apply run_ext; [reflexivity|]. intros. symmetry. apply PShuffle_step_src. Qed.
End SrcRuns.

(* Pat/ChanceSeed.v — seed VALUES of every kind random.seed accepts (property C11).

   PStochasticPattern.seed(s) stores s and calls self.rng.seed(s); reset() calls self.rng.seed(self._seed).
   Pat/Chance.v takes the seed to be an integer and the generator oracle [r_seed : Z -> R] to give the state
   determined by it.  random.seed (CPython 3.12, version 2) accepts more: int, bool, float, str, bytes,
   bytearray (None is excluded here: it asks the operating system / the global generator).  It reduces every
   one of them to a non-negative integer KEY from which the Mersenne Twister is initialised
   (random.py Random.seed, _randommodule.c random_seed):

     int  (and bool, a subclass)   abs(a)
     str / bytes / bytearray       int.from_bytes(a + sha512(a).digest(), 'big')      (a str is a.encode() first)
     float                         hash(a) cast to an unsigned 64-bit number; hash of a float is the hash of the
                                   rational it denotes: |n| * 2^-k reduced modulo the prime 2^61 - 1, with the
                                   sign of n, and -2 instead of -1

   None of these depends on anything but the seed value: not on the interpreter's string-hash salt
   (PYTHONHASHSEED), not on object identities.  SHA-512 is not modelled: it enters as a Section variable
   [sha] (the harness supplies the digest computed by hashlib as data).

   A script over seed values is LOWERED to a script of Pat/Chance.v by replacing seed(s) with seed(key s):
   the generator state after rng.seed(s) is [r_seed (seed_key s)], and the stored seed re-creates it on
   reset().  No proofs here. *)
From Isobar Require Import Base.Prelude Pat.Chance.
From Coq Require Import QArith.
Local Notation length := List.length (only parsing).
Open Scope Z_scope.

(** a float seed is n / 2^k (n odd or k = 0): every finite binary64 *)
Inductive seedv :=
| SInt (z : Z) | SBool (b : bool) | SFloat (n k : Z)
| SStr (utf8 : list Z) | SBytes (l : list Z) | SBytearray (l : list Z).

Definition P61 : Z := 2 ^ 61 - 1.
(** hash(n / 2^k) for k >= 0 (pyhash.c _Py_HashDouble / the rule of the numeric tower): 2^61 = 1 modulo P61, so the
    inverse of 2^k is 2^(61 - k mod 61) *)
Definition pyhash_dyadic (n k : Z) : Z :=
  let h := ((Z.abs n mod P61) * 2 ^ ((61 - k mod 61) mod 61)) mod P61 in
  let s := if n <? 0 then - h else h in
  if s =? -1 then -2 else s.
(** int.from_bytes(l, 'big') *)
Definition from_bytes (l : list Z) : Z := fold_left (fun acc b => acc * 256 + b) l 0.

Section Key.
  Variable sha : list Z -> list Z.          (* hashlib.sha512(bytes).digest(), 64 bytes *)

  Definition seed_key (s : seedv) : Z :=
    match s with
    | SInt z => Z.abs z
    | SBool b => if b then 1 else 0
    | SFloat n k => let h := pyhash_dyadic n k in if h <? 0 then 2 ^ 64 + h else h
    | SStr l | SBytes l | SBytearray l => from_bytes (l ++ sha l)
    end.

  Inductive opv := NextV | ResetV | SeedV (s : seedv).
  Definition lower (o : opv) : op :=
    match o with NextV => Next | ResetV => Reset | SeedV s => Seed (seed_key s) end.

  Section Run.
    Variable R : Type.
    Variable r_seed : Z -> R.
    Variable S : Type.
    Variable m : machine R S.
    (* P(args).seed(s) on a new object *)
    Definition freshv (s : seedv) : inst R S := fresh R r_seed m (seed_key s).
    Definition runv (i : inst R S) (ops : list opv) : list res := run R r_seed m i (map lower ops).
    Definition afterv (i : inst R S) (ops : list opv) : inst R S := after R r_seed m i (map lower ops).
  End Run.
End Key.

(** * The forbidden reduction (for the non-vacuity example only): every non-numeric seed goes through hash(),
      which for str / bytes depends on the interpreter's salt *)
Section Salted.
  Variable hsalt : Z -> list Z -> Z.        (* hash(bytes) under PYTHONHASHSEED = salt, as an unsigned number *)
  Definition seed_key_hashed (salt : Z) (s : seedv) : Z :=
    match s with
    | SStr l | SBytes l | SBytearray l => hsalt salt l
    | _ => seed_key (fun _ => []) s
    end.
End Salted.

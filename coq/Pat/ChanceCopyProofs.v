(* Pat/ChanceCopyProofs.v — isolation of a stochastic pattern from its copies (Pat/ChanceCopy.v).

   For EVERY machine (class and arguments, wrappers included), every generator oracle and every schedule of
   operations on the members of a family, copy() operations and calls of the global generator:
     * [copy_isolation_state], [copy_isolation]: a member that is not overwritten by a copy() ends in the state, and
       produces the outputs, of that member alone on its own operations — draws, reset() and seed() on its copies
       (and taking copies of it) do not matter;
     * [copy_continues]: a copy taken at any point produces, on its own operations, what the source would have
       produced on them from its state at the time of the copy;
     * [seeded_original_any_twin]: a seeded original equals any other instance with the same arguments and seed,
       whatever happens to its copies;
     * [sharing_breaks_isolation]: with ONE generator shared by original and copy the first of these fails. *)
From Isobar Require Import Base.Prelude Pat.Chance Pat.ChanceProofs Pat.ChanceCopy.
From Coq Require Import QArith.
Local Notation length := List.length (only parsing).
Open Scope Z_scope.

Section CopyIsolation.
  Variable R : Type.
  Variable r_unit : R -> Z * R.
  Variable r_below : Z -> R -> Z * R.
  Variable r_seed : Z -> R.
  Variable S : Type.
  Variable m : machine R S.
  Notation cstep := (cstep R r_unit r_below r_seed S m).
  Notation crun_st := (crun_st R r_unit r_below r_seed S m).
  Notation crun := (crun R r_unit r_below r_seed S m).
  Notation cafter := (cafter R r_unit r_below r_seed S m).
  Notation run := (run R r_seed m).
  Notation after := (after R r_seed m).

  Lemma crun_cons w o r :
    crun w (o :: r) = match snd (cstep w o) with
                      | Some x => x :: crun (fst (cstep w o)) r
                      | None => crun (fst (cstep w o)) r
                      end.
  Proof.
    unfold crun. cbn [ChanceCopy.crun_st]. destruct (cstep w o) as [w' e]. cbn [fst snd].
    destruct (crun_st w' r) as [w'' es]. destruct e; reflexivity.
  Qed.
  Lemma cafter_cons w o r : cafter w (o :: r) = cafter (fst (cstep w o)) r.
  Proof.
    unfold cafter. cbn [ChanceCopy.crun_st]. destruct (cstep w o) as [w' e]. cbn [fst snd].
    destruct (crun_st w' r) as [w'' es]. reflexivity.
  Qed.
  Lemma crun_app w a b : crun w (a ++ b) = crun w a ++ crun (cafter w a) b.
  Proof.
    revert w. induction a as [|o a IH]; intro w.
    - reflexivity.
    - cbn [app]. rewrite !crun_cons, cafter_cons, IH. destruct (snd (cstep w o)); reflexivity.
  Qed.
  Lemma cafter_app w a b : cafter w (a ++ b) = cafter (cafter w a) b.
  Proof.
    revert w. induction a as [|o a IH]; intro w.
    - reflexivity.
    - cbn [app]. rewrite !cafter_cons, IH. reflexivity.
  Qed.

  Lemma outputs_of_app id a b : outputs_of id (a ++ b) = outputs_of id a ++ outputs_of id b.
  Proof.
    induction a as [|[k r] a IH]; [reflexivity|]. cbn [app outputs_of].
    destruct (Nat.eqb k id); rewrite IH; reflexivity.
  Qed.

  (** one step: what happens to member a *)
  Lemma cstep_member a w o : is_dst a o = false ->
    c_inst (fst (cstep w o)) a =
      match o with
      | CP id o' => if Nat.eqb id a then fst (do_op R r_seed m (c_inst w a) o') else c_inst w a
      | _ => c_inst w a
      end.
  Proof.
    intro H. destruct o as [id o'|src dst| |n|s]; cbn [ChanceCopy.cstep]; try reflexivity.
    - destruct (Nat.eqb id a) eqn:E.
      + apply Nat.eqb_eq in E. subst id.
        destruct (do_op R r_seed m (c_inst w a) o') as [i' e]. cbn [fst c_inst]. unfold cset.
        rewrite Nat.eqb_refl. reflexivity.
      + destruct (do_op R r_seed m (c_inst w id) o') as [i' e]. cbn [fst c_inst]. unfold cset.
        rewrite Nat.eqb_sym, E. reflexivity.
    - cbn [is_dst] in H. cbn [fst c_inst]. unfold cset. rewrite Nat.eqb_sym, H. reflexivity.
  Qed.

  (** the state of a member that no copy() overwrites is that of the member alone on its own operations *)
  Lemma copy_isolation_state a : forall sched w, never_dst a sched = true ->
    c_inst (cafter w sched) a = after (c_inst w a) (cproj a sched).
  Proof.
    induction sched as [|o r IH]; intros w H.
    - reflexivity.
    - cbn [never_dst forallb] in H. apply andb_true_iff in H as [H1 H2]. apply negb_true_iff in H1.
      rewrite cafter_cons, (IH _ H2), (cstep_member a w o H1).
      destruct o as [id o'|src dst| |n|s]; cbn [cproj]; try reflexivity.
      destruct (Nat.eqb id a); [rewrite after_cons|]; reflexivity.
  Qed.

  (** ... and so are its outputs *)
  Lemma copy_isolation a : forall sched w, never_dst a sched = true ->
    outputs_of a (crun w sched) = run (c_inst w a) (cproj a sched).
  Proof.
    induction sched as [|o r IH]; intros w H.
    - reflexivity.
    - cbn [never_dst forallb] in H. apply andb_true_iff in H as [H1 H2]. apply negb_true_iff in H1.
      rewrite crun_cons. assert (M := cstep_member a w o H1).
      destruct o as [id o'|src dst| |n|s]; cbn [cproj];
        try (cbn [ChanceCopy.cstep snd fst] in *; rewrite (IH _ H2), M; reflexivity).
      cbn [ChanceCopy.cstep] in *.
      destruct (Nat.eqb id a) eqn:E.
      + apply Nat.eqb_eq in E. subst id. rewrite run_cons.
        destruct (do_op R r_seed m (c_inst w a) o') as [i' e]. cbn [fst snd] in *.
        destruct e as [x|]; cbn [outputs_of]; [rewrite Nat.eqb_refl; f_equal|]; rewrite (IH _ H2), M; reflexivity.
      + destruct (do_op R r_seed m (c_inst w id) o') as [i' e]. cbn [fst snd] in *.
        destruct e as [x|]; cbn [outputs_of]; [rewrite E|]; rewrite (IH _ H2), M; reflexivity.
  Qed.

  (** a copy continues from the state of its source at the time of the copy *)
  Lemma copy_continues a b pre post w : a <> b -> never_dst a pre = true -> never_dst b post = true ->
    outputs_of b (crun w (pre ++ CCopy a b :: post)) =
    outputs_of b (crun w pre) ++ run (after (c_inst w a) (cproj a pre)) (cproj b post).
  Proof.
    intros Hab Ha Hb. rewrite crun_app, outputs_of_app. f_equal.
    rewrite crun_cons. cbn [ChanceCopy.cstep snd fst].
    rewrite (copy_isolation b post _ Hb). cbn [c_inst]. unfold cset. rewrite Nat.eqb_refl.
    rewrite (copy_isolation_state a pre w Ha). reflexivity.
  Qed.

  (** hence a copy driven like its source agrees with it *)
  Lemma copy_agrees_with_source a b pre post w : a <> b ->
    never_dst a (pre ++ CCopy a b :: post) = true -> never_dst b post = true ->
    cproj a post = cproj b post ->
    outputs_of b (crun (cafter w (pre ++ [CCopy a b])) post) = outputs_of a (crun (cafter w (pre ++ [CCopy a b])) post).
  Proof.
    intros Hab Ha Hb Hp.
    unfold never_dst in Ha. rewrite forallb_app in Ha. apply andb_true_iff in Ha as [Ha1 Ha2].
    cbn [forallb] in Ha2. apply andb_true_iff in Ha2 as [_ Ha2].
    rewrite (copy_isolation b post _ Hb), (copy_isolation a post _ Ha2), Hp. f_equal.
    rewrite cafter_app. unfold cafter at 1 3. cbn [ChanceCopy.crun_st ChanceCopy.cstep fst c_inst]. unfold cset.
    rewrite Nat.eqb_refl. destruct (Nat.eqb a b) eqn:E; [apply Nat.eqb_eq in E; contradiction | reflexivity].
  Qed.

  (** a seeded original equals any other instance with the same arguments and seed, whatever happens to its copies *)
  Lemma seeded_original_any_twin a s sched w : c_inst w a = fresh R r_seed m s -> never_dst a sched = true ->
    outputs_of a (crun w sched) = run (fresh R r_seed m s) (cproj a sched).
  Proof. intros Hw H. rewrite (copy_isolation a sched w H), Hw. reflexivity. Qed.

  (** a copy taken right after seeding is such an instance too *)
  Lemma copy_of_seeded a b s post w : a <> b -> c_inst w a = fresh R r_seed m s -> never_dst b post = true ->
    outputs_of b (crun w (CCopy a b :: post)) = run (fresh R r_seed m s) (cproj b post).
  Proof.
    intros Hab Hw Hb. change (CCopy a b :: post) with ([] ++ CCopy a b :: post).
    rewrite (copy_continues a b [] post w Hab eq_refl Hb). cbn [cproj]. rewrite Hw. reflexivity.
  Qed.
End CopyIsolation.

(** * Non-vacuity: the shared-generator design violates the isolation statement *)
(* a toy generator: the state is a counter, random() returns a multiple of it *)
Definition toy_unit (g : Z) : Z * Z := ((g * 6364136223846793005 + 1442695040888963407) mod two53, g + 1).
Definition toy_below (n : Z) (g : Z) : Z * Z := ((g * 7 + 3) mod n, g + 1).
Definition toy_seed (s : Z) : Z := s * 100.

Lemma sharing_breaks_isolation :
  let m := white Z toy_unit false 0 1000 0 in
  (* own generators (the model of copy.deepcopy): the original's outputs do not depend on draws of its copy *)
  outputs_of 0 (crun Z toy_unit toy_below toy_seed Z m (mkCW (fun _ => fresh Z toy_seed m 5) 0)
                     [CCopy 0 1; CP 0 Next; CP 1 Next; CP 1 Next; CP 0 Next])
  = run Z toy_seed m (fresh Z toy_seed m 5) [Next; Next] /\
  (* one shared generator: they do *)
  map snd (filter (fun x => negb (fst x)) (sh_run Z Z m 0 0 (toy_seed 5) [false; true; true; false]))
  <> run Z toy_seed m (fresh Z toy_seed m 5) [Next; Next].
Proof. split; [vm_compute; reflexivity | vm_compute; discriminate]. Qed.

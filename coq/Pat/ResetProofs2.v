(* Pat/ResetProofs2.v — C04, the classes Pat/ResetProofs.v left open.
   Extended fragment [xpat s] (s = false: the fragment of the main theorem; s = true: the hereditarily strict part, what
   PReset may restart) containing ResetProofs.rpat:
     - every class of rpat, now also with tuple-valued parameters holding patterns to any depth (Pattern.value resolves them,
       and since the repair C04-reset-tuples Pattern.reset rewinds them) and list- / dict-valued parameters (returned by
       Pattern.value as they are: next() never advances what they hold);
     - PSequence with pattern items, PConcatenate, PRound (pattern arguments, keyword arguments), PIndexOf, PArrayIndex (over a
       pattern, a value, or a literal list with pattern items), PDict, PDictKey;
     - PReset over ANY pattern of the strict fragment, nested to any depth.
   Theorems:  [xpat_closed]    the fragment is closed under next(), the strict part also under reset();
              [reset_AB]       (A) reset f0 (snd (step f' p)) = reset f0 p     for xpat s p
                               (B) reset f' p = Yield q -> reset f0 q = reset f0 p   for xpat true p  (reset . reset = reset, across fuels)
   (A) and (B) are proved jointly by induction on the depth f0 of the outer reset; closure by strong induction on the fuel.
   Lemmas only; the model is Pat/Step.v. *)
From Isobar Require Import Base.Prelude Pat.Val Pat.Syntax Pat.Step Pat.ArgInd Pat.StepProofs Pat.IterProofs Pat.ResetProofs Pat.StickyProofs.
From Coq Require Import String QArith Wf_nat.
Open Scope Z_scope.

(** * List lemmas about the engine's combinators *)
Lemma obind_yield_inv {A B} (o : outcome A) (k : A -> outcome B) b : obind o k = Yield b -> exists a, o = Yield a /\ k a = Yield b.
Proof. destruct o; cbn; try discriminate. eauto. Qed.

Lemma omap_yield_inv {A B} (g : A -> B) (o : outcome A) b : omap g o = Yield b -> exists a, o = Yield a /\ b = g a.
Proof. destruct o; cbn; try discriminate. intro H; inversion H. eauto. Qed.

Lemma values_of_same g l : Forall (fun a => snd (g a) = a) l -> snd (values_of g l) = l.
Proof.
  induction 1 as [|a r Ha Hr IH]; [reflexivity|]. cbn [values_of]. destruct (g a) as [o a'] eqn:E. cbn [snd] in Ha. subst a'.
  destruct o; try reflexivity. destruct (values_of g r) as [os r']. cbn [snd] in *. subst r'. reflexivity.
Qed.

Lemma values_of_Forall (P : arg -> Prop) g l : (forall a, P a -> P (snd (g a))) -> Forall P l -> Forall P (snd (values_of g l)).
Proof.
  intros Hg. induction 1 as [|a r Ha Hr IH]; [constructor|]. cbn [values_of]. pose proof (Hg a Ha) as K.
  destruct (g a) as [o a']. cbn [snd] in K. destruct o; try (constructor; assumption).
  destruct (values_of g r) as [os r']. cbn [snd] in *. constructor; assumption.
Qed.

Lemma values_of_mapM g (h : arg -> outcome arg) l :
  Forall (fun a => h (snd (g a)) = h a) l -> mapM h (snd (values_of g l)) = mapM h l.
Proof.
  induction 1 as [|a r Ha Hr IH]; [reflexivity|]. cbn [values_of]. destruct (g a) as [o a']. cbn [snd] in Ha.
  destruct o; try (cbn [snd mapM]; rewrite Ha; reflexivity).
  destruct (values_of g r) as [os r']. cbn [snd mapM] in *. rewrite Ha, IH. reflexivity.
Qed.

Lemma kwvalues_of_same g l : Forall (fun ka => snd (g (snd ka)) = snd ka) l -> snd (kwvalues_of g l) = l.
Proof.
  induction 1 as [|[k a] r Ha Hr IH]; [reflexivity|]. cbn [kwvalues_of]. cbn [snd] in Ha. destruct (g a) as [o a'] eqn:E. cbn [snd] in Ha. subst a'.
  destruct o; try reflexivity. destruct (kwvalues_of g r) as [os r']. cbn [snd] in *. subst r'. reflexivity.
Qed.

Lemma kwvalues_of_Forall (P : arg -> Prop) g l : (forall a, P a -> P (snd (g a))) ->
  Forall (fun ka => P (snd ka)) l -> Forall (fun ka => P (snd ka)) (snd (kwvalues_of g l)).
Proof.
  intros Hg. induction 1 as [|[k a] r Ha Hr IH]; [constructor|]. cbn [kwvalues_of]. cbn [snd] in Ha. pose proof (Hg a Ha) as K.
  destruct (g a) as [o a']. cbn [snd] in K. destruct o; try (constructor; assumption).
  destruct (kwvalues_of g r) as [os r']. cbn [snd] in *. constructor; assumption.
Qed.

Lemma kwvalues_of_mapM g (h : arg -> outcome arg) l :
  Forall (fun ka => h (snd (g (snd ka))) = h (snd ka)) l -> kwmapM h (snd (kwvalues_of g l)) = kwmapM h l.
Proof.
  unfold kwmapM. induction 1 as [|[k a] r Ha Hr IH]; [reflexivity|]. cbn [kwvalues_of]. cbn [snd] in Ha. destruct (g a) as [o a'].
  cbn [snd] in Ha. destruct o; try (cbn [snd fst mapM]; rewrite Ha; reflexivity).
  destruct (kwvalues_of g r) as [os r']. cbn [snd fst mapM] in *. rewrite Ha, IH. reflexivity.
Qed.

Lemma mapM_update_nth {A B} (h : A -> outcome B) (l : list A) : forall i a a',
  nth_error l i = Some a -> h a' = h a -> mapM h (update_nth i a' l) = mapM h l.
Proof.
  induction l as [|y l IH]; intros [|i] a a' Hn Hh; cbn in Hn; try discriminate.
  - inversion Hn; subst. cbn. rewrite Hh. reflexivity.
  - cbn. rewrite (IH _ _ _ Hn Hh). reflexivity.
Qed.

Lemma py_index_nth {A} (l : list A) i a : py_index l i = Some a -> nth_error l (py_index_pos l i) = Some a.
Proof.
  unfold py_index, py_index_pos. intro H.
  destruct ((0 <=? i) && (i <? Z.of_nat (List.length l))) eqn:E1.
  - apply andb_true_iff in E1 as [E _]. rewrite E. exact H.
  - destruct ((- Z.of_nat (List.length l) <=? i) && (i <? 0)) eqn:E2; [|discriminate].
    apply andb_true_iff in E2 as [_ E]. assert (E0 : (0 <=? i) = false) by lia. rewrite E0. exact H.
Qed.

Lemma mapM_Forall {A} (P : A -> Prop) (h : A -> outcome A) : (forall a b, P a -> h a = Yield b -> P b) ->
  forall l l', Forall P l -> mapM h l = Yield l' -> Forall P l'.
Proof.
  intro Hh. induction l as [|a r IH]; intros l' Hl H; cbn in H.
  - inversion H. constructor.
  - inversion Hl; subst. apply obind_yield_inv in H as [b [Hb H]]. apply omap_yield_inv in H as [r' [Hr ->]].
    constructor; [eapply Hh; eauto|eapply IH; eauto].
Qed.

(* two passes of a map whose second pass sees what the first returned *)
Lemma mapM_B {A} (h1 h0 : A -> outcome A) : forall l l',
  Forall (fun a => forall b, h1 a = Yield b -> h0 b = h0 a) l -> mapM h1 l = Yield l' -> mapM h0 l' = mapM h0 l.
Proof.
  induction l as [|a r IH]; intros l' Hl H; cbn in H.
  - inversion H. reflexivity.
  - inversion Hl as [|? ? Ha Hr0]; subst. apply obind_yield_inv in H as [b [Hb H]]. apply omap_yield_inv in H as [r' [Hr ->]].
    cbn. rewrite (Ha _ Hb), (IH _ Hr0 Hr). reflexivity.
Qed.

Section Reset2.
  Variable binop : op -> val -> val -> outcome val.
  Variable LMAX : nat.
  Notation step := (step binop LMAX).
  Notation value := (value binop LMAX).
  Notation anext := (anext binop LMAX).
  Notation reset := (reset binop LMAX).
  Notation areset_strict := (areset_strict binop LMAX).
  Notation aall := (aall binop LMAX).
  Notation fld f a k := (obind (reset_field (reset f) a) k).

  (** * What Pattern.value / next() do to an attribute that is not a pattern: lists and dicts are returned as they are,
        a tuple has its elements resolved, next() of a non-pattern raises TypeError *)
  Lemma value_AV f v : snd (value f (AV v)) = AV v.
  Proof. destruct f; reflexivity. Qed.
  Lemma value_AL f l : snd (value f (AL l)) = AL l.
  Proof. destruct f; reflexivity. Qed.
  Lemma value_AD f kv : snd (value f (AD kv)) = AD kv.
  Proof. destruct f; reflexivity. Qed.
  Lemma value_AT f l : snd (value (S f) (AT l)) = AT (snd (values_of (value f) l)).
  Proof. cbn [Step.value]. destruct (values_of (value f) l) as [os l']. reflexivity. Qed.
  Lemma anext_nonpat f a : (forall p, a <> AP p) -> snd (anext f a) = a.
  Proof. intro H. destruct f; [reflexivity|]. destruct a; try reflexivity. exfalso. eapply H; reflexivity. Qed.

  (** * The extended fragment *)
  Inductive xpat : bool -> pat -> Prop :=
  | XP_const s c : xpat s (PConstant c)
  | XP_seq s l rep rc pos : Forall (xarg s) l -> xarg s rep -> xpat s (PSequence (AL l) rep rc pos)
  | XP_abs s a : xarg s a -> xpat s (PAbs a)
  | XP_int s a : xarg s a -> xpat s (PInt a)
  | XP_binop s o a b : xarg s a -> xarg s b -> xpat s (PBinOp o a b)
  | XP_and s a b : xarg s a -> xarg s b -> xpat s (PAnd a b)
  | XP_skipif s a b : xarg s a -> xarg s b -> xpat s (PSkipIf a b)
  | XP_counter s t v c : xarg s t -> xpat s (PCounter t v c)
  | XP_pad s p l c : xarg s p -> xpat s (PPad p l c)
  | XP_padm s p m mp c pc : xarg s p -> xpat s (PPadToMultiple p m mp c pc)
  | XP_stutter s p c cc pos v : xarg s p -> xarg s c -> xpat s (PStutter p c cc pos v)
  | XP_series s start v stp length count : xarg s stp -> xarg s length -> xpat s (PSeries start v stp length count)
  | XP_range s start end_ stp v : xarg s end_ -> xarg s stp -> xpat s (PRange start end_ stp v)
  | XP_geom s start v m length count : xarg s m -> xpat s (PGeom start v m length count)
  | XP_impulse s period pos : xarg s period -> xpat s (PImpulse period pos)
  | XP_loop s p count pos li ra values : xarg s p -> xpat s (PLoop p count pos li ra values)
  | XP_pingpong s p count values pos dir rpos : (s = true -> xarg true p) -> xpat s (PPingPong p count values pos dir rpos)
  | XP_reverse s input values : (s = true -> xarg true input) -> xpat s (PReverse input values)
  | XP_changed s source current : xarg s source -> xpat s (PChanged source current)
  | XP_diff s source current : xarg s source -> xpat s (PDiff source current)
  | XP_collapse s input : xarg s input -> xpat s (PCollapse input)
  | XP_norepeats s input v : xarg s input -> xpat s (PNoRepeats input v)
  | XP_subsequence s p offset length pos values : xarg s p -> xarg s offset -> xarg s length -> xpat s (PSubsequence p offset length pos values)
  | XP_wrap s p mn mx : xarg s p -> xpat s (PWrap p mn mx)
  | XP_ref s p : xarg s p -> xpat s (PRef p)
  (* PReset over any pattern of the strict fragment *)
  | XP_reset s p t : xpat true p -> xarg s t -> xpat s (PReset (AP p) t)
  (* the classes with list- / dict-valued attributes whose items next() advances *)
  | XP_concat s l pos : Forall (xarg s) l -> xpat s (PConcatenate (AL l) pos)
  | XP_map s input op args kwargs : xarg s input -> Forall (xarg s) args -> Forall (fun ka => xarg s (snd ka)) kwargs ->
      xpat s (PMap input op args kwargs)
  | XP_indexof s a b : xarg s a -> xarg s b -> xpat s (PIndexOf a b)
  | XP_arrayindex_list s l b e : Forall (xarg s) l -> xarg s b -> xpat s (PArrayIndex (AL l) b e)
  | XP_arrayindex s a b e : (forall l, a <> AL l) -> xarg s a -> xarg s b -> xpat s (PArrayIndex a b e)
  | XP_dict s kv : Forall (fun ka => xarg s (snd ka)) kv -> xpat s (PDict (AD kv))
  | XP_dictkey s a b : xarg s a -> xarg s b -> xpat s (PDictKey a b)
  with xarg : bool -> arg -> Prop :=
  | XA_val s v : xarg s (AV v)
  | XA_pat s p : xpat s p -> xarg s (AP p)
  (* a tuple: Pattern.value resolves its elements, Pattern.reset (repaired) rewinds them *)
  | XA_tup s l : Forall (xarg s) l -> xarg s (AT l)
  (* a list / dict where a value is expected: next() does not touch it; reset() rewinds what it holds (strict part: of the fragment) *)
  | XA_list s l : (s = true -> Forall (xarg true) l) -> xarg s (AL l)
  | XA_dict s kv : (s = true -> Forall (fun ka => xarg true (snd ka)) kv) -> xarg s (AD kv).

  Lemma xarg_val s v : xarg s (AV v).
  Proof. apply XA_val. Qed.
  Lemma xarg_AP s p : xarg s (AP p) -> xpat s p.
  Proof. intro H. inversion H; subst. assumption. Qed.

  (** ** unfolding equations of the new classes *)
  Lemma step_seq_eq f l repeats rcount pos :
    step (S f) (PSequence (AL l) repeats rcount pos) =
      (let '(orep, repeats') := value f repeats in
       match orep with
       | Yield vrep =>
           let stop_test := if zlen l =? 0 then Yield true else cmp OGe (VInt rcount) vrep in
           match stop_test with
           | Yield true => (Stop, PSequence (AL l) repeats' rcount pos)
           | Yield false =>
               match py_index l pos with
               | None => (Raise IndexError, PSequence (AL l) repeats' rcount pos)
               | Some a =>
                   let '(o, a') := value f a in
                   let l' := update_nth (py_index_pos l pos) a' l in
                   match o with
                   | Yield v =>
                       if pos + 1 >=? zlen l
                       then (Yield v, PSequence (AL l') repeats' (rcount + 1) 0)
                       else (Yield v, PSequence (AL l') repeats' rcount (pos + 1))
                   | _ => (o, PSequence (AL l') repeats' rcount pos)
                   end
               end
           | oc => (ocast oc, PSequence (AL l) repeats' rcount pos)
           end
       | _ => (orep, PSequence (AL l) repeats' rcount pos)
       end).
  Proof. reflexivity. Qed.

  Lemma step_dict_eq f kv :
    step (S f) (PDict (AD kv)) = (let '(o, kv') := kwvalues_of (value f) kv in (omap VDict o, PDict (AD kv'))).
  Proof. reflexivity. Qed.

  Lemma step_indexof_gen f a b : (forall l, a <> AL l) ->
    step (S f) (PIndexOf a b) =
      (let '(oa, a') := value f a in
       match oa with
       | Yield va => let '(ob, b') := value f b in
                     match ob with Yield vb => (indexof_g va vb, PIndexOf a' b') | _ => (ob, PIndexOf a' b') end
       | _ => (oa, PIndexOf a' b)
       end).
  Proof. intro Hn. destruct a; try reflexivity. exfalso; eapply Hn; reflexivity. Qed.

  Lemma step_dictkey_gen f a b : (forall kv, a <> AD kv) ->
    step (S f) (PDictKey a b) =
      (let '(oa, a') := value f a in
       match oa with
       | Yield va => let '(ob, b') := value f b in
                     match ob with Yield vb => (dictkey_g va vb, PDictKey a' b') | _ => (ob, PDictKey a' b') end
       | _ => (oa, PDictKey a' b)
       end).
  Proof. intro Hn. destruct a; try reflexivity. exfalso; eapply Hn; reflexivity. Qed.

  Lemma reset_seq_eq f s r rc pos :
    reset (S f) (PSequence s r rc pos) = fld f s (fun s' => fld f r (fun r' => Yield (PSequence s' r' 0 0))).
  Proof. reflexivity. Qed.
  Lemma reset_concat_eq f i pos : reset (S f) (PConcatenate i pos) = fld f i (fun x => Yield (PConcatenate x 0)).
  Proof. reflexivity. Qed.
  Lemma reset_map_eq f input op args kwargs :
    reset (S f) (PMap input op args kwargs) =
      fld f input (fun i' =>
        obind (mapM (reset_value (reset f)) args) (fun args1 =>
        obind (kwmapM (reset_value (reset f)) kwargs) (fun kw1 =>
        obind (mapM (reset_item (reset f)) args1) (fun args2 =>
        obind (kwmapM (reset_item (reset f)) kw1) (fun kw2 =>
        Yield (PMap i' op args2 kw2)))))).
  Proof. reflexivity. Qed.
  Lemma reset_indexof_eq f a b : reset (S f) (PIndexOf a b) = fld f a (fun a' => fld f b (fun b' => Yield (PIndexOf a' b'))).
  Proof. reflexivity. Qed.
  Lemma reset_arrayindex_eq f a b e : reset (S f) (PArrayIndex a b e) = fld f a (fun a' => fld f b (fun b' => Yield (PArrayIndex a' b' false))).
  Proof. reflexivity. Qed.
  Lemma reset_dict_eq f d : reset (S f) (PDict d) = fld f d (fun d' => Yield (PDict d')).
  Proof. reflexivity. Qed.
  Lemma reset_dictkey_eq f a b : reset (S f) (PDictKey a b) = fld f a (fun a' => fld f b (fun b' => Yield (PDictKey a' b'))).
  Proof. reflexivity. Qed.
  Lemma reset_pingpong_eq f pattern count values pos dir rpos :
    reset (S f) (PPingPong pattern count values pos dir rpos) =
      fld f pattern (fun p1 =>
        obind (areset_strict f p1) (fun p2 =>
        let '(ovs, p3) := aall f LMAX p2 in
        obind ovs (fun vs => Yield (PPingPong p3 count vs 0 1 0)))).
  Proof. reflexivity. Qed.
  Lemma reset_reverse_eq f input values :
    reset (S f) (PReverse input values) =
      fld f input (fun i1 =>
        match i1 with
        | AP _ =>
            let '(olen, i2) := aall f LMAX i1 in
            let olen' := match olen with Raise TypeError => Yield [] | _ => olen end in
            obind olen' (fun _ =>
            match i2 with
            | AP p2 =>
                let '(ovs, p3) := take OutOfFuel (step f) f p2 in
                obind ovs (fun vs => Yield (PReverse (AP p3) (rev vs)))
            | _ => Inexact
            end)
        | AV (VList vs) | AV (VTup vs) => Yield (PReverse i1 (rev vs))
        | AV (VStr _) | AV (VDict _) | AL _ | AT _ | AD _ => Inexact
        | AV _ => Raise TypeError
        end).
  Proof. reflexivity. Qed.
  Lemma aall_pattern f m p :
    aall (S f) m (AP p) =
      (let '(ovs, p') := take (Yield []) (step f) m p in
       match ovs with
       | Yield vs => match reset f p' with Yield p'' => (Yield vs, AP p'') | o => (ocast o, AP p') end
       | _ => (ovs, AP p')
       end).
  Proof. reflexivity. Qed.

  (** * Closure: the fragment under next(), the strict part also under reset() *)
  Lemma take_inv (P : pat -> Prop) ex g : (forall p, P p -> P (snd (g p))) -> forall m p, P p -> P (snd (take ex g m p)).
  Proof.
    intros Hg. induction m as [|m IH]; intros p Hp; [exact Hp|]. cbn [take]. pose proof (Hg p Hp) as K.
    destruct (g p) as [o p']. cbn [snd] in K. destruct o; try exact K.
    pose proof (IH p' K) as K2. destruct (take ex g m p') as [os p'']. exact K2.
  Qed.

  Lemma anext_AP f q : exists o q', anext f (AP q) = (o, AP q').
  Proof. destruct f; [cbn; eauto|]. rewrite anext_pattern. destruct (step f q); eauto. Qed.

  Definition closed_at (f : nat) : Prop :=
    (forall s p, xpat s p -> xpat s (snd (step f p))) /\
    (forall s a, xarg s a -> xarg s (snd (value f a))) /\
    (forall s a, xarg s a -> xarg s (snd (anext f a))) /\
    (forall p q, xpat true p -> reset f p = Yield q -> xpat true q).

  Section FieldClosed.
    Variable g : nat.
    Hypothesis IHr : forall p q, xpat true p -> reset g p = Yield q -> xpat true q.

    (* reset_value: what Pattern.reset does to an attribute, a list item, a dict value *)
    Lemma value_closed : forall a x, xarg true a -> reset_value (reset g) a = Yield x -> xarg true x.
    Proof.
      apply (arg_tuple_ind (fun a => forall x, xarg true a -> reset_value (reset g) a = Yield x -> xarg true x)).
      - intros v x Ha E. inversion E; subst. exact Ha.
      - intros p x Ha E. cbn in E. apply omap_yield_inv in E as [q [Eq ->]]. apply XA_pat. eapply IHr; [apply xarg_AP; exact Ha|exact Eq].
      - intros l x Ha E. inversion E; subst. exact Ha.
      - intros kv x Ha E. inversion E; subst. exact Ha.
      - intros l IH x Ha E. rewrite reset_value_AT in E. apply omap_yield_inv in E as [l' [El ->]]. apply XA_tup.
        inversion Ha as [| |? ? Hl| |]; subst. clear Ha. revert l' El.
        induction l as [|a r IHl]; intros l' El; cbn in El.
        + inversion El. constructor.
        + inversion IH as [|? ? Pa Pr]; subst. inversion Hl as [|? ? Xa Xr]; subst.
          apply obind_yield_inv in El as [b [Eb El]]. apply omap_yield_inv in El as [r' [Er ->]].
          constructor; [eapply Pa; eauto|eapply IHl; eauto].
    Qed.

    (* the one-level loop of PMap.reset *)
    Lemma item_closed a x : xarg true a -> reset_item (reset g) a = Yield x -> xarg true x.
    Proof.
      intros Ha E. destruct a; try (inversion E; subst; exact Ha).
      cbn in E. apply omap_yield_inv in E as [q [Eq ->]]. apply XA_pat. eapply IHr; [apply xarg_AP; exact Ha|exact Eq].
    Qed.

    Lemma values_closed l l' : Forall (xarg true) l -> mapM (reset_value (reset g)) l = Yield l' -> Forall (xarg true) l'.
    Proof. apply mapM_Forall. intros a b. apply value_closed. Qed.
    Lemma items_closed l l' : Forall (xarg true) l -> mapM (reset_item (reset g)) l = Yield l' -> Forall (xarg true) l'.
    Proof. apply mapM_Forall. intros a b. apply item_closed. Qed.

    Lemma kwvalues_closed l l' : Forall (fun ka => xarg true (snd ka)) l -> kwmapM (reset_value (reset g)) l = Yield l' ->
      Forall (fun ka : string * arg => xarg true (snd ka)) l'.
    Proof.
      unfold kwmapM. apply (mapM_Forall (fun ka : string * arg => xarg true (snd ka))).
      intros [k a] [k' b] Ha E. cbn [fst snd] in *. apply omap_yield_inv in E as [x [Ex E]]. inversion E; subst.
      eapply value_closed; eauto.
    Qed.
    Lemma kwitems_closed l l' : Forall (fun ka => xarg true (snd ka)) l -> kwmapM (reset_item (reset g)) l = Yield l' ->
      Forall (fun ka : string * arg => xarg true (snd ka)) l'.
    Proof.
      unfold kwmapM. apply (mapM_Forall (fun ka : string * arg => xarg true (snd ka))).
      intros [k a] [k' b] Ha E. cbn [fst snd] in *. apply omap_yield_inv in E as [x [Ex E]]. inversion E; subst.
      eapply item_closed; eauto.
    Qed.

    (* a list / dict attribute whose items the class advances *)
    Lemma listfield_closed l x : Forall (xarg true) l -> reset_field (reset g) (AL l) = Yield x ->
      exists l', x = AL l' /\ Forall (xarg true) l'.
    Proof. intros Hl E. cbn in E. apply omap_yield_inv in E as [l' [El ->]]. eexists; split; [reflexivity|]. eapply values_closed; eauto. Qed.
    Lemma dictfield_closed kv x : Forall (fun ka => xarg true (snd ka)) kv -> reset_field (reset g) (AD kv) = Yield x ->
      exists kv', x = AD kv' /\ Forall (fun ka : string * arg => xarg true (snd ka)) kv'.
    Proof. intros Hl E. cbn in E. apply omap_yield_inv in E as [l' [El ->]]. eexists; split; [reflexivity|]. eapply kwvalues_closed; eauto. Qed.

    Lemma field_closed a x : xarg true a -> reset_field (reset g) a = Yield x -> xarg true x.
    Proof.
      intros Ha E. destruct a as [v|p|lt|ll|kv]; try (eapply value_closed; [exact Ha|exact E]).
      - inversion Ha as [| | |? ? Hl|]; subst. destruct (listfield_closed _ _ (Hl eq_refl) E) as [l' [-> Hl']]. apply XA_list. intros _. exact Hl'.
      - inversion Ha as [| | | |? ? Hk]; subst. destruct (dictfield_closed _ _ (Hk eq_refl) E) as [kv' [-> Hk']]. apply XA_dict. intros _. exact Hk'.
    Qed.
  End FieldClosed.

  Ltac xclosed_case IHs IHv IHn :=
    cbv zeta;
    repeat match goal with
           | PU : forall values target, xarg _ (snd (pull_until ?g ?n ?p values target)) |- context [pull_until ?g ?n ?p ?v ?t] =>
               let K := fresh "K" in pose proof (PU v t) as K; destruct (pull_until g n p v t) as [[? ?] ?]; cbn [snd] in K
           | H : xarg ?s ?a |- context [value ?f ?a] =>
               let K := fresh "K" in pose proof (IHv s a H) as K; destruct (value f a) as [? ?]; cbn [snd] in K
           | H : xarg ?s ?a |- context [anext ?f ?a] =>
               let K := fresh "K" in pose proof (IHn s a H) as K; destruct (anext f a) as [? ?]; cbn [snd] in K
           | |- context [if ?x then _ else _] => is_var x; destruct x
           | |- context [match ?x with _ => _ end] => is_var x; destruct x
           | |- context [if ?x then _ else _] => destruct x
           | |- context [match ?x with _ => _ end] => destruct x
           | _ => progress (cbv beta iota zeta)
           end;
    cbv beta iota zeta delta [snd]; first [constructor; assumption | apply IHs; constructor; assumption].

  Ltac rpeel R FC :=
    repeat match type of R with
           | obind (reset_field _ ?a) _ = Yield _ =>
               let x := fresh "x" in let E := fresh "E" in
               apply obind_yield_inv in R as [x [E R]]; apply FC in E; [|assumption]
           end.
  Ltac rclosed R eqn FC := rewrite eqn in R; rpeel R FC; inversion R; subst; constructor; assumption.

  Theorem xpat_closed : forall f, closed_at f.
  Proof.
    intro f. induction f as [f IHf] using lt_wf_ind. destruct f as [|f].
    - repeat split; intros; try assumption. discriminate.
    - destruct (IHf f (Nat.lt_succ_diag_r f)) as [IHs [IHv [IHn IHr]]].
      assert (ARS : forall a a', xarg true a -> areset_strict f a = Yield a' -> xarg true a').
      { intros a a' Ha E. destruct f as [|g]; [discriminate|]. cbn in E. destruct a; try discriminate.
        apply omap_yield_inv in E as [q [Eq ->]]. apply XA_pat. pose proof (xarg_AP _ _ Ha) as Hp.
        eapply (proj2 (proj2 (proj2 (IHf g ltac:(lia))))); eauto. }
      assert (AALL : forall m a o a', xarg true a -> aall f m a = (o, a') -> xarg true a').
      { intros m a o a' Ha E. destruct f as [|g]; [inversion E; subst; exact Ha|].
        destruct (IHf g ltac:(lia)) as [Gs [_ [_ Gr]]].
        destruct a; try (inversion E; subst; exact Ha).
        pose proof (xarg_AP _ _ Ha) as Hp.
        rewrite aall_pattern in E. pose proof (take_inv (xpat true) (Yield []) (step g) (Gs true) m p Hp) as K.
        destruct (take (Yield []) (step g) m p) as [ovs p']. cbn [snd] in K.
        destruct ovs; try (inversion E; subst; apply XA_pat; exact K).
        destruct (reset g p') as [p''| | | |] eqn:R; inversion E; subst; apply XA_pat; try exact K. eapply Gr; eauto. }
      split; [|split; [|split]].
      + intros s p Hp. inversion Hp; subst.
        * apply XP_const.
        * (* PSequence *)
          rewrite step_seq_eq. pose proof (IHv s rep H0) as K. destruct (value f rep) as [orep rep']. cbn [snd] in K.
          destruct orep; try (cbn [snd]; apply XP_seq; assumption).
          cbv zeta. destruct (if zlen l =? 0 then Yield true else cmp OGe (VInt rc) a) as [[|]| | | |]; try (cbn [snd]; apply XP_seq; assumption).
          destruct (py_index l pos) as [x|] eqn:Ei; [|cbn [snd]; apply XP_seq; assumption].
          pose proof (IHv s x (py_index_Forall _ _ _ _ H Ei)) as Kx. destruct (value f x) as [o x']. cbn [snd] in Kx.
          pose proof (Forall_update_nth (xarg s) l (py_index_pos l pos) x' H Kx) as Hl'.
          destruct o; try (cbn [snd]; apply XP_seq; assumption).
          destruct (pos + 1 >=? zlen l); cbn [snd]; apply XP_seq; assumption.
        * rewrite step_abs_eq. xclosed_case IHs IHv IHn.
        * rewrite step_int_eq. xclosed_case IHs IHv IHn.
        * rewrite step_binop_eq. xclosed_case IHs IHv IHn.
        * rewrite step_and_eq. xclosed_case IHs IHv IHn.
        * rewrite step_skipif_eq. xclosed_case IHs IHv IHn.
        * rewrite step_counter_eq. xclosed_case IHs IHv IHn.
        * rewrite step_pad_eq. xclosed_case IHs IHv IHn.
        * rewrite step_padm_eq. xclosed_case IHs IHv IHn.
        * rewrite step_stutter_eq. xclosed_case IHs IHv IHn.
        * rewrite step_series_eq. xclosed_case IHs IHv IHn.
        * rewrite step_range_eq. xclosed_case IHs IHv IHn.
        * rewrite step_geom_eq. xclosed_case IHs IHv IHn.
        * rewrite step_impulse_eq. xclosed_case IHs IHv IHn.
        * rewrite step_loop_eq. destruct ra; xclosed_case IHs IHv IHn.
        * rewrite step_pingpong_eq. xclosed_case IHs IHv IHn.
        * rewrite step_reverse_eq. xclosed_case IHs IHv IHn.
        * rewrite step_changed_eq. xclosed_case IHs IHv IHn.
        * rewrite step_diff_eq. xclosed_case IHs IHv IHn.
        * rewrite step_collapse_eq. xclosed_case IHs IHv IHn.
        * rewrite step_norepeats_eq. xclosed_case IHs IHv IHn.
        * rewrite step_subsequence_eq.
          pose proof (fun values target => pull_until_inv (xarg s) (anext f) (IHn s) f p0 values target H) as PU.
          xclosed_case IHs IHv IHn.
        * rewrite step_wrap_eq. xclosed_case IHs IHv IHn.
        * rewrite step_anyref_eq. xclosed_case IHs IHv IHn.
        * (* PReset *)
          rewrite step_preset_eq. pose proof (IHn s t H0) as Kt. destruct (anext f t) as [ot t']. cbn [snd] in Kt.
          assert (Polled : forall q, xpat true q -> xpat s (snd (let '(o, pattern2) := anext f (AP q) in (o, PReset pattern2 t')))).
          { intros q Hq. pose proof (IHn true (AP q) (XA_pat _ _ Hq)) as K. destruct (anext_AP f q) as [o [q2 E]]. rewrite E in K |- *.
            cbn [snd] in *. apply XP_reset; [apply (xarg_AP _ _ K)|assumption]. }
          destruct ot as [vt| | | |]; try (cbn [snd]; apply XP_reset; assumption).
          destruct (if is_none vt then Yield false else cmp OGt vt (VInt 0)) as [[|]| | | |]; try (cbn [snd]; apply XP_reset; assumption); cbv zeta.
          -- destruct (areset_strict f (AP p0)) as [a1| | | |] eqn:R; try (cbn [snd]; apply XP_reset; assumption).
             pose proof (ARS _ _ (XA_pat _ _ H) R) as K1.
             destruct f as [|g]; [discriminate R|]. cbn in R. apply omap_yield_inv in R as [q [_ ->]]. apply Polled. apply (xarg_AP _ _ K1).
          -- apply Polled. exact H.
        * (* PConcatenate *)
          rewrite step_concat_eq. destruct (py_index l pos) as [a|] eqn:Ei; [|exact Hp].
          pose proof (IHn s a (py_index_Forall _ _ _ _ H Ei)) as Fa'. destruct (anext f a) as [o a']. cbn [snd] in Fa'. cbv zeta.
          pose proof (Forall_update_nth (xarg s) l (py_index_pos l pos) a' H Fa') as Hl'.
          destruct o; try (cbn [snd]; apply XP_concat; exact Hl').
          destruct (pos <? zlen l - 1); [apply IHs|cbn [snd]]; apply XP_concat; exact Hl'.
        * (* PMap *)
          rewrite step_map_eq.
          pose proof (values_of_Forall (xarg s) (value f) args (IHv s) H0) as Ka.
          destruct (values_of (value f) args) as [oa args']. cbn [snd] in Ka.
          destruct oa; try (cbn [snd]; apply XP_map; assumption).
          pose proof (kwvalues_of_Forall (xarg s) (value f) kwargs (IHv s) H1) as Kk.
          destruct (kwvalues_of (value f) kwargs) as [ok kwargs']. cbn [snd] in Kk.
          destruct ok; try (cbn [snd]; apply XP_map; assumption).
          pose proof (IHn s input H) as Ki. destruct (anext f input) as [o input']. cbn [snd] in Ki.
          destruct o; cbn [snd]; apply XP_map; assumption.
        * (* PIndexOf *)
          destruct a as [v|p0|lt|ll|kv].
          all: try (rewrite step_indexof_gen by discriminate; xclosed_case IHs IHv IHn).
          destruct (plain_items ll) eqn:Pl; [rewrite (step_indexof_list_eq _ _ _ _ _ _ Pl)|rewrite step_indexof_list_none by exact Pl];
            xclosed_case IHs IHv IHn.
        * (* PArrayIndex over a literal list *)
          rewrite step_arrayindex_unfold. destruct e; [exact Hp|]. rewrite arrayindex_body_list_eq.
          pose proof (IHv s b H0) as Kb. destruct (value f b) as [oi b']. cbn [snd] in Kb.
          destruct oi as [vi| | | |]; try (cbn [snd]; apply XP_arrayindex_list; assumption).
          destruct vi; try (cbn [snd]; apply XP_arrayindex_list; assumption).
          all: match goal with |- context [py_int ?v] => destruct (py_int v) as [[| |i| | | | |]| | | |] end;
            try (cbn [snd]; apply XP_arrayindex_list; assumption).
          all: destruct (py_index l i) as [x|] eqn:Ei; [|cbn [snd]; apply XP_arrayindex_list; assumption].
          all: pose proof (IHv s x (py_index_Forall _ _ _ _ H Ei)) as Kx; destruct (value f x) as [o x']; cbn [snd] in Kx |- *.
          all: apply XP_arrayindex_list; [apply Forall_update_nth; assumption|assumption].
        * (* PArrayIndex *)
          rewrite step_arrayindex_unfold. destruct e; [exact Hp|]. rewrite arrayindex_body_gen by exact H.
          pose proof (IHv s a H0) as Ka. destruct (value f a) as [oa a'] eqn:Ea. cbn [snd] in Ka.
          assert (Na : forall l, a' <> AL l).
          { intros l ->. destruct a as [v|p0|lt|ll|kv].
            - pose proof (value_AV f v) as E. rewrite Ea in E. discriminate E.
            - destruct f; [cbn in Ea; inversion Ea|rewrite value_pattern in Ea; destruct (step f p0); inversion Ea].
            - destruct f; [cbn in Ea; inversion Ea|]. pose proof (value_AT f lt) as E. rewrite Ea in E. discriminate E.
            - eapply H; reflexivity.
            - pose proof (value_AD f kv) as E. rewrite Ea in E. discriminate E. }
          destruct oa; try (cbn [snd]; apply XP_arrayindex; assumption).
          pose proof (IHv s b H1) as Kb. destruct (value f b) as [ob b']. cbn [snd] in Kb |- *. apply XP_arrayindex; assumption.
        * (* PDict *)
          rewrite step_dict_eq. pose proof (kwvalues_of_Forall (xarg s) (value f) kv (IHv s) H) as Kk.
          destruct (kwvalues_of (value f) kv) as [o kv']. cbn [snd] in *. apply XP_dict. exact Kk.
        * (* PDictKey *)
          destruct a as [v|p0|lt|ll|kv].
          all: try (rewrite step_dictkey_gen by discriminate; xclosed_case IHs IHv IHn).
          rewrite step_dictkey_dict_eq. xclosed_case IHs IHv IHn.
      + intros s a Ha. destruct a as [v|p|lt|ll|kv].
        * rewrite value_AV. exact Ha.
        * rewrite value_pattern. pose proof (IHs s p (xarg_AP _ _ Ha)) as K. destruct (step f p). apply XA_pat. exact K.
        * rewrite value_AT. apply XA_tup. inversion Ha; subst. apply values_of_Forall; [exact (IHv s)|assumption].
        * rewrite value_AL. exact Ha.
        * rewrite value_AD. exact Ha.
      + intros s a Ha. destruct a as [v|p|lt|ll|kv]; try (rewrite anext_nonpat by discriminate; exact Ha).
        rewrite anext_pattern. pose proof (IHs s p (xarg_AP _ _ Ha)) as K. destruct (step f p). apply XA_pat. exact K.
      + (* reset() stays in the strict fragment *)
        intros p q Hp R. pose proof (field_closed f IHr) as FC.
        inversion Hp; subst.
        * inversion R; subst. exact Hp.
        * (* PSequence *)
          rewrite reset_seq_eq in R. apply obind_yield_inv in R as [x [E R]].
          destruct (listfield_closed f IHr _ _ ltac:(eassumption) E) as [l' [-> Hl']]. rpeel R FC. inversion R; subst. apply XP_seq; assumption.
        * rclosed R reset_abs_eq FC.
        * rclosed R reset_int_eq FC.
        * rclosed R reset_binop_eq FC.
        * rclosed R reset_and_eq FC.
        * rclosed R reset_skipif_eq FC.
        * rclosed R reset_counter_eq FC.
        * rclosed R reset_pad_eq FC.
        * rclosed R reset_padm_eq FC.
        * rclosed R reset_stutter_eq FC.
        * rclosed R reset_series_eq FC.
        * rclosed R reset_range_eq FC.
        * rclosed R reset_geom_eq FC.
        * rclosed R reset_impulse_eq FC.
        * rclosed R reset_loop_eq FC.
        * (* PPingPong *)
          match goal with Hs : true = true -> _ |- _ => specialize (Hs eq_refl) end. rewrite reset_pingpong_eq in R. rpeel R FC.
          apply obind_yield_inv in R as [p2 [E2 R]]. pose proof (ARS _ _ E E2) as K2.
          destruct (aall f LMAX p2) as [ovs p3] eqn:EA. pose proof (AALL _ _ _ _ K2 EA) as K3.
          apply obind_yield_inv in R as [vs [_ R]]. inversion R; subst. apply XP_pingpong. intros _. exact K3.
        * (* PReverse *)
          match goal with Hs : true = true -> _ |- _ => specialize (Hs eq_refl) end. rewrite reset_reverse_eq in R. rpeel R FC.
          destruct x as [v|p1|lt|ll|kv]; try discriminate R.
          -- destruct v; try discriminate R; inversion R; subst; apply XP_reverse; intros _; exact E.
          -- destruct (aall f LMAX (AP p1)) as [olen i2] eqn:EA. pose proof (AALL _ _ _ _ E EA) as K2. cbv zeta in R.
             apply obind_yield_inv in R as [u [_ R]]. destruct i2 as [|p2| | |]; try discriminate R.
             pose proof (xarg_AP _ _ K2) as Hp2.
             pose proof (take_inv (xpat true) OutOfFuel (step f) (IHs true) f p2 Hp2) as K3.
             destruct (take OutOfFuel (step f) f p2) as [ovs p3]. cbn [snd] in K3.
             apply obind_yield_inv in R as [vs [_ R]]. inversion R; subst. apply XP_reverse. intros _. apply XA_pat. exact K3.
        * (* PChanged *)
          rewrite reset_changed_eq in R. rpeel R FC. pose proof (IHv true x E) as K. destruct (value f x) as [o s2]. cbn [snd] in K.
          apply obind_yield_inv in R as [v [_ R]]. inversion R; subst. apply XP_changed. exact K.
        * rewrite reset_diff_eq in R. rpeel R FC. pose proof (IHv true x E) as K. destruct (value f x) as [o s2]. cbn [snd] in K.
          apply obind_yield_inv in R as [v [_ R]]. inversion R; subst. apply XP_diff. exact K.
        * rclosed R reset_collapse_eq FC.
        * rclosed R reset_norepeats_eq FC.
        * rclosed R reset_subsequence_eq FC.
        * rclosed R reset_wrap_eq FC.
        * rclosed R reset_ref_eq FC.
        * (* PReset *)
          rewrite reset_preset_eq in R. apply obind_yield_inv in R as [x [E R]]. cbn in E. apply omap_yield_inv in E as [q0 [Eq ->]].
          rpeel R FC. inversion R; subst. apply XP_reset; [eapply IHr; eauto|assumption].
        * (* PConcatenate *)
          rewrite reset_concat_eq in R. apply obind_yield_inv in R as [x [E R]].
          destruct (listfield_closed f IHr _ _ ltac:(eassumption) E) as [l' [-> Hl']]. inversion R; subst. apply XP_concat; assumption.
        * (* PMap *)
          rewrite reset_map_eq in R. rpeel R FC.
          apply obind_yield_inv in R as [args1 [E1 R]]. apply obind_yield_inv in R as [kw1 [E2 R]].
          apply obind_yield_inv in R as [args2 [E3 R]]. apply obind_yield_inv in R as [kw2 [E4 R]].
          inversion R; subst. apply XP_map; [assumption| |].
          -- eapply items_closed; [exact IHr| |exact E3]. eapply values_closed; eauto.
          -- eapply kwitems_closed; [exact IHr| |exact E4]. eapply kwvalues_closed; eauto.
        * rclosed R reset_indexof_eq FC.
        * (* PArrayIndex over a literal list *)
          rewrite reset_arrayindex_eq in R. apply obind_yield_inv in R as [x [E R]].
          destruct (listfield_closed f IHr _ _ ltac:(eassumption) E) as [l' [-> Hl']]. rpeel R FC. inversion R; subst. apply XP_arrayindex_list; assumption.
        * (* PArrayIndex *)
          rewrite reset_arrayindex_eq in R. apply obind_yield_inv in R as [x [E R]].
          assert (Nx : forall l, x <> AL l).
          { intros l ->. destruct a as [v|p0|lt|ll|kv]; cbn [reset_field] in E.
            - inversion E.
            - cbn in E. apply omap_yield_inv in E as [? [_ E]]. discriminate.
            - rewrite reset_value_AT in E. apply omap_yield_inv in E as [? [_ E]]. discriminate.
            - match goal with Hn : forall l, _ <> AL l |- _ => eapply Hn; reflexivity end.
            - apply omap_yield_inv in E as [? [_ E]]. discriminate. }
          apply FC in E; [|assumption]. rpeel R FC. inversion R; subst. apply XP_arrayindex; assumption.
        * (* PDict *)
          rewrite reset_dict_eq in R. apply obind_yield_inv in R as [x [E R]].
          destruct (dictfield_closed f IHr _ _ ltac:(eassumption) E) as [kv' [-> Hk]]. inversion R; subst. apply XP_dict; assumption.
        * rclosed R reset_dictkey_eq FC.
  Qed.

  Lemma xpat_step_closed s f p : xpat s p -> xpat s (snd (step f p)).
  Proof. apply xpat_closed. Qed.
  Lemma xarg_value_closed s f a : xarg s a -> xarg s (snd (value f a)).
  Proof. apply xpat_closed. Qed.
  Lemma xarg_anext_closed s f a : xarg s a -> xarg s (snd (anext f a)).
  Proof. apply xpat_closed. Qed.
  Lemma xpat_reset_closed f p q : xpat true p -> reset f p = Yield q -> xpat true q.
  Proof. apply xpat_closed. Qed.
  Lemma xarg_field_closed f a x : xarg true a -> reset_field (reset f) a = Yield x -> xarg true x.
  Proof. apply field_closed. apply xpat_reset_closed. Qed.

  (** * (A) reset() erases a next();  (B) reset() erases a reset() *)
  Section AB.
    Variable f0 : nat.
    Hypothesis HA : forall s f' p, xpat s p -> reset f0 (snd (step f' p)) = reset f0 p.
    Hypothesis HB : forall f' p q, xpat true p -> reset f' p = Yield q -> reset f0 q = reset f0 p.

    (* reset_value (what Pattern.reset does to an attribute / item / dict value) after Pattern.value, after next() *)
    Lemma itemA_value s : forall a f', xarg s a -> reset_value (reset f0) (snd (value f' a)) = reset_value (reset f0) a.
    Proof.
      apply (arg_tuple_ind (fun a => forall f', xarg s a -> reset_value (reset f0) (snd (value f' a)) = reset_value (reset f0) a)).
      - intros v f' _. rewrite value_AV. reflexivity.
      - intros p f' Ha. destruct f' as [|f']; [reflexivity|]. rewrite value_pattern. pose proof (HA s f' p (xarg_AP _ _ Ha)) as E.
        destruct (step f' p) as [o p']. cbn in *. rewrite E. reflexivity.
      - intros l f' _. rewrite value_AL. reflexivity.
      - intros kv f' _. rewrite value_AD. reflexivity.
      - intros l IH f' Ha. destruct f' as [|f']; [reflexivity|]. rewrite value_AT, !reset_value_AT. f_equal. apply values_of_mapM.
        inversion Ha as [| |? ? Hl| |]; subst. rewrite Forall_forall in *. intros a Hin. apply IH; [exact Hin|apply Hl; exact Hin].
    Qed.
    Lemma itemA_anext s f' a : xarg s a -> reset_value (reset f0) (snd (anext f' a)) = reset_value (reset f0) a.
    Proof.
      intro Ha. destruct a as [v|p|lt|ll|kv]; try (rewrite anext_nonpat by discriminate; reflexivity).
      destruct f' as [|f']; [reflexivity|]. rewrite anext_pattern. pose proof (HA s f' p (xarg_AP _ _ Ha)) as E.
      destruct (step f' p) as [o p']. cbn in *. rewrite E. reflexivity.
    Qed.
    Lemma fieldA_value s f' a : xarg s a -> reset_field (reset f0) (snd (value f' a)) = reset_field (reset f0) a.
    Proof.
      intro Ha. destruct a as [v|p|lt|ll|kv].
      - rewrite value_AV. reflexivity.
      - pose proof (itemA_value s _ f' Ha) as E. destruct f' as [|f']; [reflexivity|]. rewrite value_pattern in *. destruct (step f' p). exact E.
      - pose proof (itemA_value s _ f' Ha) as E. destruct f' as [|f']; [reflexivity|]. rewrite value_AT in *. exact E.
      - rewrite value_AL. reflexivity.
      - rewrite value_AD. reflexivity.
    Qed.
    Lemma fieldA_anext s f' a : xarg s a -> reset_field (reset f0) (snd (anext f' a)) = reset_field (reset f0) a.
    Proof.
      intro Ha. destruct a as [v|p|lt|ll|kv]; try (rewrite anext_nonpat by discriminate; reflexivity).
      pose proof (itemA_anext s f' _ Ha) as E. destruct f' as [|f']; [reflexivity|]. rewrite anext_pattern in *. destruct (step f' p). exact E.
    Qed.

    (* ... and after a reset() *)
    Lemma itemB f' : forall a x, xarg true a -> reset_value (reset f') a = Yield x -> reset_value (reset f0) x = reset_value (reset f0) a.
    Proof.
      apply (arg_tuple_ind (fun a => forall x, xarg true a -> reset_value (reset f') a = Yield x -> reset_value (reset f0) x = reset_value (reset f0) a)).
      - intros v x _ E. inversion E; reflexivity.
      - intros p x Ha E. cbn in E. apply omap_yield_inv in E as [q [Eq ->]]. cbn. rewrite (HB _ _ _ (xarg_AP _ _ Ha) Eq). reflexivity.
      - intros l x _ E. inversion E; reflexivity.
      - intros kv x _ E. inversion E; reflexivity.
      - intros l IH x Ha E. rewrite reset_value_AT in E. apply omap_yield_inv in E as [l' [El ->]]. rewrite !reset_value_AT. f_equal.
        apply (mapM_B (reset_value (reset f')) (reset_value (reset f0)) l l'); [|exact El].
        inversion Ha as [| |? ? Hl| |]; subst. rewrite Forall_forall in *. intros a Hin b. apply IH; [exact Hin|apply Hl; exact Hin].
    Qed.
    (* the one-level loop of PMap.reset, followed by a full reset *)
    Lemma pitemB f' a x : xarg true a -> reset_item (reset f') a = Yield x -> reset_value (reset f0) x = reset_value (reset f0) a.
    Proof.
      intros Ha E. destruct a; try (inversion E; reflexivity).
      cbn in E. apply omap_yield_inv in E as [q [Eq ->]]. cbn. rewrite (HB _ _ _ (xarg_AP _ _ Ha) Eq). reflexivity.
    Qed.
    Lemma listB f' l l' : Forall (xarg true) l -> mapM (reset_value (reset f')) l = Yield l' ->
      mapM (reset_value (reset f0)) l' = mapM (reset_value (reset f0)) l.
    Proof. intros Hl. apply mapM_B. eapply Forall_impl; [|exact Hl]. intros a Ha b. apply itemB. exact Ha. Qed.
    Lemma plistB f' l l' : Forall (xarg true) l -> mapM (reset_item (reset f')) l = Yield l' ->
      mapM (reset_value (reset f0)) l' = mapM (reset_value (reset f0)) l.
    Proof. intros Hl. apply mapM_B. eapply Forall_impl; [|exact Hl]. intros a Ha b. apply pitemB. exact Ha. Qed.
    Lemma kwlistB f' l l' : Forall (fun ka => xarg true (snd ka)) l -> kwmapM (reset_value (reset f')) l = Yield l' ->
      kwmapM (reset_value (reset f0)) l' = kwmapM (reset_value (reset f0)) l.
    Proof.
      intros Hl. unfold kwmapM. apply mapM_B. eapply Forall_impl; [|exact Hl]. intros [k a] Ha [k' b] E. cbn [fst snd] in *.
      apply omap_yield_inv in E as [x [Ex E]]. inversion E; subst. rewrite (itemB _ _ _ Ha Ex). reflexivity.
    Qed.
    Lemma kwplistB f' l l' : Forall (fun ka => xarg true (snd ka)) l -> kwmapM (reset_item (reset f')) l = Yield l' ->
      kwmapM (reset_value (reset f0)) l' = kwmapM (reset_value (reset f0)) l.
    Proof.
      intros Hl. unfold kwmapM. apply mapM_B. eapply Forall_impl; [|exact Hl]. intros [k a] Ha [k' b] E. cbn [fst snd] in *.
      apply omap_yield_inv in E as [x [Ex E]]. inversion E; subst. rewrite (pitemB _ _ _ Ha Ex). reflexivity.
    Qed.
    Lemma listfieldB f' l x : Forall (xarg true) l -> reset_field (reset f') (AL l) = Yield x ->
      reset_field (reset f0) x = reset_field (reset f0) (AL l).
    Proof. intros Hl E. cbn in E. apply omap_yield_inv in E as [l' [El ->]]. cbn. rewrite (listB _ _ _ Hl El). reflexivity. Qed.
    Lemma dictfieldB f' kv x : Forall (fun ka => xarg true (snd ka)) kv -> reset_field (reset f') (AD kv) = Yield x ->
      reset_field (reset f0) x = reset_field (reset f0) (AD kv).
    Proof. intros Hl E. cbn in E. apply omap_yield_inv in E as [l' [El ->]]. cbn. rewrite (kwlistB _ _ _ Hl El). reflexivity. Qed.
    Lemma fieldB f' a x : xarg true a -> reset_field (reset f') a = Yield x -> reset_field (reset f0) x = reset_field (reset f0) a.
    Proof.
      intros Ha E. destruct a as [v|p|lt|ll|kv].
      - inversion E; reflexivity.
      - pose proof E as E'. cbn in E'. apply omap_yield_inv in E' as [q [_ ->]]. exact (itemB f' _ _ Ha E).
      - pose proof E as E'. cbn [reset_field] in E'. rewrite reset_value_AT in E'. apply omap_yield_inv in E' as [l' [_ ->]]. exact (itemB f' _ _ Ha E).
      - inversion Ha as [| | |? ? Hl|]; subst. exact (listfieldB f' _ _ (Hl eq_refl) E).
      - inversion Ha as [| | | |? ? Hk]; subst. exact (dictfieldB f' _ _ (Hk eq_refl) E).
    Qed.

    Lemma takeA s ex g m : forall p, xpat s p -> reset f0 (snd (take ex (step g) m p)) = reset f0 p.
    Proof.
      intros p Hp. apply (take_inv (fun q => xpat s q /\ reset f0 q = reset f0 p) ex (step g)); [|split; [exact Hp|reflexivity]].
      intros q [Hq Eq]. split; [apply xpat_step_closed; exact Hq|]. rewrite (HA s) by exact Hq. exact Eq.
    Qed.

    Lemma aresetB g a a' : xarg true a -> areset_strict g a = Yield a' -> reset_field (reset f0) a' = reset_field (reset f0) a.
    Proof.
      intros Ha E. destruct g as [|g]; [discriminate|]. cbn in E. destruct a; try discriminate.
      pose proof (xarg_AP _ _ Ha) as Hp.
      apply omap_yield_inv in E as [q [Eq ->]]. cbn. rewrite (HB _ _ _ Hp Eq). reflexivity.
    Qed.

    Lemma aallAB g m a o a' : xarg true a -> aall g m a = (o, a') -> reset_field (reset f0) a' = reset_field (reset f0) a.
    Proof.
      intros Ha E. destruct g as [|g]; [inversion E; reflexivity|]. destruct a; try (inversion E; reflexivity).
      pose proof (xarg_AP _ _ Ha) as Hp.
      rewrite aall_pattern in E. pose proof (takeA true (Yield []) g m p Hp) as T.
      pose proof (take_inv (xpat true) (Yield []) (step g) (fun q => xpat_step_closed true g q) m p Hp) as C.
      destruct (take (Yield []) (step g) m p) as [ovs p']. cbn [snd] in T, C.
      destruct ovs; try (inversion E; subst; cbn; rewrite T; reflexivity).
      destruct (reset g p') as [p''| | | |] eqn:R; inversion E; subst; cbn; try (rewrite T; reflexivity).
      rewrite (HB _ _ _ C R), T. reflexivity.
    Qed.

    Lemma pull_untilA s f' n pattern values target : xarg s pattern ->
      reset_field (reset f0) (snd (pull_until (anext f') n pattern values target)) = reset_field (reset f0) pattern.
    Proof.
      intro H.
      apply (pull_until_inv (fun a => xarg s a /\ reset_field (reset f0) a = reset_field (reset f0) pattern) (anext f')).
      - intros a [Ha Ea]. split; [apply xarg_anext_closed; exact Ha|]. rewrite (fieldA_anext s) by exact Ha. exact Ea.
      - split; [exact H|reflexivity].
    Qed.

    (** classes whose next() calls itself *)
    Lemma collapseA s : forall f' input, xarg s input ->
      reset (S f0) (snd (step f' (PCollapse input))) = reset (S f0) (PCollapse input).
    Proof.
      induction f' as [|f' IHf]; intros input H; [reflexivity|].
      rewrite step_collapse_eq. pose proof (fieldA_value s f' input H) as A. pose proof (xarg_value_closed s f' input H) as C.
      destruct (value f' input) as [o i']. cbn [snd] in A, C.
      destruct o as [[]| | | |]; cbv beta iota; try (cbn [snd]; rewrite !reset_collapse_eq, A; reflexivity).
      rewrite (IHf _ C). rewrite !reset_collapse_eq, A. reflexivity.
    Qed.

    Lemma norepeatsA s : forall f' input v, xarg s input ->
      reset (S f0) (snd (step f' (PNoRepeats input v))) = reset (S f0) (PNoRepeats input v).
    Proof.
      induction f' as [|f' IHf]; intros input v H; [reflexivity|].
      rewrite step_norepeats_eq. pose proof (fieldA_value s f' input H) as A. pose proof (xarg_value_closed s f' input H) as C.
      destruct (value f' input) as [o i']. cbn [snd] in A, C.
      destruct o as [rv| | | |]; cbv beta iota; try (cbn [snd]; rewrite !reset_norepeats_eq, A; reflexivity).
      destruct (py_eq rv v || py_eq rv (VInt MAXSIZE)).
      - rewrite (IHf _ _ C). rewrite !reset_norepeats_eq, A. reflexivity.
      - cbn [snd]. rewrite !reset_norepeats_eq, A. reflexivity.
    Qed.

    Lemma list_updateA (l : list arg) i a a' :
      py_index l i = Some a -> reset_value (reset f0) a' = reset_value (reset f0) a ->
      reset_field (reset f0) (AL (update_nth (py_index_pos l i) a' l)) = reset_field (reset f0) (AL l).
    Proof. intros Ei E. cbn. rewrite (mapM_update_nth _ _ _ _ _ (py_index_nth _ _ _ Ei) E). reflexivity. Qed.

    Lemma concatA s : forall f' l pos, Forall (xarg s) l ->
      reset (S f0) (snd (step f' (PConcatenate (AL l) pos))) = reset (S f0) (PConcatenate (AL l) pos).
    Proof.
      induction f' as [|f' IHf]; intros l pos Hl; [reflexivity|].
      rewrite step_concat_eq. destruct (py_index l pos) as [a|] eqn:Ei; [|reflexivity].
      pose proof (py_index_Forall _ _ _ _ Hl Ei) as Ha. pose proof (itemA_anext s f' a Ha) as A.
      pose proof (xarg_anext_closed s f' a Ha) as C. destruct (anext f' a) as [o a']. cbn [snd] in A, C. cbv zeta.
      pose proof (list_updateA l pos a a' Ei A) as U.
      pose proof (Forall_update_nth (xarg s) l (py_index_pos l pos) a' Hl C) as Hl'.
      destruct o; try (cbn [snd]; rewrite !reset_concat_eq, U; reflexivity).
      destruct (pos <? zlen l - 1).
      - rewrite (IHf _ _ Hl'). rewrite !reset_concat_eq, U. reflexivity.
      - cbn [snd]. rewrite !reset_concat_eq, U. reflexivity.
    Qed.
  End AB.

  Ltac split_matches :=
    repeat match goal with
           | |- context [match ?x with _ => _ end] => destruct x
           | |- context [if ?x then _ else _] => destruct x
           end.

  Ltac a_case f0 HA eqn :=
    cbv zeta;
    repeat match goal with
           | PU : forall values target, reset_field _ (snd (pull_until ?g ?n ?p values target)) = _ |- context [pull_until ?g ?n ?p ?v ?t] =>
               let A := fresh "A" in pose proof (PU v t) as A; destruct (pull_until g n p v t) as [[? ?] ?]; cbn [snd] in A
           | H : xarg ?s ?a |- context [value ?f ?a] =>
               let A := fresh "A" in pose proof (fieldA_value f0 HA s f a H) as A; destruct (value f a) as [? ?]; cbn [snd] in A
           | H : xarg ?s ?a |- context [anext ?f ?a] =>
               let A := fresh "A" in pose proof (fieldA_anext f0 HA s f a H) as A; destruct (anext f a) as [? ?]; cbn [snd] in A
           | |- context [if ?x then _ else _] => is_var x; destruct x
           | |- context [match ?x with _ => _ end] => is_var x; destruct x
           | |- context [if ?x then _ else _] => destruct x
           | |- context [match ?x with _ => _ end] => destruct x
           | _ => progress (cbv beta iota zeta)
           end;
    cbv beta iota zeta delta [snd]; rewrite !eqn;
    repeat match goal with A : reset_field _ _ = reset_field _ _ |- _ => try rewrite A; clear A end;
    reflexivity.

  Ltac bpeel R FB :=
    repeat match type of R with
           | obind (reset_field _ ?a) _ = Yield _ =>
               let x := fresh "x" in let E := fresh "E" in
               apply obind_yield_inv in R as [x [E R]]; apply FB in E; [|assumption]
           end.
  Ltac b_case R eqn FB :=
    rewrite eqn in R; bpeel R FB; inversion R; subst; rewrite !eqn;
    repeat match goal with E : reset_field _ _ = reset_field _ _ |- _ => try rewrite E; clear E end;
    reflexivity.

  Theorem reset_AB : forall f0,
    (forall s f' p, xpat s p -> reset f0 (snd (step f' p)) = reset f0 p) /\
    (forall f' p q, xpat true p -> reset f' p = Yield q -> reset f0 q = reset f0 p).
  Proof.
    induction f0 as [|f0 [HA HB]]; [split; intros; reflexivity|]. split.
    - (* (A) *)
      intros s f' p Hp. destruct f' as [|f']; [reflexivity|]. inversion Hp; subst.
      + reflexivity.
      + (* PSequence *)
        rewrite step_seq_eq. pose proof (fieldA_value f0 HA s f' rep H0) as A. destruct (value f' rep) as [orep rep']. cbn [snd] in A.
        destruct orep; try (cbn [snd]; rewrite !reset_seq_eq, A; reflexivity).
        cbv zeta. destruct (if zlen l =? 0 then Yield true else cmp OGe (VInt rc) a) as [[|]| | | |]; try (cbn [snd]; rewrite !reset_seq_eq, A; reflexivity).
        destruct (py_index l pos) as [x|] eqn:Ei; [|cbn [snd]; rewrite !reset_seq_eq, A; reflexivity].
        pose proof (itemA_value f0 HA s x f' (py_index_Forall _ _ _ _ H Ei)) as Ax. destruct (value f' x) as [o x']. cbn [snd] in Ax.
        pose proof (list_updateA f0 l pos x x' Ei Ax) as U.
        destruct o; try (cbn [snd]; rewrite !reset_seq_eq, U, A; reflexivity).
        destruct (pos + 1 >=? zlen l); cbn [snd]; rewrite !reset_seq_eq, U, A; reflexivity.
      + rewrite step_abs_eq. a_case f0 HA reset_abs_eq.
      + rewrite step_int_eq. a_case f0 HA reset_int_eq.
      + rewrite step_binop_eq. a_case f0 HA reset_binop_eq.
      + rewrite step_and_eq. a_case f0 HA reset_and_eq.
      + rewrite step_skipif_eq. a_case f0 HA reset_skipif_eq.
      + rewrite step_counter_eq. a_case f0 HA reset_counter_eq.
      + rewrite step_pad_eq. a_case f0 HA reset_pad_eq.
      + rewrite step_padm_eq. a_case f0 HA reset_padm_eq.
      + rewrite step_stutter_eq. a_case f0 HA reset_stutter_eq.
      + rewrite step_series_eq. a_case f0 HA reset_series_eq.
      + rewrite step_range_eq. a_case f0 HA reset_range_eq.
      + rewrite step_geom_eq. a_case f0 HA reset_geom_eq.
      + rewrite step_impulse_eq. a_case f0 HA reset_impulse_eq.
      + rewrite step_loop_eq. a_case f0 HA reset_loop_eq.
      + rewrite step_pingpong_eq. cbv zeta. split_matches; cbn [snd]; apply reset_pingpong_any.
      + rewrite step_reverse_eq. destruct values; cbn [snd]; apply reset_reverse_any.
      + rewrite step_changed_eq. a_case f0 HA reset_changed_eq.
      + rewrite step_diff_eq. a_case f0 HA reset_diff_eq.
      + eapply collapseA; eassumption.
      + eapply norepeatsA; eassumption.
      + rewrite step_subsequence_eq.
        pose proof (fun values target => pull_untilA f0 HA s f' f' p0 values target H) as PU.
        a_case f0 HA reset_subsequence_eq.
      + rewrite step_wrap_eq. a_case f0 HA reset_wrap_eq.
      + rewrite step_anyref_eq. a_case f0 HA reset_ref_eq.
      + (* PReset *)
        rewrite step_preset_eq. pose proof (fieldA_anext f0 HA s f' t H0) as At. destruct (anext f' t) as [ot t']. cbn [snd] in At.
        assert (Same : forall o : outcome val, reset (S f0) (snd (o, PReset (AP p0) t')) = reset (S f0) (PReset (AP p0) t))
          by (intro o; cbn [snd]; rewrite !reset_preset_eq, At; reflexivity).
        assert (Polled : forall q, xpat true q -> reset f0 q = reset f0 p0 ->
                  reset (S f0) (snd (let '(o, pattern2) := anext f' (AP q) in (o, PReset pattern2 t'))) = reset (S f0) (PReset (AP p0) t)).
        { intros q Hq Eq. pose proof (fieldA_anext f0 HA true f' (AP q) (XA_pat _ _ Hq)) as Aq.
          destruct (anext f' (AP q)) as [o a2]. cbn [snd] in *. rewrite !reset_preset_eq, Aq, At. cbn [reset_field reset_value]. rewrite Eq. reflexivity. }
        destruct ot as [vt| | | |]; try apply Same.
        destruct (if is_none vt then Yield false else cmp OGt vt (VInt 0)) as [[|]| | | |]; try apply Same; cbv zeta.
        * destruct (areset_strict f' (AP p0)) as [a1| | | |] eqn:R; try apply Same.
          destruct f' as [|g]; [discriminate|]. cbn in R. apply omap_yield_inv in R as [q [Rq ->]].
          apply Polled; [eapply xpat_reset_closed; eauto|eapply HB; eauto].
        * apply Polled; [assumption|reflexivity].
      + eapply concatA; eassumption.
      + (* PMap *)
        rewrite step_map_eq.
        assert (Aa : mapM (reset_value (reset f0)) (snd (values_of (value f') args)) = mapM (reset_value (reset f0)) args).
        { apply values_of_mapM. eapply Forall_impl; [|exact H0]. intros a Ha. eapply itemA_value; eauto. }
        assert (Ak : kwmapM (reset_value (reset f0)) (snd (kwvalues_of (value f') kwargs)) = kwmapM (reset_value (reset f0)) kwargs).
        { apply kwvalues_of_mapM. eapply Forall_impl; [|exact H1]. intros [k a] Ha. cbn [snd] in *. eapply itemA_value; eauto. }
        destruct (values_of (value f') args) as [oa args']. cbn [snd] in Aa.
        destruct oa; try (cbn [snd]; rewrite !reset_map_eq, Aa; reflexivity).
        destruct (kwvalues_of (value f') kwargs) as [ok kwargs']. cbn [snd] in Ak.
        destruct ok; try (cbn [snd]; rewrite !reset_map_eq, Aa, Ak; reflexivity).
        pose proof (fieldA_anext f0 HA s f' input H) as Ai. destruct (anext f' input) as [o input']. cbn [snd] in Ai.
        destruct o; cbn [snd]; rewrite !reset_map_eq, Aa, Ak, Ai; reflexivity.
      + (* PIndexOf *)
        destruct a as [v|p0|lt|ll|kv].
        all: try (rewrite step_indexof_gen by discriminate; a_case f0 HA reset_indexof_eq).
        destruct (plain_items ll) eqn:Pl; [rewrite (step_indexof_list_eq _ _ _ _ _ _ Pl)|rewrite step_indexof_list_none by exact Pl];
          a_case f0 HA reset_indexof_eq.
      + (* PArrayIndex over a literal list *)
        rewrite step_arrayindex_unfold. destruct e; [reflexivity|]. rewrite arrayindex_body_list_eq.
        pose proof (fieldA_value f0 HA s f' b H0) as Ab. destruct (value f' b) as [oi b']. cbn [snd] in Ab.
        destruct oi as [vi| | | |]; try (cbn [snd]; rewrite !reset_arrayindex_eq, Ab; reflexivity).
        destruct vi; try (cbn [snd]; rewrite !reset_arrayindex_eq, Ab; reflexivity).
        all: match goal with |- context [py_int ?v] => destruct (py_int v) as [[| |i| | | | |]| | | |] end;
          try (cbn [snd]; rewrite !reset_arrayindex_eq, Ab; reflexivity).
        all: destruct (py_index l i) as [x|] eqn:Ei; [|cbn [snd]; rewrite !reset_arrayindex_eq, Ab; reflexivity].
        all: pose proof (itemA_value f0 HA s x f' (py_index_Forall _ _ _ _ H Ei)) as Ax; destruct (value f' x) as [o x']; cbn [snd] in Ax |- *.
        all: rewrite !reset_arrayindex_eq, (list_updateA f0 l i x x' Ei Ax), Ab; reflexivity.
      + (* PArrayIndex *)
        rewrite step_arrayindex_unfold. destruct e; [reflexivity|]. rewrite arrayindex_body_gen by exact H.
        pose proof (fieldA_value f0 HA s f' a H0) as Aa. destruct (value f' a) as [oa a']. cbn [snd] in Aa.
        destruct oa; try (cbn [snd]; rewrite !reset_arrayindex_eq, Aa; reflexivity).
        pose proof (fieldA_value f0 HA s f' b H1) as Ab. destruct (value f' b) as [ob b']. cbn [snd] in Ab |- *.
        rewrite !reset_arrayindex_eq, Aa, Ab. reflexivity.
      + (* PDict *)
        rewrite step_dict_eq.
        assert (Ak : kwmapM (reset_value (reset f0)) (snd (kwvalues_of (value f') kv)) = kwmapM (reset_value (reset f0)) kv).
        { apply kwvalues_of_mapM. eapply Forall_impl; [|exact H]. intros [k a] Ha. cbn [snd] in *. eapply itemA_value; eauto. }
        destruct (kwvalues_of (value f') kv) as [o kv']. cbn [snd] in *. rewrite !reset_dict_eq. cbn [reset_field reset_value]. rewrite Ak. reflexivity.
      + (* PDictKey *)
        destruct a as [v|p0|lt|ll|kv].
        all: try (rewrite step_dictkey_gen by discriminate; a_case f0 HA reset_dictkey_eq).
        rewrite step_dictkey_dict_eq. a_case f0 HA reset_dictkey_eq.
    - (* (B) *)
      intros f' p q Hp R. destruct f' as [|f']; [discriminate|].
      pose proof (fun a x => fieldB f0 HB f' a x) as FB.
      inversion Hp; subst.
      + inversion R; subst. reflexivity.
      + (* PSequence *)
        rewrite reset_seq_eq in R. apply obind_yield_inv in R as [x [E R]].
        apply (listfieldB f0 HB f') in E; [|assumption]. bpeel R FB. inversion R; subst. rewrite !reset_seq_eq, E, E0. reflexivity.
      + b_case R reset_abs_eq FB.
      + b_case R reset_int_eq FB.
      + b_case R reset_binop_eq FB.
      + b_case R reset_and_eq FB.
      + b_case R reset_skipif_eq FB.
      + b_case R reset_counter_eq FB.
      + b_case R reset_pad_eq FB.
      + b_case R reset_padm_eq FB.
      + b_case R reset_stutter_eq FB.
      + b_case R reset_series_eq FB.
      + b_case R reset_range_eq FB.
      + b_case R reset_geom_eq FB.
      + b_case R reset_impulse_eq FB.
      + b_case R reset_loop_eq FB.
      + (* PPingPong *)
        match goal with Hs : true = true -> _ |- _ => specialize (Hs eq_refl) end.
        rewrite reset_pingpong_eq in R. apply obind_yield_inv in R as [p1 [E1 R]].
        pose proof (xarg_field_closed _ _ _ ltac:(eassumption) E1) as K1. apply FB in E1; [|assumption].
        apply obind_yield_inv in R as [p2 [E2 R]].
        assert (K2 : xarg true p2).
        { destruct f' as [|g]; [discriminate|]. cbn in E2. destruct p1; try discriminate. apply omap_yield_inv in E2 as [q2 [Eq2 ->]].
          pose proof (xarg_AP _ _ K1) as Hp1. apply XA_pat. eapply xpat_reset_closed; eauto. }
        apply (aresetB f0 HB) in E2; [|assumption].
        destruct (aall f' LMAX p2) as [ovs p3] eqn:EA. apply (aallAB f0 HA HB) in EA; [|assumption].
        apply obind_yield_inv in R as [vs [_ R]]. inversion R; subst.
        rewrite (reset_pingpong_any binop LMAX (S f0) p3 count vs 0 1 0 values pos dir rpos), !reset_pingpong_eq, EA, E2, E1. reflexivity.
      + (* PReverse *)
        match goal with Hs : true = true -> _ |- _ => specialize (Hs eq_refl) end.
        rewrite reset_reverse_eq in R. apply obind_yield_inv in R as [i1 [E1 R]].
        pose proof (xarg_field_closed _ _ _ ltac:(eassumption) E1) as K1. apply FB in E1; [|assumption].
        destruct i1 as [v|p1|lt|ll|kv]; try discriminate R.
        * destruct v; try discriminate R; inversion R; subst;
            match goal with |- reset _ (PReverse ?i ?vs) = _ => rewrite (reset_reverse_any binop LMAX (S f0) i vs values) end;
            rewrite !reset_reverse_eq, E1; reflexivity.
        * destruct (aall f' LMAX (AP p1)) as [olen i2] eqn:EA.
          assert (K2 : xarg true i2).
          { pose proof (xpat_closed f') as [_ [_ [_ _]]]. clear - EA K1 binop LMAX.
            destruct f' as [|g]; [inversion EA; subst; exact K1|].
            pose proof (xarg_AP _ _ K1) as Hp1.
            rewrite aall_pattern in EA. pose proof (take_inv (xpat true) (Yield []) (step g) (fun q => xpat_step_closed true g q) LMAX p1 Hp1) as C.
            destruct (take (Yield []) (step g) LMAX p1) as [ovs p']. cbn [snd] in C.
            destruct ovs; try (inversion EA; subst; apply XA_pat; exact C).
            destruct (reset g p') as [p''| | | |] eqn:Rr; inversion EA; subst; apply XA_pat; try exact C. eapply xpat_reset_closed; eauto. }
          apply (aallAB f0 HA HB) in EA; [|assumption]. cbv zeta in R.
          apply obind_yield_inv in R as [u [_ R]]. destruct i2 as [|p2| | |]; try discriminate R.
          pose proof (xarg_AP _ _ K2) as Hp2.
          pose proof (takeA f0 HA true OutOfFuel f' f' p2 Hp2) as T.
          destruct (take OutOfFuel (step f') f' p2) as [ovs p3]. cbn [snd] in T.
          apply obind_yield_inv in R as [vs [_ R]]. inversion R; subst.
          rewrite (reset_reverse_any binop LMAX (S f0) (AP p3) (rev vs) values), !reset_reverse_eq.
          cbn [reset_field reset_value] in *. rewrite T. rewrite EA in *. rewrite E1. reflexivity.
      + (* PChanged *)
        rewrite reset_changed_eq in R. apply obind_yield_inv in R as [s1 [E1 R]].
        pose proof (xarg_field_closed _ _ _ ltac:(eassumption) E1) as K1. apply FB in E1; [|assumption].
        pose proof (fieldA_value f0 HA true f' s1 K1) as A. destruct (value f' s1) as [o s2]. cbn [snd] in A.
        apply obind_yield_inv in R as [v [_ R]]. inversion R; subst. rewrite !reset_changed_eq, A, E1. reflexivity.
      + rewrite reset_diff_eq in R. apply obind_yield_inv in R as [s1 [E1 R]].
        pose proof (xarg_field_closed _ _ _ ltac:(eassumption) E1) as K1. apply FB in E1; [|assumption].
        pose proof (fieldA_value f0 HA true f' s1 K1) as A. destruct (value f' s1) as [o s2]. cbn [snd] in A.
        apply obind_yield_inv in R as [v [_ R]]. inversion R; subst. rewrite !reset_diff_eq, A, E1. reflexivity.
      + b_case R reset_collapse_eq FB.
      + b_case R reset_norepeats_eq FB.
      + b_case R reset_subsequence_eq FB.
      + b_case R reset_wrap_eq FB.
      + b_case R reset_ref_eq FB.
      + (* PReset *)
        rewrite reset_preset_eq in R. apply obind_yield_inv in R as [x [E R]].
        apply FB in E; [|apply XA_pat; assumption]. bpeel R FB. inversion R; subst. rewrite !reset_preset_eq, E, E0. reflexivity.
      + (* PConcatenate *)
        rewrite reset_concat_eq in R. apply obind_yield_inv in R as [x [E R]].
        apply (listfieldB f0 HB f') in E; [|assumption]. inversion R; subst. rewrite !reset_concat_eq, E. reflexivity.
      + (* PMap *)
        rewrite reset_map_eq in R. bpeel R FB.
        apply obind_yield_inv in R as [args1 [E1 R]]. apply obind_yield_inv in R as [kw1 [E2 R]].
        apply obind_yield_inv in R as [args2 [E3 R]]. apply obind_yield_inv in R as [kw2 [E4 R]].
        inversion R; subst.
        pose proof (values_closed f' (xpat_reset_closed f') _ _ ltac:(eassumption) E1) as K1.
        pose proof (kwvalues_closed f' (xpat_reset_closed f') _ _ ltac:(eassumption) E2) as K2.
        apply (plistB f0 HB f') in E3; [|assumption]. apply (kwplistB f0 HB f') in E4; [|assumption].
        apply (listB f0 HB f') in E1; [|assumption]. apply (kwlistB f0 HB f') in E2; [|assumption].
        rewrite !reset_map_eq, E, E3, E1, E4, E2. reflexivity.
      + b_case R reset_indexof_eq FB.
      + (* PArrayIndex over a literal list *)
        rewrite reset_arrayindex_eq in R. apply obind_yield_inv in R as [x [E R]].
        apply (listfieldB f0 HB f') in E; [|assumption]. bpeel R FB. inversion R; subst. rewrite !reset_arrayindex_eq, E, E0. reflexivity.
      + b_case R reset_arrayindex_eq FB.
      + (* PDict *)
        rewrite reset_dict_eq in R. apply obind_yield_inv in R as [x [E R]].
        apply (dictfieldB f0 HB f') in E; [|assumption]. inversion R; subst. rewrite !reset_dict_eq, E. reflexivity.
      + b_case R reset_dictkey_eq FB.
  Qed.

  (** * The old fragment is part of the new one *)
  Lemma scalars_xarg s l : scalars l = true -> Forall (xarg s) l.
  Proof.
    induction l as [|a r IH]; intro H; [constructor|]. destruct a; try discriminate H. constructor; [apply xarg_val|apply IH; exact H].
  Qed.

  Lemma flat_xpat s p : flat p = true -> xpat s p.
  Proof.
    intro Hf. destruct p; try discriminate Hf.
    - apply XP_const.
    - destruct sequence as [| |l| |]; try discriminate Hf. destruct repeats as [vrep| | | |]; try discriminate Hf.
      apply XP_seq; [apply scalars_xarg; exact Hf|apply xarg_val].
    - cbn in Hf. repeat match type of Hf with context [match ?x with _ => _ end] => is_var x; destruct x; try discriminate Hf end.
      apply XP_series; apply xarg_val.
    - cbn in Hf. repeat match type of Hf with context [match ?x with _ => _ end] => is_var x; destruct x; try discriminate Hf end.
      apply XP_range; apply xarg_val.
    - cbn in Hf. repeat match type of Hf with context [match ?x with _ => _ end] => is_var x; destruct x; try discriminate Hf end.
      apply XP_geom; apply xarg_val.
    - cbn in Hf. repeat match type of Hf with context [match ?x with _ => _ end] => is_var x; destruct x; try discriminate Hf end.
      apply XP_impulse; apply xarg_val.
  Qed.

  Lemma rpat_xpat : forall p, rpat p -> xpat false p
  with rarg_xarg : forall a, rarg a -> xarg false a.
  Proof.
    - intros p H. destruct H.
      + destruct p; try discriminate H; [apply XP_const|].
        destruct sequence as [| |l| |]; try discriminate H. destruct repeats as [vrep| | | |]; try discriminate H.
        apply XP_seq; [apply scalars_xarg; exact H|apply xarg_val].
      + apply XP_abs, rarg_xarg; assumption.
      + apply XP_int, rarg_xarg; assumption.
      + apply XP_binop; apply rarg_xarg; assumption.
      + apply XP_and; apply rarg_xarg; assumption.
      + apply XP_skipif; apply rarg_xarg; assumption.
      + apply XP_counter, rarg_xarg; assumption.
      + apply XP_pad, rarg_xarg; assumption.
      + apply XP_padm, rarg_xarg; assumption.
      + apply XP_stutter; apply rarg_xarg; assumption.
      + apply XP_series; apply rarg_xarg; assumption.
      + apply XP_range; apply rarg_xarg; assumption.
      + apply XP_geom, rarg_xarg; assumption.
      + apply XP_impulse, rarg_xarg; assumption.
      + apply XP_loop, rarg_xarg; assumption.
      + apply XP_pingpong. discriminate.
      + apply XP_reverse. discriminate.
      + apply XP_changed, rarg_xarg; assumption.
      + apply XP_diff, rarg_xarg; assumption.
      + apply XP_collapse, rarg_xarg; assumption.
      + apply XP_norepeats, rarg_xarg; assumption.
      + apply XP_subsequence; apply rarg_xarg; assumption.
      + apply XP_wrap, rarg_xarg; assumption.
      + apply XP_ref, rarg_xarg; assumption.
      + apply XP_reset; [apply flat_xpat; assumption|apply rarg_xarg; assumption].
    - intros a H. destruct H; [apply xarg_val|apply XA_pat, rpat_xpat; assumption].
  Qed.

  (** * The theorems, read off *)
  Theorem reset_step2 s f f' p : xpat s p -> reset f (snd (step f' p)) = reset f p.
  Proof. apply (proj1 (reset_AB f)). Qed.

  Theorem reset_reset2 f f' p q : xpat true p -> reset f' p = Yield q -> reset f q = reset f p.
  Proof. apply (proj2 (reset_AB f)). Qed.

  (* any history of next() and reset() calls (each with any outcome; a reset() that fails leaves the object as it was) *)
  Inductive hop := HNext | HReset.
  Definition hdo (f' : nat) (p : pat) (o : hop) : pat :=
    match o with
    | HNext => snd (step f' p)
    | HReset => match reset f' p with Yield q => q | _ => p end
    end.
  Definition hrun (f' : nat) (h : list hop) (p : pat) : pat := fold_left (hdo f') h p.

  Lemma hrun_closed f' h : forall p, xpat true p -> xpat true (hrun f' h p).
  Proof.
    induction h as [|o h IH]; intros p Hp; [exact Hp|]. cbn [hrun fold_left]. apply IH. destruct o; cbn [hdo].
    - apply xpat_step_closed. exact Hp.
    - destruct (reset f' p) as [q| | | |] eqn:R; try exact Hp. eapply xpat_reset_closed; eauto.
  Qed.

  Theorem reset_hrun f f' h : forall p, xpat true p -> reset f (hrun f' h p) = reset f p.
  Proof.
    induction h as [|o h IH]; intros p Hp; [reflexivity|]. cbn [hrun fold_left].
    assert (Hp' : xpat true (hdo f' p o)) by (apply (hrun_closed f' [o]); exact Hp).
    change (reset f (hrun f' h (hdo f' p o)) = reset f p). rewrite IH by exact Hp'. destruct o; cbn [hdo].
    - apply (reset_step2 true). exact Hp.
    - destruct (reset f' p) as [q| | | |] eqn:R; try reflexivity. eapply reset_reset2; eauto.
  Qed.

  Lemma run_closed2 s f' k : forall p, xpat s p -> xpat s (run binop LMAX f' k p).
  Proof. induction k as [|k IH]; intros p H; [exact H|]. cbn [run]. apply IH. apply xpat_step_closed. exact H. Qed.

  Theorem reset_run2 s f f' k : forall p, xpat s p -> reset f (run binop LMAX f' k p) = reset f p.
  Proof.
    induction k as [|k IH]; intros p H; [reflexivity|]. cbn [run].
    rewrite IH by (apply xpat_step_closed; exact H). apply reset_step2 with (s := s). exact H.
  Qed.
End Reset2.

(* Pat/TonalStreams.v — the POINTWISE two-input classes of isobar/pattern/tonal.py over PARAMETER STREAMS (property C10:
   "degree and frequency conversion ... on nested combinations of patterns"): PDegree(degree, scale),
   PFilterByKey(pattern, key), PNearestNoteInKey(pattern, key).  Both inputs may be patterns; every step reads ONE value from
   each, first the main input, then the parameter:

       degree = Pattern.value(self.degree); scale = Pattern.value(self.scale); if degree is None: return None; ...
       note = Pattern.value(self.pattern);  key = Pattern.value(self.key);     ...

   so out[n] = f(in[n], param[n]) and a rest in one input never shifts the other.  Operands are ANY objects of Pat/Syntax.v
   (read with Step.value); Scale / Key objects travel through the streams encoded as values:
       Scale(semitones, octave_size)  ~  (semitones, octave_size)        Key(tonic, scale)  ~  (tonic, (semitones, octave_size))
   Scale.get / Key.__contains__ / Key.nearest_note are those of Tonal/Key.v.  No proofs here (Pat/TonalStreamsProofs.v). *)
From Isobar Require Import Base.Prelude Pat.Val Pat.Syntax Pat.Step Pat.Ref Tonal.Key.
From Coq Require Import String.
Open Scope Z_scope.

Fixpoint ints_of (l : list val) : option (list Z) :=
  match l with
  | [] => Some []
  | VInt z :: r => option_map (cons z) (ints_of r)
  | _ => None
  end.
Definition val_scale (v : val) : option scale :=
  match v with
  | VTup [VList l; VInt o] => option_map (fun s => mkScale s o) (ints_of l)
  | _ => None
  end.
Definition val_key (v : val) : option key :=
  match v with
  | VTup [VInt t; sc] => option_map (mkKey t) (val_scale sc)
  | _ => None
  end.
Definition scale_val (s : scale) : val := VTup [VList (map VInt (semis s)); VInt (osize s)].
Definition key_val (k : key) : val := VTup [VInt (tonic k); scale_val (kscale k)].

Inductive tcls := TDegree | TFilterByKey | TNearestNoteInKey.

(* what the class computes from the two values it has read (None = the model does not vouch: Inexact) *)
Definition tonal_h (c : tcls) (x p : val) : val :=
  match c with
  | TDegree =>
      match x, val_scale p with
      | VNone, _ => VNone                                                   (* if degree is None: return None *)
      | VInt d, Some s => VInt (scale_get s d)                               (* scale[degree] *)
      | VTup ds, Some s => match ints_of ds with                             (* tuple(scale[d] for d in degree) *)
                           | Some zs => VTup (map (fun d => VInt (scale_get s d)) zs)
                           | None => VNone
                           end
      | _, _ => VNone
      end
  | TFilterByKey =>
      match x, val_key p with
      | VNone, _ => VNone                                                   (* None in key: True; return note *)
      | VInt n, Some k => if key_contains k n then VInt n else VNone
      | _, _ => VNone
      end
  | TNearestNoteInKey =>
      match x, val_key p with
      | VNone, _ => VNone                                                   (* key.nearest_note(None): None in self *)
      | VInt n, Some k => VInt (nearest_note k n)
      | _, _ => VNone
      end
  end.
(* the inputs the model vouches for: rests / ints (/ tuples of ints for PDegree) and a well-formed non-empty scale / key *)
Definition scale_ok (s : scale) : bool := (0 <? slen s) && (0 <? osize s).
Definition tonal_ok (c : tcls) (x p : val) : bool :=
  match c with
  | TDegree =>
      match val_scale p with
      | Some s => scale_ok s && match x with VNone | VInt _ => true | VTup ds => match ints_of ds with Some _ => true | None => false end | _ => false end
      | None => false
      end
  | _ =>
      match val_key p with
      | Some k => scale_ok (kscale k) && match x with VNone | VInt _ => true | _ => false end
      | None => false
      end
  end.
Definition tonal_comb (c : tcls) (x p : val) : outcome val :=
  if tonal_ok c x p then Yield (tonal_h c x p) else Inexact.

Section Engine.
  Variable binop : op -> val -> val -> outcome val.
  Variable LENGTH_MAX : nat.

  (* the object: its two inputs *)
  Record tobj := mkT { t_cls : tcls; t_in : arg; t_par : arg }.

  Definition tstep (f : nat) (o : tobj) : outcome val * tobj :=
    let '(ox, a') := value binop LENGTH_MAX f (t_in o) in
    match ox with
    | Yield x =>
        let '(op_, b') := value binop LENGTH_MAX f (t_par o) in
        match op_ with
        | Yield p => (tonal_comb (t_cls o) x p, mkT (t_cls o) a' b')
        | _ => (op_, mkT (t_cls o) a' b')
        end
    | _ => (ox, mkT (t_cls o) a' (t_par o))
    end.

  Fixpoint tafter (f j : nat) (o : tobj) : tobj :=
    match j with O => o | S j' => tafter f j' (snd (tstep f o)) end.
  Definition tout (f j : nat) (o : tobj) : outcome val := fst (tstep f (tafter f j o)).
  (* the object denotes s: call j of next() has the outcome at_ s j, for every j *)
  Definition TDen (f : nat) (o : tobj) (s : sem) : Prop := forall j, tout f j o = at_ s j.

  Fixpoint toutputs (f n : nat) (o : tobj) : list (outcome val) :=
    match n with
    | O => []
    | S n' => let '(r, o') := tstep f o in r :: toutputs f n' o'
    end.

  (* correspondence: the object built from two operand expressions, n calls of next(), against the observations *)
  Definition tonal_check (f n : nat) (c : tcls) (ea eb : earg) (expected : list (outcome val)) : nat :=
    match init_arg binop LENGTH_MAX f ea, init_arg binop LENGTH_MAX f eb with
    | Yield a, Yield b =>
        (fix cmp (got exp : list (outcome val)) : nat :=
           match got, exp with
           | [], [] => 0%nat
           | (OutOfFuel | Inexact) :: _, _ => 2%nat
           | Yield u :: r, Yield v :: xs => if val_eqb u v then cmp r xs else 1%nat
           | Stop :: r, Stop :: xs => cmp r xs
           | Raise e :: r, Raise e' :: xs => if exn_eqb e e' then cmp r xs else 1%nat
           | _, _ => 1%nat
           end) (toutputs f n (mkT c a b)) expected
    | _, _ => 2%nat
    end.
End Engine.

(** the reference definition, index by index: the closed form over the two streams *)
Definition ref_tonal (c : tcls) (ins pars : sem) : sem := sem_zip (tonal_h c) ins pars.

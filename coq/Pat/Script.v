(* Pat/Script.v — operation scripts on pattern objects, run on the model, and the comparison of the
   model's observations with the list the implementation produced (typed equality).

   A script works on a list of handles: handle 0 is the object built from the expression, `copy h`
   appends a copy of handle h.  Every operation yields one observation, an [outcome val]:
     next h        the value / Stop / Raise e
     nextn h n     VList of the values (or the exception that escaped)
     all h m       VList of the values; the object is reset
     len h         VInt
     reset h       VNone
     copy h        VNone
     for h n       `for x in p:` with a break after n values = VList of the values
   The first observation of a trace is that of the constructor call itself (VNone on success).
   A model outcome OutOfFuel / Inexact ends the comparison with [Discard]: the model does not vouch
   for anything after it.  No proofs here. *)
From Isobar Require Import Base.Prelude Pat.Val Pat.Syntax Pat.Step.
From Coq Require Import String.

Inductive sop :=
| SNext (h : nat)
| SNextN (h : nat) (n : nat)
| SAll (h : nat) (m : nat)
| SLen (h : nat)
| SReset (h : nat)
| SCopy (h : nat)
| SFor (h : nat) (n : nat).

Inductive verdict := Agree | Disagree | Discard.
Definition verdict_code (v : verdict) : nat := match v with Agree => 0 | Disagree => 1 | Discard => 2 end%nat.

Definition obs_eqb (a b : outcome val) : bool :=
  match a, b with
  | Yield x, Yield y => val_eqb x y
  | Stop, Stop => true
  | Raise e, Raise e' => exn_eqb e e'
  | _, _ => false
  end.

Definition unknown (o : outcome val) : bool :=
  match o with OutOfFuel | Inexact => true | _ => false end.

Section Script.
  Variable binop : op -> val -> val -> outcome val.
  Variable LENGTH_MAX : nat.
  Variable fuel : nat.

  Definition exec (hs : list pat) (o : sop) : outcome val * list pat :=
    let on (h : nat) (k : pat -> outcome val * pat) : outcome val * list pat :=
      match nth_error hs h with
      | Some p => let '(r, p') := k p in (r, update_nth h p' hs)
      | None => (Inexact, hs)
      end in
    match o with
    | SNext h => on h (step binop LENGTH_MAX fuel)
    | SNextN h n => on h (fun p => let '(r, p') := nextn binop LENGTH_MAX fuel n p in (omap VList r, p'))
    | SFor h n => on h (fun p => let '(r, p') := nextn binop LENGTH_MAX fuel n p in (omap VList r, p'))
    | SAll h m => on h (fun p => let '(r, p') := all_ binop LENGTH_MAX fuel m p in (omap VList r, p'))
    | SLen h => on h (fun p => let '(r, p') := len binop LENGTH_MAX fuel p in (omap VInt r, p'))
    | SReset h => on h (fun p => match reset binop LENGTH_MAX fuel p with
                                 | Yield p' => (Yield VNone, p')
                                 | r => (ocast r, p)
                                 end)
    | SCopy h => match nth_error hs h with
                 | Some p => (Yield VNone, hs ++ [copy p])
                 | None => (Inexact, hs)
                 end
    end.

  Fixpoint trace_ops (hs : list pat) (ops : list sop) : list (outcome val) :=
    match ops with
    | [] => []
    | o :: r => let '(ob, hs') := exec hs o in
                if unknown ob then [ob] else ob :: trace_ops hs' r
    end.

  (** the model's observations for `p = <e>; ops` *)
  Definition trace (e : pexpr) (ops : list sop) : list (outcome val) :=
    match init binop LENGTH_MAX fuel e with
    | Yield p => Yield VNone :: trace_ops [p] ops
    | o => [ocast o]
    end.

  Fixpoint compare_ops (hs : list pat) (ops : list sop) (expected : list (outcome val)) : verdict :=
    match ops, expected with
    | [], [] => Agree
    | o :: r, x :: xs =>
        let '(ob, hs') := exec hs o in
        if unknown ob then Discard
        else if obs_eqb ob x then compare_ops hs' r xs else Disagree
    | _, _ => Disagree
    end.

  (** [expected] = the implementation's observations.  If the constructor raised, the implementation's
      list has just that one entry. *)
  Definition check_trace (e : pexpr) (ops : list sop) (expected : list (outcome val)) : verdict :=
    match init binop LENGTH_MAX fuel e, expected with
    | Yield p, Yield VNone :: xs => compare_ops [p] ops xs
    | Yield _, _ => Disagree
    | o, [x] => if unknown (ocast o) then Discard else if obs_eqb (ocast o) x then Agree else Disagree
    | o, _ => if unknown (ocast o) then Discard else Disagree
    end.
End Script.

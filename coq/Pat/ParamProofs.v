(* Pat/ParamProofs.v — lemmas of property C12 over the deep embedding (Pat/Step.v), vocabulary in Pat/Param.v. *)
From Isobar Require Import Base.Prelude Pat.Val Pat.Syntax Pat.Step Pat.StepProofs Pat.Param.
From Coq Require Import String QArith.
Open Scope Z_scope.

Section Param.
  Variable binop : op -> val -> val -> outcome val.
  Variable LMAX : nat.
  Notation step := (step binop LMAX).
  Notation value := (value binop LMAX).
  Notation anext := (anext binop LMAX).
  Notation reset := (reset binop LMAX).
  Notation outputs := (outputs binop LMAX).
  Notation driven := (driven binop LMAX).

  Ltac unfold_step :=
    cbn [Step.step];
    fold (Step.value binop LMAX); fold (Step.anext binop LMAX); fold (Step.step binop LMAX);
    fold (Step.reset binop LMAX); fold (Step.areset_strict binop LMAX); fold (Step.aall binop LMAX).
  Ltac unfold_step_in H :=
    cbn [Step.step] in H;
    fold (Step.value binop LMAX) in H; fold (Step.anext binop LMAX) in H; fold (Step.step binop LMAX) in H;
    fold (Step.reset binop LMAX) in H; fold (Step.areset_strict binop LMAX) in H; fold (Step.aall binop LMAX) in H.

  (** * get / set *)
  Lemma vfield_with p i a b : vfield p i = Some a -> vfield (with_vfield p i b) i = Some b.
  Proof. destruct p; destruct i as [|[|i]]; simpl; intros H; try discriminate; reflexivity. Qed.

  Lemma with_with p i a b c : vfield p i = Some a -> with_vfield (with_vfield p i b) i c = with_vfield p i c.
  Proof. destruct p; destruct i as [|[|i]]; simpl; intros H; try discriminate; reflexivity. Qed.

  Lemma with_same p i a : vfield p i = Some a -> with_vfield p i a = p.
  Proof. destruct p; destruct i as [|[|i]]; simpl; intros H; try discriminate; inversion H; reflexivity. Qed.

  (** * 1. scalar, PConstant and references to it *)

  (** a constant-like operand is a fixed point of Pattern.value: it answers x and does not change *)
  Definition fixedv (f : nat) (x : val) (a : arg) : Prop := value f a = (Yield x, a).

  Lemma konst_fixed x d a : konst x d a -> forall f, (2 * d + 1 <= f)%nat -> fixedv f x a.
  Proof.
    induction 1; intros f Hf; unfold fixedv.
    - destruct f; [lia | reflexivity].
    - destruct f as [|[|f]]; try lia; reflexivity.
    - destruct f as [|[|f]]; try lia.
      change (value (S (S f)) (AP (PRef a))) with (let '(o, p') := step (S f) (PRef a) in (o, AP p')).
      change (step (S f) (PRef a)) with (let '(o, a') := anext f a in (o, PRef a')).
      assert (Ha : anext f a = (Yield x, a)).
      { assert (Hv : fixedv f x a) by (apply IHkonst; lia).
        inversion H; subst; destruct f; try lia; exact Hv. }
      rewrite Ha. reflexivity.
  Qed.

  (* a scrutinee that contains no further match first (PArrayIndex binds the result of a nested match with
     `let '(o, l, i) := .. in`), any scrutinee otherwise *)
  Ltac crush_matches :=
    repeat (first
      [ match goal with
        | |- context [match ?X with _ => _ end] =>
            lazymatch X with
            | context [match _ with _ => _ end] => fail
            | _ => destruct X
            end
        end
      | match goal with
        | |- context [match ?X with _ => _ end] => destruct X
        end ]; cbv beta iota).

  (** replacing a constant-like parameter by another constant-like parameter of the same value changes neither the
      outcome of next() nor the rest of the state; the parameter itself is left as it was *)
  Lemma const_field_step p i a b x f :
    vfield p i = Some a -> fixedv f x a -> fixedv f x b ->
    step (S f) (with_vfield p i b) = (let '(o, p') := step (S f) p in (o, with_vfield p' i b)) /\
    vfield (snd (step (S f) p)) i = Some a.
  Proof.
    unfold fixedv. intros H Ha Hb.
    destruct p; destruct i as [|[|i]]; simpl in H; try discriminate; inversion H; subst; clear H;
      cbn [with_vfield vfield snd]; unfold_step; rewrite ?Ha, ?Hb; split; crush_matches; reflexivity.
  Qed.
  (** n steps *)
  Lemma const_field_outputs x a b f i : fixedv f x a -> fixedv f x b ->
    forall n p, vfield p i = Some a ->
    outputs (S f) n (with_vfield p i b) =
      (let '(os, p') := outputs (S f) n p in (os, with_vfield p' i b)) /\
    vfield (snd (outputs (S f) n p)) i = Some a.
  Proof.
    intros Ha Hb. induction n; intros p H.
    - simpl. auto.
    - cbn [Step.outputs].
      destruct (const_field_step p i a b x f H Ha Hb) as [E1 E2].
      rewrite E1. destruct (step (S f) p) as [o p1] eqn:Es. cbn [snd] in E2.
      destruct (IHn p1 E2) as [E3 E4]. rewrite E3.
      destruct (outputs (S f) n p1) as [os pn]. cbn [snd] in *. auto.
  Qed.

  (** 2. a varying parameter *)
  Lemma varying_field_step p i q w q' f v p1 :
    vfield p i = Some (AP q) -> step f q = (Yield w, q') ->
    step (S (S f)) (with_vfield p i (AV w)) = (Yield v, p1) ->
    step (S (S f)) p = (Yield v, with_vfield p1 i (AP q')) /\ vfield p1 i = Some (AV w).
  Proof.
    intros H Hq Hs.
    destruct p; destruct i as [|[|i]]; cbn [vfield] in H; try discriminate; inversion H; subst; clear H;
      cbn [with_vfield] in Hs; unfold_step_in Hs; unfold_step; rewrite ?Hq;
      repeat (first
        [ match type of Hs with
          | context [match ?X with _ => _ end] =>
              lazymatch X with
              | context [match _ with _ => _ end] => fail
              | _ => destruct X eqn:?
              end
          end
        | match type of Hs with
          | context [match ?X with _ => _ end] => destruct X eqn:?
          end ]; cbv beta iota in Hs |- *); try discriminate; inversion Hs; subst; split; reflexivity.
  Qed.
End Param.

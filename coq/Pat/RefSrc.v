(* Pat/RefSrc.v — the closed forms of Pat/RefProofs.v (property C10), restated for the definitions generated from the
   source text (Generated/TablesStep.v) through the tie lemmas of Pat/StepSrc.v.

   [SrcDen f p s]: the object p denotes s when every call of __next__ on it is executed as the SOURCE TEXT of its class
   defines it ([src_step]: the translated body applied to the object's fields; the operands are run by the engine).
   [src_built]: the object a constructor call builds, __init__ executed as the source text defines it.
   Lemmas only; the property theorems are in Props/C10Src.v. *)
From Isobar Require Import Base.Prelude Pat.Val Pat.Syntax Pat.Step Pat.StepProofs Pat.Ref Pat.RefProofs
  Generated.TablesStep Pat.StepSrc.
From Coq Require Import String QArith.
Open Scope Z_scope.

Section SrcDen.
  Variable binop : op -> val -> val -> outcome val.
  Variable LMAX : nat.
  Notation src_step := (src_step binop LMAX).
  Notation Den := (Den binop LMAX).
  Notation ADen := (ADen binop LMAX).
  Notation value := (value binop LMAX).
  Notation reset := (reset binop LMAX).

  Fixpoint src_after (f j : nat) (p : pat) : pat :=
    match j with O => p | S j' => src_after f j' (snd (src_step f p)) end.
  Definition src_out (f j : nat) (p : pat) : outcome val := fst (src_step f (src_after f j p)).
  Definition SrcDen (f : nat) (p : pat) (s : sem) : Prop := forall j, src_out f j p = at_ s j.

  Lemma src_after_is f j : forall p, src_after f j p = after binop LMAX f j p.
  Proof. induction j as [|j IH]; intro p; [reflexivity|]. cbn [src_after after]. rewrite src_step_is. apply IH. Qed.

  Theorem SrcDen_iff f p s : SrcDen f p s <-> Den f p s.
  Proof.
    unfold SrcDen, RefProofs.Den, src_out, out.
    split; intros H j; specialize (H j); rewrite src_after_is, src_step_is in *; exact H.
  Qed.

  (** the closed forms, about the source-generated __next__ *)
  Theorem src_series_den f a d n :
    SrcDen (S (S f)) (PSeries (VInt a) (VInt a) (AV (VInt d)) (AV (VInt (Z.of_nat n))) 0) (Fin (ref_series a d n)).
  Proof. apply SrcDen_iff. apply series_den. Qed.

  Theorem src_range_den f a e d : d <> 0 ->
    SrcDen (S (S f)) (PRange (VInt a) (AV (VInt e)) (AV (VInt d)) (VInt a)) (Fin (ref_range a e d)).
  Proof. intro H. apply SrcDen_iff. apply range_den. exact H. Qed.

  Theorem src_geom_den f a m n :
    SrcDen (S (S f)) (PGeom (VInt a) (VInt a) (AV (VInt m)) (VInt (Z.of_nat n)) 0) (Fin (ref_geom a m n)).
  Proof. apply SrcDen_iff. apply geom_den. Qed.

  Theorem src_sequence_den f (l : list val) (r : nat) :
    SrcDen (S (S f)) (PSequence (AL (map AV l)) (AV (VInt (Z.of_nat r))) 0 0) (Fin (ref_sequence l r)).
  Proof. apply SrcDen_iff. apply sequence_den. Qed.

  Theorem src_constant_den f c : SrcDen (S f) (PConstant c) (Inf (fun _ => c)).
  Proof. apply SrcDen_iff. apply constant_den. Qed.

  Theorem src_stutter_den f c s k : (0 < k)%nat -> Den f c s ->
    SrcDen (S (S f)) (PStutter (AP c) (AV (VInt (Z.of_nat k))) (VInt 0) 0 (VInt 0)) (sem_stutter k s).
  Proof. intros. apply SrcDen_iff. apply stutter_den; assumption. Qed.

  Theorem src_pad_den f c s n : Den f c s ->
    SrcDen (S (S f)) (PPad (AP c) (VInt (Z.of_nat n)) 0) (sem_pad n s).
  Proof. intros. apply SrcDen_iff. apply pad_den; assumption. Qed.

  Theorem src_abs_den f a s : ADen f a s -> (forall j v, at_ s j = Yield v -> absable v) ->
    SrcDen (S f) (PAbs a) (sem_map abs1 s).
  Proof. intros. apply SrcDen_iff. apply abs_den; assumption. Qed.

  Theorem src_skipif_den f a b sa sb : ADen f a sa -> ADen f b sb ->
    SrcDen (S f) (PSkipIf a b) (sem_zip skip1 sa sb).
  Proof. intros. apply SrcDen_iff. apply skipif_den; assumption. Qed.

  Theorem src_binop_den f o a b sa sb h : ADen f a sa -> ADen f b sb ->
    (forall j va vb, at_ sa j = Yield va -> at_ sb j = Yield vb -> elem_op binop o va vb = Yield (h va vb)) ->
    SrcDen (S f) (PBinOp o a b) (sem_zip h sa sb).
  Proof. intros. apply SrcDen_iff. apply binop_den; assumption. Qed.

  Theorem src_changed_den f a s v0 : ADen f a s -> at_ s 0 = Yield v0 ->
    SrcDen (S f) (PChanged (aafter binop LMAX f 1 a) v0) (sem_adj changed1 s).
  Proof. intros. apply SrcDen_iff. apply changed_den; assumption. Qed.

  Theorem src_diff_den f a s v0 : ADen f a s -> at_ s 0 = Yield v0 ->
    (forall j v, at_ s j = Yield v -> intish v) ->
    SrcDen (S f) (PDiff (aafter binop LMAX f 1 a) v0) (sem_adj diff1 s).
  Proof. intros. apply SrcDen_iff. apply diff_den; assumption. Qed.

  (** ... and about the source-generated __init__: what the constructor call builds denotes the closed form *)
  Theorem src_series_built f F a d n p :
    src_PSeries_init (reset F) value F (VInt a) (AV (VInt d)) (AV (VInt (Z.of_nat n))) = Yield p ->
    SrcDen (S (S f)) p (Fin (ref_series a d n)).
  Proof. intro H. injection H as <-. apply src_series_den. Qed.

  Theorem src_geom_built f F a m n p :
    src_PGeom_init (reset F) value F (VInt a) (AV (VInt m)) (VInt (Z.of_nat n)) = Yield p ->
    SrcDen (S (S f)) p (Fin (ref_geom a m n)).
  Proof. intro H. injection H as <-. apply src_geom_den. Qed.

  (* PRange.__init__ ends with self.reset(): the translated reset runs on the scalar operands *)
  Theorem src_range_built f F a e d p : d <> 0 ->
    src_PRange_init (reset F) value F (VInt a) (AV (VInt e)) (AV (VInt d)) = Yield p ->
    SrcDen (S (S f)) p (Fin (ref_range a e d)).
  Proof. intros Hd H. injection H as <-. apply src_range_den. exact Hd. Qed.
End SrcDen.

(* Pat/Chance.v — executable model of isobar's stochastic patterns (isobar/pattern/chance.py,
   markov.py PMarkov, util.py normalize/windex/wnchoice) for property C11.

   The random generator is NOT modelled (Mersenne Twister is trusted).  It enters as an oracle:
     R        the type of generator states (random.Random instances),
     r_unit   one call of  rng.random()      -> numerator k of the float k / 2^53, and the new state,
     r_below  one call of  rng._randbelow(n) -> an integer, and the new state,
     r_seed   rng.seed(s)                    -> the state determined by the seed s alone.
   All of random.Random's derived methods used by isobar reduce to these two primitives in CPython 3.12:
     uniform(a,b) = a + (b-a)*random();  randint(a,b) = randrange(a,b+1) = a + _randbelow(b-a+1);
     choice(seq) = seq[_randbelow(len(seq))];  shuffle(x) = for i in n-1..1: j=_randbelow(i+1); swap x[i],x[j].
   Floats are exact rationals: the float returned by random() is uq k = k / 2^53 exactly; float
   arithmetic on it is modelled without rounding (the correspondence check encloses the float result).
   Each class is a machine: initial state + total step function of (state, generator state).
   No proofs here. *)
From Isobar Require Import Base.Prelude.
From Coq Require Import QArith Qround Qabs.
Local Notation length := List.length (only parsing).
Open Scope Z_scope.

(** * Values and outcomes *)
Inductive oval := OZ (z : Z) | OQ (q : Q) | ONone | OL (l : list Z).
Inductive res := Out (v : oval) | Stop | Fail.   (* value | StopIteration | any other exception *)

Definition oval_eqb (a b : oval) : bool :=
  match a, b with
  | OZ x, OZ y => x =? y
  | OQ x, OQ y => Qeq_bool x y
  | ONone, ONone => true
  | OL x, OL y => list_eqb Z.eqb x y
  | _, _ => false
  end.
Definition res_eqb (a b : res) : bool :=
  match a, b with
  | Out x, Out y => oval_eqb x y
  | Stop, Stop => true
  | Fail, Fail => true
  | _, _ => false
  end.

Definition two53 : Z := 9007199254740992.
Definition uq (k : Z) : Q := k # 9007199254740992.            (* the float k / 2^53, exactly *)
Definition Qltb (a b : Q) : bool := negb (Qle_bool b a).
Definition Qtrunc (q : Q) : Z := if Qle_bool 0 q then Qfloor q else Qceiling q.   (* int(x) *)
Definition Qmin' (a b : Q) : Q := if Qle_bool a b then a else b.
Definition Qmax' (a b : Q) : Q := if Qle_bool a b then b else a.
Definition zlen {A} (l : list A) : Z := Z.of_nat (length l).

(* Python list indexing l[i] with negative indices; None = IndexError *)
Definition pyidx {A} (l : list A) (i : Z) : option A :=
  let n := zlen l in
  if (0 <=? i) && (i <? n) then nth_error l (Z.to_nat i)
  else if (- n <=? i) && (i <? 0) then nth_error l (Z.to_nat (i + n))
  else None.
Definition pynorm {A} (l : list A) (i : Z) : Z := if i <? 0 then i + zlen l else i.

Fixpoint upd {A} (i : nat) (x : A) (l : list A) : list A :=
  match l, i with
  | [], _ => []
  | _ :: r, O => x :: r
  | y :: r, S i' => y :: upd i' x r
  end.
(* x[i], x[j] = x[j], x[i]  for in-range non-negative i, j *)
Definition swap (i j : nat) (l : list Z) : list Z :=
  upd i (nth j l 0) (upd j (nth i l 0) l).
(* list.pop(i) for 0 <= i < len *)
Fixpoint remove_nth {A} (i : nat) (l : list A) : list A :=
  match l, i with
  | [], _ => []
  | _ :: r, O => r
  | y :: r, S i' => y :: remove_nth i' r
  end.

Fixpoint qsum (l : list Q) : Q := match l with [] => 0%Q | x :: r => (x + qsum r)%Q end.

(** * util.py: normalize, windex (the uniform draw n is passed in) *)
(* normalize: if sum(array) == 0: return array; return [n / sum(array) for n in array] *)
Definition normalize (ws : list Q) : list Q :=
  let s := qsum ws in if Qeq_bool s 0 then ws else map (fun w => (w / s)%Q) ws.
(* windex: for i in range(len(weights)): if n < weights[i]: return i; n = n - weights[i]   (falls off: None) *)
Fixpoint windex_from (ws : list Q) (n : Q) (i : Z) : option Z :=
  match ws with
  | [] => None
  | w :: r => if Qltb n w then Some i else windex_from r (n - w)%Q (i + 1)
  end.
Definition windex (ws : list Q) (u : Q) : option Z := windex_from ws u 0.
Definition wnindex (ws : list Q) (u : Q) : option Z := windex (normalize ws) u.

(** * Machines over an oracle generator *)
Section RNG.
  Variable R : Type.
  Variable r_unit : R -> Z * R.
  Variable r_below : Z -> R -> Z * R.
  Variable r_seed : Z -> R.

  Definition d_unit (g : R) : Q * R := let (k, g') := r_unit g in (uq k, g').

  Record machine (S : Type) := mkMachine { m_init : S; m_step : S -> R -> res * S * R }.
  Arguments m_init {S}. Arguments m_step {S}.

  (** ** PWhite(min, max, length): chance.py PWhite.__next__
      index += 1; if length > 0 and index > length: StopIteration;
      float mode: uniform(min,max); int mode: int(uniform(min,max)).  reset() rewinds index. *)
  Definition white_step (is_f : bool) (mn mx : Q) (len : Z) (idx : Z) (g : R) : res * Z * R :=
    let idx' := idx + 1 in
    if (0 <? len) && (len <? idx') then (Stop, idx', g)
    else let (u, g') := d_unit g in
         let x := (mn + (mx - mn) * u)%Q in
         (Out (if is_f then OQ x else OZ (Qtrunc x)), idx', g').
  Definition white (is_f : bool) (mn mx : Q) (len : Z) : machine Z :=
    mkMachine Z 0 (white_step is_f mn mx len).

  (** ** PBrown, int mode (type(step) is int): value += rng.choice(range(-step, step+1)); clamp; returns the OLD value *)
  Definition brown_step (step mn mx : Z) (v : Z) (g : R) : res * Z * R :=
    if step <? 0 then (Fail, v, g)                    (* choice of an empty list: IndexError *)
    else let (i, g') := r_below (2 * step + 1) g in
         (Out (OZ v), Z.min (Z.max (v + (i - step)) mn) mx, g').
  Definition brown (init step mn mx : Z) : machine Z := mkMachine Z init (brown_step step mn mx).
  (* float mode: value += uniform(-step, step); value = min(max(value, vmin), vmax) *)
  Definition brown_next_f (step mn mx : Q) (v : Q) (u : Q) : Q :=
    Qmin' (Qmax' (v + (- step + (step - - step) * u)) mn) mx.
  Definition brown_step_f (step mn mx : Q) (v : Q) (g : R) : res * Q * R :=
    let (u, g') := d_unit g in (Out (OQ v), brown_next_f step mn mx v u, g').
  Definition brown_f (init step mn mx : Q) : machine Q := mkMachine Q init (brown_step_f step mn mx).

  (** ** PCoin(probability), regular = False: 1 if uniform(0,1) < probability else 0 *)
  Definition coin_step (p : Q) (s : unit) (g : R) : res * unit * R :=
    let (u, g') := d_unit g in (Out (OZ (if Qltb u p then 1 else 0)), s, g').
  Definition coin (p : Q) : machine unit := mkMachine unit tt (coin_step p).

  (** ** PFlipFlop(initial, p_on, p_off) *)
  Definition flipflop_step (p_on p_off : Q) (v : Z) (g : R) : res * Z * R :=
    let (u, g') := d_unit g in
    let v' := if v =? 0 then (if Qltb u p_on then 1 else v) else (if Qltb u p_off then 0 else v) in
    (Out (OZ v'), v', g').
  Definition flipflop (init : Z) (p_on p_off : Q) : machine Z := mkMachine Z init (flipflop_step p_on p_off).

  (** ** PSkip(pattern, play), regular = False; the input is a finite sequence of values/rests *)
  Definition oopt (x : option Z) : oval := match x with Some z => OZ z | None => ONone end.
  Definition skip_step (play : Q) (rem : list (option Z)) (g : R) : res * list (option Z) * R :=
    match rem with
    | [] => (Stop, [], g)                              (* the input's StopIteration propagates, no draw *)
    | x :: r => let (u, g') := d_unit g in (Out (if Qltb u play then oopt x else ONone), r, g')
    end.
  Definition skip (input : list (option Z)) (play : Q) : machine (list (option Z)) :=
    mkMachine _ input (skip_step play).

  (** ** PRandomWalk(values, min, max, wrap): move = randint(min,max); negate if uniform(0,1) < 0.5; pos += move *)
  Definition walk_move (mn mx : Z) (g : R) : option (Z * R) :=
    let width := mx - mn + 1 in
    if width <=? 0 then None                           (* randrange: ValueError, nothing drawn *)
    else let (i, g1) := r_below width g in
         let (u, g2) := d_unit g1 in
         Some (if Qltb u (1 # 2) then - (mn + i) else mn + i, g2).
  Definition walk_step (values : list Z) (mn mx : Z) (wrap : bool) (pos : Z) (g : R) : res * Z * R :=
    match walk_move mn mx g with
    | None => (Fail, pos, g)
    | Some (move, g2) =>
      let n := zlen values in
      if wrap && (n =? 0) then (Fail, pos, g2)        (* the real code loops forever: outside the domain *)
      else let pos' := if wrap then (pos + move) mod n else pos + move in
           match pyidx values pos' with
           | Some v => (Out (OZ v), pos', g2)
           | None => (Fail, pos', g2)
           end
    end.
  Definition walk (values : list Z) (mn mx : Z) (wrap : bool) : machine Z :=
    mkMachine Z 0 (walk_step values mn mx wrap).

  (** ** rng.choice(seq) and util.wnchoice(array, weights, rng) *)
  Definition choice {A} (l : list A) (g : R) : option A * R :=
    if zlen l =? 0 then (None, g)                      (* IndexError, nothing drawn *)
    else let (i, g') := r_below (zlen l) g in (nth_error l (Z.to_nat i), g').
  Definition wnchoice {A} (l : list A) (ws : list Q) (g : R) : option A * R :=
    let (u, g') := d_unit g in
    match wnindex ws u with
    | Some i => (nth_error l (Z.to_nat i), g')
    | None => (None, g')                               (* array[None]: TypeError *)
    end.

  (** ** PChoice(values, weights) *)
  Definition choice_step (values : list Z) (ws : option (list Q)) (s : unit) (g : R) : res * unit * R :=
    let (r, g') := match ws with Some w => wnchoice values w g | None => choice values g end in
    (match r with Some v => Out (OZ v) | None => Fail end, s, g').
  Definition pchoice (values : list Z) (ws : option (list Q)) : machine unit :=
    mkMachine unit tt (choice_step values ws).

  (** ** PSample(values, count, weights): count picks without replacement *)
  Fixpoint sample_loop (n : nat) (vals : list Z) (ws : list Q) (acc : list Z) (g : R) : option (list Z) * R :=
    match n with
    | O => (Some (rev acc), g)
    | S n' =>
      match ws with
      | _ :: _ =>                                       (* if vweights: *)
        let (oi, g') := wnchoice (map Z.of_nat (seq 0 (length vals))) ws g in
        match oi with
        | Some i => if i <? zlen ws then
                      sample_loop n' (remove_nth (Z.to_nat i) vals) (remove_nth (Z.to_nat i) ws)
                                  (nth (Z.to_nat i) vals 0 :: acc) g'
                    else (None, g')
        | None => (None, g')
        end
      | [] =>
        if zlen vals =? 0 then (None, g)               (* randrange(0, 0): ValueError *)
        else let (i, g') := r_below (zlen vals) g in
             sample_loop n' (remove_nth (Z.to_nat i) vals) [] (nth (Z.to_nat i) vals 0 :: acc) g'
      end
    end.
  Definition sample_step (values : list Z) (count : Z) (ws : list Q) (s : unit) (g : R) : res * unit * R :=
    if zlen values <? count then (Fail, s, g)          (* ValueError *)
    else let (r, g') := sample_loop (Z.to_nat count) values ws [] g in
         (match r with Some l => Out (OL l) | None => Fail end, s, g').
  Definition psample (values : list Z) (count : Z) (ws : list Q) : machine unit :=
    mkMachine unit tt (sample_step values count ws).

  (** ** rng.shuffle(x): for i in reversed(range(1, len(x))): j = randbelow(i + 1); x[i], x[j] = x[j], x[i] *)
  Fixpoint shuffle_loop (i : nat) (l : list Z) (g : R) : list Z * R :=
    match i with
    | O => (l, g)
    | S i' => let (j, g') := r_below (Z.of_nat i + 1) g in
              shuffle_loop i' (swap i (Z.to_nat j) l) g'
    end.
  Definition shuffle (l : list Z) (g : R) : list Z * R := shuffle_loop (pred (length l)) l g.

  (** ** PShuffle(values, repeats): shuffles when pos == 0 on entry (i.e. once per reset), repeats blocks *)
  Record shuf_state := mkShuf { sh_vals : list Z; sh_pos : Z; sh_rcount : Z }.
  Definition pshuffle_step (repeats : Z) (s : shuf_state) (g : R) : res * shuf_state * R :=
    let (vals, g') := if sh_pos s =? 0 then shuffle (sh_vals s) g else (sh_vals s, g) in
    if zlen vals <=? sh_pos s then
      let rc := sh_rcount s + 1 in
      if repeats <=? rc then (Stop, mkShuf vals (sh_pos s) rc, g')
      else match pyidx vals 0 with
           | Some v => (Out (OZ v), mkShuf vals 1 rc, g')
           | None => (Fail, mkShuf vals 0 rc, g')
           end
    else match pyidx vals (sh_pos s) with
         | Some v => (Out (OZ v), mkShuf vals (sh_pos s + 1) (sh_rcount s), g')
         | None => (Fail, mkShuf vals (sh_pos s) (sh_rcount s), g')
         end.
  Definition pshuffle (values : list Z) (repeats : Z) : machine shuf_state :=
    mkMachine _ (mkShuf values 0 0) (pshuffle_step repeats).

  (** ** PShuffleInput(pattern, every): every block takes `every` values from the input and reorders them *)
  Record shin_state := mkShin { si_rem : list Z; si_vals : list Z; si_pos : Z }.
  Definition shin_step (every : Z) (s : shin_state) (g : R) : res * shin_state * R :=
    let pos := if zlen (si_vals s) <=? si_pos s then 0 else si_pos s in
    let '(rem, vals, g') :=
      if pos =? 0 then
        let k := Z.to_nat every in
        let (v, g1) := shuffle (firstn k (si_rem s)) g in (skipn k (si_rem s), v, g1)
      else (si_rem s, si_vals s, g) in
    (* an empty block (input exhausted, or every = 0) ends the pattern: StopIteration, raised before the shuffle
       (repo fix 96adb47; the pinned code indexed the empty block: IndexError) *)
    if (pos =? 0) && (match firstn (Z.to_nat every) (si_rem s) with [] => true | _ => false end)
    then (Stop, mkShin (skipn (Z.to_nat every) (si_rem s)) [] 0, g) else
    match pyidx vals pos with
    | Some v => (Out (OZ v), mkShin rem vals (pos + 1), g')
    | None => (Fail, mkShin rem vals pos, g')
    end.
  Definition shuffle_input (input : list Z) (every : Z) : machine shin_state :=
    mkMachine _ (mkShin input [] 0) (shin_step every).

  (** ** PSwitchOne(pattern, length) *)
  Definition switch_step (len : Z) (s : shin_state) (g : R) : res * shin_state * R :=
    if zlen (si_vals s) <? len then
      match si_rem s with
      | [] => (Stop, s, g)
      | x :: r => (Out (OZ x), mkShin r (si_vals s ++ [x]) (si_pos s + 1), g)
      end
    else
      let n := zlen (si_vals s) in
      let '(ovals, pos, g') :=
        if n <=? si_pos s then
          let (k, g1) := r_below (n + 1) g in           (* randint(0, n) *)
          if n =? 0 then (None, si_pos s, g1)           (* (index + 1) % 0: ZeroDivisionError *)
          else let index := k - 1 in
               let indexP := (index + 1) mod n in
               (Some (swap (Z.to_nat (pynorm (si_vals s) index)) (Z.to_nat indexP) (si_vals s)), 0, g1)
        else (Some (si_vals s), si_pos s, g) in
      match ovals with
      | None => (Fail, s, g')
      | Some vals =>
        match pyidx vals pos with
        | Some v => (Out (OZ v), mkShin (si_rem s) vals (pos + 1), g')
        | None => (Fail, mkShin (si_rem s) vals pos, g')
        end
      end.
  Definition switch_one (input : list Z) (len : Z) : machine shin_state :=
    mkMachine _ (mkShin input [] 0) (switch_step len).

  (** ** PMarkov(nodes): nodes is an insertion-ordered dict  key -> list of successors *)
  Definition nodes_t := list (Z * list Z).
  Fixpoint lookup (k : Z) (nodes : nodes_t) : option (list Z) :=
    match nodes with
    | [] => None
    | (k', l) :: r => if k =? k' then Some l else lookup k r
    end.
  Definition markov_step (nodes : nodes_t) (node : option Z) (g : R) : res * option Z * R :=
    let (node1, g1) := match node with
                       | None => if zlen nodes =? 0 then (None, g) else choice (map fst nodes) g
                       | Some _ => (node, g)
                       end in
    match node1 with
    | None => (Stop, node1, g1)
    | Some k =>
      match lookup k nodes with
      | None => (Stop, node1, g1)
      | Some [] => (Stop, node1, g1)
      | Some succs => let (o, g2) := choice succs g1 in
                      match o with
                      | Some y => (Out (OZ y), Some y, g2)
                      | None => (Fail, node1, g2)
                      end
      end
    end.
  Definition markov (nodes : nodes_t) : machine (option Z) := mkMachine _ None (markov_step nodes).

  (* MarkovLearner.register over a list: keys in order of first appearance; each adjacent pair (a, b)
     appends b to nodes[a] *)
  Fixpoint add_key (k : Z) (nodes : nodes_t) : nodes_t :=
    match nodes with
    | [] => [(k, [])]
    | (k', l) :: r => if k =? k' then nodes else (k', l) :: add_key k r
    end.
  Fixpoint add_succ (k y : Z) (nodes : nodes_t) : nodes_t :=
    match nodes with
    | [] => []
    | (k', l) :: r => if k =? k' then (k', l ++ [y]) :: r else (k', l) :: add_succ k y r
    end.
  Fixpoint learn_from (last : option Z) (xs : list Z) (nodes : nodes_t) : nodes_t :=
    match xs with
    | [] => nodes
    | x :: r => let n1 := add_key x nodes in
                let n2 := match last with Some a => add_succ a x n1 | None => n1 end in
                learn_from (Some x) r n2
    end.
  Definition learn (xs : list Z) : nodes_t := learn_from None xs [].

  (** * Instances, operations, scripts (PStochasticPattern.seed / reset) *)
  Inductive op := Next | Reset | Seed (s : Z).
  Record inst (S : Type) := mkInst { i_st : S; i_gen : R; i_seed : Z }.
  Arguments i_st {S}. Arguments i_gen {S}. Arguments i_seed {S}. Arguments mkInst {S}.

  (* P(args).seed(s) on a new object: constructors of the modelled classes draw nothing *)
  Definition fresh {S} (m : machine S) (s : Z) : inst S := mkInst (m_init m) (r_seed s) s.

  Definition do_op {S} (m : machine S) (i : inst S) (o : op) : inst S * option res :=
    match o with
    | Next => let '(r, st', g') := m_step m (i_st i) (i_gen i) in (mkInst st' g' (i_seed i), Some r)
    | Reset => (mkInst (m_init m) (r_seed (i_seed i)) (i_seed i), None)     (* reset(): state + rng.seed(_seed) *)
    | Seed s => (mkInst (i_st i) (r_seed s) s, None)                        (* seed(s): _seed = s; rng.seed(s) *)
    end.

  Fixpoint run_st {S} (m : machine S) (i : inst S) (ops : list op) : inst S * list res :=
    match ops with
    | [] => (i, [])
    | o :: r => let (i', e) := do_op m i o in
                let (i'', es) := run_st m i' r in
                (i'', match e with Some x => x :: es | None => es end)
    end.
  Definition run {S} (m : machine S) (i : inst S) (ops : list op) : list res := snd (run_st m i ops).
  Definition after {S} (m : machine S) (i : inst S) (ops : list op) : inst S := fst (run_st m i ops).

  (** * A world of several patterns plus Python's global generator (for the isolation theorem) *)
  Section World.
    Variable S : Type.
    Variable M : nat -> machine S.                 (* the pattern with identity id *)
    Record world := mkWorld { w_inst : nat -> inst S; w_glob : R }.
    Inductive wop :=
    | WP (id : nat) (o : op)                       (* an operation on pattern id *)
    | WGUnit | WGBelow (n : Z) | WGSeed (s : Z).   (* random.random(), random.randrange(n), random.seed(s) *)
    Definition set_inst (f : nat -> inst S) (id : nat) (i : inst S) : nat -> inst S :=
      fun k => if Nat.eqb k id then i else f k.
    Definition wstep (w : world) (o : wop) : world * option (nat * res) :=
      match o with
      | WP id o => let (i', e) := do_op (M id) (w_inst w id) o in
                   (mkWorld (set_inst (w_inst w) id i') (w_glob w),
                    match e with Some r => Some (id, r) | None => None end)
      | WGUnit => (mkWorld (w_inst w) (snd (r_unit (w_glob w))), None)
      | WGBelow n => (mkWorld (w_inst w) (snd (r_below n (w_glob w))), None)
      | WGSeed s => (mkWorld (w_inst w) (r_seed s), None)
      end.
    Fixpoint wrun (w : world) (ops : list wop) : list (nat * res) :=
      match ops with
      | [] => []
      | o :: r => let (w', e) := wstep w o in
                  match e with Some x => x :: wrun w' r | None => wrun w' r end
      end.
    Fixpoint proj (id : nat) (ops : list wop) : list op :=
      match ops with
      | [] => []
      | WP k o :: r => if Nat.eqb k id then o :: proj id r else proj id r
      | _ :: r => proj id r
      end.
    Fixpoint outputs_of (id : nat) (es : list (nat * res)) : list res :=
      match es with
      | [] => []
      | (k, r) :: t => if Nat.eqb k id then r :: outputs_of id t else outputs_of id t
      end.
  End World.
End RNG.

Arguments m_init {R S}. Arguments m_step {R S}.
Arguments i_st {R S}. Arguments i_gen {R S}. Arguments i_seed {R S}. Arguments mkInst {R S}.

(** * The replay generator used by the correspondence check: the generator state is the list of results
      the real random.Random returned (recorded by the harness), consumed in order; every request is logged
      (0 for random(), n for _randbelow(n)) so that the model's requests can be compared with the real ones.
      Results are reduced into the legal range, which is the identity on everything a real generator returns. *)
Record replay := mkReplay { rp_rest : list Z; rp_reqs : list Z; rp_under : bool }.
Definition rp_unit (g : replay) : Z * replay :=
  match rp_rest g with
  | [] => (0, mkReplay [] (0 :: rp_reqs g) true)
  | k :: r => (k mod two53, mkReplay r (0 :: rp_reqs g) (rp_under g))
  end.
Definition rp_below (n : Z) (g : replay) : Z * replay :=
  match rp_rest g with
  | [] => (0, mkReplay [] (n :: rp_reqs g) true)
  | k :: r => (k mod n, mkReplay r (n :: rp_reqs g) (rp_under g))
  end.
(* epochs: the draws recorded after the e-th seed()/reset() of the script *)
Definition rp_seed (epochs : list (list Z)) (e : Z) : replay := mkReplay (nth (Z.to_nat e) epochs []) [] false.

(* the request log of the final epoch, oldest first, and whether the recorded draws were exactly used up *)
Definition rp_log (g : replay) : list Z := rev (rp_reqs g).
Definition rp_exact (g : replay) : bool := negb (rp_under g) && match rp_rest g with [] => true | _ => false end.

(** * Script checker of the correspondence: runs [do_op] (the function the theorems speak about) over the
      replay generator, compares every output with the implementation's and, at every re-seed and at the
      end, the model's request log of the finished epoch with the implementation's. *)
Definition epoch_ok (g : replay) (req : list Z) : bool := rp_exact g && list_eqb Z.eqb (rp_log g) req.
Fixpoint script_ok {St} (cmp : res -> res -> bool) (m : machine replay St) (epochs reqs : list (list Z)) (i : inst replay St) (ep : nat)
         (ops : list op) (exp : list res) : bool :=
  match ops with
  | [] => epoch_ok (i_gen i) (nth ep reqs []) && match exp with [] => true | _ => false end
  | o :: r =>
    let '(i', e) := do_op replay (rp_seed epochs) m i o in
    match o, e with
    | Next, Some x => match exp with
                      | y :: exp' => cmp x y && script_ok cmp m epochs reqs i' ep r exp'
                      | [] => false
                      end
    | Seed _, _ => epoch_ok (i_gen i) (nth ep reqs []) && script_ok cmp m epochs reqs i' (S ep) r exp
    | _, _ => script_ok cmp m epochs reqs i' ep r exp
    end
  end.
Definition check_script {St} (m : machine replay St) (epochs reqs : list (list Z)) (ops : list op) (exp : list res) : bool :=
  script_ok res_eqb m epochs reqs (fresh replay (rp_seed epochs) m 0) 0 ops exp.

(* float outputs: the implementation's float must lie within eps of the model's exact rational (eps bounds the
   accumulated rounding error of the float operations, see docs/C11.md); everything else is compared exactly *)
Definition res_close (eps : Q) (a b : res) : bool :=
  match a, b with
  | Out (OQ x), Out (OQ y) => Qle_bool (Qabs (x - y)) eps
  | _, _ => res_eqb a b
  end.
Definition check_script_eps {St} (eps : Q) (m : machine replay St) (epochs reqs : list (list Z)) (ops : list op) (exp : list res) : bool :=
  script_ok (res_close eps) m epochs reqs (fresh replay (rp_seed epochs) m 0) 0 ops exp.

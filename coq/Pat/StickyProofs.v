(* Pat/StickyProofs.v — C09: StopIteration is sticky for the transformer classes too.
   [fpat] extends the sticky fragment of Pat/IterProofs.v ([sticky_pat]) with one constructor per class; the main
   theorem [fpat_quiet] says: once next() of a pattern of the fragment has raised StopIteration (at any fuel), no
   later next() returns a value (at ANY fuel).  The fragment is closed under next() ([fpat_closed]).
   One lemma [X_quiet] per class (an invariant of the stopped state that next() preserves and under which it
   yields nothing); the StopIteration branches of each clause are taken apart inside [fpat_quiet].
   Lemmas only; the model is Pat/Step.v. *)
From Isobar Require Import Base.Prelude Pat.Val Pat.Syntax Pat.Step Pat.StepProofs Pat.IterProofs Pat.ResetProofs.
From Coq Require Import String QArith Wf_nat.
Open Scope Z_scope.

(** * Outcomes that are never StopIteration *)
Lemma cmp_no_stop o a b : cmp o a b <> Stop.
Proof. unfold cmp, omap, obind. pose proof (val_binop_no_stop o a b). destruct (Val.binop o a b); congruence. Qed.

Lemma obind_no_stop {A B} (o : outcome A) (k : A -> outcome B) : o <> Stop -> (forall a, k a <> Stop) -> obind o k <> Stop.
Proof. intros Ho Hk. destruct o; cbn; try discriminate; [apply Hk|congruence]. Qed.

Lemma omap_no_stop {A B} (g : A -> B) (o : outcome A) : o <> Stop -> omap g o <> Stop.
Proof. intro Ho. apply obind_no_stop; [exact Ho|discriminate]. Qed.

Lemma ocast_no_stop {A B} (o : outcome A) : o <> Stop -> @ocast A B o <> Stop.
Proof. intro Ho. apply obind_no_stop; [exact Ho|discriminate]. Qed.

Ltac nostop :=
  repeat first [ apply cmp_no_stop | apply val_binop_no_stop | apply mk_flt_no_stop | discriminate
               | (apply obind_no_stop; [|intros ?]) | apply omap_no_stop | apply ocast_no_stop
               | match goal with |- (if ?b then _ else _) <> Stop => destruct b end
               | assumption ].

Lemma wrap_up_no_stop n : forall v mn mx, wrap_up n v mn mx <> Stop.
Proof.
  induction n as [|n IH]; intros v mn mx; cbn [wrap_up]; pose proof (cmp_no_stop OLt v mn) as C;
    destruct (cmp OLt v mn) as [[|]| | | |]; try discriminate; try congruence.
  apply obind_no_stop; [apply val_binop_no_stop|intro d]. apply obind_no_stop; [apply val_binop_no_stop|intro v']. apply IH.
Qed.

Lemma wrap_down_no_stop n : forall v mn mx, wrap_down n v mn mx <> Stop.
Proof.
  induction n as [|n IH]; intros v mn mx; cbn [wrap_down]; pose proof (cmp_no_stop OGe v mx) as C;
    destruct (cmp OGe v mx) as [[|]| | | |]; try discriminate; try congruence.
  apply obind_no_stop; [apply val_binop_no_stop|intro d]. apply obind_no_stop; [apply val_binop_no_stop|intro v']. apply IH.
Qed.

Lemma py_round_no_stop v args : py_round v args <> Stop.
Proof.
  unfold py_round. destruct (num_of v) as [[q is_f]|]; [|discriminate].
  destruct args as [|nv [|x r]]; try discriminate.
  - destruct nv; try discriminate;
      repeat match goal with |- context [match ?x with _ => _ end] => destruct x | |- context [if ?x then _ else _] => destruct x end;
      try discriminate; apply mk_flt_no_stop.
  - destruct nv; discriminate.
Qed.

Lemma apply_fn_no_stop fn v args kw : apply_fn fn v args kw <> Stop.
Proof. destruct fn. cbn. destruct kw; [|discriminate]. destruct (is_none v); [discriminate|apply py_round_no_stop]. Qed.

Section Sticky.
  Variable binop : op -> val -> val -> outcome val.
  Variable LMAX : nat.
  Notation step := (step binop LMAX).
  Notation value := (value binop LMAX).
  Notation anext := (anext binop LMAX).
  Notation outputs := (outputs binop LMAX).
  Notation quiet := (quiet binop LMAX).
  Notation aquiet := (aquiet binop LMAX).
  Notation dead := (dead binop LMAX).

  (** * Vocabulary: an operand polled with next() never gives a value again *)
  Fixpoint nnyields (f n : nat) (a : arg) : Prop :=
    match n with
    | O => True
    | S n' => let '(o, a') := anext f a in is_yield o = false /\ nnyields f n' a'
    end.
  Definition nquiet (f : nat) (a : arg) : Prop := forall n, nnyields f n a.

  Lemma nquiet_unfold f a : nquiet f a <-> (is_yield (fst (anext f a)) = false /\ nquiet f (snd (anext f a))).
  Proof.
    split.
    - intro Q. split.
      + specialize (Q 1%nat). cbn in Q. destruct (anext f a). apply Q.
      + intro n. specialize (Q (S n)). cbn in Q. destruct (anext f a). apply Q.
    - intros [H Q] [|n]; [exact I|]. cbn. destruct (anext f a). split; [exact H|apply Q].
  Qed.

  (** invariant principle: a set of states closed under next() in which next() never yields *)
  Lemma quiet_coind f (I : pat -> Prop) :
    (forall p, I p -> is_yield (fst (step f p)) = false /\ I (snd (step f p))) -> forall p, I p -> quiet f p.
  Proof.
    intros HI p Hp n. revert p Hp. induction n as [|n IH]; intros p Hp; [exact Logic.I|].
    cbn [nyields]. destruct (HI p Hp) as [H1 H2]. destruct (step f p) as [o p']. cbn in *. split; [exact H1|apply IH; exact H2].
  Qed.

  Lemma quiet_0 p : quiet 0 p.
  Proof. apply (quiet_coind 0 (fun _ => True)); [intros; split; [reflexivity|exact I]|exact I]. Qed.
  Lemma aquiet_0 a : aquiet 0 a.
  Proof. intro n. induction n as [|n IH]; [exact I|]. cbn. split; [reflexivity|exact IH]. Qed.
  Lemma nquiet_0 a : nquiet 0 a.
  Proof. intro n. induction n as [|n IH]; [exact I|]. cbn. split; [reflexivity|exact IH]. Qed.

  Lemma nquiet_pattern f p : quiet f p -> nquiet (S f) (AP p).
  Proof.
    intros Q n. revert p Q. induction n as [|n IH]; intros p Q; [exact I|].
    cbn [nnyields]. rewrite anext_pattern. apply quiet_unfold in Q. destruct (step f p) as [o p']. cbn in Q.
    destruct Q as [H Q]. split; [exact H|]. apply IH. exact Q.
  Qed.

  (** a state that answers without a value and does not change never gives a value *)
  Lemma stable_quiet f p o : step f p = (o, p) -> is_yield o = false -> quiet f p.
  Proof.
    intros H Ho. apply (quiet_coind f (fun q => q = p)); [|reflexivity].
    intros q ->. rewrite H. split; [exact Ho|reflexivity].
  Qed.

  (** * PConcatenate: list lemmas and the stopped state *)
  Lemma update_nth_length {A} (l : list A) : forall i x, List.length (update_nth i x l) = List.length l.
  Proof. induction l as [|y l IH]; intros [|i] x; cbn; try reflexivity. rewrite IH. reflexivity. Qed.

  Lemma nth_error_update_same {A} (l : list A) : forall n a x, nth_error l n = Some a -> nth_error (update_nth n x l) n = Some x.
  Proof. induction l as [|y l IH]; intros [|n] a x H; cbn in *; try discriminate; try reflexivity. eapply IH; eauto. Qed.

  Lemma py_index_update_same {A} (l : list A) i a x :
    py_index l i = Some a -> py_index (update_nth (py_index_pos l i) x l) i = Some x.
  Proof.
    unfold py_index, py_index_pos. rewrite update_nth_length. intro H.
    destruct ((0 <=? i) && (i <? Z.of_nat (List.length l))) eqn:E1.
    - apply andb_true_iff in E1 as [E _]. rewrite E. eapply nth_error_update_same; eauto.
    - destruct ((- Z.of_nat (List.length l) <=? i) && (i <? 0)) eqn:E2; [|discriminate].
      apply andb_true_iff in E2 as [_ E]. assert (E0 : (0 <=? i) = false) by lia. rewrite E0.
      eapply nth_error_update_same; eauto.
  Qed.

  Lemma Forall_update_nth {A} (P : A -> Prop) (l : list A) : forall i x, Forall P l -> P x -> Forall P (update_nth i x l).
  Proof.
    induction l as [|y l IH]; intros [|i] x Hl Hx; cbn; try assumption; inversion Hl; subst; constructor; auto.
  Qed.

  Lemma py_index_Forall {A} (P : A -> Prop) (l : list A) i a : Forall P l -> py_index l i = Some a -> P a.
  Proof.
    intros Hl Hi. rewrite Forall_forall in Hl. apply Hl.
    unfold py_index in Hi. destruct ((0 <=? i) && (i <? Z.of_nat (List.length l))).
    - eapply nth_error_In; eauto.
    - destruct ((- Z.of_nat (List.length l) <=? i) && (i <? 0)); [eapply nth_error_In; eauto|discriminate].
  Qed.

  Lemma step_concat_eq f l pos :
    step (S f) (PConcatenate (AL l) pos) =
      match py_index l pos with
      | None => (Raise IndexError, PConcatenate (AL l) pos)
      | Some a =>
          let '(o, a') := anext f a in
          let l' := update_nth (py_index_pos l pos) a' l in
          match o with
          | Stop => if pos <? zlen l - 1 then step f (PConcatenate (AL l') (pos + 1)) else (Stop, PConcatenate (AL l') pos)
          | _ => (o, PConcatenate (AL l') pos)
          end
      end.
  Proof. reflexivity. Qed.

  Lemma zlen_update (l : list arg) i x : zlen (update_nth i x l) = zlen l.
  Proof. unfold zlen. rewrite update_nth_length. reflexivity. Qed.

  (** the state in which PConcatenate raises StopIteration: on its last input, which has just stopped *)
  Lemma concat_stop (P : arg -> Prop) : (forall f a, P a -> P (snd (anext f a))) ->
    forall f l pos p', Forall P l -> step f (PConcatenate (AL l) pos) = (Stop, p') ->
    exists l' pos' a0 a' f0, p' = PConcatenate (AL l') pos' /\ (pos' <? zlen l' - 1) = false /\
                             py_index l' pos' = Some a' /\ P a0 /\ anext f0 a0 = (Stop, a') /\ (f0 < f)%nat.
  Proof.
    intro HP. induction f as [|f IH]; intros l pos p' Hl H; [discriminate|].
    rewrite step_concat_eq in H. destruct (py_index l pos) as [a|] eqn:Ei; [|discriminate].
    pose proof (py_index_Forall _ _ _ _ Hl Ei) as Fa. pose proof (HP f a Fa) as Fa'.
    destruct (anext f a) as [o a'] eqn:Ea. cbn [snd] in Fa'. cbv zeta in H.
    destruct o; try discriminate.
    destruct (pos <? zlen l - 1) eqn:Epos.
    - apply IH in H; [|apply Forall_update_nth; assumption].
      destruct H as [l' [pos' [a0 [a'' [f0 [E1 [E2 [E3 [E4 [E5 E6]]]]]]]]]]. exists l', pos', a0, a'', f0. repeat split; try assumption. lia.
    - inversion H; subst. exists (update_nth (py_index_pos l pos) a' l), pos, a, a', f.
      rewrite zlen_update. repeat split; try assumption; [eapply py_index_update_same; eauto|lia].
  Qed.

  Lemma concat_stopped_quiet f pos n : forall l a, zlen l = n -> (pos <? n - 1) = false -> py_index l pos = Some a -> nquiet f a ->
    quiet (S f) (PConcatenate (AL l) pos).
  Proof.
    intros l a Hn Hp Hi N.
    apply (quiet_coind (S f)
             (fun p => exists l a, p = PConcatenate (AL l) pos /\ zlen l = n /\ py_index l pos = Some a /\ nquiet f a)); [|eauto 8].
    clear l a Hn Hi N. intros p [l [a [-> [Hn [Hi N]]]]]. rewrite step_concat_eq, Hi.
    apply nquiet_unfold in N. destruct (anext f a) as [o a']. cbn [fst snd] in N. destruct N as [Y N]. cbv zeta.
    assert (K : exists l0 a0, PConcatenate (AL (update_nth (py_index_pos l pos) a' l)) pos = PConcatenate (AL l0) pos /\
                              zlen l0 = n /\ py_index l0 pos = Some a0 /\ nquiet f a0).
    { eexists _, a'. split; [reflexivity|]. rewrite zlen_update. split; [exact Hn|]. split; [|exact N].
      eapply py_index_update_same; eauto. }
    destruct o; try discriminate Y; rewrite ?Hn, ?Hp; cbn [fst snd]; (split; [reflexivity|exact K]).
  Qed.

  (** * One invariant per class: the stopped state never yields *)
  Local Opaque cmp Val.binop py_index update_nth Z.add Z.eqb Z.geb zlen wrap_up wrap_down apply_fn.

  Ltac qclose := cbn [fst snd]; split; [first [reflexivity|assumption]|eauto 8].

  (* destruct the polled operand of an invariant, keeping "no value" and the invariant of the new operand state *)
  Ltac poll_n N f a :=
    let Y := fresh "Y" in
    apply nquiet_unfold in N; destruct (anext f a) as [? ?]; cbn [fst snd] in N; destruct N as [Y N].
  Ltac poll_v N f a :=
    let Y := fresh "Y" in
    apply aquiet_unfold in N; destruct (value f a) as [? ?]; cbn [fst snd] in N; destruct N as [Y N].

  Lemma pad_quiet f length count : cmp OGe (VInt count) length = Yield true ->
    forall pattern, nquiet f pattern -> quiet (S f) (PPad pattern length count).
  Proof.
    intros Hc pattern N. apply (quiet_coind (S f) (fun p => exists a, p = PPad a length count /\ nquiet f a)); [|eauto].
    clear pattern N. intros p [a [-> N]]. rewrite step_pad_eq. poll_n N f a.
    destruct o; try discriminate Y; rewrite ?Hc; qclose.
  Qed.

  Lemma padm_quiet f multiple minimum_pad count padcount :
    obind (cmp OGe (VInt padcount) minimum_pad)
      (fun b => if b then omap (fun r => py_eq r (VInt 0)) (Val.binop OMod (VInt count) multiple) else Yield false) = Yield true ->
    forall pattern, nquiet f pattern -> quiet (S f) (PPadToMultiple pattern multiple minimum_pad count padcount).
  Proof.
    intros Hc pattern N.
    apply (quiet_coind (S f) (fun p => exists a, p = PPadToMultiple a multiple minimum_pad count padcount /\ nquiet f a)); [|eauto].
    clear pattern N. intros p [a [-> N]]. rewrite step_padm_eq. poll_n N f a.
    destruct o; try discriminate Y; cbv zeta; rewrite ?Hc; qclose.
  Qed.

  Lemma counter_quiet f v count : forall trigger, nquiet f trigger -> quiet (S f) (PCounter trigger v count).
  Proof.
    intros trigger N. apply (quiet_coind (S f) (fun p => exists a, p = PCounter a v count /\ nquiet f a)); [|eauto].
    clear trigger N. intros p [a [-> N]]. rewrite step_counter_eq. poll_n N f a.
    destruct o; try discriminate Y; qclose.
  Qed.

  Lemma wrap_quiet f mn mx : forall pattern, nquiet f pattern -> quiet (S f) (PWrap pattern mn mx).
  Proof.
    intros pattern N. apply (quiet_coind (S f) (fun p => exists a, p = PWrap a mn mx /\ nquiet f a)); [|eauto].
    clear pattern N. intros p [a [-> N]]. rewrite step_wrap_eq. poll_n N f a.
    destruct o; try discriminate Y; qclose.
  Qed.

  Lemma anyref_quiet f : forall pattern, nquiet f pattern -> quiet (S f) (PRef pattern).
  Proof.
    intros pattern N. apply (quiet_coind (S f) (fun p => exists a, p = PRef a /\ nquiet f a)); [|eauto].
    clear pattern N. intros p [a [-> N]]. rewrite step_anyref_eq. poll_n N f a. qclose.
  Qed.

  Lemma changed_quiet f current : forall source, aquiet f source -> quiet (S f) (PChanged source current).
  Proof.
    intros source N. apply (quiet_coind (S f) (fun p => exists a, p = PChanged a current /\ aquiet f a)); [|eauto].
    clear source N. intros p [a [-> N]]. rewrite step_changed_eq. poll_v N f a.
    destruct o; try discriminate Y; qclose.
  Qed.

  Lemma diff_quiet f current : forall source, aquiet f source -> quiet (S f) (PDiff source current).
  Proof.
    intros source N. apply (quiet_coind (S f) (fun p => exists a, p = PDiff a current /\ aquiet f a)); [|eauto].
    clear source N. intros p [a [-> N]]. rewrite step_diff_eq. poll_v N f a.
    destruct o; try discriminate Y; qclose.
  Qed.

  Lemma collapse_quiet f : forall input, aquiet f input -> quiet (S f) (PCollapse input).
  Proof.
    intros input N. apply (quiet_coind (S f) (fun p => exists a, p = PCollapse a /\ aquiet f a)); [|eauto].
    clear input N. intros p [a [-> N]]. rewrite step_collapse_eq. poll_v N f a.
    destruct o; try discriminate Y; qclose.
  Qed.

  Lemma norepeats_quiet f v : forall input, aquiet f input -> quiet (S f) (PNoRepeats input v).
  Proof.
    intros input N. apply (quiet_coind (S f) (fun p => exists a, p = PNoRepeats a v /\ aquiet f a)); [|eauto].
    clear input N. intros p [a [-> N]]. rewrite step_norepeats_eq. poll_v N f a.
    destruct o; try discriminate Y; qclose.
  Qed.

  Lemma stutter_quiet f cc pos v : cmp OGe (VInt pos) cc = Yield true ->
    forall pattern count, aquiet f count \/ nquiet f pattern -> quiet (S f) (PStutter pattern count cc pos v).
  Proof.
    intros Hc pattern count N.
    apply (quiet_coind (S f) (fun p => exists a c, p = PStutter a c cc pos v /\ (aquiet f c \/ nquiet f a))); [|eauto].
    clear pattern count N. intros p [a [c [-> [N|N]]]]; rewrite step_stutter_eq, Hc.
    - poll_v N f c. destruct o; try discriminate Y; qclose.
    - destruct (value f c) as [oc c']. destruct oc; try qclose.
      poll_n N f a. destruct o; try discriminate Y; qclose.
  Qed.

  (** PRound / PMap with scalar arguments *)
  Lemma step_map_eq f input operator args kwargs :
    step (S f) (PMap input operator args kwargs) =
      (let '(oa, args') := values_of (value f) args in
          match oa with
          | Yield vargs =>
              let '(ok, kwargs') := kwvalues_of (value f) kwargs in
              match ok with
              | Yield vkw =>
                  let '(o, input') := anext f input in
                  match o with
                  | Yield v => (apply_fn operator v vargs vkw, PMap input' operator args' kwargs')
                  | _ => (o, PMap input' operator args' kwargs')
                  end
              | _ => (ocast ok, PMap input operator args' kwargs')
              end
          | _ => (ocast oa, PMap input operator args' kwargs)
          end).
  Proof. reflexivity. Qed.

  Lemma values_of_scalars f args : scalars args = true ->
    snd (values_of (value f) args) = args /\ fst (values_of (value f) args) <> Stop.
  Proof.
    induction args as [|a r IH]; intro H; [split; [reflexivity|discriminate]|].
    destruct a as [v| | | |]; try discriminate H. cbn in H. destruct (IH H) as [I1 I2].
    destruct f as [|f]; [split; [reflexivity|discriminate]|].
    cbn [values_of]. rewrite value_scalar. destruct (values_of (value (S f)) r) as [os r']. cbn [fst snd] in *. subst r'.
    split; [reflexivity|]. apply omap_no_stop. exact I2.
  Qed.

  Lemma round_quiet f op args : scalars args = true ->
    forall input, nquiet f input -> quiet (S f) (PMap input op args []).
  Proof.
    intros Hs input N. apply (quiet_coind (S f) (fun p => exists a, p = PMap a op args [] /\ nquiet f a)); [|eauto].
    clear input N. intros p [a [-> N]]. rewrite step_map_eq.
    destruct (values_of_scalars f args Hs) as [V1 V2]. destruct (values_of (value f) args) as [oa args']. cbn [fst snd] in V1, V2. subst args'.
    destruct oa; try qclose.
    cbn [kwvalues_of]. poll_n N f a. destruct o; try discriminate Y; qclose.
  Qed.

  (** PLoop that has read its whole input and used up its repeats: the stopped state does not change *)
  Lemma loop_stopped_quiet pattern count pos li values :
    (pos >=? zlen values) = true ->
    (obind (Val.binop OSub count (VInt 1)) (fun c1 => cmp OGe (VInt li) c1) = Yield true \/
     (obind (Val.binop OSub count (VInt 1)) (fun c1 => cmp OGe (VInt li) c1) = Yield false /\ (zlen values =? 0) = true)) ->
    forall f2, quiet f2 (PLoop pattern count pos li true values).
  Proof.
    intros Hw Ht [|f2]; [apply quiet_0|]. apply stable_quiet with (o := Stop); [|reflexivity].
    rewrite step_loop_eq. cbv beta iota zeta. rewrite Hw. cbn [andb].
    destruct Ht as [->|[-> ->]]; reflexivity.
  Qed.

  (** PSubsequence with scalar offset / length past its length: likewise *)
  Lemma subsequence_stopped_quiet pattern off len pos values :
    cmp OGe (VInt pos) len = Yield true ->
    forall f2, quiet f2 (PSubsequence pattern (AV off) (AV len) pos values).
  Proof.
    intros Hc [|[|f2]]; [apply quiet_0|apply stable_quiet with (o := OutOfFuel); reflexivity|].
    apply stable_quiet with (o := Stop); [|reflexivity].
    rewrite step_subsequence_eq, !value_scalar. cbv beta iota zeta. rewrite Hc. reflexivity.
  Qed.

  (** PSubsequence whose input ran dry before the position asked for: it keeps polling the stopped input *)
  Lemma pull_until_stop (P : arg -> Prop) g : (forall a, P a -> P (snd (g a))) ->
    forall n pattern values target l a, P pattern -> pull_until g n pattern values target = (Stop, l, a) ->
    (Z.of_nat (List.length l) <=? target) = true /\ exists a0, P a0 /\ g a0 = (Stop, a).
  Proof.
    intros Hg n. induction n as [|n IH]; intros pattern values target l a HP H.
    - cbn in H. destruct (Z.of_nat (List.length values) <=? target); discriminate.
    - cbn [pull_until] in H. destruct (Z.of_nat (List.length values) <=? target) eqn:T; [|discriminate].
      pose proof (Hg pattern HP) as K. destruct (g pattern) as [o pattern'] eqn:E. cbn [snd] in K.
      destruct o; try discriminate.
      + eapply IH; eauto.
      + inversion H; subst. split; [exact T|]. eauto.
  Qed.

  Lemma pull_until_quiet f n target : forall values pattern,
    (Z.of_nat (List.length values) <=? target) = true -> nquiet f pattern ->
    exists o a, pull_until (anext f) n pattern values target = (o, values, a) /\ o <> Yield tt /\ nquiet f a.
  Proof.
    intros values pattern T N. destruct n as [|n]; cbn [pull_until]; rewrite T.
    - exists OutOfFuel, pattern. repeat split; [discriminate|exact N].
    - poll_n N f pattern. destruct o; try discriminate Y; eexists _, _; (repeat split; [discriminate|exact N]).
  Qed.

  Lemma subsequence_input_quiet f off len pos z values :
    cmp OGe (VInt pos) len = Yield false -> int_of off = Some z -> (Z.of_nat (List.length values) <=? pos + z) = true ->
    forall pattern, nquiet (S f) pattern -> quiet (S (S f)) (PSubsequence pattern (AV off) (AV len) pos values).
  Proof.
    intros Hc Hz T pattern N.
    apply (quiet_coind (S (S f)) (fun p => exists a, p = PSubsequence a (AV off) (AV len) pos values /\ nquiet (S f) a)); [|eauto].
    clear pattern N. intros p [a [-> N]]. rewrite step_subsequence_eq, !value_scalar. cbv beta iota zeta. rewrite Hc, Hz.
    destruct (pull_until_quiet (S f) (S f) (pos + z) values a T N) as [o [a' [-> [Ho N']]]].
    destruct o as [[]| | | |]; try congruence; qclose.
  Qed.

  (** * Two-operand classes whose first operand is a scalar or a pattern (PIndexOf PDictKey PArrayIndex) *)
  Definition simple (a : arg) : Prop := match a with AV _ | AP _ => True | _ => False end.

  Lemma simple_value f a : simple a -> simple (snd (value f a)).
  Proof. destruct a; try contradiction; intros _; destruct f; try exact I. rewrite value_pattern. destruct (step f p); exact I. Qed.

  Section BinarySimple.
    Variable mk : arg -> arg -> pat.
    Variable g : val -> val -> outcome val.
    Hypothesis mk_step : forall f a b, simple a ->
      step (S f) (mk a b) =
        (let '(oa, a') := value f a in
         match oa with
         | Yield va =>
             let '(ob, b') := value f b in
             match ob with
             | Yield vb => (g va vb, mk a' b')
             | _ => (ob, mk a' b')
             end
         | _ => (oa, mk a' b)
         end).
    Hypothesis g_no_stop : forall x y, g x y <> Stop.

    Lemma bs_quiet f a b : simple a -> aquiet f a \/ aquiet f b -> quiet (S f) (mk a b).
    Proof.
      intros Sa N. apply (quiet_coind (S f) (fun p => exists a b, p = mk a b /\ simple a /\ (aquiet f a \/ aquiet f b))); [|eauto 6].
      clear a b Sa N. intros p [a [b [-> [Sa N]]]]. rewrite (mk_step f a b Sa). pose proof (simple_value f a Sa) as Sa'.
      destruct N as [N|N].
      - poll_v N f a. cbn [snd] in Sa'. destruct o; try discriminate Y; qclose.
      - destruct (value f a) as [oa a']. cbn [snd] in Sa'. destruct oa; try qclose.
        poll_v N f b. destruct o; try discriminate Y; qclose.
    Qed.

    Lemma bs_stop f a b p' : simple a ->
      step (S f) (mk a b) = (Stop, p') ->
      (exists a', value f a = (Stop, a') /\ p' = mk a' b) \/
      (exists va a' b', value f a = (Yield va, a') /\ value f b = (Stop, b') /\ p' = mk a' b').
    Proof.
      intro Sa. rewrite (mk_step f a b Sa). destruct (value f a) as [oa a']. destruct oa; intro H; try discriminate.
      - destruct (value f b) as [ob b']. destruct ob; try discriminate.
        + inversion H. exfalso. eapply g_no_stop; eauto.
        + inversion H. right. eauto 6.
      - inversion H. left. eauto.
    Qed.
  End BinarySimple.

  Definition indexof_g (vl vi : val) : outcome val :=
    if is_none vl || is_none vi then Yield VNone
    else match vl with
         | VList l | VTup l => match index_of vi l 0 with Some i => Yield (VInt i) | None => Yield VNone end
         | VStr _ | VDict _ => Inexact
         | _ => Raise TypeError
         end.
  Lemma indexof_g_no_stop x y : indexof_g x y <> Stop.
  Proof. unfold indexof_g. destruct (is_none x || is_none y); [discriminate|]. destruct x; try discriminate; destruct (index_of y l 0); discriminate. Qed.
  Lemma step_indexof_eq f a b : simple a ->
    step (S f) (PIndexOf a b) =
      (let '(oa, a') := value f a in
       match oa with
       | Yield va => let '(ob, b') := value f b in
                     match ob with Yield vb => (indexof_g va vb, PIndexOf a' b') | _ => (ob, PIndexOf a' b') end
       | _ => (oa, PIndexOf a' b)
       end).
  Proof. destruct a; try contradiction; reflexivity. Qed.
  Lemma step_indexof_list_eq f l vs b : plain_items l = Some vs ->
    step (S f) (PIndexOf (AL l) b) =
      (let '(o, b') := value f b in
       match o with Yield v => (indexof_g (VList vs) v, PIndexOf (AL l) b') | _ => (o, PIndexOf (AL l) b') end).
  Proof.
    intro Hp. change (step (S f) (PIndexOf (AL l) b)) with
      (let '(ol, list') := (match plain_items l with Some vs => Yield (VList vs) | None => Inexact end, AL l) in
       match ol with
       | Yield vl => let '(oi, item') := value f b in
                     match oi with Yield vi => (indexof_g vl vi, PIndexOf list' item') | _ => (oi, PIndexOf list' item') end
       | _ => (ol, PIndexOf list' b)
       end).
    rewrite Hp. reflexivity.
  Qed.
  Lemma step_indexof_list_none f l b : plain_items l = None -> step (S f) (PIndexOf (AL l) b) = (Inexact, PIndexOf (AL l) b).
  Proof.
    intro Hp. change (step (S f) (PIndexOf (AL l) b)) with
      (let '(ol, list') := (match plain_items l with Some vs => Yield (VList vs) | None => Inexact end, AL l) in
       match ol with
       | Yield vl => let '(oi, item') := value f b in
                     match oi with Yield vi => (indexof_g vl vi, PIndexOf list' item') | _ => (oi, PIndexOf list' item') end
       | _ => (ol, PIndexOf list' b)
       end).
    rewrite Hp. reflexivity.
  Qed.

  Definition dictkey_g (vd vk : val) : outcome val :=
    match vd, vk with
    | VDict d, VStr k => match assoc k d with Some v => Yield v | None => Raise KeyError end
    | VDict d, (VList _ | VDict _) => Raise TypeError
    | VDict d, _ => Raise KeyError
    | VNone, _ => Raise TypeError
    | _, _ => Inexact
    end.
  Lemma dictkey_g_no_stop x y : dictkey_g x y <> Stop.
  Proof. destruct x; try discriminate. destruct y; try discriminate. cbn. match goal with |- context [assoc ?k ?d] => destruct (assoc k d) end; discriminate. Qed.
  Lemma step_dictkey_eq f a b : simple a ->
    step (S f) (PDictKey a b) =
      (let '(oa, a') := value f a in
       match oa with
       | Yield va => let '(ob, b') := value f b in
                     match ob with Yield vb => (dictkey_g va vb, PDictKey a' b') | _ => (ob, PDictKey a' b') end
       | _ => (oa, PDictKey a' b)
       end).
  Proof. destruct a; try contradiction; reflexivity. Qed.
  Lemma step_dictkey_dict_eq f kv b :
    step (S f) (PDictKey (AD kv) b) =
      match plain_kw kv with
      | Some d => (let '(o, b') := value f b in
                   match o with Yield v => (dictkey_g (VDict d) v, PDictKey (AD kv) b') | _ => (o, PDictKey (AD kv) b') end)
      | None => (Inexact, PDictKey (AD kv) b)
      end.
  Proof.
    change (step (S f) (PDictKey (AD kv) b)) with
      (let '(od, dict') := (match plain_kw kv with Some d => Yield (VDict d) | None => Inexact end, AD kv) in
       match od with
       | Yield vd => let '(ok, key') := value f b in
                     match ok with Yield vk => (dictkey_g vd vk, PDictKey dict' key') | _ => (ok, PDictKey dict' key') end
       | _ => (od, PDictKey dict' b)
       end).
    destruct (plain_kw kv); reflexivity.
  Qed.

  Definition arrayindex_g (vl vi : val) : outcome val :=
    match vi with
    | VNone => Yield VNone
    | _ => match py_int vi with
           | Yield (VInt i) =>
               match vl with
               | VList l | VTup l => match py_index l i with None => Raise IndexError | Some v => Yield v end
               | VStr _ | VDict _ => Inexact
               | _ => Raise TypeError
               end
           | Yield _ => Inexact
           | o => o
           end
    end.
  Lemma arrayindex_g_no_stop x y : arrayindex_g x y <> Stop.
  Proof.
    unfold arrayindex_g. destruct y; try discriminate; cbn;
      (destruct x; try discriminate; match goal with |- context [py_index ?l ?i] => destruct (py_index l i) end; discriminate).
  Qed.
  (* PArrayIndex (repaired, C09-parrayindex-revives): once exhausted it stays so *)
  Lemma arrayindex_exhausted_quiet list index : forall f2, quiet f2 (PArrayIndex list index true).
  Proof. intros [|f2]; [apply quiet_0|]. apply stable_quiet with (o := Stop); [apply arrayindex_exhausted_stable|reflexivity]. Qed.

  (** * The counter-terminated classes at ANY fuel *)
  Ltac hsplit H :=
    repeat (first [ discriminate H
                  | match type of H with context [match ?x with _ => _ end] => let E := fresh "E" in destruct x eqn:E; cbn in H end
                  | match type of H with context [if ?x then _ else _] => let E := fresh "E" in destruct x eqn:E; cbn in H end ]).
  Ltac use_eqs := repeat match goal with E : ?l = _ |- context [?l] => rewrite E; cbn end.
  Ltac kill_stop :=
    try match goal with
        | E : Val.binop _ _ _ = Stop |- _ => exfalso; exact (val_binop_no_stop _ _ _ E)
        | E : cmp _ _ _ = Stop |- _ => exfalso; exact (cmp_no_stop _ _ _ E)
        end.

  Lemma counter_any_fuel f p p' : ends_by_counter p = true -> step f p = (Stop, p') -> forall f2, quiet f2 p'.
  Proof.
    intros Hc H f2. pose proof (counter_stop_stable _ _ _ _ _ Hc H) as ->.
    destruct f2 as [|f2]; [apply quiet_0|]. destruct f as [|f]; [discriminate|].
    destruct p; try discriminate Hc.
    - (* PSequence *)
      destruct sequence as [| |l| |]; try discriminate Hc. destruct repeats as [vrep| | | |]; try discriminate Hc.
      cbn in Hc. destruct f2 as [|f2]; [apply stable_quiet with (o := OutOfFuel); reflexivity|].
      destruct f as [|f]; [discriminate|]. apply stable_quiet with (o := Stop); [|reflexivity]. cbn in H |- *.
      destruct (if zlen l =? 0 then Yield true else cmp OGe (VInt rcount) vrep) as [[|]| | | |]; try discriminate; try reflexivity.
      exfalso. destruct (py_index l pos) as [a|] eqn:Ei; [|discriminate].
      destruct (scalars_index _ _ _ Hc Ei) as [v ->]. cbn in H. destruct (pos + 1 >=? zlen l); discriminate.
    - (* PSeries *)
      match type of Hc with ends_by_counter (PSeries _ _ ?s ?l _) = _ =>
        destruct s; try discriminate Hc; destruct l; try discriminate Hc end.
      destruct f2 as [|f2]; [apply stable_quiet with (o := OutOfFuel); reflexivity|].
      destruct f as [|f]; [discriminate|]. apply stable_quiet with (o := Stop); [|reflexivity]. cbn in H |- *.
      hsplit H; kill_stop; use_eqs; reflexivity.
    - (* PRange *)
      match type of Hc with ends_by_counter (PRange _ ?e ?s _) = _ =>
        destruct e; try discriminate Hc; destruct s; try discriminate Hc end.
      destruct f2 as [|f2]; [apply stable_quiet with (o := OutOfFuel); reflexivity|].
      destruct f as [|f]; [discriminate|]. apply stable_quiet with (o := Stop); [|reflexivity]. cbn in H |- *.
      hsplit H; kill_stop; use_eqs; reflexivity.
    - (* PGeom *)
      match type of Hc with ends_by_counter (PGeom _ _ ?m _ _) = _ => destruct m; try discriminate Hc end.
      apply stable_quiet with (o := Stop); [|reflexivity].
      rewrite step_geom_eq in H |- *. destruct (cmp OGe (VInt count) length) as [[|]| | | |] eqn:E; kill_stop; try reflexivity; try discriminate H.
      exfalso. destruct f; cbn in H; hsplit H; kill_stop.
    - (* PPingPong *)
      apply stable_quiet with (o := Stop); [|reflexivity]. cbn in H |- *. hsplit H; use_eqs; try reflexivity.
    - (* PReverse *)
      apply stable_quiet with (o := Stop); [|reflexivity]. cbn in H |- *. hsplit H; reflexivity.
  Qed.

  (** * The fragment *)
  Inductive fpat : pat -> Prop :=
  | FP_counter p : ends_by_counter p = true -> fpat p
  | FP_constant c : fpat (PConstant c)
  | FP_abs a : farg a -> fpat (PAbs a)
  | FP_int a : farg a -> fpat (PInt a)
  | FP_ref a : farg a -> fpat (PRef a)
  | FP_binop o a b : farg a -> farg b -> fpat (PBinOp o a b)
  | FP_and a b : farg a -> farg b -> fpat (PAnd a b)
  | FP_skipif a b : farg a -> farg b -> fpat (PSkipIf a b)
  (* single-input transformers over a pattern of the fragment *)
  | FP_pad p l c : farg p -> fpat (PPad p l c)
  | FP_padm p m mp c pc : farg p -> fpat (PPadToMultiple p m mp c pc)
  | FP_collapse a : farg a -> fpat (PCollapse a)
  | FP_norepeats a v : farg a -> fpat (PNoRepeats a v)
  | FP_changed a c : farg a -> fpat (PChanged a c)
  | FP_diff a c : farg a -> fpat (PDiff a c)
  | FP_round a op args : farg a -> scalars args = true -> fpat (PMap a op args [])
  | FP_wrap p mn mx : farg p -> fpat (PWrap p mn mx)
  | FP_trigcounter t v c : farg t -> fpat (PCounter t v c)
  | FP_stutter p c cc pos v : farg p -> farg c -> fpat (PStutter p c cc pos v)
  (* classes that end by their own counters whatever their input does *)
  | FP_loop p count pos li ra values : fpat (PLoop p count pos li ra values)
  | FP_subsequence p off len pos values : farg p -> fpat (PSubsequence p (AV off) (AV len) pos values)
  (* two-operand classes *)
  | FP_indexof a b : farg a -> farg b -> fpat (PIndexOf a b)
  | FP_indexof_list l b : farg b -> fpat (PIndexOf (AL l) b)
  | FP_dictkey a b : farg a -> farg b -> fpat (PDictKey a b)
  | FP_dictkey_dict kv b : farg b -> fpat (PDictKey (AD kv) b)
  | FP_arrayindex a b e : farg a -> farg b -> fpat (PArrayIndex a b e)
  (* concatenation of patterns / scalars of the fragment *)
  | FP_concat l pos : Forall farg l -> fpat (PConcatenate (AL l) pos)
  with farg : arg -> Prop :=
  | FA_val v : farg (AV v)
  | FA_pat p : fpat p -> farg (AP p).

  Lemma farg_simple a : farg a -> simple a.
  Proof. destruct 1; exact I. Qed.

  (** the fragment of Pat/IterProofs.v is part of it *)
  Lemma sticky_fpat : forall p, sticky_pat p -> fpat p
  with sticky_farg : forall a, sticky_arg a -> farg a.
  Proof.
    - intros p H. destruct H.
      + apply FP_counter; assumption.
      + apply FP_constant.
      + apply FP_abs, sticky_farg; assumption.
      + apply FP_int, sticky_farg; assumption.
      + apply FP_ref, FA_pat, sticky_fpat; assumption.
      + apply FP_binop; apply sticky_farg; assumption.
      + apply FP_and; apply sticky_farg; assumption.
      + apply FP_skipif; apply sticky_farg; assumption.
    - intros a H. destruct H; [apply FA_val|apply FA_pat, sticky_fpat; assumption].
  Qed.

  (** * Closure under next() *)
  Lemma counter_closed f p : ends_by_counter p = true -> ends_by_counter (snd (step f p)) = true.
  Proof.
    intro Hc. destruct f as [|f]; [exact Hc|]. destruct p; try discriminate Hc.
    - destruct sequence as [| |l| |]; try discriminate Hc. destruct repeats as [vrep| | | |]; try discriminate Hc.
      cbn in Hc. destruct f as [|f]; [exact Hc|]. cbn.
      destruct (if zlen l =? 0 then Yield true else cmp OGe (VInt rcount) vrep) as [[|]| | | |]; try exact Hc.
      destruct (py_index l pos) as [a|] eqn:Ei; [|exact Hc].
      destruct (scalars_index _ _ _ Hc Ei) as [v ->]. cbn. rewrite (py_index_update _ _ _ Ei).
      destruct (pos + 1 >=? zlen l); exact Hc.
    - match type of Hc with ends_by_counter (PSeries _ _ ?s ?l _) = _ =>
        destruct s; try discriminate Hc; destruct l; try discriminate Hc end.
      destruct f; cbn;
        repeat match goal with |- context [match ?x with _ => _ end] => destruct x | |- context [if ?x then _ else _] => destruct x end; reflexivity.
    - match type of Hc with ends_by_counter (PRange _ ?e ?s _) = _ =>
        destruct e; try discriminate Hc; destruct s; try discriminate Hc end.
      destruct f; cbn;
        repeat match goal with |- context [match ?x with _ => _ end] => destruct x | |- context [if ?x then _ else _] => destruct x end; reflexivity.
    - match type of Hc with ends_by_counter (PGeom _ _ ?m _ _) = _ => destruct m; try discriminate Hc end.
      destruct f; cbn;
        repeat match goal with |- context [match ?x with _ => _ end] => destruct x | |- context [if ?x then _ else _] => destruct x end; reflexivity.
    - cbn. repeat match goal with |- context [match ?x with _ => _ end] => destruct x | |- context [if ?x then _ else _] => destruct x end; reflexivity.
    - cbn. destruct values; reflexivity.
  Qed.

  Ltac fclosed_case IHs IHv IHn :=
    cbv zeta;
    repeat match goal with
           | PU : forall values target, farg (snd (pull_until ?g ?n ?p values target)) |- context [pull_until ?g ?n ?p ?v ?t] =>
               let K := fresh "K" in pose proof (PU v t) as K; destruct (pull_until g n p v t) as [[? ?] ?]; cbn [snd] in K
           | H : farg ?a |- context [value ?f ?a] =>
               let K := fresh "K" in pose proof (IHv a H) as K; destruct (value f a) as [? ?]; cbn [snd] in K
           | H : farg ?a |- context [anext ?f ?a] =>
               let K := fresh "K" in pose proof (IHn a H) as K; destruct (anext f a) as [? ?]; cbn [snd] in K
           | |- context [if ?x then _ else _] => is_var x; destruct x
           | |- context [match ?x with _ => _ end] => is_var x; destruct x
           | |- context [if ?x then _ else _] => destruct x
           | |- context [match ?x with _ => _ end] => destruct x
           | _ => progress (cbv beta iota zeta)
           end;
    cbv beta iota zeta delta [snd]; first [constructor; assumption | apply IHs; constructor; assumption].

  Theorem fpat_closed : forall f,
    (forall p, fpat p -> fpat (snd (step f p))) /\
    (forall a, farg a -> farg (snd (value f a))) /\
    (forall a, farg a -> farg (snd (anext f a))).
  Proof.
    induction f as [|f [IHs [IHv IHn]]].
    - repeat split; intros; assumption.
    - split; [|split].
      + intros p Hp. inversion Hp; subst.
        * apply FP_counter. apply counter_closed. assumption.
        * apply FP_constant.
        * rewrite step_abs_eq. fclosed_case IHs IHv IHn.
        * rewrite step_int_eq. fclosed_case IHs IHv IHn.
        * rewrite step_anyref_eq. fclosed_case IHs IHv IHn.
        * rewrite step_binop_eq. fclosed_case IHs IHv IHn.
        * rewrite step_and_eq. fclosed_case IHs IHv IHn.
        * rewrite step_skipif_eq. fclosed_case IHs IHv IHn.
        * rewrite step_pad_eq. fclosed_case IHs IHv IHn.
        * rewrite step_padm_eq. fclosed_case IHs IHv IHn.
        * rewrite step_collapse_eq. fclosed_case IHs IHv IHn.
        * rewrite step_norepeats_eq. fclosed_case IHs IHv IHn.
        * rewrite step_changed_eq. fclosed_case IHs IHv IHn.
        * rewrite step_diff_eq. fclosed_case IHs IHv IHn.
        * rewrite step_map_eq.
          destruct (values_of_scalars f args H0) as [V1 _]. destruct (values_of (value f) args) as [oa args']. cbn [snd] in V1. subst args'.
          cbn [kwvalues_of]. fclosed_case IHs IHv IHn.
        * rewrite step_wrap_eq. fclosed_case IHs IHv IHn.
        * rewrite step_counter_eq. fclosed_case IHs IHv IHn.
        * rewrite step_stutter_eq. fclosed_case IHs IHv IHn.
        * rewrite step_loop_eq. fclosed_case IHs IHv IHn.
        * destruct f as [|f']; [apply FP_subsequence; assumption|]. rewrite step_subsequence_eq, !value_scalar.
          pose proof (fun values target => pull_until_inv farg (anext (S f')) IHn (S f') p0 values target H) as PU.
          fclosed_case IHs IHv IHn.
        * rewrite step_indexof_eq by (apply farg_simple; assumption). fclosed_case IHs IHv IHn.
        * destruct (plain_items l) eqn:Pl; [rewrite (step_indexof_list_eq _ _ _ _ Pl)|rewrite step_indexof_list_none by exact Pl];
            fclosed_case IHs IHv IHn.
        * rewrite step_dictkey_eq by (apply farg_simple; assumption). fclosed_case IHs IHv IHn.
        * rewrite step_dictkey_dict_eq. fclosed_case IHs IHv IHn.
        * rewrite step_arrayindex_unfold. destruct e; [exact Hp|].
          rewrite arrayindex_body_gen by (intros l0 E0; subst; match goal with Ha : farg (AL _) |- _ => inversion Ha end).
          fclosed_case IHs IHv IHn.
        * rewrite step_concat_eq. destruct (py_index l pos) as [a|] eqn:Ei; [|exact Hp].
          pose proof (IHn a (py_index_Forall _ _ _ _ H Ei)) as Fa'. destruct (anext f a) as [o a']. cbn [snd] in Fa'. cbv zeta.
          pose proof (Forall_update_nth farg l (py_index_pos l pos) a' H Fa') as Hl'.
          destruct o; try (cbn [snd]; apply FP_concat; exact Hl').
          destruct (pos <? zlen l - 1); [apply IHs|cbn [snd]]; apply FP_concat; exact Hl'.
      + intros a [v|p Hp]; [exact (FA_val v)|]. rewrite value_pattern. pose proof (IHs p Hp) as K.
        destruct (step f p). apply FA_pat. exact K.
      + intros a [v|p Hp]; [exact (FA_val v)|]. rewrite anext_pattern. pose proof (IHs p Hp) as K.
        destruct (step f p). apply FA_pat. exact K.
  Qed.

  Lemma fpat_step_closed f p : fpat p -> fpat (snd (step f p)).
  Proof. apply fpat_closed. Qed.
  Lemma farg_value_closed f a : farg a -> farg (snd (value f a)).
  Proof. apply fpat_closed. Qed.
  Lemma farg_anext_closed f a : farg a -> farg (snd (anext f a)).
  Proof. apply fpat_closed. Qed.

  (** * Main theorem: StopIteration is sticky on the fragment *)
  Hypothesis binop_no_stop : forall o x y, binop o x y <> Stop.

  (* take the StopIteration branches of a clause apart: one goal per way the clause can raise StopIteration *)
  Ltac stop_inv H :=
    cbv zeta in H;
    repeat (first
      [ discriminate H
      | match type of H with context [value ?f ?a] => let E := fresh "E" in destruct (value f a) as [? ?] eqn:E end
      | match type of H with context [anext ?f ?a] => let E := fresh "E" in destruct (anext f a) as [? ?] eqn:E end
      | match type of H with context [match ?x with _ => _ end] => is_var x; destruct x end
      | match type of H with context [if ?x then _ else _] => is_var x; destruct x end
      | match type of H with context [match ?x with _ => _ end] => let C := fresh "C" in destruct x eqn:C end
      | match type of H with context [if ?x then _ else _] => let C := fresh "C" in destruct x eqn:C end
      | progress (cbv beta iota zeta in H) ]);
    try match goal with
        | C : ?t = Stop |- _ => exfalso; revert C; clear; nostop; fail
        end.

  Theorem fpat_quiet : forall f,
    (forall p p', fpat p -> step f p = (Stop, p') -> forall f2, quiet f2 p') /\
    (forall a a', farg a -> value f a = (Stop, a') -> forall f2, aquiet f2 a') /\
    (forall a a', farg a -> anext f a = (Stop, a') -> forall f2, nquiet f2 a').
  Proof.
    intro f. induction f as [f IHf] using lt_wf_ind. destruct f as [|f].
    - repeat split; intros; discriminate.
    - destruct (IHf f (Nat.lt_succ_diag_r f)) as [Q [AQ NQ]]. split; [|split].
      + intros p p' Hs H. inversion Hs; subst.
        * eapply counter_any_fuel; eauto.
        * discriminate.
        * destruct (unary_stop binop LMAX PAbs _ (step_abs_eq binop LMAX) (py_abs_no_stop) _ _ _ H) as [a' [E ->]].
          intros [|f2]; [apply quiet_0|]. apply (unary_quiet binop LMAX PAbs _ (step_abs_eq binop LMAX)). eapply AQ; [|eassumption]; assumption.
        * destruct (unary_stop binop LMAX PInt _ (step_int_eq binop LMAX) (py_int_no_stop) _ _ _ H) as [a' [E ->]].
          intros [|f2]; [apply quiet_0|]. apply (unary_quiet binop LMAX PInt _ (step_int_eq binop LMAX)). eapply AQ; [|eassumption]; assumption.
        * rewrite step_anyref_eq in H. stop_inv H. inversion H; subst.
          intros [|f2]; [apply quiet_0|]. apply anyref_quiet. eapply NQ; [|eassumption]; assumption.
        * destruct (binary_stop binop LMAX (PBinOp o) _ (fun f a b => step_binop_eq binop LMAX f o a b) (elem_no_stop binop binop_no_stop o) _ _ _ _ H)
            as [[a' [E ->]]|[va [a' [b' [Ea [Eb ->]]]]]]; (intros [|f2]; [apply quiet_0|]).
          -- apply (binary_quiet_left binop LMAX (PBinOp o) _ (fun f a b => step_binop_eq binop LMAX f o a b)). eapply AQ; [|eassumption]; assumption.
          -- apply (binary_quiet_right binop LMAX (PBinOp o) _ (fun f a b => step_binop_eq binop LMAX f o a b)). eapply AQ; [|eassumption]; assumption.
        * assert (G : forall x y : val, Yield (VBool (truthy x && truthy y)) <> @Stop val) by (intros; discriminate).
          destruct (binary_stop binop LMAX PAnd _ (step_and_eq binop LMAX) G _ _ _ _ H)
            as [[a' [E ->]]|[va [a' [b' [Ea [Eb ->]]]]]]; (intros [|f2]; [apply quiet_0|]).
          -- apply (binary_quiet_left binop LMAX PAnd _ (step_and_eq binop LMAX)). eapply AQ; [|eassumption]; assumption.
          -- apply (binary_quiet_right binop LMAX PAnd _ (step_and_eq binop LMAX)). eapply AQ; [|eassumption]; assumption.
        * assert (G : forall x y : val, Yield (if truthy y then VNone else x) <> @Stop val) by (intros; discriminate).
          destruct (binary_stop binop LMAX PSkipIf _ (step_skipif_eq binop LMAX) G _ _ _ _ H)
            as [[a' [E ->]]|[va [a' [b' [Ea [Eb ->]]]]]]; (intros [|f2]; [apply quiet_0|]).
          -- apply (binary_quiet_left binop LMAX PSkipIf _ (step_skipif_eq binop LMAX)). eapply AQ; [|eassumption]; assumption.
          -- apply (binary_quiet_right binop LMAX PSkipIf _ (step_skipif_eq binop LMAX)). eapply AQ; [|eassumption]; assumption.
        * (* PPad *)
          rewrite step_pad_eq in H. stop_inv H. inversion H; subst.
          intros [|f2]; [apply quiet_0|]. apply pad_quiet; [assumption|]. eapply NQ; [|eassumption]; assumption.
        * (* PPadToMultiple *)
          rewrite step_padm_eq in H. stop_inv H. inversion H; subst.
          intros [|f2]; [apply quiet_0|]. apply padm_quiet; [assumption|]. eapply NQ; [|eassumption]; assumption.
        * (* PCollapse *)
          rewrite step_collapse_eq in H. pose proof (farg_value_closed f a H0) as Cl. stop_inv H.
          -- eapply Q; [|exact H]. apply FP_collapse. exact Cl.
          -- inversion H; subst. intros [|f2]; [apply quiet_0|]. apply collapse_quiet. eapply AQ; [|eassumption]; assumption.
        * (* PNoRepeats *)
          rewrite step_norepeats_eq in H. pose proof (farg_value_closed f a H0) as Cl. stop_inv H.
          -- eapply Q; [|exact H]. apply FP_norepeats. exact Cl.
          -- inversion H; subst. intros [|f2]; [apply quiet_0|]. apply norepeats_quiet. eapply AQ; [|eassumption]; assumption.
        * (* PChanged *)
          rewrite step_changed_eq in H. stop_inv H. inversion H; subst.
          intros [|f2]; [apply quiet_0|]. apply changed_quiet. eapply AQ; [|eassumption]; assumption.
        * (* PDiff *)
          rewrite step_diff_eq in H. stop_inv H. inversion H; subst.
          intros [|f2]; [apply quiet_0|]. apply diff_quiet. eapply AQ; [|eassumption]; assumption.
        * (* PRound *)
          rewrite step_map_eq in H.
          destruct (values_of_scalars f args H1) as [V1 V2]. destruct (values_of (value f) args) as [oa args']. cbn [fst snd] in V1, V2. subst args'.
          cbn [kwvalues_of] in H. stop_inv H.
          -- exfalso. match type of H with (?x, _) = _ => assert (W : x = Stop) by congruence end. exact (apply_fn_no_stop _ _ _ _ W).
          -- inversion H; subst. intros [|f2]; [apply quiet_0|]. apply round_quiet; [assumption|]. eapply NQ; [|eassumption]; assumption.
          -- congruence.
        * (* PWrap *)
          rewrite step_wrap_eq in H. stop_inv H.
          -- exfalso. match type of H with (?x, _) = _ => assert (W : x = Stop) by congruence; revert W end. apply obind_no_stop; [apply wrap_up_no_stop|intro; apply wrap_down_no_stop].
          -- inversion H; subst. intros [|f2]; [apply quiet_0|]. apply wrap_quiet. eapply NQ; [|eassumption]; assumption.
        * (* PCounter *)
          rewrite step_counter_eq in H. stop_inv H. inversion H; subst.
          intros [|f2]; [apply quiet_0|]. apply counter_quiet. eapply NQ; [|eassumption]; assumption.
        * (* PStutter *)
          rewrite step_stutter_eq in H. stop_inv H.
          -- inversion H; subst. intros [|f2]; [apply quiet_0|]. apply stutter_quiet; [assumption|]. right. eapply NQ; [|eassumption]; assumption.
          -- inversion H; subst. intros [|f2]; [apply quiet_0|]. apply stutter_quiet; [assumption|]. left. eapply AQ; [|eassumption]; assumption.
        * (* PLoop *)
          rewrite step_loop_eq in H. stop_inv H.
          all: inversion H; subst; cbn [andb] in *; try discriminate.
          all: apply loop_stopped_quiet; [assumption | first [left; assumption | right; split; assumption]].
        * (* PSubsequence *)
          destruct f as [|f']; [discriminate|]. rewrite step_subsequence_eq, !value_scalar in H. stop_inv H.
          -- inversion H; subst. apply subsequence_stopped_quiet. assumption.
          -- inversion H; subst.
             match goal with C1 : pull_until _ _ _ _ _ = _ |- _ =>
               destruct (pull_until_stop farg (anext (S f')) (farg_anext_closed (S f')) _ _ _ _ _ _ H0 C1) as [T [a0 [Fa0 Ea0]]] end.
             intros [|[|f2]]; [apply quiet_0|apply stable_quiet with (o := OutOfFuel); reflexivity|].
             eapply subsequence_input_quiet; eauto.
        * (* PIndexOf *)
          pose proof (farg_simple _ H0) as Sa. pose proof (simple_value f a Sa) as Sa'.
          destruct (bs_stop PIndexOf indexof_g step_indexof_eq indexof_g_no_stop f a b p' Sa H) as [[a' [E ->]]|[va [a' [b' [Ea [Eb ->]]]]]];
            (intros [|f2]; [apply quiet_0|]); apply (bs_quiet PIndexOf indexof_g step_indexof_eq).
          -- rewrite E in Sa'. exact Sa'.
          -- left. eapply AQ; [|eassumption]; assumption.
          -- rewrite Ea in Sa'. exact Sa'.
          -- right. eapply AQ; [|eassumption]; assumption.
        * (* PIndexOf over a literal list *)
          destruct (plain_items l) as [vs|] eqn:Pl; [|rewrite step_indexof_list_none in H by exact Pl; discriminate].
          destruct (unary_stop binop LMAX (fun b => PIndexOf (AL l) b) (indexof_g (VList vs)) (fun f a => step_indexof_list_eq f l vs a Pl)
                      (indexof_g_no_stop (VList vs)) _ _ _ H) as [a' [E ->]].
          intros [|f2]; [apply quiet_0|].
          apply (unary_quiet binop LMAX (fun b => PIndexOf (AL l) b) (indexof_g (VList vs)) (fun f a => step_indexof_list_eq f l vs a Pl)).
          eapply AQ; [|eassumption]; assumption.
        * (* PDictKey *)
          pose proof (farg_simple _ H0) as Sa. pose proof (simple_value f a Sa) as Sa'.
          destruct (bs_stop PDictKey dictkey_g step_dictkey_eq dictkey_g_no_stop f a b p' Sa H) as [[a' [E ->]]|[va [a' [b' [Ea [Eb ->]]]]]];
            (intros [|f2]; [apply quiet_0|]); apply (bs_quiet PDictKey dictkey_g step_dictkey_eq).
          -- rewrite E in Sa'. exact Sa'.
          -- left. eapply AQ; [|eassumption]; assumption.
          -- rewrite Ea in Sa'. exact Sa'.
          -- right. eapply AQ; [|eassumption]; assumption.
        * (* PDictKey over a literal dict *)
          destruct (plain_kw kv) as [d|] eqn:Pk; [|rewrite step_dictkey_dict_eq, Pk in H; discriminate].
          assert (MS : forall f a, step (S f) (PDictKey (AD kv) a) =
                    (let '(o, a') := value f a in
                     match o with Yield v => (dictkey_g (VDict d) v, PDictKey (AD kv) a') | _ => (o, PDictKey (AD kv) a') end))
            by (intros; rewrite step_dictkey_dict_eq, Pk; reflexivity).
          destruct (unary_stop binop LMAX (fun b => PDictKey (AD kv) b) (dictkey_g (VDict d)) MS (dictkey_g_no_stop (VDict d)) _ _ _ H) as [a' [E ->]].
          intros [|f2]; [apply quiet_0|].
          apply (unary_quiet binop LMAX (fun b => PDictKey (AD kv) b) (dictkey_g (VDict d)) MS).
          eapply AQ; [|eassumption]; assumption.
        * (* PArrayIndex *)
          destruct (arrayindex_stop binop LMAX _ _ _ _ _ H) as [l' [i' ->]]. apply arrayindex_exhausted_quiet.
        * (* PConcatenate *)
          destruct (concat_stop farg farg_anext_closed _ _ _ _ H0 H) as [l' [pos' [a0 [a' [f0 [-> [Hp [Hi [Fa0 [Ea0 Lt]]]]]]]]]].
          intros [|f2]; [apply quiet_0|].
          eapply concat_stopped_quiet; [reflexivity|exact Hp|exact Hi|].
          eapply (proj2 (proj2 (IHf f0 Lt))); eauto.
      + intros a a' Hs H. destruct Hs as [v|p Hp]; [discriminate|].
        rewrite value_pattern in H. destruct (step f p) as [o p1] eqn:E. inversion H; subst.
        intros [|f2]; [apply aquiet_0|]. apply aquiet_pattern. eapply Q; eauto.
      + intros a a' Hs H. destruct Hs as [v|p Hp]; [discriminate|].
        rewrite anext_pattern in H. destruct (step f p) as [o p1] eqn:E. inversion H; subst.
        intros [|f2]; [apply nquiet_0|]. apply nquiet_pattern. eapply Q; eauto.
  Qed.
End Sticky.

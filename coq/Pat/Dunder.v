(* Pat/Dunder.v — what the Python operators build: the dunder methods of class Pattern
   (core.py Pattern.__add__ ... __rrshift__, __eq__ ... __le__, __and__, __neg__, __abs__) together with
   Python's dispatch rule (left operand's method first; if the left operand is not a Pattern the right
   operand's reflected method — for comparisons the mirrored method — is called).

   [dunder s l r] is the constructor call that evaluating `l s r` performs, for l or r a pattern
   expression.  No proofs here. *)
From Isobar Require Import Base.Prelude Pat.Val Pat.Syntax.

Inductive osym := SOp (o : op) | SAnd.

Definition is_ep (a : earg) : bool := match a with EP _ => true | _ => false end.

(** Pattern.pattern(scalar) for a number: PConstant(scalar) *)
Definition pconst (a : earg) : earg := EP (ECall CConstant [a]).

Definition dunder (s : osym) (l r : earg) : pexpr :=
  match s with
  | SAnd => ECall CAnd [l; r]                              (* __and__ (there is no __rand__: scalar & p is a TypeError) *)
  | SOp o =>
      if is_ep l then ECall (CBinOp o) [l; r]              (* l.__op__(r): POp(self, operand) *)
      else
        match o with
        | OAdd | OMul => ECall (CBinOp o) [r; l]           (* __radd__/__rmul__: return self.__add__(operand) *)
        | OSub | ODiv | OFloorDiv | OLShift | ORShift => ECall (CBinOp o) [l; r]      (* POp(operand, self) *)
        | OMod | OPow => ECall (CBinOp o) [pconst l; r]    (* operand = Pattern.pattern(operand); operand.__mod__(self) *)
        | OEq => ECall (CBinOp OEq) [r; l]                 (* int.__eq__ gives NotImplemented: r.__eq__(l) *)
        | ONe => ECall (CBinOp ONe) [r; l]
        | OLt => ECall (CBinOp OGt) [r; l]                 (* l < r  ->  r.__gt__(l) *)
        | OLe => ECall (CBinOp OGe) [r; l]
        | OGt => ECall (CBinOp OLt) [r; l]
        | OGe => ECall (CBinOp OLe) [r; l]
        end
  end.

Definition dunder_neg (x : earg) : pexpr := ECall (CBinOp OSub) [EV (VInt 0); x].     (* __neg__: return 0 - self *)
Definition dunder_abs (x : earg) : pexpr := ECall CAbs [x].                           (* __abs__: return PAbs(self) *)

(* Pat/RefSrc2.v — the closed forms of Pat/RefProofs2.v / RefProofs3.v (property C10, Props/C10More.v) restated for the
   definitions generated from the source text (Generated/TablesStep.v) through the tie lemmas of Pat/StepSrc.v: SrcDen
   (Pat/RefSrc.v) instead of Den, src_PPingPong_init instead of construct.  Lemmas only; theorems in Props/C10Src.v. *)
From Isobar Require Import Base.Prelude Pat.Val Pat.Syntax Pat.Step Pat.StepProofs Pat.Ref Pat.RefProofs Pat.FuelMono Pat.RefProofs2.
From Isobar Require Import Pat.IterProofs Pat.ResetProofs Pat.RefProofs3 Generated.TablesStep Pat.StepSrc Pat.RefSrc.
From Coq Require Import String QArith.
Open Scope Z_scope.

Section SrcDen2.
  Variable binop : op -> val -> val -> outcome val.
  Variable LMAX : nat.
  Notation SrcDen := (SrcDen binop LMAX).
  Notation Den := (Den binop LMAX).

  Theorem src_impulse_den f P : 1 <= P -> SrcDen (S (S f)) (PImpulse (AV (VInt P)) 0) (Inf (ref_impulse P)).
  Proof. intros. apply SrcDen_iff. apply impulse_den; assumption. Qed.

  Theorem src_counter_den f c zs : Den f c (Fin (map zi zs)) ->
    SrcDen (S (S f)) (PCounter (AP c) (VInt 0) 0) (Fin (ref_counter_from 0 0 zs)).
  Proof. intros. apply SrcDen_iff. apply counter_den; assumption. Qed.

  Theorem src_wrap_den f c s mn mx K : mn < mx -> Den f c s ->
    (forall j v, at_ s j = Yield v -> exists z, v = VInt z /\ Z.abs (z - mn) <= Z.of_nat K * (mx - mn)) ->
    SrcDen (S (S (f + K))) (PWrap (AP c) (VInt mn) (VInt mx)) (sem_map (wrapv mn mx) s).
  Proof. intros. apply SrcDen_iff. apply wrap_den; assumption. Qed.

  Theorem src_collapse_den f c l : Den f c (Fin l) ->
    SrcDen (S (f + List.length l + 2)) (PCollapse (AP c)) (Fin (ref_collapse l)).
  Proof. intros. apply SrcDen_iff. apply collapse_den; assumption. Qed.

  Theorem src_norepeats_den f c l : Den f c (Fin l) -> (forall v, In v l -> py_eq v (VInt MAXSIZE) = false) ->
    SrcDen (S (f + List.length l + 2)) (PNoRepeats (AP c) (VInt MAXSIZE)) (Fin (ref_norepeats_from (VInt MAXSIZE) l)).
  Proof. intros. apply SrcDen_iff. apply norepeats_den; assumption. Qed.

  Theorem src_padm_den f c s m mp : (1 <= m)%nat -> Den f c s ->
    SrcDen (S (S f)) (PPadToMultiple (AP c) (VInt (Z.of_nat m)) (VInt (Z.of_nat mp)) 0 0) (sem_pad_to_multiple m mp s).
  Proof. intros. apply SrcDen_iff. apply padm_den; assumption. Qed.

  Theorem src_loop_den f c s count : (1 <= count)%nat -> Den f c s ->
    SrcDen (S (S f)) (PLoop (AP c) (VInt (Z.of_nat count)) 0 0 false []) (sem_loop count s).
  Proof. intros. apply SrcDen_iff. apply loop_den; assumption. Qed.

  Theorem src_concatenate_den f c0 l0 cs ls : Den f c0 (Fin l0) -> Forall2 (fun c l => Den f c (Fin l)) cs ls ->
    SrcDen (S (f + List.length cs + 1)) (PConcatenate (AL (map AP (c0 :: cs))) 0) (Fin (ref_concatenate (l0 :: ls))).
  Proof. intros. apply SrcDen_iff. apply concatenate_den; assumption. Qed.

  (* PPingPong: __init__ as written (self.reset(): super().reset(); self.pattern.reset(); self.values = self.pattern.all()) *)
  Theorem src_pingpong_den f c l count F : Den f c (Fin l) -> Resets binop LMAX f c -> (List.length l <= LMAX)%nat -> (f + 3 <= S F)%nat ->
    exists p, src_PPingPong_init (reset binop LMAX F) (value binop LMAX) F (areset_strict binop LMAX)
                (fun n a => aall binop LMAX n LMAX a) (AP c) (VInt (Z.of_nat count)) = Yield p /\
              forall g, SrcDen (S g) p (Fin (ref_pingpong count l)).
  Proof.
    intros Hc Hr Hl HF. rewrite <- PPingPong_init_src.
    destruct (pingpong_den binop LMAX f c l count (S F) Hc Hr Hl HF) as (p & E & H).
    exists p. split; [exact E|]. intro g. apply SrcDen_iff. apply H.
  Qed.

  (* PReset: next(self.trigger); self.pattern.reset() when positive; next(self.pattern) *)
  Theorem src_reset_den f c g ct st : Den f c (Inf g) -> Resets binop LMAX f c -> Den f ct st ->
    (forall j v, at_ st j = Yield v -> v = VNone \/ exists t, v = VInt t) ->
    SrcDen (S (S f)) (PReset (AP c) (AP ct)) (sem_reset g st).
  Proof. intros. apply SrcDen_iff. apply reset_den; assumption. Qed.
End SrcDen2.

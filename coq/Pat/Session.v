(* Pat/Session.v — SESSIONS: several pattern objects alive in one process, constructed, stepped and reset in
   interleaved order (property C10: "each deterministic pattern class produces, for all arguments ..., exactly the
   sequence its documentation defines" - a function of the object's OWN arguments, whatever else exists in the program).

   Part 1: sessions over any kind of object whose constructor, next() and reset() are functions of the program text /
   the object alone - which is what Pat/Step.v (init, step, reset have no state argument besides the object) and the
   arpeggiator of Part 2 are.  A session is a list of operations  SsNew program | SsNext i | SsReset i ; object i is the
   i-th one constructed.  [alone] is the same object built and driven on its own.
   Part 2: PArpeggiator with its `loop` argument (Pat/Ref.v has the one-shot arrangements): restart() transcribed with
   the looping variants (sequence.py: UPDOWN / DOWNUP drop the last entry when loop and more than one note, ROOTBOUNCE
   drops the last three when loop), and the object: __init__, __next__ (which restarts itself when looping), reset().
   No proofs here (Pat/SessionProofs.v). *)
From Isobar Require Import Base.Prelude Pat.Val Pat.Syntax Pat.Step Pat.Ref.
From Coq Require Import String.
Open Scope Z_scope.

(** * Part 1: sessions *)
Section Session.
  Variables Prog Obj Out : Type.
  Variable build : Prog -> option Obj.          (* the constructor: None = it raised *)
  Variable onext : Obj -> Out * Obj.
  Variable oreset : Obj -> Obj.

  Inductive sess_op := SsNew (p : Prog) | SsNext (i : nat) | SsReset (i : nat).
  Inductive lone_op := LNext | LReset.

  (* the objects constructed so far, in order (None: the constructor raised, the name is unbound) *)
  Definition sess_state := list (option Obj).

  Definition sess_step (w : sess_state) (o : sess_op) : sess_state * option (nat * Out) :=
    match o with
    | SsNew p => (w ++ [build p], None)
    | SsNext i => match nth_error w i with
                  | Some (Some x) => let '(v, x') := onext x in (update_nth i (Some x') w, Some (i, v))
                  | _ => (w, None)
                  end
    | SsReset i => match nth_error w i with
                   | Some (Some x) => (update_nth i (Some (oreset x)) w, None)
                   | _ => (w, None)
                   end
    end.
  Fixpoint sess_run (w : sess_state) (ops : list sess_op) : list (nat * Out) :=
    match ops with
    | [] => []
    | o :: r => let '(w', e) := sess_step w o in
                match e with Some x => x :: sess_run w' r | None => sess_run w' r end
    end.

  (* one object on its own *)
  Fixpoint alone (x : Obj) (ops : list lone_op) : list Out :=
    match ops with
    | [] => []
    | LNext :: r => let '(v, x') := onext x in v :: alone x' r
    | LReset :: r => alone (oreset x) r
    end.

  (* what a session does to object i: from the moment it exists (n = number of objects constructed before op) *)
  Fixpoint sess_proj (i n : nat) (ops : list sess_op) : list lone_op :=
    match ops with
    | [] => []
    | SsNew _ :: r => sess_proj i (S n) r
    | SsNext j :: r => if Nat.eqb j i && Nat.ltb i n then LNext :: sess_proj i n r else sess_proj i n r
    | SsReset j :: r => if Nat.eqb j i && Nat.ltb i n then LReset :: sess_proj i n r else sess_proj i n r
    end.
  (* the program text of the i-th constructor call of a session *)
  Fixpoint sess_prog (i : nat) (ops : list sess_op) : option Prog :=
    match ops with
    | [] => None
    | SsNew p :: r => match i with O => Some p | S i' => sess_prog i' r end
    | _ :: r => sess_prog i r
    end.
  Fixpoint outputs_of (i : nat) (es : list (nat * Out)) : list Out :=
    match es with
    | [] => []
    | (k, v) :: r => if Nat.eqb k i then v :: outputs_of i r else outputs_of i r
    end.
End Session.
Arguments SsNew {Prog}. Arguments SsNext {Prog}. Arguments SsReset {Prog}.

(** * Part 2: PArpeggiator(chord, type, loop) *)
(* restart(), the tail of the UPDOWN / DOWNUP / ROOTBOUNCE branches:
     if (self.loop and len(self._notes) > 1): self.offsets = self.offsets[:-1]          (UPDOWN, DOWNUP)
     if (self.loop): self.offsets = self.offsets[:-3]                                   (ROOTBOUNCE)        *)
Definition arp_offsets_loop (ty : Z) (n : nat) (loop : bool) : option (list Z) :=
  match arp_offsets ty n with
  | None => None
  | Some offs =>
      if loop then
        if (ty =? ARP_UPDOWN) || (ty =? ARP_DOWNUP) then Some (if (1 <? n)%nat then removelast offs else offs)
        else if ty =? ARP_ROOTBOUNCE then Some (firstn (List.length offs - 3) offs)
        else Some offs
      else Some offs
  end.

Record arp_obj := mkArpObj { ao_ty : Z; ao_notes : list Z; ao_loop : bool; ao_offsets : list Z; ao_pos : Z }.

(* __init__: self._notes = sorted(chord); self.pos = 0; self.restart()     (None: restart() raised ValueError) *)
Definition arp_build (p : Z * list Z * bool) : option arp_obj :=
  let '(ty, notes, loop) := p in
  let s := sort_notes notes in
  match arp_offsets_loop ty (List.length s) loop with
  | Some offs => Some (mkArpObj ty s loop offs 0)
  | None => None
  end.

(* reset(): self.pos = 0; self.restart() - the offsets are recomputed from (type, len(notes), loop) *)
Definition arp_reset (x : arp_obj) : arp_obj :=
  match arp_offsets_loop (ao_ty x) (List.length (ao_notes x)) (ao_loop x) with
  | Some offs => mkArpObj (ao_ty x) (ao_notes x) (ao_loop x) offs 0
  | None => x
  end.

(* __next__:
     if len(self._notes) == 0: self.pos = 0; return None
     if pos < len(self.offsets) and (pos < len(self._notes) or self.type > 5): rv = self._notes[self.offsets[pos]]; self.pos = pos + 1
     elif self.loop: self.pos = 0; self.reset(); return next(self)
     else: raise StopIteration                                        (offsets may be negative: Python indexing) *)
Definition arp_yield (x : arp_obj) : outcome val * arp_obj :=
  match py_index (ao_offsets x) (ao_pos x) with
  | Some o => match py_index (ao_notes x) o with
              | Some v => (Yield (VInt v), mkArpObj (ao_ty x) (ao_notes x) (ao_loop x) (ao_offsets x) (ao_pos x + 1))
              | None => (Raise IndexError, x)
              end
  | None => (Raise IndexError, x)
  end.
Definition arp_fits (x : arp_obj) : bool :=
  (ao_pos x <? Z.of_nat (List.length (ao_offsets x))) && ((ao_pos x <? Z.of_nat (List.length (ao_notes x))) || (5 <? ao_ty x)).
Definition arp_next (x : arp_obj) : outcome val * arp_obj :=
  match ao_notes x with
  | [] => (Yield VNone, mkArpObj (ao_ty x) (ao_notes x) (ao_loop x) (ao_offsets x) 0)
  | _ =>
      if arp_fits x then arp_yield x
      else if ao_loop x then
        let x' := arp_reset x in
        if arp_fits x' then arp_yield x' else (Stop, x')       (* next(self) after the restart *)
      else (Stop, x)
  end.

(* the first n results of repeated next() *)
Fixpoint arp_outputs (n : nat) (x : arp_obj) : list (outcome val) :=
  match n with
  | O => []
  | S n' => let '(o, x') := arp_next x in o :: arp_outputs n' x'
  end.

(* the model's trace of a script next/reset (reset is observed as None) for the correspondence check *)
Fixpoint arp_trace (x : arp_obj) (ops : list lone_op) : list (outcome val) :=
  match ops with
  | [] => []
  | LNext :: r => let '(o, x') := arp_next x in o :: arp_trace x' r
  | LReset :: r => Yield VNone :: arp_trace (arp_reset x) r
  end.
Definition obs_list_eqb (a b : list (outcome val)) : bool :=
  list_eqb (fun x y => match x, y with
                       | Yield u, Yield v => val_eqb u v
                       | Stop, Stop => true
                       | Raise e, Raise e' => exn_eqb e e'
                       | _, _ => false
                       end) a b.
(* expected = constructor observation :: observations of the script *)
Definition arp_check (p : Z * list Z * bool) (ops : list lone_op) (expected : list (outcome val)) : bool :=
  match arp_build p, expected with
  | Some x, Yield VNone :: r => obs_list_eqb (arp_trace x ops) r
  | None, [Raise ValueError] => true
  | _, _ => false
  end.

(* Pat/StickySrc.v — the stickiness theorems of Pat/StickyProofs.v (property C09) restated for the __next__ bodies
   generated from the source text (Generated/TablesStep.v), through src_step_is of Pat/StepSrc.v.
   Lemmas only; the property theorems are in Props/C09Src.v. *)
From Isobar Require Import Base.Prelude Pat.Val Pat.Syntax Pat.Step Pat.StepProofs Pat.IterProofs Pat.StickyProofs Pat.StickyConcat Pat.StickyProofs2
  Generated.TablesStep Pat.StepSrc.
From Coq Require Import String QArith.
Open Scope Z_scope.

Section StickySrc.
  Variable binop : op -> val -> val -> outcome val.
  Variable LMAX : nat.

  (* no value on any of the next n calls, each executed as the source defines it *)
  Fixpoint src_nyields (f n : nat) (p : pat) : Prop :=
    match n with
    | O => True
    | S n' => let '(o, p') := src_step binop LMAX f p in is_yield o = false /\ src_nyields f n' p'
    end.
  Definition src_quiet (f : nat) (p : pat) : Prop := forall n, src_nyields f n p.

  Lemma src_nyields_is f n : forall p, src_nyields f n p <-> nyields binop LMAX f n p.
  Proof.
    induction n as [|n IH]; intro p; [reflexivity|]. cbn [src_nyields nyields]. rewrite src_step_is.
    destruct (step binop LMAX f p) as [o p']. rewrite IH. reflexivity.
  Qed.
  Lemma src_quiet_is f p : src_quiet f p <-> quiet binop LMAX f p.
  Proof. unfold src_quiet, quiet. split; intros H n; apply src_nyields_is, H. Qed.

  Theorem src_counter_sticky f p p' :
    ends_by_counter p = true -> src_step binop LMAX f p = (Stop, p') ->
    p' = p /\ src_step binop LMAX f p' = (Stop, p') /\ src_quiet f p'.
  Proof.
    rewrite src_step_is. intros Hc H.
    assert (E : p' = p) by (eapply counter_stop_stable; eauto). subst p'.
    split; [reflexivity|]. split; [rewrite src_step_is; exact H|].
    apply src_quiet_is. apply dead_quiet. eapply counter_dead; eauto.
  Qed.

  Theorem src_sticky f p p' :
    (forall o x y, binop o x y <> Stop) ->
    sticky_pat p -> src_step binop LMAX f p = (Stop, p') -> src_quiet f p'.
  Proof.
    intros Hns Hp H. rewrite src_step_is in H. apply src_quiet_is.
    exact (proj1 (sticky_quiet binop LMAX Hns f) p p' Hp H).
  Qed.

  Theorem src_sticky_transformers f p p' :
    (forall o x y, binop o x y <> Stop) ->
    fpat p -> src_step binop LMAX f p = (Stop, p') -> forall f2, src_quiet f2 p'.
  Proof.
    intros Hns Hp H f2. rewrite src_step_is in H. apply src_quiet_is.
    exact (proj1 (fpat_quiet binop LMAX Hns f) p p' Hp H f2).
  Qed.
  (* PConcatenate.__next__ as written (try / next(self.inputs[self.pos]) / next(self)) *)
  Theorem src_sticky_concatenate f l pos p' :
    (forall o x y, binop o x y <> Stop) ->
    Forall farg l ->
    src_PConcatenate_next Val.binop (value binop LMAX) (anext binop LMAX) f (step binop LMAX) (AL l) pos = (Stop, p') ->
    forall f2, src_quiet f2 p'.
  Proof.
    intros Hns Hl H f2. rewrite <- PConcatenate_next_src in H. apply src_quiet_is.
    exact (concat_quiet binop LMAX Hns (S f) l pos p' Hl H f2).
  Qed.
  (* PArrayIndex.__next__ as written: once it has raised StopIteration the exhausted flag is set and no later call returns a value *)
  Theorem src_arrayindex_sticky f l i e p' :
    src_PArrayIndex_next Val.binop (value binop LMAX) (anext binop LMAX) f l i e = (Stop, p') ->
    (exists l' i', p' = PArrayIndex l' i' true) /\ forall f2, src_quiet f2 p'.
  Proof.
    intro H. rewrite <- PArrayIndex_next_src in H.
    destruct (arrayindex_stop binop LMAX _ _ _ _ _ H) as [l' [i' ->]].
    split; [eauto|]. intro f2. apply src_quiet_is. apply arrayindex_exhausted_quiet.
  Qed.
End StickySrc.

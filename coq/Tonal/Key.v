(* Tonal/Key.v — executable model of isobar/scale.py (Scale.get), isobar/key.py
   (Key.get, Key.semitones, Key.__contains__, Key.nearest_note) and of
   util.note_name_to_midi_note / util.midi_note_to_note_name.
   Python's // and % are floor division / modulo with the sign of the divisor = Z.div / Z.modulo. *)
From Isobar Require Import Base.Prelude.
From Coq Require Import String Ascii.
Local Notation length := List.length (only parsing).

Record scale := mkScale { semis : list Z; osize : Z }.
Record key := mkKey { tonic : Z; kscale : scale }.

Definition slen (s : scale) : Z := Z.of_nat (length (semis s)).

(* Scale.get(n):  octave = n // len; degree = n % len; octave_size*octave + semitones[degree] *)
Definition scale_get (s : scale) (n : Z) : Z :=
  osize s * (n / slen s) + znth (semis s) (n mod slen s).

(* Key.get(degree) = scale[degree] + tonic *)
Definition key_get (k : key) (d : Z) : Z := scale_get (kscale k) d + tonic k.

(* list.sort() on ints *)
Fixpoint insert (x : Z) (l : list Z) : list Z :=
  match l with
  | [] => [x]
  | y :: r => if x <=? y then x :: y :: r else y :: insert x r
  end.
Fixpoint isort (l : list Z) : list Z :=
  match l with [] => [] | x :: r => insert x (isort r) end.

(* Key.semitones: sorted [(n + tonic) % octave_size for n in scale.semitones] *)
Definition key_semitones (k : key) : list Z :=
  isort (map (fun n => (n + tonic k) mod osize (kscale k)) (semis (kscale k))).

(* Key.__contains__ for a non-rest note *)
Definition key_contains (k : key) (x : Z) : bool :=
  existsb (Z.eqb (x mod osize (kscale k))) (key_semitones k).

(* the loop of nearest_note: keep the first strict improvement *)
Definition argmin_step (p : Z) (acc : option (Z * Z)) (c : Z) : option (Z * Z) :=
  let d := Z.abs (c - p) in
  match acc with
  | None => Some (c, d)
  | Some (_, bd) => if d <? bd then Some (c, d) else acc
  end.

Definition nearest_candidates (k : key) : list Z :=
  let o := osize (kscale k) in
  let ss := key_semitones k in
  ss ++ [hd 0 ss + o; last ss 0 - o].

Definition nearest_note (k : key) (x : Z) : Z :=
  if key_contains k x then x else
  let o := osize (kscale k) in
  match fold_left (argmin_step (x mod o)) (nearest_candidates k) None with
  | Some (b, _) => (x / o) * o + b
  | None => x
  end.

(* rests: None is passed through by get and is always "in key" *)
Definition key_get_opt (k : key) (d : option Z) : option Z := option_map (key_get k) d.
Definition key_contains_opt (k : key) (x : option Z) : bool :=
  match x with None => true | Some x => key_contains k x end.

(* documented domain of a scale: at least one semitone, strictly ascending, all within one octave *)
Fixpoint ascb (l : list Z) : bool :=
  match l with
  | x :: ((y :: _) as r) => (x <? y) && ascb r
  | _ => true
  end.
Definition valid_scale (s : scale) : bool :=
  match semis s with
  | [] => false
  | x :: _ => (0 <=? x) && ascb (semis s) && (last (semis s) 0 <? osize s)
  end.

(** * Note names *)

Definition is_digit (c : ascii) : bool := let n := nat_of_ascii c in (48 <=? n)%nat && (n <=? 57)%nat.
Definition digit_val (c : ascii) : Z := Z.of_nat (nat_of_ascii c) - 48.
Definition upper (c : ascii) : ascii :=
  let n := nat_of_ascii c in if (97 <=? n)%nat && (n <=? 122)%nat then ascii_of_nat (n - 32) else c.
Definition lower (c : ascii) : ascii :=
  let n := nat_of_ascii c in if (65 <=? n)%nat && (n <=? 90)%nat then ascii_of_nat (n + 32) else c.
(* str.capitalize() on ASCII *)
Definition capitalize (cs : list ascii) : list ascii :=
  match cs with [] => [] | c :: r => upper c :: map lower r end.

Fixpoint find_index {A} (f : A -> bool) (l : list A) (i : Z) : option Z :=
  match l with [] => None | x :: r => if f x then Some i else find_index f r (i + 1) end.

(* util.note_name_to_midi_note; None stands for the raised exception *)
Definition note_name_to_midi_note (tbl : list (list string)) (name : string) : option Z :=
  let cs := list_ascii_of_string name in
  let split :=
    match rev cs with
    | [] => None
    | c :: r =>
        if is_digit c then
          match r with
          | [] => None                                   (* name[-2] on a 1-char string *)
          | m :: r' => if Ascii.eqb m "-"%char then Some (- digit_val c, rev r') else Some (digit_val c, rev r)
          end
        else Some (-1, cs)
    end in
  match split with
  | None => None
  | Some (octave, nm) =>
      let cap := string_of_list_ascii (capitalize nm) in
      match find_index (fun set => existsb (String.eqb cap) set) tbl 0 with
      | None => None
      | Some i => Some ((octave + 1) * 12 + i)
      end
  end.

(* "%d" *)
Fixpoint show_pos (fuel : nat) (n : Z) (acc : string) : string :=
  match fuel with
  | O => acc
  | S f => let acc' := String (ascii_of_nat (Z.to_nat (48 + n mod 10))) acc in
           if n <? 10 then acc' else show_pos f (n / 10) acc'
  end.
Definition show_Z (z : Z) : string :=
  if z <? 0 then ("-" ++ show_pos 30 (- z) "")%string else show_pos 30 z ""%string.

(* util.midi_note_to_note_name on ints; None = InvalidMIDIPitch *)
Definition midi_note_to_note_name (tbl : list (list string)) (n : Z) : option string :=
  if (n <? 0) || (127 <? n) then None else
  let len := Z.of_nat (length tbl) in
  match nth (Z.to_nat (n mod len)) tbl [] with
  | [] => None
  | nm :: _ => Some (nm ++ show_Z (n / len - 1))%string
  end.

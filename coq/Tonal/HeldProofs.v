(* Tonal/HeldProofs.v — lemmas about Tonal/Held.v: what an in-place operation on a held Key / Scale object does to the
   definition of EVERY key of the process, what a key built from a name or copied from another object is, and that a
   tonal pattern holding objects asks them as they are at the moment of each step. *)
From Isobar Require Import Base.Prelude Tonal.Key Tonal.KeyProofs Tonal.Progression Tonal.ProgressionProofs Generated.Tables Tonal.Held.
From Coq Require Import String.
Local Notation length := List.length (only parsing).

(** * association lists *)
Lemma alookup_cons {A} (l : list (nat * A)) i j (a : A) :
  alookup ((j, a) :: l) i = if Nat.eqb j i then Some a else alookup l i.
Proof. unfold alookup. cbn [find fst snd]. destruct (Nat.eqb j i); reflexivity. Qed.

Lemma scale_of_put_scale st oid s o : scale_of (put_scale st oid s) o = if Nat.eqb oid o then Some s else scale_of st o.
Proof. unfold scale_of, put_scale. cbn [st_scales]. apply alookup_cons. Qed.
Lemma kobj_of_put_scale st oid s slot : kobj_of (put_scale st oid s) slot = kobj_of st slot.
Proof. reflexivity. Qed.
Lemma reg_of_put_scale st oid s name : reg_of (put_scale st oid s) name = reg_of st name.
Proof. reflexivity. Qed.
Lemma scale_of_put_key st slot ko o : scale_of (put_key st slot ko) o = scale_of st o.
Proof. reflexivity. Qed.
Lemma kobj_of_put_key st slot ko sl : kobj_of (put_key st slot ko) sl = if Nat.eqb slot sl then Some ko else kobj_of st sl.
Proof. unfold kobj_of, put_key. cbn [st_keys]. apply alookup_cons. Qed.
Lemma reg_of_put_key st slot ko name : reg_of (put_key st slot ko) name = reg_of st name.
Proof. reflexivity. Qed.
Lemma scale_of_register st name oid o : scale_of (register st name oid) o = scale_of st o.
Proof. unfold register. destruct (reg_of st name); reflexivity. Qed.
Lemma kobj_of_register st name oid sl : kobj_of (register st name oid) sl = kobj_of st sl.
Proof. unfold register. destruct (reg_of st name); reflexivity. Qed.
Lemma key_of_register st name oid sl : key_of (register st name oid) sl = key_of st sl.
Proof. unfold key_of. rewrite kobj_of_register. destruct (kobj_of st sl); [rewrite scale_of_register|]; reflexivity. Qed.

Lemma find_app_str (l1 l2 : list (string * nat)) f :
  find f (l1 ++ l2) = match find f l1 with Some p => Some p | None => find f l2 end.
Proof. induction l1 as [|a r IH]; cbn [find app]; [reflexivity|]. destruct (f a); [reflexivity|exact IH]. Qed.

(* Scale.__init__: "if name not in Scale.dict: Scale.dict[name] = self" - the first registration wins *)
Lemma reg_of_register st name oid name' :
  reg_of (register st name oid) name' =
  match reg_of st name' with
  | Some o => Some o
  | None => if String.eqb name name' then Some oid else None
  end.
Proof.
  unfold register. destruct (reg_of st name) as [o|] eqn:E.
  - destruct (reg_of st name') as [o'|] eqn:E'; [reflexivity|].
    destruct (String.eqb name name') eqn:N; [|reflexivity].
    apply String.eqb_eq in N. subst name'. congruence.
  - clear E. unfold reg_of. cbn [st_reg]. rewrite find_app_str.
    destruct (find (fun p => String.eqb (fst p) name') (st_reg st)) as [p|]; [reflexivity|]. cbn [find fst snd].
    rewrite String.eqb_sym. destruct (String.eqb name' name); reflexivity.
Qed.

(* the definition of a key after a Scale object was written *)
Lemma key_of_put_scale st oid s slot :
  key_of (put_scale st oid s) slot =
  match kobj_of st slot with
  | Some ko => if Nat.eqb oid (ko_scale ko) then Some (mkKey (ko_tonic ko) s) else key_of st slot
  | None => None
  end.
Proof.
  unfold key_of. rewrite kobj_of_put_scale. destruct (kobj_of st slot) as [ko|]; [|reflexivity].
  rewrite scale_of_put_scale. destruct (Nat.eqb oid (ko_scale ko)); reflexivity.
Qed.
Lemma key_of_put_key st slot ko sl :
  key_of (put_key st slot ko) sl =
  if Nat.eqb slot sl then option_map (mkKey (ko_tonic ko)) (scale_of st (ko_scale ko)) else key_of st sl.
Proof.
  unfold key_of. rewrite kobj_of_put_key. destruct (Nat.eqb slot sl); [|reflexivity].
  rewrite scale_of_put_key. destruct (scale_of st (ko_scale ko)); reflexivity.
Qed.

Lemma key_of_some st slot k : key_of st slot = Some k ->
  exists ko, kobj_of st slot = Some ko /\ scale_of st (ko_scale ko) = Some (kscale k) /\ tonic k = ko_tonic ko.
Proof.
  unfold key_of. destruct (kobj_of st slot) as [ko|]; [|discriminate].
  destruct (scale_of st (ko_scale ko)) as [s|] eqn:Es; [|discriminate]. intros H; inversion H; subst.
  exists ko. cbn [kscale tonic]. repeat split. exact Es.
Qed.

(** * re-tuning a held key in place *)

(* key.tonic = t: this key has the new tonic and the scale it had; every other key is what it was *)
Lemma held_tonic st slot t k : key_of st slot = Some k ->
  key_of (hstep st (HTonic slot t)) slot = Some (mkKey t (kscale k))
  /\ forall sl, sl <> slot -> key_of (hstep st (HTonic slot t)) sl = key_of st sl.
Proof.
  intros H. destruct (key_of_some _ _ _ H) as (ko & Hk & Hs & _). cbn [hstep]. rewrite Hk. split.
  - rewrite key_of_put_key, Nat.eqb_refl. cbn [ko_scale ko_tonic]. rewrite Hs. reflexivity.
  - intros sl Hne. rewrite key_of_put_key. destruct (Nat.eqb slot sl) eqn:E; [apply Nat.eqb_eq in E; congruence|reflexivity].
Qed.

(* key.scale = <object oid>: this key has its tonic and the object's present definition *)
Lemma held_rescale st slot oid k s : key_of st slot = Some k -> scale_of st oid = Some s ->
  key_of (hstep st (HRescale slot oid)) slot = Some (mkKey (tonic k) s)
  /\ forall sl, sl <> slot -> key_of (hstep st (HRescale slot oid)) sl = key_of st sl.
Proof.
  intros H Hs. destruct (key_of_some _ _ _ H) as (ko & Hk & _ & Ht). cbn [hstep]. rewrite Hk. split.
  - rewrite key_of_put_key, Nat.eqb_refl. cbn [ko_scale ko_tonic]. rewrite Hs, Ht. reflexivity.
  - intros sl Hne. rewrite key_of_put_key. destruct (Nat.eqb slot sl) eqn:E; [apply Nat.eqb_eq in E; congruence|reflexivity].
Qed.

(* scale.semitones = l (or shuffled / changed in place): EVERY key that refers to this Scale object now has these
   semitones, its tonic and the object's octave size; every key on another Scale object is what it was *)
Lemma held_semis st oid l s : scale_of st oid = Some s ->
  forall slot ko, kobj_of st slot = Some ko ->
  key_of (hstep st (HSemis oid l)) slot =
  if Nat.eqb oid (ko_scale ko) then Some (mkKey (ko_tonic ko) (mkScale l (osize s))) else key_of st slot.
Proof. intros Hs slot ko Hk. cbn [hstep]. rewrite Hs, key_of_put_scale, Hk. reflexivity. Qed.

Lemma held_osize st oid o s : scale_of st oid = Some s ->
  forall slot ko, kobj_of st slot = Some ko ->
  key_of (hstep st (HOsize oid o)) slot =
  if Nat.eqb oid (ko_scale ko) then Some (mkKey (ko_tonic ko) (mkScale (semis s) o)) else key_of st slot.
Proof. intros Hs slot ko Hk. cbn [hstep]. rewrite Hs, key_of_put_scale, Hk. reflexivity. Qed.

(** * frame: an operation on another Key object and another Scale object changes nothing *)
Definition op_slot (o : hop) : option nat :=
  match o with
  | HKey sl _ _ | HKeyNamed sl _ _ | HKeyCopy sl _ | HKeyDeep sl _ _ | HTonic sl _ | HRescale sl _ => Some sl
  | _ => None
  end.
Definition op_oid (o : hop) : option nat :=
  match o with
  | HScale oid _ _ | HScaleCopy oid _ | HKeyDeep _ _ oid | HSemis oid _ | HOsize oid _ => Some oid
  | _ => None
  end.

Lemma held_frame st o slot ko :
  kobj_of st slot = Some ko -> op_slot o <> Some slot -> op_oid o <> Some (ko_scale ko) ->
  key_of (hstep st o) slot = key_of st slot.
Proof.
  intros Hk Hsl Hoid.
  assert (PS : forall oid s, oid <> ko_scale ko -> key_of (put_scale st oid s) slot = key_of st slot).
  { intros oid s Hne. rewrite key_of_put_scale, Hk.
    destruct (Nat.eqb oid (ko_scale ko)) eqn:E; [apply Nat.eqb_eq in E; contradiction|reflexivity]. }
  assert (PK : forall st' sl ko', sl <> slot -> key_of (put_key st' sl ko') slot = key_of st' slot).
  { intros st' sl ko' Hne. rewrite key_of_put_key.
    destruct (Nat.eqb sl slot) eqn:E; [apply Nat.eqb_eq in E; contradiction|reflexivity]. }
  destruct o as [oid name s|oid src|sl t oid|sl t name|sl src|sl src oid|sl t|sl oid|oid l|oid o]; cbn [hstep op_slot op_oid] in *.
  - rewrite key_of_register. apply PS. congruence.
  - destruct (scale_of st src); [apply PS; congruence|reflexivity].
  - apply PK. congruence.
  - destruct (reg_of st name); [apply PK; congruence|reflexivity].
  - destruct (kobj_of st src); [apply PK; congruence|reflexivity].
  - destruct (kobj_of st src) as [k0|]; [|reflexivity]. destruct (scale_of st (ko_scale k0)); [|reflexivity].
    rewrite PK by congruence. apply PS. congruence.
  - destruct (kobj_of st sl); [apply PK; congruence|reflexivity].
  - destruct (kobj_of st sl); [apply PK; congruence|reflexivity].
  - destruct (scale_of st oid); [apply PS; congruence|reflexivity].
  - destruct (scale_of st oid); [apply PS; congruence|reflexivity].
Qed.

(** * keys built from an object, from a NAME, and copies *)
Lemma held_key st slot t oid s : scale_of st oid = Some s ->
  key_of (hstep st (HKey slot t oid)) slot = Some (mkKey t s).
Proof. intros H. cbn [hstep]. rewrite key_of_put_key, Nat.eqb_refl. cbn [ko_scale ko_tonic]. rewrite H. reflexivity. Qed.

(* Key(t, name): the scale REGISTERED under the name, with its own semitones and its own octave size *)
Lemma held_key_named st slot t name s : reg_scale st name = Some s ->
  key_of (hstep st (HKeyNamed slot t name)) slot = Some (mkKey t s).
Proof.
  unfold reg_scale. intros H. cbn [hstep]. destruct (reg_of st name) as [oid|]; [|discriminate].
  rewrite key_of_put_key, Nat.eqb_refl. cbn [ko_scale ko_tonic]. rewrite H. reflexivity.
Qed.

(* a user-defined scale is found under its name as soon as it is constructed (unless the name was taken before) *)
Lemma held_register st oid name s : reg_of st name = None ->
  reg_scale (hstep st (HScale oid name s)) name = Some s.
Proof.
  intros H. unfold reg_scale. cbn [hstep]. rewrite reg_of_register, reg_of_put_scale, H, String.eqb_refl.
  rewrite scale_of_register, scale_of_put_scale, Nat.eqb_refl. reflexivity.
Qed.

(* ... and what a name stands for never changes by constructing further scales (whatever they are called) on other objects *)
Lemma held_registered_stays st oid name s name' o : reg_of st name' = Some o -> o <> oid ->
  reg_scale (hstep st (HScale oid name s)) name' = reg_scale st name'.
Proof.
  intros H Hne. unfold reg_scale. cbn [hstep]. rewrite reg_of_register, reg_of_put_scale, H.
  rewrite scale_of_register, scale_of_put_scale.
  destruct (Nat.eqb oid o) eqn:E; [apply Nat.eqb_eq in E; congruence|reflexivity].
Qed.

(* a copy of a Scale object is a scale with the same semitones and the same octave size *)
Lemma held_scale_copy st oid src s : scale_of st src = Some s ->
  scale_of (hstep st (HScaleCopy oid src)) oid = Some s
  /\ (oid <> src -> scale_of (hstep st (HScaleCopy oid src)) src = Some s).
Proof.
  intros H. cbn [hstep]. rewrite H. split; [rewrite scale_of_put_scale, Nat.eqb_refl; reflexivity|].
  intros Hne. rewrite scale_of_put_scale. destruct (Nat.eqb oid src) eqn:E; [apply Nat.eqb_eq in E; contradiction|exact H].
Qed.

(* copies of a Key object (shallow: the same Scale object; deep: a new one) have the definition of the original *)
Lemma held_key_copy st slot src k : key_of st src = Some k ->
  key_of (hstep st (HKeyCopy slot src)) slot = Some k.
Proof.
  intros H. destruct (key_of_some _ _ _ H) as (ko & Hk & Hs & Ht). cbn [hstep]. rewrite Hk.
  rewrite key_of_put_key, Nat.eqb_refl, Hs. cbn [option_map]. rewrite <- Ht. destruct k; reflexivity.
Qed.
Lemma held_key_deep st slot src oid k : key_of st src = Some k ->
  key_of (hstep st (HKeyDeep slot src oid)) slot = Some k.
Proof.
  intros H. destruct (key_of_some _ _ _ H) as (ko & Hk & Hs & Ht). cbn [hstep]. rewrite Hk, Hs.
  rewrite key_of_put_key, Nat.eqb_refl. cbn [ko_scale ko_tonic]. rewrite scale_of_put_scale, Nat.eqb_refl.
  cbn [option_map]. rewrite <- Ht. destruct k; reflexivity.
Qed.

(** * the library's own scales are registered under their names from the start *)
Lemma enum_reg_ge {A} (f : string * A -> bool) : forall (l : list (string * A)) i p,
  find (fun q => f (snd q)) (enum_from i l) = Some p -> (i <= fst p)%nat.
Proof.
  induction l as [|x r IH]; intros i p; cbn [enum_from find]; [discriminate|]. cbn [snd].
  destruct (f x); [intros H; inversion H; cbn; lia|]. intros H. apply IH in H. lia.
Qed.

Lemma init_reg_scale_gen name : forall (l : list (string * scale)) i,
  let e := enum_from i l in
  match find (fun p => String.eqb (fst p) name) (map (fun p => (fst (snd p), fst p)) e) with
  | Some p => alookup (map (fun p => (fst p, snd (snd p))) e) (snd p)
  | None => None
  end = match find (fun ns => String.eqb (fst ns) name) l with Some ns => Some (snd ns) | None => None end.
Proof.
  induction l as [|[nm s] r IH]; intros i; cbn [enum_from map find fst snd]; [reflexivity|].
  destruct (String.eqb nm name) eqn:E.
  - cbn [snd]. rewrite alookup_cons, Nat.eqb_refl. reflexivity.
  - specialize (IH (S i)). cbn zeta in IH. rewrite <- IH.
    destruct (find _ (map _ (enum_from (S i) r))) as [p|] eqn:F; [|reflexivity].
    rewrite alookup_cons.
    assert (S i <= snd p)%nat as G.
    { clear IH. revert F. generalize (S i). induction r as [|[nm' s'] r' IHr]; intros j; cbn [enum_from map find fst snd]; [discriminate|].
      destruct (String.eqb nm' name); [intros H; inversion H; cbn; lia|]. intros H. apply IHr in H. lia. }
    destruct (Nat.eqb i (snd p)) eqn:N; [apply Nat.eqb_eq in N; lia|reflexivity].
Qed.

Lemma init_reg_scale name :
  reg_scale init_store name =
  match find (fun ns => String.eqb (fst ns) name) builtin_scales with Some ns => Some (snd ns) | None => None end.
Proof.
  unfold reg_scale, reg_of, scale_of, init_store. cbn [st_reg st_scales].
  pose proof (init_reg_scale_gen name builtin_scales 0) as H. cbn zeta in H. rewrite <- H.
  destruct (find _ _) as [p|]; reflexivity.
Qed.

(** * a tonal pattern that holds objects asks them as they are at each step *)
Definition kref_nth (kr : kref) (i : nat) : option oref :=
  match kr with RConst r => Some r | RSeq rs => nth_error rs i end.

Lemma ksrc_now_nth st kr i : ksrc_nth (ksrc_now st kr) i = option_map (oref_key st) (kref_nth kr i).
Proof. destruct kr as [r|rs]; cbn; [reflexivity|]. apply nth_error_map. Qed.

Lemma kref_pull_now st kr :
  ksrc_pull (ksrc_now st kr) =
  match kref_pull kr with Some (r, kr') => Some (oref_key st r, ksrc_now st kr') | None => None end.
Proof. destruct kr as [r|[|r rs]]; reflexivity. Qed.

(* one nextn call in the store st is a fresh run of the pattern class over the remaining notes and the keys' PRESENT
   definitions *)
Lemma hp_nextn_out st : forall n p,
  map obs_out (fst (hp_nextn st n p)) = tonal_nextn (tfn_step (hp_f p)) n (mkT (hp_mel p) (ksrc_now st (hp_keys p))).
Proof.
  induction n as [|n IH]; intros [f mel kr]; [reflexivity|].
  cbn [hp_nextn hp_mel hp_keys hp_f tonal_nextn]. unfold tonal_next. cbn [t_mel t_keys].
  destruct mel as [|x mel']; [reflexivity|]. rewrite kref_pull_now.
  destruct (kref_pull kr) as [[r kr']|]; [|reflexivity].
  specialize (IH (mkHP f mel' kr')). destruct (hp_nextn st n (mkHP f mel' kr')) as [obs p'].
  cbn [fst map obs_out snd] in *. rewrite IH. reflexivity.
Qed.

(* every observed step: the key is the referred object's definition in st, the note is the next of the melody, the
   output is the class's function of the two *)
Lemma hp_nextn_obs st : forall n p i k x y,
  nth_error (fst (hp_nextn st n p)) i = Some (k, x, y) ->
  nth_error (hp_mel p) i = Some x
  /\ option_map (oref_key st) (kref_nth (hp_keys p) i) = Some k
  /\ y = tfn_step (hp_f p) k x.
Proof.
  induction n as [|n IH]; intros [f mel kr] i k x y; [destruct i; discriminate|].
  cbn [hp_nextn hp_mel hp_keys hp_f].
  destruct mel as [|x0 mel']; [destruct i; discriminate|].
  destruct (kref_pull kr) as [[r kr']|] eqn:P; [|destruct i; discriminate].
  specialize (IH (mkHP f mel' kr')). destruct (hp_nextn st n (mkHP f mel' kr')) as [obs p'].
  cbn [fst] in *. destruct i as [|i]; cbn [nth_error].
  - intros H; inversion H; subst. split; [reflexivity|]. split; [|reflexivity].
    destruct kr as [r0|[|r0 rs]]; cbn in P; inversion P; subst; reflexivity.
  - intros H. destruct (IH i k x y H) as (A & B & C). cbn [hp_mel hp_keys hp_f] in *.
    split; [exact A|]. split; [|exact C].
    destruct kr as [r0|[|r0 rs]]; cbn in P; inversion P; subst; exact B.
Qed.

(* ... and the pattern object has moved on by exactly the number of values it returned: one note and one key per value *)
Lemma kref_skip_S kr r kr' g : kref_pull kr = Some (r, kr') -> kref_skip g kr' = kref_skip (S g) kr.
Proof. destruct kr as [r0|[|r0 rs]]; cbn; intros H; inversion H; subst; reflexivity. Qed.

Lemma hp_nextn_state st : forall n p,
  let g := length (fst (hp_nextn st n p)) in
  snd (hp_nextn st n p) = mkHP (hp_f p) (skipn g (hp_mel p)) (kref_skip g (hp_keys p)).
Proof.
  induction n as [|n IH]; intros [f mel kr]; cbn zeta.
  - cbn. destruct kr; reflexivity.
  - cbn [hp_nextn hp_mel hp_keys hp_f].
    destruct mel as [|x mel']; [cbn; destruct kr; reflexivity|].
    destruct (kref_pull kr) as [[r kr']|] eqn:P; [|cbn; destruct kr as [r0|[|r0 rs]]; try discriminate; reflexivity].
    specialize (IH (mkHP f mel' kr')). cbn zeta in IH. destruct (hp_nextn st n (mkHP f mel' kr')) as [obs p'].
    cbn [fst snd length hp_mel hp_keys hp_f] in *. rewrite IH. cbn [skipn].
    rewrite (kref_skip_S kr r kr' _ P). reflexivity.
Qed.

Lemma skipn_add {A} (l : list A) : forall b a, skipn a (skipn b l) = skipn (b + a) l.
Proof.
  induction l as [|x r IH]; intros b a; [destruct a, b; reflexivity|].
  destruct b as [|b]; [reflexivity|]. cbn [skipn Nat.add]. apply IH.
Qed.
Lemma kref_skip_skip a b kr : kref_skip a (kref_skip b kr) = kref_skip (b + a) kr.
Proof. destruct kr as [r|rs]; cbn; [reflexivity|]. rewrite skipn_add. reflexivity. Qed.

(** * sessions: creating patterns and asking them for values changes no object; mutations consume nothing *)
Lemma xrun_store : forall ops s, ss_store (xrun s ops) = hrun (ss_store s) (xmuts ops).
Proof.
  induction ops as [|o r IH]; intros s; [reflexivity|].
  unfold xrun in *. cbn [fold_left xmuts flat_map]. rewrite IH.
  destruct o as [m|pid p|pid n]; cbn [xstep fst ss_store app hrun fold_left]; try reflexivity.
  destruct (pat_of s pid) as [p|]; [|reflexivity]. destruct (hp_nextn (ss_store s) n p). reflexivity.
Qed.

(* the number of values pattern pid has returned during ops *)
Fixpoint xproduced (s : sess) (ops : list xop) (pid : nat) : nat :=
  match ops with
  | [] => O
  | o :: r =>
      (match o with
       | XNext pid' _ => if Nat.eqb pid' pid then length (snd (xstep s o)) else O
       | _ => O
       end + xproduced (fst (xstep s o)) r pid)%nat
  end.
Definition opens (pid : nat) (o : xop) : bool := match o with XOpen pid' _ => Nat.eqb pid' pid | _ => false end.

Lemma pat_of_cons s pid p pid' :
  pat_of (mkSess (ss_store s) ((pid, p) :: ss_pats s)) pid' = if Nat.eqb pid pid' then Some p else pat_of s pid'.
Proof. unfold pat_of. cbn [ss_pats]. apply alookup_cons. Qed.

Lemma xrun_positions : forall ops s pid p,
  pat_of s pid = Some p -> existsb (opens pid) ops = false ->
  pat_of (xrun s ops) pid =
  Some (mkHP (hp_f p) (skipn (xproduced s ops pid) (hp_mel p)) (kref_skip (xproduced s ops pid) (hp_keys p))).
Proof.
  induction ops as [|o r IH]; intros s pid p Hp Hno.
  - cbn. rewrite Hp. destruct p as [f mel kr]; destruct kr; reflexivity.
  - cbn [existsb] in Hno. apply orb_false_iff in Hno as [Ho Hr].
    unfold xrun in *. cbn [fold_left xproduced].
    destruct o as [m|pid' p'|pid' n]; cbn [xstep fst snd].
    + rewrite (IH _ pid p); [reflexivity| |exact Hr]. exact Hp.
    + cbn [opens] in Ho. rewrite (IH _ pid p); [reflexivity| |exact Hr].
      rewrite pat_of_cons, Ho. exact Hp.
    + destruct (Nat.eqb pid' pid) eqn:E.
      * apply Nat.eqb_eq in E. subst pid'. rewrite Hp.
        pose proof (hp_nextn_state (ss_store s) n p) as St. cbn zeta in St.
        destruct (hp_nextn (ss_store s) n p) as [obs p1]. cbn [fst snd] in *.
        rewrite (IH _ pid p1); [| |exact Hr].
        -- subst p1. cbn [hp_f hp_mel hp_keys]. rewrite skipn_add, kref_skip_skip. reflexivity.
        -- rewrite pat_of_cons, Nat.eqb_refl. reflexivity.
      * destruct (pat_of s pid') as [q|] eqn:Q.
        -- destruct (hp_nextn (ss_store s) n q) as [obs q1]. cbn [fst snd].
           rewrite (IH _ pid p); [reflexivity| |exact Hr]. rewrite pat_of_cons, E. exact Hp.
        -- cbn [fst snd]. rewrite (IH _ pid p); [reflexivity|exact Hp|exact Hr].
Qed.

(** * what a registered NAME denotes is not changed by constructing scales, weighted scales, copies and keys - under
      whatever names - nor by re-tuning other objects *)
Lemma reg_of_hstep st o name r : reg_of st name = Some r -> reg_of (hstep st o) name = Some r.
Proof.
  intros H.
  destruct o as [oid nm s|oid src|sl t oid|sl t nm|sl src|sl src oid|sl t|sl oid|oid l|oid o]; cbn [hstep].
  - rewrite reg_of_register, reg_of_put_scale, H. reflexivity.
  - destruct (scale_of st src); [rewrite reg_of_put_scale|]; exact H.
  - rewrite reg_of_put_key. exact H.
  - destruct (reg_of st nm); [rewrite reg_of_put_key|]; exact H.
  - destruct (kobj_of st src); [rewrite reg_of_put_key|]; exact H.
  - destruct (kobj_of st src) as [k0|]; [|exact H]. destruct (scale_of st (ko_scale k0)); [|exact H].
    rewrite reg_of_put_key, reg_of_put_scale. exact H.
  - destruct (kobj_of st sl); [rewrite reg_of_put_key|]; exact H.
  - destruct (kobj_of st sl); [rewrite reg_of_put_key|]; exact H.
  - destruct (scale_of st oid); [rewrite reg_of_put_scale|]; exact H.
  - destruct (scale_of st oid); [rewrite reg_of_put_scale|]; exact H.
Qed.

Lemma scale_of_hstep_other st o oid : op_oid o <> Some oid -> scale_of (hstep st o) oid = scale_of st oid.
Proof.
  intros H.
  assert (PS : forall x s, x <> oid -> scale_of (put_scale st x s) oid = scale_of st oid).
  { intros x s Hne. rewrite scale_of_put_scale. destruct (Nat.eqb x oid) eqn:E; [apply Nat.eqb_eq in E; contradiction|reflexivity]. }
  destruct o as [x nm s|x src|sl t x|sl t nm|sl src|sl src x|sl t|sl x|x l|x o]; cbn [hstep op_oid] in *.
  - rewrite scale_of_register. apply PS. congruence.
  - destruct (scale_of st src); [apply PS; congruence|reflexivity].
  - reflexivity.
  - destruct (reg_of st nm); reflexivity.
  - destruct (kobj_of st src); reflexivity.
  - destruct (kobj_of st src) as [k0|]; [|reflexivity]. destruct (scale_of st (ko_scale k0)); [|reflexivity].
    rewrite scale_of_put_key. apply PS. congruence.
  - destruct (kobj_of st sl); reflexivity.
  - destruct (kobj_of st sl); reflexivity.
  - destruct (scale_of st x); [apply PS; congruence|reflexivity].
  - destruct (scale_of st x); [apply PS; congruence|reflexivity].
Qed.

(* one operation that does not write the registered object itself *)
Lemma name_stable st o name r : reg_of st name = Some r -> op_oid o <> Some r ->
  reg_of (hstep st o) name = Some r /\ reg_scale (hstep st o) name = reg_scale st name.
Proof.
  intros H Hne. pose proof (reg_of_hstep st o name r H) as R. split; [exact R|].
  unfold reg_scale. rewrite R, H. apply scale_of_hstep_other. exact Hne.
Qed.

(* any history of such operations *)
Lemma name_stable_run : forall ops st name r, reg_of st name = Some r ->
  Forall (fun o => op_oid o <> Some r) ops ->
  reg_of (hrun st ops) name = Some r /\ reg_scale (hrun st ops) name = reg_scale st name.
Proof.
  induction ops as [|o rest IH]; intros st name r H F; [split; [exact H|reflexivity]|].
  inversion F as [|o' l' Ho Hrest]; subst. cbn [hrun fold_left].
  destruct (name_stable st o name r H Ho) as [R1 R2].
  destruct (IH (hstep st o) name r R1 Hrest) as [A B]. split; [exact A|]. unfold hrun in B. rewrite B. exact R2.
Qed.

(* the operations that CONSTRUCT objects (they never touch an existing Scale object when the new object is new) *)
Definition constructs (o : hop) : bool :=
  match o with
  | HScale _ _ _ | HScaleCopy _ _ | HKey _ _ _ | HKeyNamed _ _ _ | HKeyCopy _ _ | HKeyDeep _ _ _ => true
  | _ => false
  end.

(* Tonal/Progression.v — executable model of
   (a) the tonal patterns of isobar/pattern/tonal.py (PFilterByKey, PNearestNoteInKey, PDegree) when the
       KEY argument is itself a pattern (a key progression), and
   (b) a session of several keys that live in the same process and are built, re-configured and queried
       in any order (isobar/key.py keeps no state besides `tonic` and `scale`; a scale's NAME is not part
       of the model at all, so two scales with the same name are unrelated).
   No proofs here. *)
From Isobar Require Import Base.Prelude Tonal.Key.
Local Notation length := List.length (only parsing).

(** * (a) tonal patterns over a stream of keys *)

(* what `Pattern.value(self.key)` can pull from: a constant (not a pattern: the same object for ever) or a
   finite pattern whose remaining values are listed (a PSequence(keys, repeats) is the list keys*repeats) *)
Inductive ksrc :=
| KConst (k : key)
| KSeq (ks : list key).

Definition ksrc_pull (s : ksrc) : option (key * ksrc) :=
  match s with
  | KConst k => Some (k, s)
  | KSeq [] => None                       (* StopIteration out of the key pattern *)
  | KSeq (k :: r) => Some (k, KSeq r)
  end.

(* the key in force at step i *)
Definition ksrc_nth (s : ksrc) (i : nat) : option key :=
  match s with KConst k => Some k | KSeq ks => nth_error ks i end.

(* the pattern object: what is left of the note (or degree) pattern and of the key source *)
Record tstate := mkT { t_mel : list (option Z); t_keys : ksrc }.

(* PFilterByKey.__next__ after both values were pulled:  `note if note in key else None`
   (Key.__contains__(None) is True, so a rest is returned as the rest it is) *)
Definition filter_step (k : key) (x : option Z) : option Z :=
  match x with
  | None => None
  | Some v => if key_contains k v then Some v else None
  end.
(* PNearestNoteInKey.__next__:  key.nearest_note(note); nearest_note(None) is None because None is in key *)
Definition snap_step (k : key) (x : option Z) : option Z := option_map (nearest_note k) x.
(* PDegree.__next__:  None if degree is None else scale[degree]  (Key.__getitem__ = Key.get) *)
Definition degree_step (k : key) (d : option Z) : option Z := key_get_opt k d.

(* __next__ of all three:  note = Pattern.value(self.pattern); key = Pattern.value(self.key); return f key note.
   BOTH values are pulled on every step, the note first; None = StopIteration *)
Definition tonal_next (f : key -> option Z -> option Z) (s : tstate) : option (option Z * tstate) :=
  match t_mel s with
  | [] => None
  | x :: mel' =>
      match ksrc_pull (t_keys s) with
      | None => None
      | Some (k, ks') => Some (f k x, mkT mel' ks')
      end
  end.

(* Pattern.nextn(n): up to n values, stops at the first StopIteration *)
Fixpoint tonal_nextn (f : key -> option Z -> option Z) (n : nat) (s : tstate) : list (option Z) :=
  match n with
  | O => []
  | S n' => match tonal_next f s with
            | None => []
            | Some (y, s') => y :: tonal_nextn f n' s'
            end
  end.

(* PNearestNoteInKey(PFilterByKey(melody, keysA), keysB): the rests of the inner pattern feed the outer one *)
Definition chain_nextn (n : nat) (mel : list (option Z)) (ka kb : ksrc) : list (option Z) :=
  tonal_nextn snap_step n (mkT (tonal_nextn filter_step n (mkT mel ka)) kb).

(** * (b) several keys in one process *)

Inductive sop :=
| SBuild (slot : nat) (k : key)         (* slot = Key(tonic, Scale(semitones, <any name>, octave_size)) *)
| SRetune (slot : nat) (t : Z)          (* slot.tonic = t *)
| SRescale (slot : nat) (s : scale).    (* slot.scale = s *)

Definition sop_slot (o : sop) : nat :=
  match o with SBuild s _ => s | SRetune s _ => s | SRescale s _ => s end.

(* the definition of the key in `slot` after the operations `ops` (oldest first) *)
Fixpoint session_key_from (cur : option key) (ops : list sop) (slot : nat) : option key :=
  match ops with
  | [] => cur
  | o :: r =>
      let cur' :=
        if Nat.eqb (sop_slot o) slot then
          match o with
          | SBuild _ k => Some k
          | SRetune _ t => option_map (fun k => mkKey t (kscale k)) cur
          | SRescale _ s => option_map (fun k => mkKey (tonic k) s) cur
          end
        else cur in
      session_key_from cur' r slot
  end.
Definition session_key (ops : list sop) (slot : nat) : option key := session_key_from None ops slot.

(* the key of `slot` at the moment the first j operations have run (an empty key if there is none) *)
Definition sk (ops : list sop) (j : nat) (slot : nat) : key :=
  match session_key (firstn j ops) slot with
  | Some k => k
  | None => mkKey 0 (mkScale [] 0)
  end.

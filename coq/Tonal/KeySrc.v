(* Tonal/KeySrc.v — the definitions translated from the BODIES of Scale.get (isobar/scale.py) and Key.get, Key.semitones,
   Key.__contains__, Key.nearest_note (isobar/key.py) (Generated/TablesTonal.v, rewritten from the source text by
   harness/gen_tables_tonal.py on every run of ./check C13) are the model of Tonal/Key.v.  A change of one of these bodies
   breaks this file, i.e. a proof obligation of C13.

   source                     model                tie
   src_scale_get              scale_get            src_scale_get_is        reflexivity (per case of the optional argument)
   src_key_get                key_get_opt          src_key_get_is          reflexivity
   src_key_semitones          key_semitones        src_key_semitones_is    reflexivity
   src_key_contains           key_contains_opt     src_key_contains_is     reflexivity
   src_key_nearest_note       nearest_note         src_key_nearest_note_is short lemmas: l[0] = hd, l[-1] = last, and the loop
        state (nearest_semitone, nearest_distance) - two optional ints in the source - against the model's one optional pair.
   Definedness (no ZeroDivisionError / IndexError / None used as a number on the executed path): src_*_defined_ok, under
   the hypotheses the C13 theorems have anyway (a scale with at least one semitone, octave size <> 0).

   DIFFERENCE found between source and model: none in the values.  (The model's `None => x` arm of nearest_note - an empty
   candidate list - corresponds to the source's TypeError arm `octave * size + None`; both are unreachable: the candidate
   list always has the two extra notes, see fold_pairs_some.) *)
From Coq Require Import Permutation Sorted.
From Isobar Require Import Base.Prelude Tonal.Key Tonal.KeyProofs Generated.TablesTonal.
Local Open Scope Z_scope.
Local Notation length := List.length (only parsing).

(** * Values *)
Lemma src_scale_get_is s n : src_scale_get s n = option_map (scale_get s) n.
Proof. destruct n; reflexivity. Qed.

Lemma src_key_semitones_is k : src_key_semitones k = key_semitones k.
Proof. reflexivity. Qed.

Lemma src_key_contains_is k x : src_key_contains k x = key_contains_opt k x.
Proof. destruct x; reflexivity. Qed.

Lemma src_key_get_is k d : src_key_get k d = key_get_opt k d.
Proof. destruct d; reflexivity. Qed.

(* list indexing as the source writes it against the model's hd / last *)
Lemma znth_0_hd (l : list Z) : znth l 0 = hd 0 l.
Proof. destruct l; reflexivity. Qed.
Lemma znth_last (l : list Z) : znth l (Z.of_nat (length l) - 1) = last l 0.
Proof.
  rewrite last_nth. unfold znth. destruct l as [|a r]; [reflexivity|].
  f_equal. cbn [length]. lia.
Qed.

(* the loop of nearest_note: the source keeps two optional ints, the model one optional pair *)
Definition src_step (pitch : Z) : option Z * option Z -> Z -> option Z * option Z :=
  fun '(nearest_semitone, nearest_distance) semitone =>
  let distance := Z.abs (semitone - pitch) in
  match nearest_distance with
  | None => (Some semitone, Some distance)
  | Some nd => if distance <? nd then (Some semitone, Some distance) else (nearest_semitone, Some nd)
  end.

Definition pair_of (acc : option (Z * Z)) : option Z * option Z :=
  match acc with None => (None, None) | Some (c, d) => (Some c, Some d) end.

Lemma fold_pairs p l : forall acc,
  fold_left (src_step p) l (pair_of acc) = pair_of (fold_left (argmin_step p) l acc).
Proof.
  induction l as [|c r IH]; intros acc; [reflexivity|]. cbn [fold_left]. rewrite <- IH. f_equal.
  destruct acc as [[b bd]|]; cbn; [|reflexivity]. destruct (Z.abs (c - p) <? bd); reflexivity.
Qed.

Lemma fold_pairs_some p l c : exists b d, fold_left (argmin_step p) (l ++ [c]) None = Some (b, d).
Proof.
  destruct (l ++ [c]) as [|x r] eqn:E; [destruct l; discriminate|].
  destruct (argmin_cons p x r) as [b [H _]]. eauto.
Qed.

Theorem src_key_nearest_note_is k x : src_key_nearest_note k x = nearest_note k x.
Proof.
  unfold src_key_nearest_note, nearest_note. change (src_key_contains k (Some x)) with (key_contains k x).
  destruct (key_contains k x); [reflexivity|]. cbv zeta. rewrite src_key_semitones_is.
  rewrite znth_0_hd, znth_last. fold (nearest_candidates k).
  set (o := osize (kscale k)).
  change (fold_left _ (nearest_candidates k) (None, None))
    with (fold_left (src_step (x mod o)) (nearest_candidates k) (pair_of None)).
  rewrite fold_pairs.
  destruct (fold_left (argmin_step (x mod o)) (nearest_candidates k) None) as [[b d]|] eqn:F; [reflexivity|].
  exfalso. unfold nearest_candidates in F.
  change (?a ++ [?b; ?c]) with (a ++ [b] ++ [c]) in F. rewrite app_assoc in F.
  destruct (fold_pairs_some (x mod o) (key_semitones k ++ [hd 0 (key_semitones k) + osize (kscale k)])
              (last (key_semitones k) 0 - osize (kscale k))) as [b [d H]].
  fold o in H. unfold o in *. congruence.
Qed.

(** * list.sort() on ints: isort returns the sorted permutation (what the translation of `.sort()` relies on) *)
Lemma insert_perm x l : Permutation.Permutation (insert x l) (x :: l).
Proof.
  induction l as [|y r IH]; cbn [insert]; [apply Permutation.Permutation_refl|].
  destruct (x <=? y); [apply Permutation.Permutation_refl|].
  eapply Permutation.perm_trans; [apply Permutation.perm_skip, IH | apply Permutation.perm_swap].
Qed.
Lemma isort_sorted_perm l : Sorted.StronglySorted Z.le (isort l) /\ Permutation.Permutation (isort l) l.
Proof.
  split; [apply isort_sorted|]. induction l as [|x r IH]; [constructor|]. cbn [isort].
  eapply Permutation.perm_trans; [apply insert_perm | apply Permutation.perm_skip, IH].
Qed.
Lemma isort_length l : length (isort l) = length l.
Proof. apply Permutation.Permutation_length, isort_sorted_perm. Qed.

(** * Definedness *)
Lemma src_scale_get_defined_ok s n : semis s <> [] -> src_scale_get_defined s n = true.
Proof.
  intros Hne. destruct n as [n|]; [|reflexivity]. unfold src_scale_get_defined. cbv zeta.
  assert (L : 0 < Z.of_nat (length (semis s))) by (destruct (semis s); [congruence | cbn [length]; lia]).
  pose proof (Z.mod_pos_bound n _ L).
  destruct (Z.of_nat (length (semis s)) =? 0) eqn:E; [lia|]. cbn [negb andb].
  destruct (0 <=? n mod Z.of_nat (length (semis s))) eqn:E1; [|lia].
  destruct (n mod Z.of_nat (length (semis s)) <? Z.of_nat (length (semis s))) eqn:E2; [reflexivity|lia].
Qed.

Lemma src_key_semitones_defined_ok k : osize (kscale k) <> 0 -> src_key_semitones_defined k = true.
Proof.
  intros Ho. unfold src_key_semitones_defined. cbv zeta. rewrite andb_true_r.
  apply forallb_forall. intros n _. destruct (osize (kscale k) =? 0) eqn:E; [lia|reflexivity].
Qed.

Lemma src_key_contains_defined_ok k x : osize (kscale k) <> 0 -> src_key_contains_defined k x = true.
Proof.
  intros Ho. destruct x as [x|]; [|reflexivity]. unfold src_key_contains_defined.
  rewrite src_key_semitones_defined_ok by exact Ho. destruct (osize (kscale k) =? 0) eqn:E; [lia|reflexivity].
Qed.

Lemma src_key_get_defined_ok k d : semis (kscale k) <> [] -> src_key_get_defined k d = true.
Proof.
  intros Hne. destruct d as [d|]; [|reflexivity]. unfold src_key_get_defined.
  rewrite src_scale_get_defined_ok by exact Hne. reflexivity.
Qed.

Lemma src_key_nearest_note_defined_ok k x : osize (kscale k) <> 0 -> semis (kscale k) <> [] ->
  src_key_nearest_note_defined k x = true.
Proof.
  intros Ho Hne. unfold src_key_nearest_note_defined.
  rewrite src_key_contains_defined_ok, src_key_semitones_defined_ok by exact Ho. cbn [andb].
  destruct (src_key_contains k (Some x)); [reflexivity|]. cbv zeta.
  destruct (osize (kscale k) =? 0) eqn:E; [lia|]. cbn [negb andb].
  assert (L : 0 < Z.of_nat (length (src_key_semitones k))).
  { unfold src_key_semitones. cbv zeta. rewrite isort_length, map_length. destruct (semis (kscale k)); [congruence | cbn [length]; lia]. }
  destruct (0 <? Z.of_nat (length (src_key_semitones k))) eqn:E1; [|lia].
  destruct (1 <=? Z.of_nat (length (src_key_semitones k))) eqn:E2; [|lia]. cbn [Z.leb Z.compare andb].
  rewrite src_key_semitones_is, znth_0_hd, znth_last.
  set (o := osize (kscale k)).
  change (fold_left _ _ (None, None))
    with (fold_left (src_step (x mod o)) (key_semitones k ++ [hd 0 (key_semitones k) + o; last (key_semitones k) 0 - o]) (pair_of None)).
  rewrite fold_pairs.
  change (?a ++ [?b; ?c]) with (a ++ [b] ++ [c]). rewrite app_assoc.
  destruct (fold_pairs_some (x mod o) (key_semitones k ++ [hd 0 (key_semitones k) + o]) (last (key_semitones k) 0 - o)) as [b [d H]].
  rewrite H. reflexivity.
Qed.

Print Assumptions src_key_nearest_note_is.
Print Assumptions src_key_nearest_note_defined_ok.

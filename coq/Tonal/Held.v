(* Tonal/Held.v — executable model of Key and Scale OBJECTS that are held by the user (and by patterns and event
   dictionaries) and RE-TUNED IN PLACE while they are in use, of the registry of named scales (Scale.dict /
   Scale.byname) and of copies of scales and keys.

   isobar/key.py: a Key object has the attributes `tonic` and `scale` (a reference to a Scale OBJECT) and nothing
   else: get / __contains__ / semitones / nearest_note read both attributes on every call.  isobar/scale.py: a Scale
   object has `semitones`, `octave_size`, `name`; Scale.__init__ registers the object under its name in Scale.dict
   unless the name is taken (the FIRST registration wins); Scale.byname(name) returns the registered OBJECT.
   So the definition a key has at some moment is: its current tonic + the current semitones / octave size of the
   Scale object it currently refers to.  Two keys may refer to the same Scale object.

   Shared by property C13 (queries and tonal patterns on held keys, Props/C13.v) and property C03 (event streams whose
   `key` is a held Key object, Sched/EventHeld.v, Props/C03.v).
   No proofs here (Tonal/HeldProofs.v). *)
From Isobar Require Import Base.Prelude Tonal.Key Tonal.Progression Generated.Tables.
From Coq Require Import String.
Local Notation length := List.length (only parsing).

(** * the object store *)
Record kobj := mkKO { ko_tonic : Z; ko_scale : nat }.          (* Key object: tonic, the Scale object it refers to *)
Record store := mkStore {
  st_scales : list (nat * scale);      (* Scale objects by identity; the latest write comes first *)
  st_reg : list (string * nat);        (* Scale.dict: name -> object, in registration order *)
  st_keys : list (nat * kobj) }.       (* Key objects by identity (slot); the latest write comes first *)

Definition alookup {A} (l : list (nat * A)) (i : nat) : option A :=
  match find (fun p => Nat.eqb (fst p) i) l with Some p => Some (snd p) | None => None end.
Definition scale_of (st : store) (oid : nat) : option scale := alookup (st_scales st) oid.
Definition kobj_of (st : store) (slot : nat) : option kobj := alookup (st_keys st) slot.
(* Scale.dict.get(name): the first object registered under the name *)
Definition reg_of (st : store) (name : string) : option nat :=
  match find (fun p => String.eqb (fst p) name) (st_reg st) with Some p => Some (snd p) | None => None end.
(* Scale.byname(name) *)
Definition reg_scale (st : store) (name : string) : option scale :=
  match reg_of st name with Some oid => scale_of st oid | None => None end.

(* the definition the Key object in `slot` has NOW: its tonic and the present state of the Scale object it refers to *)
Definition key_of (st : store) (slot : nat) : option key :=
  match kobj_of st slot with
  | Some ko => match scale_of st (ko_scale ko) with
               | Some s => Some (mkKey (ko_tonic ko) s)
               | None => None
               end
  | None => None
  end.

(* the process right after `import isobar`: the library's scales, object i = the i-th entry of Scale.dict *)
Fixpoint enum_from {A} (i : nat) (l : list A) : list (nat * A) :=
  match l with [] => [] | x :: r => (i, x) :: enum_from (S i) r end.
Definition init_store : store :=
  let e := enum_from 0 builtin_scales in
  mkStore (map (fun p => (fst p, snd (snd p))) e) (map (fun p => (fst (snd p), fst p)) e) [].

(** * operations on held objects *)
Inductive hop :=
| HScale (oid : nat) (name : string) (s : scale)
    (* oid = Scale(semitones, name, octave_size): a NEW object; registered under `name` unless the name is taken *)
| HScaleCopy (oid src : nat)
    (* oid = a copy of the Scale object src (src.copy(), copy.copy(src), copy.deepcopy(src), Scale(list(src.semitones),
       ..., octave_size=src.octave_size)): a new object with the SAME semitones and the SAME octave size *)
| HKey (slot : nat) (t : Z) (oid : nat)          (* slot = Key(t, <the Scale object oid>) *)
| HKeyNamed (slot : nat) (t : Z) (name : string)
    (* slot = Key(t, name) / Key("<note> <name>") / Key(t, Scale.byname(name)) / an event's `key` string: the key
       refers to the object REGISTERED under the name *)
| HKeyCopy (slot src : nat)                      (* slot = copy.copy(src) / Key(src.tonic, src.scale): same Scale object *)
| HKeyDeep (slot src : nat) (oid : nat)          (* slot = copy.deepcopy(src): a new Scale object oid, same definition *)
| HTonic (slot : nat) (t : Z)                    (* slot.tonic = t *)
| HRescale (slot : nat) (oid : nat)              (* slot.scale = <the Scale object oid> *)
| HSemis (oid : nat) (l : list Z)
    (* oid.semitones = l, or the list re-ordered in place (Scale.shuffle() / Scale.change()): every key that refers
       to this object is re-tuned *)
| HOsize (oid : nat) (o : Z).                    (* oid.octave_size = o *)

Definition put_scale (st : store) (oid : nat) (s : scale) : store :=
  mkStore ((oid, s) :: st_scales st) (st_reg st) (st_keys st).
Definition put_key (st : store) (slot : nat) (ko : kobj) : store :=
  mkStore (st_scales st) (st_reg st) ((slot, ko) :: st_keys st).
Definition register (st : store) (name : string) (oid : nat) : store :=
  match reg_of st name with
  | Some _ => st                                                    (* "if name not in Scale.dict" *)
  | None => mkStore (st_scales st) (st_reg st ++ [(name, oid)]) (st_keys st)
  end.

(* an operation that names an object that does not exist leaves the store as it is (Python raises; the harness only
   generates well-formed histories and the theorems say which objects must exist) *)
Definition hstep (st : store) (o : hop) : store :=
  match o with
  | HScale oid name s => register (put_scale st oid s) name oid
  | HScaleCopy oid src => match scale_of st src with Some s => put_scale st oid s | None => st end
  | HKey slot t oid => put_key st slot (mkKO t oid)
  | HKeyNamed slot t name => match reg_of st name with Some oid => put_key st slot (mkKO t oid) | None => st end
  | HKeyCopy slot src => match kobj_of st src with Some ko => put_key st slot ko | None => st end
  | HKeyDeep slot src oid =>
      match kobj_of st src with
      | Some ko => match scale_of st (ko_scale ko) with
                   | Some s => put_key (put_scale st oid s) slot (mkKO (ko_tonic ko) oid)
                   | None => st
                   end
      | None => st
      end
  | HTonic slot t => match kobj_of st slot with Some ko => put_key st slot (mkKO t (ko_scale ko)) | None => st end
  | HRescale slot oid => match kobj_of st slot with Some ko => put_key st slot (mkKO (ko_tonic ko) oid) | None => st end
  | HSemis oid l => match scale_of st oid with Some s => put_scale st oid (mkScale l (osize s)) | None => st end
  | HOsize oid o => match scale_of st oid with Some s => put_scale st oid (mkScale (semis s) o) | None => st end
  end.
Definition hrun (st : store) (ops : list hop) : store := fold_left hstep ops st.

Definition no_key : key := mkKey 0 (mkScale [] 0).
Definition dk (st : store) (slot : nat) : key := match key_of st slot with Some k => k | None => no_key end.
Definition dscale (st : store) (oid : nat) : scale := match scale_of st oid with Some s => s | None => mkScale [] 0 end.

(** * tonal patterns that hold Key (or Scale) objects
   PFilterByKey / PNearestNoteInKey / PDegree keep a REFERENCE to what they were given; every __next__ evaluates
   `Pattern.value(self.key)` and asks the object it gets - as it is at that moment. *)
Inductive oref :=
| OKey (slot : nat)            (* a Key object *)
| OScale (oid : nat).          (* a Scale object (PDegree accepts scales): degrees count from 0, no tonic *)
Definition oref_key (st : store) (r : oref) : key :=
  match r with OKey slot => dk st slot | OScale oid => mkKey 0 (dscale st oid) end.
(* the KEY argument: one object for ever, or a finite pattern of objects (PSequence(objects, r) = objects * r) *)
Inductive kref := RConst (r : oref) | RSeq (rs : list oref).
(* the keys the pattern would see from now on if nothing were re-tuned any more *)
Definition ksrc_now (st : store) (kr : kref) : ksrc :=
  match kr with RConst r => KConst (oref_key st r) | RSeq rs => KSeq (map (oref_key st) rs) end.
Definition kref_pull (kr : kref) : option (oref * kref) :=
  match kr with
  | RConst r => Some (r, kr)
  | RSeq [] => None
  | RSeq (r :: rest) => Some (r, RSeq rest)
  end.
Definition kref_skip (g : nat) (kr : kref) : kref :=
  match kr with RConst r => kr | RSeq rs => RSeq (skipn g rs) end.

Inductive tfn := FFilter | FSnap | FDegree.
Definition tfn_step (f : tfn) : key -> option Z -> option Z :=
  match f with FFilter => filter_step | FSnap => snap_step | FDegree => degree_step end.

(* the pattern object: which class, what is left of the note (degree) pattern and of the key pattern *)
Record hpat := mkHP { hp_f : tfn; hp_mel : list (option Z); hp_keys : kref }.

(* one observed step: the definition the key had when it was asked, the note that went in, what came out *)
Definition hstep_obs := (key * option Z * option Z)%type.
Definition obs_out (o : hstep_obs) : option Z := snd o.

(* Pattern.nextn(n) in the store st: up to n values; pull the note, pull the key object, ask it NOW *)
Fixpoint hp_nextn (st : store) (n : nat) (p : hpat) : list hstep_obs * hpat :=
  match n with
  | O => ([], p)
  | S n' =>
      match hp_mel p with
      | [] => ([], p)
      | x :: mel' =>
          match kref_pull (hp_keys p) with
          | None => ([], p)
          | Some (r, keys') =>
              let k := oref_key st r in
              let '(obs, p') := hp_nextn st n' (mkHP (hp_f p) mel' keys') in
              ((k, x, tfn_step (hp_f p) k x) :: obs, p')
          end
      end
  end.

(** * a session: objects are created and re-tuned, patterns are created and asked for values, in any order *)
Inductive xop :=
| XMut (o : hop)
| XOpen (pid : nat) (p : hpat)             (* pid = PFilterByKey(PSequence(mel, 1), <key argument>) ... *)
| XNext (pid : nat) (n : nat).             (* pid.nextn(n) *)

Record sess := mkSess { ss_store : store; ss_pats : list (nat * hpat) }.
Definition pat_of (s : sess) (pid : nat) : option hpat := alookup (ss_pats s) pid.

(* the new state and what the operation returned (only nextn returns values) *)
Definition xstep (s : sess) (o : xop) : sess * list hstep_obs :=
  match o with
  | XMut m => (mkSess (hstep (ss_store s) m) (ss_pats s), [])
  | XOpen pid p => (mkSess (ss_store s) ((pid, p) :: ss_pats s), [])
  | XNext pid n =>
      match pat_of s pid with
      | Some p => let '(obs, p') := hp_nextn (ss_store s) n p in
                  (mkSess (ss_store s) ((pid, p') :: ss_pats s), obs)
      | None => (s, [])
      end
  end.
Definition sess0 : sess := mkSess init_store [].
Definition xrun (s : sess) (ops : list xop) : sess := fold_left (fun s o => fst (xstep s o)) ops s.
(* what operation number j (0-based) of the session returned *)
Definition xout (ops : list xop) (j : nat) : list hstep_obs :=
  match nth_error ops j with
  | Some o => snd (xstep (xrun sess0 (firstn j ops)) o)
  | None => []
  end.
(* the definition of the key in `slot` / of the scale object / of the scale registered under a name, at the moment
   the first j operations of the session have run *)
Definition xkey (ops : list xop) (j : nat) (slot : nat) : key := dk (ss_store (xrun sess0 (firstn j ops))) slot.
Definition xscale (ops : list xop) (j : nat) (oid : nat) : scale := dscale (ss_store (xrun sess0 (firstn j ops))) oid.
Definition xnamed (ops : list xop) (j : nat) (name : string) : scale :=
  match reg_scale (ss_store (xrun sess0 (firstn j ops))) name with Some s => s | None => mkScale [] 0 end.

(* the mutations among the first operations, in order: patterns being created or asked change no object *)
Definition xmuts (ops : list xop) : list hop :=
  flat_map (fun o => match o with XMut m => [m] | _ => [] end) ops.

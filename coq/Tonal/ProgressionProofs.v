(* Tonal/ProgressionProofs.v — lemmas about Tonal/Progression.v *)
From Isobar Require Import Base.Prelude Tonal.Key Tonal.KeyProofs Tonal.Progression.
Local Notation length := List.length (only parsing).

(** * output i of a tonal pattern is  f (key i) (note i): both streams advance by exactly one per step *)

Lemma ksrc_pull_nth s k s' : ksrc_pull s = Some (k, s') ->
  ksrc_nth s 0 = Some k /\ forall i, ksrc_nth s (S i) = ksrc_nth s' i.
Proof.
  destruct s as [k0|[|k0 r]]; simpl; intros E; inversion E; subst; split; try reflexivity; intros; reflexivity.
Qed.

Lemma ksrc_pull_none s : ksrc_pull s = None -> forall i, ksrc_nth s i = None.
Proof.
  destruct s as [k0|[|k0 r]]; simpl; intros E i; try discriminate. destruct i; reflexivity.
Qed.

Lemma tonal_nextn_nth f : forall n mel ks i,
  nth_error (tonal_nextn f n (mkT mel ks)) i =
  if (i <? n)%nat then
    match nth_error mel i, ksrc_nth ks i with
    | Some x, Some k => Some (f k x)
    | _, _ => None
    end
  else None.
Proof.
  induction n as [|n IH]; intros mel ks i.
  - simpl. destruct i; reflexivity.
  - cbn [tonal_nextn]. unfold tonal_next. cbn [t_mel t_keys].
    destruct mel as [|x mel'].
    + destruct i; cbn [nth_error]; destruct (Nat.ltb _ _); reflexivity.
    + destruct (ksrc_pull ks) as [[k ks']|] eqn:E.
      * destruct (ksrc_pull_nth _ _ _ E) as [H0 HS].
        destruct i as [|i].
        -- simpl. rewrite H0. reflexivity.
        -- cbn [nth_error]. rewrite IH. rewrite HS.
           replace (S i <? S n)%nat with (i <? n)%nat by (destruct (i <? n)%nat eqn:A; lia).
           reflexivity.
      * pose proof (ksrc_pull_none _ E) as HN.
        destruct i as [|i]; cbn [nth_error].
        -- rewrite HN. destruct (Nat.ltb _ _); reflexivity.
        -- rewrite HN. destruct (nth_error mel' i); destruct (Nat.ltb _ _); reflexivity.
Qed.

(* an output exists at step i exactly when i < n and both streams reach that far *)
Lemma tonal_nextn_some f n mel ks i y :
  nth_error (tonal_nextn f n (mkT mel ks)) i = Some y <->
  (i < n)%nat /\ exists x k, nth_error mel i = Some x /\ ksrc_nth ks i = Some k /\ y = f k x.
Proof.
  rewrite tonal_nextn_nth. destruct (i <? n)%nat eqn:L.
  - destruct (nth_error mel i) as [x|]; [destruct (ksrc_nth ks i) as [k|]|].
    + split.
      * intros E; inversion E; subst. split; [lia|]. exists x, k. repeat split.
      * intros [_ [x' [k' [A [B C]]]]]. inversion A; inversion B; subst. reflexivity.
    + split; [discriminate|]. intros [_ [x' [k' [A [B C]]]]]. discriminate.
    + split; [discriminate|]. intros [_ [x' [k' [A [B C]]]]]. discriminate.
  - split; [discriminate|]. intros [H _]. lia.
Qed.

Lemma tonal_nextn_length f n mel ks :
  (length (tonal_nextn f n (mkT mel ks)) <= n)%nat /\ (length (tonal_nextn f n (mkT mel ks)) <= length mel)%nat.
Proof.
  revert mel ks. induction n as [|n IH]; intros mel ks; [simpl; lia|].
  cbn [tonal_nextn]. unfold tonal_next. cbn [t_mel t_keys].
  destruct mel as [|x mel']; [simpl; lia|].
  destruct (ksrc_pull ks) as [[k ks']|]; [|simpl; lia].
  specialize (IH mel' ks'). simpl. lia.
Qed.

(** * the three step functions *)

Lemma filter_step_some k x y : filter_step k x = Some y -> x = Some y /\ key_contains k y = true.
Proof.
  destruct x as [v|]; simpl; [|discriminate].
  destruct (key_contains k v) eqn:E; [|discriminate]. intros H; inversion H; subst. split; [reflexivity|exact E].
Qed.

Lemma filter_step_in_key k v : key_contains k v = true -> filter_step k (Some v) = Some v.
Proof. intros H. simpl. rewrite H. reflexivity. Qed.

Lemma filter_step_out_of_key k v : key_contains k v = false -> filter_step k (Some v) = None.
Proof. intros H. simpl. rewrite H. reflexivity. Qed.

Lemma steps_rest k : filter_step k None = None /\ snap_step k None = None /\ degree_step k None = None.
Proof. repeat split. Qed.

(** * several keys in one process: an operation on another slot changes nothing *)

Lemma session_key_from_app cur a b slot :
  session_key_from cur (a ++ b) slot = session_key_from (session_key_from cur a slot) b slot.
Proof. revert cur. induction a as [|o r IH]; intros cur; simpl; [reflexivity|]. apply IH. Qed.

Lemma session_key_other ops o slot : sop_slot o <> slot ->
  session_key (ops ++ [o]) slot = session_key ops slot.
Proof.
  intros H. unfold session_key. rewrite session_key_from_app. simpl.
  destruct (Nat.eqb (sop_slot o) slot) eqn:E; [apply Nat.eqb_eq in E; contradiction|reflexivity].
Qed.

Lemma session_key_frame ops more slot : Forall (fun o => sop_slot o <> slot) more ->
  session_key (ops ++ more) slot = session_key ops slot.
Proof.
  intros H. unfold session_key. rewrite session_key_from_app.
  generalize (session_key_from None ops slot) as cur.
  induction H as [|o r Ho Hr IH]; intros cur; simpl; [reflexivity|].
  destruct (Nat.eqb (sop_slot o) slot) eqn:E; [apply Nat.eqb_eq in E; contradiction|apply IH].
Qed.

Lemma session_key_build ops slot k : session_key (ops ++ [SBuild slot k]) slot = Some k.
Proof. unfold session_key. rewrite session_key_from_app. simpl. rewrite Nat.eqb_refl. reflexivity. Qed.

Lemma session_key_retune ops slot t k : session_key ops slot = Some k ->
  session_key (ops ++ [SRetune slot t]) slot = Some (mkKey t (kscale k)).
Proof.
  unfold session_key. intros H. rewrite session_key_from_app. simpl. rewrite Nat.eqb_refl, H. reflexivity.
Qed.

Lemma session_key_rescale ops slot s k : session_key ops slot = Some k ->
  session_key (ops ++ [SRescale slot s]) slot = Some (mkKey (tonic k) s).
Proof.
  unfold session_key. intros H. rewrite session_key_from_app. simpl. rewrite Nat.eqb_refl, H. reflexivity.
Qed.
